(* C09 runner: reads the lines of rust/harness/src/bin/c09.rs
     <kind>|<escaped text> \t <class> \t <errors> \t <token forest> \t <extras>
   and, for every case whose meta-parse succeeded (forest given), recomputes with the extracted model
     - shape_ok text forest          (the SHAPE invariant of grammar.pest on the real token forest: must be true)
     - frontend flags builtins fuel text forest   -> outcome class and error list (kind, location)
     - docs_consume forest
   MISMATCH kinds:
     model  impl vs model of the code (class, error multiset, docs); `shape` when the real forest violates the invariant
     spec   a CONTRACT line of the harness (panic / timeout / crash / unlocated error / rendering panics)
   Slow / killed cases of the kinds `lad` and `esc-*` (families that may touch the registered class C09-validator-exponential): the model
   of the unmodified front end runs on the same forest under a time guard; its verdict (validator steps, time) is appended to the
   observation, `outside C09-validator-exponential` when the unmodified algorithm is cheap on the text.
   usage: c09_runner <flags: 8 chars 0/1 = escape peek choice unroll extras lr tag insens> [lrskip]
   `lrskip`: left-recursion errors are not compared (the implementation's check_expr is being repaired elsewhere: C06). *)
open Front_model
open Runner_common
type string = String.t
type char = Char.t

let rec nat_of_int i = if i <= 0 then O else S (nat_of_int (i - 1))
let rec n2i = function O -> 0 | S n -> 1 + n2i n
let rec pos_of_int i = if i = 1 then XH else if i land 1 = 0 then XO (pos_of_int (i lsr 1)) else XI (pos_of_int (i lsr 1))
let n_of_int i = if i = 0 then N0 else Npos (pos_of_int i)

let decode (s : string) : int list =
  let n = String.length s in
  let rec go i acc =
    if i >= n then List.rev acc else
    let c = Char.code s.[i] in
    let b k = if i + k < n then Char.code s.[i + k] land 0x3f else 0 in
    if c < 0x80 then go (i + 1) (c :: acc)
    else if c < 0xe0 then go (i + 2) ((((c land 0x1f) lsl 6) lor b 1) :: acc)
    else if c < 0xf0 then go (i + 3) ((((c land 0x0f) lsl 12) lor (b 1 lsl 6) lor b 2) :: acc)
    else go (i + 4) ((((c land 0x07) lsl 18) lor (b 1 lsl 12) lor (b 2 lsl 6) lor b 3) :: acc) in
  go 0 []
let to_str (s : string) : str = List.map n_of_int (decode s)

let unesc (s : string) : string =
  let b = Buffer.create (String.length s) in
  let n = String.length s in
  let rec go i =
    if i < n then
      if s.[i] = '\\' && i + 1 < n then begin
        (match s.[i + 1] with 'n' -> Buffer.add_char b '\n' | 'r' -> Buffer.add_char b '\r' | 't' -> Buffer.add_char b '\t'
                             | '\\' -> Buffer.add_char b '\\' | c -> Buffer.add_char b '\\'; Buffer.add_char b c);
        go (i + 2) end
      else (Buffer.add_char b s.[i]; go (i + 1)) in
  go 0; Buffer.contents b

let rule_of_name = function
  | "EOI" -> R_EOI | "grammar_rule" -> R_grammar_rule | "assignment_operator" -> R_assignment_operator
  | "opening_brace" -> R_opening_brace | "closing_brace" -> R_closing_brace | "opening_paren" -> R_opening_paren
  | "closing_paren" -> R_closing_paren | "opening_brack" -> R_opening_brack | "closing_brack" -> R_closing_brack
  | "silent_modifier" -> R_silent_modifier | "atomic_modifier" -> R_atomic_modifier
  | "compound_atomic_modifier" -> R_compound_atomic_modifier | "non_atomic_modifier" -> R_non_atomic_modifier
  | "tag_id" -> R_tag_id | "expression" -> R_expression | "term" -> R_term
  | "positive_predicate_operator" -> R_positive_predicate_operator | "negative_predicate_operator" -> R_negative_predicate_operator
  | "sequence_operator" -> R_sequence_operator | "choice_operator" -> R_choice_operator | "optional_operator" -> R_optional_operator
  | "repeat_operator" -> R_repeat_operator | "repeat_once_operator" -> R_repeat_once_operator | "repeat_exact" -> R_repeat_exact
  | "repeat_min" -> R_repeat_min | "repeat_max" -> R_repeat_max | "repeat_min_max" -> R_repeat_min_max | "number" -> R_number
  | "integer" -> R_integer | "comma" -> R_comma | "_push" -> R_push | "_push_literal" -> R_push_literal | "peek_slice" -> R_peek_slice
  | "identifier" -> R_identifier | "string" -> R_string | "insensitive_string" -> R_insensitive_string | "range" -> R_range
  | "character" -> R_character | "inner_str" -> R_inner_str | "inner_chr" -> R_inner_chr | "quote" -> R_quote
  | "single_quote" -> R_single_quote | "range_operator" -> R_range_operator | "grammar_doc" -> R_grammar_doc
  | "line_doc" -> R_line_doc | "inner_doc" -> R_inner_doc | _ -> R_other

(* forest ::= ( name '(' int ',' int ')' '[' forest ']' )*  ; offsets are converted to unary nats through a memo table *)
let nat_memo : (int, nat) Hashtbl.t = Hashtbl.create 4096
let nat_of_off (i : int) : nat =
  match Hashtbl.find_opt nat_memo i with Some n -> n | None -> let n = nat_of_int i in Hashtbl.replace nat_memo i n; n
let parse_forest (s : string) : tok list =
  let n = String.length s in
  let pos = ref 0 in
  let rec forest () : tok list =
    if !pos >= n || s.[!pos] = ']' then [] else begin
      let st = !pos in
      while !pos < n && s.[!pos] <> '(' do incr pos done;
      let name = String.sub s st (!pos - st) in
      incr pos;
      let a = !pos in while s.[!pos] <> ',' do incr pos done;
      let sa = int_of_string (String.sub s a (!pos - a)) in incr pos;
      let b = !pos in while s.[!pos] <> ')' do incr pos done;
      let sb = int_of_string (String.sub s b (!pos - b)) in incr pos;
      incr pos; (* [ *)
      let kids = forest () in
      incr pos; (* ] *)
      let t = Tok (rule_of_name name, nat_of_off sa, nat_of_off sb, kids) in
      t :: forest () end in
  if s = "()" then [] else forest ()

let kind_name = function
  | KKeyword -> "keyword" | KAlreadyDefined -> "already-defined" | KUndefined -> "undefined" | KOverflowU32 -> "overflow-u32"
  | KRepeatZero -> "repeat-zero" | KPushLiteralFeature -> "push-literal-feature" | KBadEscape -> "bad-escape" | KOverflowI32 -> "overflow-i32"
  | KRepNonFailing -> "rep-non-failing" | KRepNonProgressing -> "rep-non-progressing" | KChoiceUnreachable -> "choice-unreachable"
  | KWsNonFailing -> "ws-non-failing" | KWsNonProgressing -> "ws-non-progressing" | KLeftRecursion -> "left-recursion"
  | KTagSilent -> "tag-silent" | KTagBuiltin -> "tag-builtin"
let has_prefix p s = String.length s >= String.length p && String.sub s 0 (String.length p) = p
let has_suffix p s = String.length s >= String.length p && String.sub s (String.length s - String.length p) (String.length p) = p
let contains sub s = try ignore (Str.search_forward (Str.regexp_string sub) s 0); true with Not_found -> false
let kind_of_message (m : string) : string =
  if has_suffix " is a pest keyword" m then "keyword"
  else if has_suffix " already defined" m then "already-defined"
  else if has_suffix " is undefined" m then "undefined"
  else if m = "number cannot overflow u32" then "overflow-u32"
  else if m = "number cannot overflow i32" then "overflow-i32"
  else if m = "cannot repeat 0 times" then "repeat-zero"
  else if m = "PUSH_LITERAL requires feature grammar-extras" then "push-literal-feature"
  else if has_prefix "incorrect " m && contains " literal" m then "bad-escape"
  else if has_prefix "expression inside repetition cannot fail" m then "rep-non-failing"
  else if has_prefix "expression inside repetition is non-progressing" m then "rep-non-progressing"
  else if has_prefix "expression cannot fail; following choices" m then "choice-unreachable"
  else if has_suffix " cannot fail and will repeat infinitely" m then "ws-non-failing"
  else if has_suffix " is non-progressing and will repeat infinitely" m then "ws-non-progressing"
  else if contains " is left-recursive " m then "left-recursion"
  else if has_prefix "tags on silent rules" m then "tag-silent"
  else if has_prefix "tags on built-in rules" m then "tag-builtin"
  else "?" ^ m
let loc_s = function LPos p -> Printf.sprintf "P%d" (n2i p) | LSpan (a, b) -> Printf.sprintf "S%d-%d" (n2i a) (n2i b)

let flags_of (s : string) : flags =
  let b i = String.length s > i && s.[i] = '1' in
  { extras = b 4; fix_escape = b 0; fix_peek = b 1; fix_choice = b 2; fix_unroll = b 3; fix_lr = b 5; fix_tag = b 6; fix_insens = b 7 }

let builtins : str list ref = ref []
let cases = ref 0 and modelled = ref 0 and parse_failed = ref 0 and skipped_long = ref 0 and shape_checked = ref 0
let max_model_len = 60000
let slowest = ref 0.0 and slowest_case = ref ""

(* ---- membership in the registered exponential class, decided by the model of the unmodified algorithm *)
exception Model_guard
let with_guard (secs : float) (f : unit -> 'a) : 'a option =
  let old = Sys.signal Sys.sigalrm (Sys.Signal_handle (fun _ -> raise Model_guard)) in
  let stop () = ignore (Unix.setitimer Unix.ITIMER_REAL { Unix.it_interval = 0.0; Unix.it_value = 0.0 }); Sys.set_signal Sys.sigalrm old in
  ignore (Unix.setitimer Unix.ITIMER_REAL { Unix.it_interval = 0.0; Unix.it_value = secs });
  match f () with
  | r -> stop (); Some r
  | exception Model_guard -> stop (); None
  | exception Stack_overflow -> stop (); None
  | exception Out_of_memory -> stop (); None
let rec nat_upto (n : nat) (cap : int) : int = let rec go n acc = if acc >= cap then acc else match n with O -> acc | S m -> go m (acc + 1) in go n 0
let judged_by_model kind = has_prefix "lad" kind || has_prefix "esc-" kind
let is_time_problem msg = has_prefix "took " msg || has_prefix "no answer" msg || has_prefix "worker process died" msg
let outside_marker = "outside C09-validator-exponential"
let cheap_steps = 100000          (* validator steps of the model below which a text is cheap for the unmodified algorithm *)
let cheap_model_s = 0.5           (* ... and the whole model (reader, validator, optimizer passes) answers within this time *)
let model_guard_s = 0.8
let verdicts : (string, string) Hashtbl.t = Hashtbl.create 64
let judged_outside = ref 0 and judged_known = ref 0 and model_unfinished = ref 0
let ladder_guard_s = 2.0

let () =
  let fl = flags_of (if Array.length Sys.argv > 1 then Sys.argv.(1) else "00000000") in
  let lrskip = Array.length Sys.argv > 2 && Sys.argv.(2) = "lrskip" in
  let keep_lr (k, _) = not (lrskip && k = "left-recursion") in
  read_lines (fun line ->
    if has_prefix "#BUILTINS\t" line then
      builtins := List.map to_str (String.split_on_char ',' (String.sub line 10 (String.length line - 10)))
    else if String.length line > 0 && line.[0] = '#' then print_endline line
    else match split_tab line with
    | ["CONTRACT"; case; msg] ->
      (* for the judged kinds the case line (read before its CONTRACT lines) left the verdict of the model on a slow text *)
      let v = if is_time_problem msg then (try Hashtbl.find verdicts case with Not_found -> "") else "" in
      report "spec" case (msg ^ v) "never panics or aborts, bounded time, every error located and renderable"
    | [case; cls; errs; forest; extras] ->
      incr cases;
      if forest = "-" then incr parse_failed
      else begin
        let text_s = unesc (match String.index_opt case '|' with Some i -> String.sub case (i + 1) (String.length case - i - 1) | None -> case) in
        let kind = (match String.index_opt case '|' with Some i -> String.sub case 0 i | None -> "") in
        let expo_n = if has_prefix "expo-" kind then (try int_of_string (List.nth (String.split_on_char '-' kind) 2) with _ -> 99) else 0 in
        if judged_by_model kind && (cls = "TIMEOUT" || cls = "CRASH") then begin
          (* the real front end was slow / did not answer on a text of a family that may belong to the registered exponential class:
             the model of the UNMODIFIED algorithm says how much work the text is (guarded: it is exponential where the code is) *)
          let t0 = Unix.gettimeofday () in
          let verdict = with_guard model_guard_s (fun () ->
            let text = to_str text_s in
            let f = parse_forest forest in
            let fuel = default_fuel text f in
            let steps = (match consume_rules_with_spans fl text fuel f with
                         | ODone rules -> (match validate_steps rules fuel fl.fix_lr fl.fix_tag !builtins fl.extras with Some st -> nat_upto st (cheap_steps + 1) | None -> 0)
                         | _ -> 0) in
            let m = frontend fl !builtins fuel text f in
            let mcls = (match m with FRules _ -> "rules" | FErrors _ -> "errors" | FPanic -> "PANIC" | FFuel -> "FUEL") in
            (steps, mcls)) in
          let dt = Unix.gettimeofday () -. t0 in
          (match verdict with
           | Some (steps, mcls) when steps <= cheap_steps && dt <= cheap_model_s && (mcls = "rules" || mcls = "errors") ->
             incr judged_outside;
             Hashtbl.replace verdicts case (Printf.sprintf " [model of the unmodified front end: %d validator steps, answer `%s` after %.0f ms: %s]" steps mcls (dt *. 1000.) outside_marker)
           | Some (steps, mcls) ->
             incr judged_known;
             Hashtbl.replace verdicts case (Printf.sprintf " [model of the unmodified front end: %s validator steps, `%s` after %.0f ms: may belong to C09-validator-exponential]"
                                              (if steps > cheap_steps then Printf.sprintf "> %d" cheap_steps else string_of_int steps) mcls (dt *. 1000.))
           | None ->
             incr judged_known;
             Hashtbl.replace verdicts case (Printf.sprintf " [model of the unmodified front end: no answer within %.1f s: may belong to C09-validator-exponential]" model_guard_s))
        end
        else if String.length text_s > max_model_len || expo_n > 14 then incr skipped_long
        else begin
          incr modelled;
          (* a ladder just below the time limit of the property costs the model (unary numbers) minutes: its comparison is given up
             after a few seconds and counted *)
          let impl_ms = (try Scanf.sscanf extras "ms=%d" (fun x -> x) with _ -> 0) in
          let guarded body =
            if not (has_prefix "lad" kind) then body ()
            else if impl_ms > 150 then incr model_unfinished     (* the model is two orders of magnitude slower than the code *)
            else (match with_guard ladder_guard_s body with Some () -> () | None -> incr model_unfinished) in
          guarded (fun () ->
          let t0 = Unix.gettimeofday () in
          let text = to_str text_s in
          let f = parse_forest forest in
          incr shape_checked;
          if not (shape_ok text f) then report "model" case "shape|the token forest of the real meta-parser violates the shape invariant of grammar.pest" "shape_ok = true";
          let fuel = default_fuel text f in
          (* the step count of the model's validator on the exponential families (Coq: validator_steps_exponential) *)
          if has_prefix "expo-seq-" kind then begin
            match consume_rules_with_spans fl text fuel f with
            | ODone rules -> (match validate_steps rules fuel fl.fix_lr fl.fix_tag !builtins fl.extras with
                              | Some st -> Printf.printf "#MODELSTEPS\tn=%d\tsteps=%d\n" expo_n (n2i st) | None -> ())
            | _ -> () end;
          let m = frontend fl !builtins fuel text f in
          let mcls, merrs = match m with
            | FRules _ -> "rules", [] | FErrors l -> "errors", List.map (fun (k, l) -> (kind_name k, loc_s l)) l
            | FPanic -> "PANIC", [] | FFuel -> "FUEL", [] in
          let ierrs = if errs = "" then [] else List.map (fun e ->
              match String.split_on_char '~' e with
              | [l; "custom"; m] -> (kind_of_message (unesc m), l)
              | [l; v; _] -> (v, l) | _ -> ("?", e)) (String.split_on_char '|' errs) in
          let canon l = String.concat " " (List.sort compare (List.map (fun (k, l) -> k ^ "@" ^ l) (List.filter keep_lr l))) in
          if cls = "TIMEOUT" || cls = "CRASH" then ()    (* reported through CONTRACT; nothing to compare *)
          else if cls <> mcls then begin
            (* a grammar whose only errors are left-recursion errors changes class when those are not compared *)
            let only_lr l = l <> [] && List.for_all (fun (k, _) -> k = "left-recursion") l in
            if not (lrskip && (only_lr ierrs || only_lr merrs)) then
              report "model" case ("class|" ^ cls ^ " " ^ canon ierrs) (mcls ^ " " ^ canon merrs) end
          else if canon ierrs <> canon merrs && not (lrskip && (List.exists (fun (k, _) -> k = "left-recursion") ierrs || List.exists (fun (k, _) -> k = "left-recursion") merrs) && false) then
            report "model" case ("errors|" ^ canon ierrs) (canon merrs);
          let idocs = try List.assoc "docs" (List.filter_map (fun kv -> match String.index_opt kv '=' with
              | Some i -> Some (String.sub kv 0 i, String.sub kv (i + 1) (String.length kv - i - 1)) | None -> None) (String.split_on_char ';' extras)) with Not_found -> "-" in
          let mdocs = if docs_consume f then "ok" else "PANIC" in
          if idocs <> "-" && idocs <> mdocs then report "model" case ("docs|" ^ idocs) mdocs;
          let dt = Unix.gettimeofday () -. t0 in
          if dt > !slowest then (slowest := dt; slowest_case := String.sub case 0 (min 100 (String.length case)));
          if dt > 3.0 && Sys.getenv_opt "C09_SLOW" <> None then prerr_endline (Printf.sprintf "slow %.1fs len=%d %s" dt (String.length text_s) (String.sub case 0 (min 300 (String.length case)))))
        end
      end
    | _ -> ());
  Printf.printf "#JUDGED\tslow_judged_outside_known_class=%d\tslow_left_to_known_class=%d\tladder_model_unfinished=%d\n" !judged_outside !judged_known !model_unfinished;
  Printf.printf "#MODELSLOWEST\t%.2fs\t%s\n" !slowest !slowest_case;
  Printf.printf "#RUNNER\tcases=%d\tmismatches=%d\tmodelled=%d\tparse_failed=%d\tskipped_long=%d\tshape_checked=%d\n"
    !cases !mismatches !modelled !parse_failed !skipped_long !shape_checked
