(* C14 runner.  Reads the lines of rust/harness/src/bin/c14.rs.
     T / F lines: the checked-in meta/src/grammar.rs / the freshly generated parser, read back into
                  Layer-C programs, compared STRUCTURALLY with gen_rule of the optimized meta-grammar
                  (extracted coq/Gen/GenCompile.v)                                   -> kind "model"
     X line     : the AST the independent translator (tools/pest2v.py) read from grammar.pest, to be
                  equal to the AST pest_meta read (A line)                           -> kind "model"
     E lines    : a public entry of the checked-in parser vs the generated parser it wraps / vs pest_vm,
                  printed only when they differ                                      -> kind "spec"
     D lines    : checked-in parser vs pest_vm on parse_and_optimize(grammar.pest) [vs compiled freshly
                  generated parsers, one further column each]                        -> kind "spec"
                  checked-in parser vs exec over gen_env of the optimized meta-grammar -> kind "model"
     P / L lines: a case under a setting of pest's process-wide switches (error detail on; call limits): checked-in parser
                  vs pest_vm [vs compiled freshly generated parsers]; see rust/harness/src/c14_switches.rs -> kind "spec"
     S lines    : a call of a public entry changed pest's process-wide settings (call limit, error detail): oracle on the
                  implementation alone, printed by the harness only when it happens   -> kind "settings"
   argv.(1): texts longer than this many bytes are not run through the model (unary positions); -1: no model runs
             (the targeted search, the large texts, the build with grammar-extras: the oracle is the real code only).
   argv.(2): appended to every case (which build of the crates the lines come from, e.g. " feat=extras"). *)
open Runner_common
open Gen_model
open Gen_common
type string = Stdlib.String.t

let fuel = nat_of_int 40000
(* what the harness appended about the text a result refers to (after " ## ", only when checked-in parser and VM differ in it) is neither
   modelled nor observed by the compiled fresh parsers *)
let base s = let n = String.length s in
  let rec go i = if i + 4 > n then s else if String.sub s i 4 = " ## " then String.sub s 0 i else go (i + 1) in go 0
let norm s = if String.length s >= 5 && String.sub s 0 5 = "Panic" then "Panic" else s

(* parts of a budget observation `need=N below=`..` at=`..`` (rust/harness/src/c14_switches.rs) *)
let need_of s = try Scanf.sscanf s "need=%d " (fun n -> n) with _ -> -1
let after_at s = let n = String.length s in
  let rec go i = if i + 5 > n then s else if String.sub s i 5 = " at=`" then String.sub s i (n - i) else go (i + 1) in go 0

let () =
  let maxmodel = if Array.length Sys.argv > 1 then int_of_string Sys.argv.(1) else 200 in
  let tag = if Array.length Sys.argv > 2 && Sys.argv.(2) <> "" then " " ^ Sys.argv.(2) else "" in
  let leaks = ref 0 in
  let og : ogrammar ref = ref [] and osexp = ref "" and ast = ref "" in
  let names = ref [||] in
  let cases = ref 0 and modelled = ref 0 and tv = ref 0 and spec = ref 0 and fresh = ref 0 and limited = ref 0 and switched = ref 0 in
  read_lines (fun line ->
    if String.length line > 0 && line.[0] = '#' then print_endline line else
    match split_tab line with
    | ["A"; a] -> ast := a
    | ["X"; a] -> incr tv; if a <> !ast then report "model" "translation of grammar.pest (tools/pest2v.py) vs the AST pest_meta reads at=ast" !ast a
    | ["O"; _] -> ()
    | [("T" | "F") as k; x; orig; os; shown] ->
      incr tv;
      let before = !mismatches in
      (try check_tv x orig os shown with Failure m -> report "model" ("x=" ^ x ^ " og=" ^ os) ("runner failure: " ^ m) "");
      if !mismatches > before then Printf.printf "WHICH\t%s\n" (if k = "T" then "checked-in meta/src/grammar.rs" else "fresh derive_parser output")
    | "TE" :: x :: os :: msg :: rest ->
      incr tv; report "read" (Printf.sprintf "x=%s og=%s what=%s" x os (String.concat " " rest)) msg "a Rust file made of the shapes of generator.rs"
    | "STAGES" :: _ | "LEAKSEARCH" :: _ -> print_endline line
    | "S" :: entry :: rule :: inp :: before :: after :: _ ->
      (* own cap, so that these do not use up the report budget of the disagreements *)
      incr leaks; incr mismatches;
      if !leaks <= 6 then Printf.printf "MISMATCH\tsettings\t%s\t%s\t%s\n" (Printf.sprintf "r=%s in=%s entry=%s%s" rule inp entry tag) after before
    | ["GE"; msg] -> report "spec" "grammar.pest" msg "accepted by pest_meta"
    | ["G"; _; _; os; _] ->
      og := ogrammar_of os; osexp := os;
      names := Array.of_list (List.map (fun r -> string_of_bytes r.oname) !og);
      Printf.printf "#META\trules=%d\tin_H=%d\n" (List.length !og) (if in_H !og false then 1 else 0)
    | "E" :: entry :: rule :: inp :: x :: y :: who :: _ ->
      (* a public entry of the checked-in parser (pest_meta::parser::parse, parse_and_optimize) against the generated parser it wraps /
         against pest_vm: printed by the harness only when they differ *)
      let nrm s = if String.length s >= 5 && String.sub s 0 5 = "Panic" then "Panic" else s in
      if nrm x <> nrm y then begin incr spec; report "spec" (Printf.sprintf "r=%s in=%s against=%s entry=%s%s" rule inp who entry tag) x y end
    | "P" :: rule :: inp :: a :: b :: rest ->
      (* the case with pest::set_error_detail(true): forest, or error + parse attempts + rendered message, every leg by the same code *)
      incr switched;
      let a = norm a and b = norm b in
      let case = Printf.sprintf "r=%s in=%s" rule inp in
      if a <> b then begin incr spec; report "spec" (case ^ " against=vm switch=detail" ^ tag) a b end;
      List.iteri (fun i c -> incr fresh; let c = norm c in
        let who = (if i = 0 then " against=fresh" else " against=fresh-derive") ^ " switch=detail" ^ tag in
        if a <> c then begin incr spec; report "spec" (case ^ who) a c end) rest
    | "L" :: rule :: inp :: lim :: a :: b :: rest ->
      (* the case under call limits.  auto: column a = the budget of the checked-in parser (smallest limit it does not refuse, answers at
         and below it), to be EQUAL to the budget of every freshly generated parser (the same generated code); column b = pest_vm far
         from that budget, judged by the harness.  <n>: every leg under set_call_limit(n). *)
      incr switched;
      let a = norm a and b = norm b in
      let case = Printf.sprintf "r=%s in=%s" rule inp in
      if lim = "auto" then begin
        if not (String.length b >= 8 && String.sub b 0 8 = "vmfar=ok") then begin incr spec; report "spec" (case ^ " against=vm switch=limit:auto" ^ tag) a b end end
      else if a <> b then begin incr spec; report "spec" (case ^ " against=vm switch=limit:" ^ lim ^ tag) a b end;
      List.iteri (fun i c -> incr fresh; let c = norm c in
        let who = (if i = 0 then " against=fresh" else " against=fresh-derive") ^ " switch=limit:" ^ lim ^ tag in
        (* a build of the crates with another feature set (tag): its generator emits OTHER code than the checked-in grammar.rs (which is
           generated with the default features), so the budgets may differ: only the answers at the budgets, and budgets within a factor 8 *)
        let same = if tag = "" || lim <> "auto" then a = c else
          let na = need_of a and nc = need_of c in
          after_at a = after_at c && ((na < 0 && nc < 0) || (na >= 0 && nc >= 0 && nc <= 8 * na + 256 && na <= 8 * nc + 256)) in
        if not same then begin incr spec; report "spec" (case ^ who) a c end) rest
    | "D" :: rule :: inp :: a :: b :: rest ->
      incr cases;
      let a = norm a and b = norm b in
      let case = Printf.sprintf "r=%s in=%s" rule inp in
      if a <> b then begin incr spec; report "spec" (case ^ " against=vm" ^ tag) a b end;
      (* further columns: freshly generated parsers (1st: the token stream of the in-tree derive_parser compiled as source; 2nd: #[derive(Parser)]) *)
      List.iteri (fun i c -> incr fresh; let c = norm c in
        let who = (if i = 0 then " against=fresh" else " against=fresh-derive") ^ tag in
        let a = base a in
        if c = "Custom call limit reached" && a <> c then begin
          (* only the fresh parsers run under a call limit (rust/harness/src/c14_fresh_main.rs.in): not an ordinary disagreement *)
          incr limited; if !limited <= 20 then Printf.printf "LIMIT\t%s%s\t%s\n" case who a end
        else if a <> c then begin incr spec; report "spec" (case ^ who) a c end) rest;
      if String.length inp / 2 <= maxmodel then begin
        incr modelled;
        let input = unhex inp in
        let m = (try obs_of !names (run_state cfg (gen_env !og []) fuel (gen_start !og [] (bytes_of rule)) input None false) with Stack_overflow -> "Fuel") in
        if m <> "Fuel" && m <> base a then report "model" (case ^ " side=generated") a m
      end
    | _ -> ());
  Printf.printf "#RUNNER\tcases=%d\tmodelled=%d\ttv=%d\tmismatches=%d\tspec_differences=%d\tfresh_compared=%d\tfresh_limited=%d\tsettings_changed=%d\tswitch_cases=%d\n" !cases !modelled !tv !mismatches !spec !fresh !limited !leaks !switched
