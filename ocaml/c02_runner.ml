(* C02 runner.  Reads the lines of rust/harness/src/bin/c02.rs (tv / one) and of the behavioural
   batch program it generates.
     T  lines: the parser the REAL generator emitted, read back into Layer-C programs, is compared
               STRUCTURALLY with gen_rule / gen_skip / the built-in closures of the extracted model
               (coq/Gen/GenCompile.v)                                                  -> kind "model"
     case lines `<id> <rule> <input>\t<derive obs>\t<vm obs>`:
               derive vs VM directly (the property)                                    -> kind "spec"
               derive vs exec over gen_env, VM vs exec over vm_env (the two models)    -> kind "model"
   in_H (extracted) classifies every grammar; the share inside H is printed.                   *)
open Runner_common
open Gen_model
open Gen_common
type string = Stdlib.String.t

let utable : (byte list * (n * n) list) list ref = ref []
let limit = 3000
let fuel = nat_of_int 30000

let split_on_bar s = String.split_on_char '|' s
let kv s = match String.index_opt s '=' with Some i -> (String.sub s 0 i, String.sub s (i + 1) (String.length s - i - 1)) | None -> (s, "")

let why_name = function 0 -> "in-H" | 1 -> "C02-shadow-builtin" | 2 -> "C02-ws-nonatomic" | 3 -> "C02-node-tag" | _ -> "C02-dirty-atomic-rep"

let h_counts = Array.make 5 0
let classify extras og = let k = int_of_nat (why_not_H og extras) in h_counts.(min k 4) <- h_counts.(min k 4) + 1; k

(* ---- translation validation of one emitted parser ---- *)
let check_tv x orig osexp shown =
  let extras = x = "1" in
  let og = ogrammar_of osexp in
  let u = !utable in
  let case = Printf.sprintf "x=%s og=%s" x osexp in
  let names = List.map (fun r -> string_of_bytes r.oname) og in
  let n = List.length og in
  let called = idents_of_grammar orig in
  let defaults = List.filter (fun c -> not (List.mem c names)) called in
  let uses_eoi = List.mem "EOI" defaults in
  let env = gen_env og u in
  let closure k = match env (nat_of_int k) with Some p -> show_prog p | None -> "<no closure>" in
  let unames = List.map (fun (nmb, _) -> string_of_bytes nmb) u in
  let parts = List.map kv (split_on_bar shown) in
  let get k = try List.assoc k parts with Not_found -> "<missing>" in
  let bad = ref false in
  let cmp what impl expected = if impl <> expected && not !bad then begin bad := true; report "model" (case ^ " at=" ^ what) impl expected end in
  cmp "enum" (get "enum") (String.concat "," ((if uses_eoi then ["EOI"] else []) @ names));
  cmp "all_rules" (get "all") (String.concat "," names);
  cmp "hidden::skip" (get "skip") (show_prog (gen_skip og));
  let fns = List.filter_map (fun (k, v) -> if String.length k > 3 && String.sub k 0 3 = "fn:" then Some (String.sub k 3 (String.length k - 3), v) else None) parts in
  let rec firstn k l = if k = 0 then [] else match l with [] -> [] | x :: r -> x :: firstn (k - 1) r in
  let rec dropn k l = if k = 0 then l else match l with [] -> [] | _ :: r -> dropn (k - 1) r in
  let user = firstn n fns and builtin = dropn n fns in
  cmp "rule functions" (String.concat "," (List.map fst user)) (String.concat "," names);
  List.iteri (fun k (nm, body) -> cmp ("fn " ^ nm) body (closure k)) user;
  cmp "built-in functions" (String.concat "," (List.sort compare (List.map fst builtin))) (String.concat "," (List.sort compare defaults));
  List.iter (fun (nm, body) ->
    let k = match index_of nm fixed_names with Some i -> n + 3 + i | None -> (match index_of nm unames with Some j -> n + 22 + j | None -> -1) in
    cmp ("built-in " ^ nm) body (if k < 0 then "<not a built-in of the model>" else closure k)) builtin;
  cmp "start" (get "start") (String.concat "," (List.map (fun r -> r ^ ">" ^ r) (names @ (if uses_eoi then ["EOI"] else []))));
  ignore (classify extras og)

(* ---- behaviour ---- *)
let norm s = if String.length s >= 5 && String.sub s 0 5 = "Panic" then "Panic" else s
let () =
  let gs : (string, bool * string * string * ogrammar * int) Hashtbl.t = Hashtbl.create 64 in
  let per_grammar : (string, int) Hashtbl.t = Hashtbl.create 64 in
  let tv = ref 0 and unread = ref 0 and cases = ref 0 and limited = ref 0 and spec_in_h = ref 0 and spec_known = ref 0 and grammars = ref 0 in
  let known_by_class : (string, int) Hashtbl.t = Hashtbl.create 8 in
  read_lines (fun line ->
    if String.length line > 0 && line.[0] = '#' then print_endline line else
    match split_tab line with
    | ["U"; name; rs] ->
      let nums = List.filter (fun x -> x <> "") (String.split_on_char ' ' rs) in
      let rec pairs = function a :: b :: r -> (n_of_int (ios a), n_of_int (ios b)) :: pairs r | _ -> [] in
      utable := !utable @ [(bytes_of name, pairs nums)]
    | ["T"; x; orig; osexp; shown] -> incr tv; (try check_tv x orig osexp shown with Failure m -> report "model" ("x=" ^ x ^ " og=" ^ osexp) ("runner failure: " ^ m) "")
    | "TE" :: x :: osexp :: msg :: rest ->
      incr tv; incr unread;
      report "read" (Printf.sprintf "x=%s og=%s g=%s" x osexp (String.concat " " rest)) msg "a Rust file made of the shapes of generator.rs"
    | ["G"; id; x; osexp; text] ->
      let og = ogrammar_of osexp in
      incr grammars;
      Hashtbl.replace gs id (x = "1", osexp, text, og, classify (x = "1") og)
    | "R" :: _ -> ()
    | [case; d; v] ->
      (match String.split_on_char ' ' case with
       | [id; rule; inp] ->
         incr cases;
         let (extras, osexp, text, og, why) = Hashtbl.find gs id in
         let full = Printf.sprintf "H=%s x=%d r=%s in=%s g=%s og=%s" (why_name why) (if extras then 1 else 0) rule inp text osexp in
         let d = norm d and v = norm v in
         if d = "Limit" || v = "Limit" then incr limited
         else begin
           let names = Array.of_list (List.map (fun r -> string_of_bytes r.oname) og) in
           let input = unhex inp in
           let run env start =
             (try
                let r = run_state cfg env fuel start input (Some (nat_of_int limit)) false in
                (* a run that ever touched the call limit is not comparable: the two back-ends count different calls *)
                match r with
                | ROk s | RErr s when limit_reached s -> "Limit"
                | _ -> obs_of names r
              with Stack_overflow -> "Fuel") in
           let u = !utable in
           let mg = run (gen_env og u) (gen_start og u (bytes_of rule)) in
           let mv = run (vm_env og (ulookup u)) (vm_start og (ulookup u) (bytes_of rule)) in
           if mg <> "Fuel" && mg <> "Limit" && mg <> d then report "model" (full ^ " side=generated") d mg;
           if mv <> "Fuel" && mv <> "Limit" && mv <> v then report "model" (full ^ " side=vm") v mv;
           if mg = "Limit" || mv = "Limit" then incr limited
           else if d <> v then begin
             let seen = (try Hashtbl.find per_grammar id with Not_found -> 0) in
             Hashtbl.replace per_grammar id (seen + 1);
             if why = 0 then begin incr spec_in_h; if seen < 2 then report "spec" full d v end
             else begin
               incr spec_known;
               let c = why_name why in
               let k = (try Hashtbl.find known_by_class c with Not_found -> 0) in
               Hashtbl.replace known_by_class c (k + 1);
               if k < 2 then Printf.printf "KNOWN\t%s\t%s\t%s\t%s\n" c full d v
             end
           end
         end
       | _ -> ())
    | _ -> ());
  let tot = Array.fold_left (+) 0 h_counts in
  Printf.printf "#H\tgrammars=%d\tin_H=%d\tshadow_builtin=%d\tws_nonatomic=%d\tnode_tag=%d\tdirty_atomic_rep=%d\n" tot h_counts.(0) h_counts.(1) h_counts.(2) h_counts.(3) h_counts.(4);
  Hashtbl.iter (fun c k -> Printf.printf "#KNOWNCLASS\t%s=%d\n" c k) known_by_class;
  Printf.printf "#RUNNER\tcases=%d\ttv=%d\tunread=%d\tmismatches=%d\tlimited=%d\tspec_in_H=%d\tspec_known=%d\tbatch_grammars=%d\n"
    !cases !tv !unread !mismatches !limited !spec_in_h !spec_known !grammars
