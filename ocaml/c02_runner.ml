(* C02 runner.  Reads the lines of rust/harness/src/bin/c02.rs (tv / one) and of the behavioural
   batch program it generates.
     T  lines: the parser the REAL generator emitted, read back into Layer-C programs, is compared
               STRUCTURALLY with gen_rule / gen_skip / the built-in closures of the extracted model
               (coq/Gen/GenCompile.v)                                                  -> kind "model"
     case lines `<id> <rule> <input>[ L]\t<derive obs>\t<vm obs>` (L: the VM was built with Vm::new_with_listener):
               derive vs VM directly (the property)                                    -> kind "spec"
               derive vs exec over gen_env, VM vs exec over vm_env (the two models)    -> kind "model"
   in_H (extracted) classifies every grammar; the share inside H is printed.                   *)
open Runner_common
open Gen_model
open Gen_common
type string = Stdlib.String.t

let limit = 3000
let fuel = nat_of_int 30000

(* ---- behaviour ---- *)
let norm s = if String.length s >= 5 && String.sub s 0 5 = "Panic" then "Panic" else s
(* an observation with the node labels erased (`name#tag(..)` -> `name(..)`): the known class C02-node-tag is about WHICH node gets the
   label; rules, spans and errors must agree there as everywhere else *)
let erase_tags (s : string) : string =
  let b = Buffer.create (String.length s) in
  let skipping = ref false in
  String.iter (fun c -> if !skipping then (if c = '(' then (skipping := false; Buffer.add_char b c)) else if c = '#' then skipping := true else Buffer.add_char b c) s;
  Buffer.contents b
let () =
  let gs : (string, bool * string * string * ogrammar * int) Hashtbl.t = Hashtbl.create 64 in
  let per_grammar : (string, int) Hashtbl.t = Hashtbl.create 64 in
  let tv = ref 0 and unread = ref 0 and cases = ref 0 and limited = ref 0 and spec_in_h = ref 0 and spec_known = ref 0 and grammars = ref 0 and beyond_tags = ref 0 in
  let known_by_class : (string, int) Hashtbl.t = Hashtbl.create 8 in
  read_lines (fun line ->
    if String.length line > 0 && line.[0] = '#' then print_endline line else
    match split_tab line with
    | ["U"; name; rs] ->
      let nums = List.filter (fun x -> x <> "") (String.split_on_char ' ' rs) in
      let rec pairs = function a :: b :: r -> (n_of_int (ios a), n_of_int (ios b)) :: pairs r | _ -> [] in
      utable := !utable @ [(bytes_of name, pairs nums)]
    | "T" :: x :: orig :: osexp :: shown :: rest ->
      incr tv; (try check_tv ~text:(String.concat " " rest) x orig osexp shown with Failure m -> report "model" ("x=" ^ x ^ " og=" ^ osexp) ("runner failure: " ^ m) "")
    | "TE" :: x :: osexp :: msg :: rest ->
      incr tv; incr unread;
      report "read" (Printf.sprintf "x=%s og=%s g=%s" x osexp (String.concat " " rest)) msg "a Rust file made of the shapes of generator.rs"
    | ["G"; id; x; osexp; text] ->
      let og = ogrammar_of osexp in
      incr grammars;
      Hashtbl.replace gs id (x = "1", osexp, text, og, classify (x = "1") og)
    | "R" :: _ -> ()
    | [case; d; v] ->
      (match String.split_on_char ' ' case with
       | id :: rule :: inp :: via when via = [] || via = ["L"] ->
         incr cases;
         let (extras, osexp, text, og, why) = Hashtbl.find gs id in
         (* `L`: the VM column is the answer of the VM built with Vm::new_with_listener (printed only when it differs from Vm::new's) *)
         let via = if via = [] then "" else " vm=new_with_listener" in
         let full = Printf.sprintf "H=%s x=%d r=%s in=%s%s g=%s og=%s" (why_name why) (if extras then 1 else 0) rule inp via text osexp in
         let d = norm d and v = norm v in
         if d = "Limit" || v = "Limit" then incr limited
         else begin
           let names = Array.of_list (List.map (fun r -> string_of_bytes r.oname) og) in
           let input = unhex inp in
           let run env start =
             (try
                let r = run_state cfg env fuel start input (Some (nat_of_int limit)) false in
                (* a run that ever touched the call limit is not comparable: the two back-ends count different calls *)
                match r with
                | ROk s | RErr s when limit_reached s -> "Limit"
                | _ -> obs_of names r
              with Stack_overflow -> "Fuel") in
           let u = !utable in
           let mg = run (gen_env og u) (gen_start og u (bytes_of rule)) in
           let mv = run (vm_env og (ulookup u)) (vm_start og (ulookup u) (bytes_of rule)) in
           if mg <> "Fuel" && mg <> "Limit" && mg <> d then report "model" (full ^ " side=generated") d mg;
           if mv <> "Fuel" && mv <> "Limit" && mv <> v then report "model" (full ^ " side=vm") v mv;
           if mg = "Limit" || mv = "Limit" then incr limited
           else if d <> v then begin
             let seen = (try Hashtbl.find per_grammar id with Not_found -> 0) in
             Hashtbl.replace per_grammar id (seen + 1);
             if why = 0 then begin incr spec_in_h; if seen < 2 then report "spec" full d v end
             else if why = 3 && erase_tags d <> erase_tags v then begin
               (* outside H only because of `#t = e?` / `#t = e*`, and the two back-ends differ in more than the labels *)
               incr spec_in_h; incr beyond_tags;
               if !beyond_tags <= 4 then report "spec" (Printf.sprintf "H=beyond-C02-node-tag x=%d r=%s in=%s%s g=%s og=%s" (if extras then 1 else 0) rule inp via text osexp) d v
             end
             else begin
               incr spec_known;
               let c = why_name why in
               let k = (try Hashtbl.find known_by_class c with Not_found -> 0) in
               Hashtbl.replace known_by_class c (k + 1);
               if k < 2 then Printf.printf "KNOWN\t%s\t%s\t%s\t%s\n" c full d v
             end
           end
         end
       | _ -> ())
    | _ -> ());
  let tot = Array.fold_left (+) 0 h_counts in
  Printf.printf "#H\tgrammars=%d\tin_H=%d\tshadow_builtin=%d\tws_nonatomic=%d\tnode_tag=%d\tdirty_atomic_rep=%d\n" tot h_counts.(0) h_counts.(1) h_counts.(2) h_counts.(3) h_counts.(4);
  Hashtbl.iter (fun c k -> Printf.printf "#KNOWNCLASS\t%s=%d\n" c k) known_by_class;
  Printf.printf "#RUNNER\tcases=%d\ttv=%d\tunread=%d\tmismatches=%d\tlimited=%d\tspec_in_H=%d\tspec_known=%d\tbatch_grammars=%d\tbeyond_tags=%d\n"
    !cases !tv !unread !mismatches !limited !spec_in_h !spec_known !grammars !beyond_tags
