(* C13 runner: reads "<case>\t<impl observation>" lines (see rust/harness/src/bin/c13.rs for the
   formats), recomputes every observation with the extracted MODEL of pratt_parser.rs /
   prec_climber.rs (kind `model`) and, where the property speaks (all closures supplied, sequence
   well-formed for the table; for the climber also: infix-only table, no rule declared twice, one
   associativity per level), with the extracted shunting-yard SPECIFICATION (kind `spec`). *)
open Pratt_model
open Runner_common

let rec nat_of_int n = if n <= 0 then O else S (nat_of_int (n - 1))
let rec n2i = function O -> 0 | S n -> 1 + n2i n
let rule_of_char c = nat_of_int (Char.code c - 97 + 1)
let char_of_rule r = Char.chr (n2i r + 97 - 1)

let atom ((r, i) : int tok) = Printf.sprintf "%c%d" (char_of_rule r) i
let rec show (t : int tree) = match t with
  | Leaf a -> atom a
  | Pre (o, t) -> Printf.sprintf "(%s %s)" (atom o) (show t)
  | Post (t, o) -> Printf.sprintf "(%s %s)" (show t) (atom o)
  | Bin (l, o, r) -> Printf.sprintf "(%s %s %s)" (show l) (atom o) (show r)
let show_panic = function
  | PEmpty -> "!EMPTY" | PNud -> "!NUD" | PLed -> "!LED" | PLbp -> "!LBP" | PNoMap -> "!NOMAP"
  | PSub -> "!SUB" | PUnwrap -> "!UNWRAP" | PExpect -> "!EXPECT"
let show_res = function Ok (t, _) -> show t | Panic k -> show_panic k | OutOfFuel -> "!OUTOFFUEL"
let show_cpanic = function CEmpty -> "!CEMPTY" | CFirst -> "!CFIRST" | CChain -> "!CCHAIN"

let affix_of_char = function 'p' -> Prefix | 'q' -> Postfix | 'l' -> Infix ALeft | _ -> Infix ARight
let parse_ops (s : string) : opdecl list =
  let rec go i = if i + 1 < String.length s then (rule_of_char s.[i], affix_of_char s.[i + 1]) :: go (i + 2) else [] in
  go 0
let level_of_ops = function [] -> None | o :: rest -> Some ((o, rest) : level)
let parse_decl (s : string) : decl =
  List.filter_map (fun l -> level_of_ops (parse_ops l)) (List.filter (fun l -> l <> "") (String.split_on_char ',' s))
let parse_tokens (s : string) : int tok list = List.init (String.length s) (fun i -> (rule_of_char s.[i], i))
let parse_maps (s : string) : maps =
  let b i = String.length s > i && s.[i] = '1' in { m_prefix = b 0; m_postfix = b 1; m_infix = b 2 }

(* the climber declaration the harness derives: infix operators only, empty levels dropped *)
let cdecl_of (d : decl) : cdecl =
  List.filter_map (fun (lv : level) ->
      let ops = List.filter_map (fun (r, af) -> match af with Infix s -> Some (r, s) | _ -> None) (chain lv) in
      match ops with [] -> None | o :: rest -> Some (o, rest)) d

let total_ops (d : decl) = List.fold_left (fun n lv -> n + List.length (chain lv)) 0 d

(* side conditions of the climber clause, decided on the declaration *)
let climber_class (d : decl) : bool =
  let all = List.concat_map chain d in
  let infix_only = List.for_all (fun (_, af) -> match af with Infix _ -> true | _ -> false) all in
  let rules = List.map (fun (r, _) -> n2i r) all in
  let nodup = List.length (List.sort_uniq compare rules) = List.length rules in
  let uniform = List.for_all (fun lv -> match chain lv with [] -> true | (_, a) :: rest -> List.for_all (fun (_, b) -> a = b) rest) d in
  infix_only && nodup && uniform

let field obs key =
  (* obs = "P=..;C=..;N=..;K=.." *)
  let parts = String.split_on_char ';' obs in
  let pre = key ^ "=" in
  match List.find_opt (fun p -> String.length p >= String.length pre && String.sub p 0 (String.length pre) = pre) parts with
  | Some p -> String.sub p (String.length pre) (String.length p - String.length pre)
  | None -> "?"

let () =
  let n = ref 0 in
  read_lines (fun line ->
    if String.length line > 0 && line.[0] = '#' then print_endline line else
    match split_tab line with
    | [case; impl] ->
      incr n;
      (match String.split_on_char ';' case with
       | ["T"; maps_s; decl_s; toks_s] ->
         let d = parse_decl decl_s and ts = parse_tokens toks_s and m = parse_maps maps_s in
         let all_m = m.m_prefix && m.m_postfix && m.m_infix in
         let bt = builder_get (builder_table d) in
         let p = show_res (pratt_parse m bt ts) in
         let const_run () = match new_const (macro_expand d) with
           | Inl ct -> show_res (pratt_parse m (const_get ct) ts)
           | Inr e -> show_cpanic e in
         let tot = total_ops d in
         let c = if tot >= 1 && tot <= 5 then const_run () else "-" in
         let nn = if tot >= 1 && tot <= 8 then const_run () else "-" in
         let cd = cdecl_of d in
         let k = if cd = [] then "-" else show_res (climb (climber_get (climber_new cd)) ts) in
         let model = Printf.sprintf "P=%s;C=%s;N=%s;K=%s" p c nn k in
         (* the specification *)
         let wf = well_formed bt ts in
         let spec_bad =
           if all_m && wf then begin
             let s = match shunt bt ts with Some t -> show t | None -> "!SPEC-NONE" in
             let bad key = let v = field impl key in v <> "-" && v <> s in
             let kbad = climber_class d && (let v = field impl "K" in v <> "-" && v <> s) in
             if bad "P" || bad "C" || bad "N" || kbad then Some s else None
           end else None in
         (match spec_bad with
          | Some s -> report "spec" case impl (Printf.sprintf "shunt=%s%s" s (if climber_class d then " (P,C,N,K)" else " (P,C,N)"))
          | None -> if impl <> model then report "model" case impl model)
       | ["N"; maps_s; entries_s; toks_s] ->
         let ts = parse_tokens toks_s and m = parse_maps maps_s in
         let entries = List.filter_map (fun e ->
             let l = String.length e in
             if l < 3 then None else
             match level_of_ops (parse_ops (String.sub e 0 (l - 1))) with
             | Some lv -> Some (lv, e.[l - 1] = '+') | None -> None)
             (String.split_on_char ',' entries_s) in
         let all_m = m.m_prefix && m.m_postfix && m.m_infix in
         let ne = List.length entries in
         if ne = 0 || ne > 8 then (if impl <> "N=-" then report "model" case impl "N=-") else
         (match new_const entries with
          | Inr e -> let model = "N=" ^ show_cpanic e in if impl <> model then report "model" case impl model
          | Inl ct ->
            let g = const_get ct in
            let model = "N=" ^ show_res (pratt_parse m g ts) in
            if all_m && well_formed g ts && (match shunt g ts with Some t -> "N=" ^ show t <> impl | None -> true)
            then report "spec" case impl (match shunt g ts with Some t -> "shunt=" ^ show t | None -> "!SPEC-NONE")
            else if impl <> model then report "model" case impl model)
       | _ -> report "model" case impl "BADCASE")
    | _ -> ());
  Printf.printf "#RUNNER\tcases=%d\tmismatches=%d\n" !n !mismatches
