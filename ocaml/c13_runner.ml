(* C13 runner: reads "<case>\t<impl observation>" lines (see rust/harness/src/bin/c13.rs for the
   formats), recomputes every observation with the extracted MODEL of pratt_parser.rs /
   prec_climber.rs (kind `model`) and, where the property speaks (all closures supplied, sequence
   well-formed for the table; for the climbers also: infix-only table, no rule declared twice, one
   associativity per level), with the extracted shunting-yard SPECIFICATION (kind `spec`).
   Glue that is not extracted: parsing of the case syntax; a look-up cache in front of the extracted
   `get` functions (same graph); for L cases the u32 precedences are replaced by their ranks (0 stays 0)
   before the extracted functions run - model and specification only compare precedences
   (TableProofs.shunt_relabel is the specification's half of that invariance). *)
open Pratt_model
open Runner_common

let nat_cache : (int, nat) Hashtbl.t = Hashtbl.create 1024
let rec build_nat n = if n <= 0 then O else S (build_nat (n - 1))
let nat_of_int n = match Hashtbl.find_opt nat_cache n with Some x -> x | None -> let x = build_nat n in Hashtbl.replace nat_cache n x; x
let rec n2i = function O -> 0 | S n -> 1 + n2i n

(* T / N cases: letters (a..z -> 1..26, A..Z -> 27..52, any other byte -> 100 + code); W / L cases: the number itself *)
let rule_of_char c =
  let k = Char.code c in
  nat_of_int (if k >= 97 && k <= 122 then k - 96 else if k >= 65 && k <= 90 then k - 64 + 26 else 100 + k)
let char_of_rule r =
  let k = n2i r in
  Char.chr (if k >= 1 && k <= 26 then k + 96 else if k >= 27 && k <= 52 then k - 26 + 64 else k - 100)

(* separate report budgets per kind, so that many differences from the model never hide a difference from the specification *)
let reported : (string, int) Hashtbl.t = Hashtbl.create 4
let report kind case impl expected =
  incr mismatches;
  let k = (match Hashtbl.find_opt reported kind with Some k -> k | None -> 0) + 1 in
  Hashtbl.replace reported kind k;
  if k <= max_report then Printf.printf "MISMATCH\t%s\t%s\t%s\t%s\n" kind case impl expected

let wide = ref false
let atom ((r, i) : int tok) = if !wide then Printf.sprintf "%d@%d" (n2i r) i else Printf.sprintf "%c%d" (char_of_rule r) i
let rec show (t : int tree) = match t with
  | Leaf a -> atom a
  | Pre (o, t) -> Printf.sprintf "(%s %s)" (atom o) (show t)
  | Post (t, o) -> Printf.sprintf "(%s %s)" (show t) (atom o)
  | Bin (l, o, r) -> Printf.sprintf "(%s %s %s)" (show l) (atom o) (show r)
let show_panic = function
  | PEmpty -> "!EMPTY" | PNud -> "!NUD" | PLed -> "!LED" | PLbp -> "!LBP" | PNoMap -> "!NOMAP"
  | PSub -> "!SUB" | PUnwrap -> "!UNWRAP" | PExpect -> "!EXPECT"
let show_res = function Ok (t, _) -> show t | Panic k -> show_panic k | OutOfFuel -> "!OUTOFFUEL"
let show_cpanic = function CEmpty -> "!CEMPTY" | CFirst -> "!CFIRST" | CChain -> "!CCHAIN"

(* the extracted `get` functions behind a cache (rule number -> answer) *)
let cached (g : rule -> 'a option) : rule -> 'a option =
  let h : (int, 'a option) Hashtbl.t = Hashtbl.create 64 in
  fun r -> let k = n2i r in
    match Hashtbl.find_opt h k with Some x -> x | None -> let x = g r in Hashtbl.replace h k x; x

let affix_of_char = function 'p' -> Prefix | 'q' -> Postfix | 'l' -> Infix ALeft | _ -> Infix ARight
let parse_ops (s : string) : opdecl list =
  let rec go i = if i + 1 < String.length s then (rule_of_char s.[i], affix_of_char s.[i + 1]) :: go (i + 2) else [] in
  go 0
let level_of_ops = function [] -> None | o :: rest -> Some ((o, rest) : level)
let nonempty l = List.filter (fun x -> x <> "") l
let parse_decl (s : string) : decl =
  List.filter_map (fun l -> level_of_ops (parse_ops l)) (nonempty (String.split_on_char ',' s))
let parse_tokens (s : string) : int tok list = List.init (String.length s) (fun i -> (rule_of_char s.[i], i))
(* W syntax: <number><kind> joined by '.', levels by ',' ; tokens numbers joined by '.' *)
let parse_wide_op (s : string) : opdecl option =
  let l = String.length s in
  if l < 2 then None else
  match int_of_string_opt (String.sub s 0 (l - 1)) with
  | Some n -> Some (nat_of_int n, affix_of_char s.[l - 1]) | None -> None
let parse_wide_decl (s : string) : decl =
  List.filter_map (fun l -> level_of_ops (List.filter_map parse_wide_op (String.split_on_char '.' l))) (nonempty (String.split_on_char ',' s))
let parse_wide_tokens (s : string) : int tok list =
  List.mapi (fun i n -> (nat_of_int n, i)) (List.filter_map int_of_string_opt (String.split_on_char '.' s))
let parse_maps (s : string) : maps =
  let b i = String.length s > i && s.[i] = '1' in { m_prefix = b 0; m_postfix = b 1; m_infix = b 2 }

(* the climber declaration the harness derives: infix operators only, empty levels dropped *)
let cdecl_of (d : decl) : cdecl =
  List.filter_map (fun (lv : level) ->
      let ops = List.filter_map (fun (r, af) -> match af with Infix s -> Some (r, s) | _ -> None) (chain lv) in
      match ops with [] -> None | o :: rest -> Some (o, rest)) d

let total_ops (d : decl) = List.fold_left (fun n lv -> n + List.length (chain lv)) 0 d

(* side conditions of the climber clause, decided on the declaration *)
let infix_uniform (d : decl) : bool =
  let all = List.concat_map chain d in
  let infix_only = List.for_all (fun (_, af) -> match af with Infix _ -> true | _ -> false) all in
  let uniform = List.for_all (fun lv -> match chain lv with [] -> true | (_, a) :: rest -> List.for_all (fun (_, b) -> a = b) rest) d in
  infix_only && uniform
let climber_class (d : decl) : bool =
  let rules = List.map (fun (r, _) -> n2i r) (List.concat_map chain d) in
  infix_uniform d && List.length (List.sort_uniq compare rules) = List.length rules

(* harness: run_const_array pads arrays with more than 40 entries to the next available length *)
let padded_len n = if n <= 40 then n else (match List.find_opt (fun s -> n <= s) [48; 64; 100; 130; 260; 300; 520] with Some s -> s | None -> 0)
let rec last = function [] -> None | [x] -> Some x | _ :: r -> last r
let pad (entries : (level * bool) list) : (level * bool) list option =
  let n = List.length entries in
  let len = padded_len n in
  if n = 0 || len = 0 then None else
  match last entries with
  | None -> None
  | Some (lv, _) -> Some (entries @ List.init (len - n) (fun _ -> (lv, false)))

(* C: which shapes the harness can write with pratt_precedence! *)
let macro_shape (d : decl) : bool =
  let shape = List.map (fun lv -> List.length (chain lv)) d in
  let tot = total_ops d and nl = List.length d in
  if tot >= 1 && tot <= 5 then true
  else if List.for_all (fun k -> k = 1) shape then (nl >= 6 && nl <= 64) || nl = 100 || nl = 260 || nl = 300
  else if List.for_all (fun k -> k = 2) shape then nl >= 3 && nl <= 40
  else false

let field obs key =
  (* obs = "P=..;C=..;N=..;.." *)
  let parts = String.split_on_char ';' obs in
  let pre = key ^ "=" in
  match List.find_opt (fun p -> String.length p >= String.length pre && String.sub p 0 (String.length pre) = pre) parts with
  | Some p -> String.sub p (String.length pre) (String.length p - String.length pre)
  | None -> "?"

(* everything that depends on the declaration only, computed once per run of equal declarations *)
type tables = {
  d : decl; bt : table; c_run : (maps -> int tok list -> string) option; n_run : (maps -> int tok list -> string) option;
  k_get : (rule -> (prec * assoc) option) option; s_get : (rule -> (prec * assoc) option) option; r_get : (rule -> (prec * assoc) option) option;
  m_get : (rule -> (prec * assoc) option) option; cclass : bool }
let const_runner (entries : (level * bool) list) : maps -> int tok list -> string =
  match new_const entries with
  | Inl ct -> let g = cached (const_get ct) in fun m ts -> show_res (pratt_parse m g ts)
  | Inr e -> let s = show_cpanic e in fun _ _ -> s
let make_tables (d : decl) : tables =
  let bt = cached (builder_get (builder_table d)) in
  let entries = macro_expand d in
  let c_run = if macro_shape d then Some (const_runner entries) else None in
  let n_run = match pad entries with Some e -> Some (const_runner e) | None -> None in
  let cd = cdecl_of d in
  let k_get, s_get, r_get =
    if cd = [] then None, None, None else
    let c = climber_new cd in
    Some (cached (climber_get c)), Some (cached (climber_get (climber_new_const c))), Some (cached (climber_get (climber_new_const (List.rev c)))) in
  let m_get =
    if cd <> [] && infix_uniform d then
      let md = List.map (fun ((o, rest) : clevel) -> (snd o, (fst o, List.map fst rest))) cd in
      Some (cached (climber_get (climber_macro md)))
    else None in
  { d; bt; c_run; n_run; k_get; s_get; r_get; m_get; cclass = climber_class d }
let cache_key = ref "" and cache_val : tables option ref = ref None
let tables_of (key : string) (mk : unit -> decl) : tables =
  match !cache_val with
  | Some t when !cache_key = key -> t
  | _ -> let t = make_tables (mk ()) in cache_key := key; cache_val := Some t; t

let table_case case impl maps_s key (mk : unit -> decl) (ts : int tok list) =
  let t = tables_of key mk in
  let m = parse_maps maps_s in
  let all_m = m.m_prefix && m.m_postfix && m.m_infix in
  let p = show_res (pratt_parse m t.bt ts) in
  let opt r = match r with Some f -> f m ts | None -> "-" in
  let c = opt t.c_run and nn = opt t.n_run in
  let cl g = match g with Some g -> show_res (climb g ts) | None -> "-" in
  let k = cl t.k_get and s = cl t.s_get and r = cl t.r_get in
  (* M: the harness has a fixed family of prec_climber! invocations; `-` = this table is not one of them *)
  let mm = if field impl "M" = "-" then "-" else (match t.m_get with Some g -> show_res (climb g ts) | None -> "!NOT-A-MACRO-TABLE") in
  let model = Printf.sprintf "P=%s;C=%s;N=%s;K=%s;S=%s;R=%s;M=%s" p c nn k s r mm in
  (* the specification *)
  let wf = well_formed t.bt ts in
  let spec_bad =
    if all_m && wf then begin
      let sp = match shunt t.bt ts with Some t -> show t | None -> "!SPEC-NONE" in
      let bad key = let v = field impl key in v <> "-" && v <> sp in
      let bad_list = List.filter bad (if t.cclass then ["P"; "C"; "N"; "K"; "S"; "R"; "M"] else ["P"; "C"; "N"]) in
      if bad_list <> [] then Some (sp, bad_list) else None
    end else None in
  match spec_bad with
  | Some (sp, bad_list) ->
    report "spec" case impl (Printf.sprintf "shunt=%s%s differs: %s" sp (if t.cclass then " (P,C,N,K,S,R,M)" else " (P,C,N)") (String.concat "," bad_list))
  | None -> if impl <> model then report "model" case impl model

let () =
  let n = ref 0 in
  read_lines (fun line ->
    if String.length line > 0 && line.[0] = '#' then print_endline line else
    match split_tab line with
    | [case; impl] ->
      incr n;
      (match String.split_on_char ';' case with
       | ["T"; maps_s; decl_s; toks_s] ->
         wide := false;
         table_case case impl maps_s ("T" ^ decl_s) (fun () -> parse_decl decl_s) (parse_tokens toks_s)
       | ["W"; maps_s; decl_s; toks_s] ->
         wide := true;
         table_case case impl maps_s ("W" ^ decl_s) (fun () -> parse_wide_decl decl_s) (parse_wide_tokens toks_s)
       | ["N"; maps_s; entries_s; toks_s] ->
         wide := false;
         let ts = parse_tokens toks_s and m = parse_maps maps_s in
         let entries = List.filter_map (fun e ->
             let l = String.length e in
             if l < 3 then None else
             match level_of_ops (parse_ops (String.sub e 0 (l - 1))) with
             | Some lv -> Some (lv, e.[l - 1] = '+') | None -> None)
             (String.split_on_char ',' entries_s) in
         let all_m = m.m_prefix && m.m_postfix && m.m_infix in
         let ne = List.length entries in
         if ne = 0 || ne > 8 then (if impl <> "N=-" then report "model" case impl "N=-") else
         (match new_const entries with
          | Inr e -> let model = "N=" ^ show_cpanic e in if impl <> model then report "model" case impl model
          | Inl ct ->
            let g = const_get ct in
            let model = "N=" ^ show_res (pratt_parse m g ts) in
            if all_m && well_formed g ts && (match shunt g ts with Some t -> "N=" ^ show t <> impl | None -> true)
            then report "spec" case impl (match shunt g ts with Some t -> "shunt=" ^ show t | None -> "!SPEC-NONE")
            else if impl <> model then report "model" case impl model)
       | ["L"; entries_s; toks_s] ->
         wide := true;
         let ts = parse_wide_tokens toks_s in
         let raw = List.filter_map (fun e ->
             match String.index_from_opt e 0 'l', String.index_from_opt e 0 'r' with
             | None, None -> None
             | a, b ->
               let i = (match a, b with Some i, None | None, Some i -> i | Some i, Some j -> min i j | None, None -> 0) in
               (match int_of_string_opt (String.sub e 0 i), int_of_string_opt (String.sub e (i + 1) (String.length e - i - 1)) with
                | Some r, Some p -> Some (r, (if e.[i] = 'l' then ALeft else ARight), p) | _ -> None))
             (nonempty (String.split_on_char ',' entries_s)) in
         if raw = [] then (if impl <> "S=-" then report "model" case impl "S=-") else begin
           (* ranks of the precedence values: 0 stays 0, the others 1, 2, .. in increasing order *)
           let vals = List.sort_uniq compare (List.filter (fun p -> p <> 0) (List.map (fun (_, _, p) -> p) raw)) in
           let rank p = if p = 0 then 0 else 1 + (let rec idx i = function [] -> 0 | x :: r -> if x = p then i else idx (i + 1) r in idx 0 vals) in
           let c : climber = List.map (fun (r, a, p) -> (nat_of_int r, (nat_of_int (rank p), a))) raw in
           let g = cached (climber_get (climber_new_const c)) in
           let model = "S=" ^ show_res (climb g ts) in
           let rules = List.map (fun (r, _, _) -> r) raw in
           let nodup = List.length (List.sort_uniq compare rules) = List.length rules in
           let uniform = List.for_all (fun (_, a, p) -> List.for_all (fun (_, a2, p2) -> p <> p2 || a = a2) raw) raw in
           let pos = List.for_all (fun (_, _, p) -> p >= 1) raw in
           let tb = table_of g in
           if nodup && uniform && pos && well_formed tb ts
              && (match shunt tb ts with Some t -> "S=" ^ show t <> impl | None -> true)
           then report "spec" case impl (match shunt tb ts with Some t -> "shunt=" ^ show t | None -> "!SPEC-NONE")
           else if impl <> model then report "model" case impl model
         end
       | _ -> report "model" case impl "BADCASE")
    | _ -> ());
  Printf.printf "#RUNNER\tcases=%d\tmismatches=%d\n" !n !mismatches
