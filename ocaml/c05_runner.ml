(* C05 runner: reads the lines of rust/harness/src/bin/c05.rs.
     P lines: the extracted Gallina pass (coq/Opt) is applied to the same AST and compared STRUCTURALLY with what the
              real pass printed                                                              -> kind "model"
              and Peg.Spec.eval is compared before/after the real pass on short inputs      -> kind "spec" (class pass<k>)
     V / W lines: Peg.Spec.eval on the ORIGINAL grammar against what the real VM returned on the optimized rules
                                                                                            -> kind "spec" (class = stream / witness)
     CONTRACT lines (real VM before vs after a pass) are passed through.
   Flags: --fixpop / --fixmap select the model of the tree with fixes/C05-1 / C05-2 applied; --ovf the unroller's original
   `num + 1` range arithmetic (before the overflow fix); --spec K = input length bound. *)
open Opt_model
open Runner_common
type string = Stdlib.String.t

let rec nat_of_int i = if i <= 0 then O else S (nat_of_int (i - 1))
let rec int_of_nat = function O -> 0 | S n -> 1 + int_of_nat n
let rec pos_of_int i = if i <= 1 then XH else if i land 1 = 0 then XO (pos_of_int (i lsr 1)) else XI (pos_of_int (i lsr 1))
let n_of_int i = if i = 0 then N0 else Npos (pos_of_int i)
let z_of_int i = if i = 0 then Z0 else if i > 0 then Zpos (pos_of_int i) else Zneg (pos_of_int (-i))
let rec int_of_pos = function XH -> 1 | XO p -> 2 * int_of_pos p | XI p -> 2 * int_of_pos p + 1
let int_of_n = function N0 -> 0 | Npos p -> int_of_pos p
let int_of_z = function Z0 -> 0 | Zpos p -> int_of_pos p | Zneg p -> - (int_of_pos p)

let unhex (h : string) : byte list =
  if h = "-" then [] else List.init (String.length h / 2) (fun i -> n_of_int (int_of_string ("0x" ^ String.sub h (2 * i) 2)))
let hex (l : byte list) : string = if l = [] then "-" else String.concat "" (List.map (fun b -> Printf.sprintf "%02x" (int_of_n b)) l)
let bytes_of (s : string) : byte list = List.init (String.length s) (fun i -> n_of_int (Char.code s.[i]))
let string_of_bytes (l : byte list) : string = String.concat "" (List.map (fun b -> String.make 1 (Char.chr (int_of_n b))) l)

type sx = A of string | L of sx list
let tokenize (s : string) : string list =
  let b = Buffer.create (String.length s + 16) in
  String.iter (fun c -> match c with '(' -> Buffer.add_string b " ( " | ')' -> Buffer.add_string b " ) " | c -> Buffer.add_char b c) s;
  List.filter (fun x -> x <> "") (String.split_on_char ' ' (Buffer.contents b))
let rec parse_sx (t : string list) : sx * string list =
  match t with
  | "(" :: r -> let rec items acc r = (match r with ")" :: r' -> (L (List.rev acc), r') | _ -> let x, r' = parse_sx r in items (x :: acc) r') in items [] r
  | a :: r -> (A a, r)
  | [] -> failwith "eof"
let sx_of_string s = fst (parse_sx (tokenize s))
let ios = int_of_string
let rec expr_of (x : sx) : expr =
  match x with
  | L [A "str"; A h] -> EStr (unhex h) | L [A "ins"; A h] -> EInsens (unhex h)
  | L [A "range"; A a; A b] -> ERange (n_of_int (ios a), n_of_int (ios b))
  | L [A "id"; A n] -> EIdent (bytes_of n)
  | L [A "slice"; A i; A j] -> EPeekSlice (z_of_int (ios i), if j = "-" then None else Some (z_of_int (ios j)))
  | L [A "pos"; e] -> EPosPred (expr_of e) | L [A "neg"; e] -> ENegPred (expr_of e)
  | L [A "seq"; a; b] -> ESeq (expr_of a, expr_of b) | L [A "cho"; a; b] -> EChoice (expr_of a, expr_of b)
  | L [A "opt"; e] -> EOpt (expr_of e) | L [A "rep"; e] -> ERep (expr_of e) | L [A "rep1"; e] -> ERepOnce (expr_of e)
  | L [A "repx"; A n; e] -> ERepExact (expr_of e, n_of_int (ios n)) | L [A "repmin"; A n; e] -> ERepMin (expr_of e, n_of_int (ios n))
  | L [A "repmax"; A n; e] -> ERepMax (expr_of e, n_of_int (ios n))
  | L [A "repmm"; A m; A n; e] -> ERepMinMax (expr_of e, n_of_int (ios m), n_of_int (ios n))
  | L (A "skip" :: ss) -> ESkip (List.map (function A h -> unhex h | _ -> failwith "skip") ss)
  | L [A "push"; e] -> EPush (expr_of e) | L [A "pushlit"; A h] -> EPushLiteral (unhex h)
  | L [A "tag"; A t; e] -> ENodeTag (expr_of e, bytes_of t)
  | _ -> failwith "bad expr"
let rty_of = function "n" -> RNormal | "s" -> RSilent | "a" -> RAtomic | "c" -> RCompound | _ -> RNonAtomic
let ty_char = function RNormal -> "n" | RSilent -> "s" | RAtomic -> "a" | RCompound -> "c" | RNonAtomic -> "x"
let grammar_of (s : string) : grammar =
  List.map (fun r -> match sx_of_string r with L [A n; A t; e] -> { rname = bytes_of n; rty = rty_of t; rexpr = expr_of e } | _ -> failwith "bad rule")
    (String.split_on_char ';' s)

(* printers: the exchange format of gram.rs *)
let sp = Printf.sprintf
let rec sexp (e : expr) : string =
  match e with
  | EStr s -> sp "(str %s)" (hex s) | EInsens s -> sp "(ins %s)" (hex s) | ERange (a, b) -> sp "(range %d %d)" (int_of_n a) (int_of_n b)
  | EIdent n -> sp "(id %s)" (string_of_bytes n)
  | EPeekSlice (i, j) -> sp "(slice %d %s)" (int_of_z i) (match j with None -> "-" | Some j -> string_of_int (int_of_z j))
  | EPosPred x -> sp "(pos %s)" (sexp x) | ENegPred x -> sp "(neg %s)" (sexp x)
  | ESeq (a, b) -> sp "(seq %s %s)" (sexp a) (sexp b) | EChoice (a, b) -> sp "(cho %s %s)" (sexp a) (sexp b)
  | EOpt x -> sp "(opt %s)" (sexp x) | ERep x -> sp "(rep %s)" (sexp x) | ERepOnce x -> sp "(rep1 %s)" (sexp x)
  | ERepExact (x, n) -> sp "(repx %d %s)" (int_of_n n) (sexp x) | ERepMin (x, n) -> sp "(repmin %d %s)" (int_of_n n) (sexp x)
  | ERepMax (x, n) -> sp "(repmax %d %s)" (int_of_n n) (sexp x) | ERepMinMax (x, m, n) -> sp "(repmm %d %d %s)" (int_of_n m) (int_of_n n) (sexp x)
  | ESkip ss -> sp "(skip%s)" (String.concat "" (List.map (fun s -> " " ^ hex s) ss))
  | EPush x -> sp "(push %s)" (sexp x) | EPushLiteral s -> sp "(pushlit %s)" (hex s) | ENodeTag (x, t) -> sp "(tag %s %s)" (string_of_bytes t) (sexp x)
let rec osexp (e : oexpr) : string =
  match e with
  | OStr s -> sp "(str %s)" (hex s) | OInsens s -> sp "(ins %s)" (hex s) | ORange (a, b) -> sp "(range %d %d)" (int_of_n a) (int_of_n b)
  | OIdent n -> sp "(id %s)" (string_of_bytes n)
  | OPeekSlice (i, j) -> sp "(slice %d %s)" (int_of_z i) (match j with None -> "-" | Some j -> string_of_int (int_of_z j))
  | OPosPred x -> sp "(pos %s)" (osexp x) | ONegPred x -> sp "(neg %s)" (osexp x)
  | OSeq (a, b) -> sp "(seq %s %s)" (osexp a) (osexp b) | OChoice (a, b) -> sp "(cho %s %s)" (osexp a) (osexp b)
  | OOpt x -> sp "(opt %s)" (osexp x) | ORep x -> sp "(rep %s)" (osexp x) | ORepOnce x -> sp "(rep1 %s)" (osexp x)
  | OSkip ss -> sp "(skip%s)" (String.concat "" (List.map (fun s -> " " ^ hex s) ss))
  | OPush x -> sp "(push %s)" (osexp x) | OPushLiteral s -> sp "(pushlit %s)" (hex s) | ONodeTag (x, t) -> sp "(tag %s %s)" (string_of_bytes t) (osexp x)
  | ORestoreOnErr x -> sp "(roe %s)" (osexp x)
let sexp_grammar (g : grammar) = String.concat ";" (List.map (fun r -> sp "(%s %s %s)" (string_of_bytes r.rname) (ty_char r.rty) (sexp r.rexpr)) g)
let sexp_ogrammar (g : ogrammar) = String.concat ";" (List.map (fun r -> sp "(%s %s %s)" (string_of_bytes r.oname) (ty_char r.oty) (osexp r.oexpr_of)) g)

(* ---- Spec observations ---- *)
let tag_string (t : nat) : string =
  let rec go n acc = if n = 0 then acc else go (n / 256) (String.make 1 (Char.chr (n mod 256)) ^ acc) in go (int_of_nat t) ""
let rec forest_string (names : string array) (f : tree list) : string =
  String.concat "" (List.map (fun (Node (r, tg, s, e, ch)) ->
    let i = int_of_nat r in
    sp "%s%s(%d,%d)[%s]" (if i < Array.length names then names.(i) else "EOI")
      (match tg with None -> "" | Some t -> "#" ^ tag_string t) (int_of_nat s) (int_of_nat e) (forest_string names ch)) f)
let names_of_g (g : grammar) = Array.of_list (List.map (fun r -> string_of_bytes r.rname) g)
let fuel = nat_of_int 80
let spec_obs (g : grammar) (extras : bool) (rule : string) (input : byte list) : string =
  try match spec_parse g extras (fun _ -> None) input fuel (bytes_of rule) with
    | SMatch (_, _, f) -> "Ok " ^ forest_string (names_of_g g) f
    | SFail -> "Err"
    | SFuel -> "Fuel"
  with Stack_overflow -> "Fuel"

(* for the before/after comparisons of one rule under Spec: the end of the match as well (a silent rule has no node that would show it) *)
let spec_obs_pos (g : grammar) (extras : bool) (rule : string) (input : byte list) : string =
  try match spec_parse g extras (fun _ -> None) input fuel (bytes_of rule) with
    | SMatch (p, _, f) -> sp "Ok@%d %s" (int_of_nat p) (forest_string (names_of_g g) f)
    | SFail -> "Err"
    | SFuel -> "Fuel"
  with Stack_overflow -> "Fuel"

let all_strings (alpha : string list) (n : int) : string list =
  let out = ref [""] and layer = ref [""] in
  for _ = 1 to n do
    let next = List.concat_map (fun w -> List.map (fun a -> w ^ a) alpha) !layer in
    out := !out @ next; layer := next
  done; !out
let contains (s : string) (sub : string) : bool =
  let n = String.length s and m = String.length sub in
  let rec go i = i + m <= n && (String.sub s i m = sub || go (i + 1)) in go 0
let alphabet (gtxt : string) : string list =
  let a = ["x"; "y"] in
  let a = if contains gtxt "WHITESPACE" || contains gtxt "(str 20)" then a @ [" "] else a in
  let a = if contains gtxt "c3a9" || contains gtxt "c389" then a @ ["\xc3\xa9"] else a in
  if List.length a = 2 then a @ ["z"] else a
(* a grammar with case-insensitive literals is also run on the upper-case forms of its letters *)
let alphabet_cased (gtxt : string) : string list =
  let a = alphabet gtxt in
  if contains gtxt "(ins " then
    a @ List.filter_map (fun c -> match c with "x" -> Some "X" | "y" -> Some "Y" | "z" -> Some "Z" | "\xc3\xa9" -> Some "\xc3\x89" | _ -> None) a
  else a

(* all strings up to the bound over the grammar's alphabet, then the strings one shorter that use an upper-case letter *)
let spec_inputs (gtxt : string) (n : int) : string list =
  let a = alphabet gtxt and b = alphabet_cased gtxt in
  let base = all_strings a n in
  if List.length b = List.length a then base
  else base @ List.filter (fun w -> not (List.mem w base)) (all_strings b (n - 1))

(* node tags are left out of the VM-vs-Spec comparison: `#t = e` with an e that produces no node makes the VM tag whatever token
   is last in the queue (known finding of C03/C01, not an optimizer matter); tags ARE compared before/after every pass *)
let strip_tags (s : string) : string = Str.global_replace (Str.regexp "#[A-Za-z0-9_]+") "" s

let () =
  let fixpop = ref false and fixmap = ref false and ovf = ref false and speclen = ref 0 in
  Array.iteri (fun i a -> if a = "--fixpop" then fixpop := true else if a = "--fixmap" then fixmap := true else if a = "--ovf" then ovf := true
                          else if a = "--spec" then speclen := int_of_string Sys.argv.(i + 1)) Sys.argv;
  let gs : (string, bool * string * grammar) Hashtbl.t = Hashtbl.create 16 in
  let n = ref 0 and spec_cases = ref 0 and spec_fuel = ref 0 and known_lister = ref 0 and panics_agree = ref 0 in
  let per_pass = Array.make 9 0 in
  let class_counts : (string, int) Hashtbl.t = Hashtbl.create 16 in
  let bump c = Hashtbl.replace class_counts c (1 + try Hashtbl.find class_counts c with Not_found -> 0) in
  let reclassified = ref 0 in
  (* `known` = the difference is the known finding C05-lister: decided by the caller from the Coq class, never from the pass number alone *)
  let spec_report ?(known = false) cls case impl expected =
    bump cls;
    if known || cls = "lister" then begin incr known_lister; if !known_lister <= 3 then Printf.printf "KNOWN\tlister\t%s\t%s\t%s\n" case impl expected end
    else report "spec" case (cls ^ "|" ^ impl) expected in
  read_lines (fun line ->
    if String.length line > 0 && line.[0] = '#' then print_endline line else
    match split_tab line with
    | ["P"; x; pass; gin; gout] ->
      incr n;
      let extras = x = "1" and p = ios pass in
      per_pass.(p) <- per_pass.(p) + 1;
      let g = grammar_of gin in
      let model =
        (try
           if p <= 5 then (match apply_pass !ovf extras (nat_of_int p) g with Some g' -> sexp_grammar g' | None -> "PANIC")
           else if p = 6 then (match to_optimized_rules extras !fixpop !fixmap false g with Some og -> sexp_ogrammar og | None -> "PANIC")
           else if p = 7 then (match to_optimized_rules extras !fixpop !fixmap true g with Some og -> sexp_ogrammar og | None -> "PANIC")
           else (match optimize !ovf extras !fixpop !fixmap g with Some og -> sexp_ogrammar og | None -> "PANIC")
         with Stack_overflow -> "OVERFLOW") in
      let case = sp "x=%s pass=%s g=%s" x pass gin in
      if model <> gout then report "model" case gout model
      else if gout = "PANIC" then incr panics_agree;
      (* the documented semantics before and after the real pass *)
      if !speclen > 0 && p <= 5 && gout <> "PANIC" && gout <> gin && List.exists (fun r -> r.rname = bytes_of "r0") g then begin
        let g' = grammar_of gout in
        let fuels = ref 0 in
        (* the list pass: a difference is the known finding only on a rule set of the class (the rewrite of coq/Opt/List.v fires) and, when
           the real pass did something else than that rewrite, only on an input on which the known rewrite alone changes the result too *)
        let in_class = p = 5 && (try lister_applies g with Stack_overflow -> true) in
        let gk = if in_class && model <> gout && model <> "PANIC" && model <> "OVERFLOW" then (try Some (grammar_of model) with _ -> None) else None in
        List.iter (fun inp -> if !fuels < 3 then begin
          incr spec_cases;
          let input = bytes_of inp in
          let before = spec_obs_pos g extras "r0" input and after = spec_obs_pos g' extras "r0" input in
          if before = "Fuel" || after = "Fuel" then begin incr spec_fuel; incr fuels end
          else if before <> after then begin
            let known = in_class && (match gk with None -> true | Some gk -> spec_obs_pos gk extras "r0" input <> before) in
            spec_report ~known (sp "pass%d" p) (sp "%s in=%s" case (hex input)) after before end end)
          (spec_inputs gin !speclen)
      end
    | ["G"; id; x; g] -> Hashtbl.replace gs id (x = "1", g, grammar_of g)
    | ["V"; id; stream; inp; impl] ->
      incr n; incr spec_cases;
      let (extras, gtxt, g) = Hashtbl.find gs id in
      let spec = spec_obs g extras "r0" (unhex inp) in
      if spec = "Fuel" || impl = "Limit" then incr spec_fuel
      else if impl = "Panic" then bump "vm-panic"      (* PEEK/POP on an empty stack and the like: C01's known finding, not an optimizer matter *)
      else if strip_tags impl <> strip_tags spec then spec_report stream (sp "x=%d stream=%s in=%s g=%s" (if extras then 1 else 0) stream inp gtxt) impl spec
    | ["W"; name; x; gtxt; rule; inp; impl] ->
      incr n; incr spec_cases;
      let spec = spec_obs (grammar_of gtxt) (x = "1") rule (unhex inp) in
      Printf.printf "WITNESS\t%s\t%s\t%s\t%s\t%s\t%s\n" name (if impl = spec then "agrees" else "DISAGREES") gtxt inp impl spec;
      if impl <> spec then spec_report name (sp "x=%s witness=%s rule=%s in=%s g=%s" x name rule inp gtxt) impl spec
    (* real VM before/after a pass.  Class `lister` (the harness found the known rewrite firing) is checked against the Coq class: the
       extracted lister_applies on the rules the list pass was given (pass 5), lister_class on the rule set (pass 8: the pipeline);
       outside the class the line counts like any other difference *)
    | ["CONTRACT"; "lister"; pass; x; gtxt; inp; before; after] when pass = "5" || pass = "8" ->
      let in_class = (try let g = grammar_of gtxt in if pass = "5" then lister_applies g else (lister_class !ovf (x = "1") g || lister_class (not !ovf) (x = "1") g)
                      with Stack_overflow -> true) in
      if in_class then print_endline line
      else begin incr reclassified; Printf.printf "CONTRACT\tother\t%s\t%s\t%s\t%s\t%s\t%s\n" pass x gtxt inp before after end
    | "CONTRACT" :: _ -> print_endline line
    | _ -> ());
  Printf.printf "#RUNNER\tcases=%d\tmismatches=%d\tspec_cases=%d\tspec_undecided=%d\tknown_lister=%d\tpanics_agree=%d\tlister_reclassified=%d\t%s\t%s\n" !n !mismatches !spec_cases !spec_fuel !known_lister !panics_agree !reclassified
    (String.concat "\t" (List.mapi (fun i c -> sp "pass%d_cases=%d" i c) (Array.to_list per_pass)))
    (String.concat "\t" (Hashtbl.fold (fun k v acc -> sp "class/%s=%d" k v :: acc) class_counts []))
