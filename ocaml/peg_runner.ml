(* Grammar-level runner (C01/C05/...): reads the lines of rust/harness/src/bin/c01.rs.
   For every (grammar, rule, input) it computes
     - SPEC : Peg.Spec.eval on the ORIGINAL grammar (the documented semantics)      -> kind "spec"
     - MODEL: Comb.exec on Peg.VmCompile of the OPTIMIZED rules printed by the real
              optimizer (the model of pest_vm + parser_state)                        -> kind "model"
   and compares both with what the real pest_vm::Vm returned.                                   *)
open Peg_model
open Runner_common
type string = Stdlib.String.t   (* the extracted module defines its own `string` (Coq strings) *)

let rec nat_of_int i = if i <= 0 then O else S (nat_of_int (i - 1))
let rec int_of_nat = function O -> 0 | S n -> 1 + int_of_nat n
let rec pos_of_int i = if i <= 1 then XH else if i land 1 = 0 then XO (pos_of_int (i lsr 1)) else XI (pos_of_int (i lsr 1))
let n_of_int i = if i = 0 then N0 else Npos (pos_of_int i)
let z_of_int i = if i = 0 then Z0 else if i > 0 then Zpos (pos_of_int i) else Zneg (pos_of_int (-i))
let rec int_of_pos = function XH -> 1 | XO p -> 2 * int_of_pos p | XI p -> 2 * int_of_pos p + 1
let int_of_n = function N0 -> 0 | Npos p -> int_of_pos p

let unhex (h : string) : byte list =
  if h = "-" then [] else List.init (String.length h / 2) (fun i -> n_of_int (int_of_string ("0x" ^ String.sub h (2 * i) 2)))
let bytes_of (s : string) : byte list = List.init (String.length s) (fun i -> n_of_int (Char.code s.[i]))
let string_of_bytes (l : byte list) : string = String.concat "" (List.map (fun b -> String.make 1 (Char.chr (int_of_n b))) l)

(* ---- s-expressions ---- *)
type sx = A of string | L of sx list
let tokenize (s : string) : string list =
  let b = Buffer.create (String.length s + 16) in
  String.iter (fun c -> match c with '(' -> Buffer.add_string b " ( " | ')' -> Buffer.add_string b " ) " | c -> Buffer.add_char b c) s;
  List.filter (fun x -> x <> "") (String.split_on_char ' ' (Buffer.contents b))
let rec parse_sx (t : string list) : sx * string list =
  match t with
  | "(" :: r -> let rec items acc r = (match r with ")" :: r' -> (L (List.rev acc), r') | _ -> let x, r' = parse_sx r in items (x :: acc) r') in items [] r
  | a :: r -> (A a, r)
  | [] -> failwith "eof"
let sx_of_string s = fst (parse_sx (tokenize s))

let ios = int_of_string
let rec expr_of (x : sx) : expr =
  match x with
  | L [A "str"; A h] -> EStr (unhex h) | L [A "ins"; A h] -> EInsens (unhex h)
  | L [A "range"; A a; A b] -> ERange (n_of_int (ios a), n_of_int (ios b))
  | L [A "id"; A n] -> EIdent (bytes_of n)
  | L [A "slice"; A i; A j] -> EPeekSlice (z_of_int (ios i), if j = "-" then None else Some (z_of_int (ios j)))
  | L [A "pos"; e] -> EPosPred (expr_of e) | L [A "neg"; e] -> ENegPred (expr_of e)
  | L [A "seq"; a; b] -> ESeq (expr_of a, expr_of b) | L [A "cho"; a; b] -> EChoice (expr_of a, expr_of b)
  | L [A "opt"; e] -> EOpt (expr_of e) | L [A "rep"; e] -> ERep (expr_of e) | L [A "rep1"; e] -> ERepOnce (expr_of e)
  | L [A "repx"; A n; e] -> ERepExact (expr_of e, n_of_int (ios n)) | L [A "repmin"; A n; e] -> ERepMin (expr_of e, n_of_int (ios n))
  | L [A "repmax"; A n; e] -> ERepMax (expr_of e, n_of_int (ios n))
  | L [A "repmm"; A m; A n; e] -> ERepMinMax (expr_of e, n_of_int (ios m), n_of_int (ios n))
  | L (A "skip" :: ss) -> ESkip (List.map (function A h -> unhex h | _ -> failwith "skip") ss)
  | L [A "push"; e] -> EPush (expr_of e) | L [A "pushlit"; A h] -> EPushLiteral (unhex h)
  | L [A "tag"; A t; e] -> ENodeTag (expr_of e, bytes_of t)
  | _ -> failwith "bad expr"
let rec oexpr_of (x : sx) : oexpr =
  match x with
  | L [A "str"; A h] -> OStr (unhex h) | L [A "ins"; A h] -> OInsens (unhex h)
  | L [A "range"; A a; A b] -> ORange (n_of_int (ios a), n_of_int (ios b))
  | L [A "id"; A n] -> OIdent (bytes_of n)
  | L [A "slice"; A i; A j] -> OPeekSlice (z_of_int (ios i), if j = "-" then None else Some (z_of_int (ios j)))
  | L [A "pos"; e] -> OPosPred (oexpr_of e) | L [A "neg"; e] -> ONegPred (oexpr_of e)
  | L [A "seq"; a; b] -> OSeq (oexpr_of a, oexpr_of b) | L [A "cho"; a; b] -> OChoice (oexpr_of a, oexpr_of b)
  | L [A "opt"; e] -> OOpt (oexpr_of e) | L [A "rep"; e] -> ORep (oexpr_of e) | L [A "rep1"; e] -> ORepOnce (oexpr_of e)
  | L (A "skip" :: ss) -> OSkip (List.map (function A h -> unhex h | _ -> failwith "skip") ss)
  | L [A "push"; e] -> OPush (oexpr_of e) | L [A "pushlit"; A h] -> OPushLiteral (unhex h)
  | L [A "tag"; A t; e] -> ONodeTag (oexpr_of e, bytes_of t)
  | L [A "roe"; e] -> ORestoreOnErr (oexpr_of e)
  | _ -> failwith "bad oexpr"
let rty_of = function "n" -> RNormal | "s" -> RSilent | "a" -> RAtomic | "c" -> RCompound | _ -> RNonAtomic
let grammar_of (s : string) : grammar =
  List.map (fun r -> match sx_of_string r with L [A n; A t; e] -> { rname = bytes_of n; rty = rty_of t; rexpr = expr_of e } | _ -> failwith "bad rule")
    (String.split_on_char ';' s)
let ogrammar_of (s : string) : ogrammar =
  List.map (fun r -> match sx_of_string r with L [A n; A t; e] -> { oname = bytes_of n; oty = rty_of t; oexpr_of = oexpr_of e } | _ -> failwith "bad rule")
    (String.split_on_char ';' s)

(* ---- printing ---- *)
let tag_string (t : nat) : string =
  let rec go n acc = if n = 0 then acc else go (n / 256) (String.make 1 (Char.chr (n mod 256)) ^ acc) in go (int_of_nat t) ""
let rec forest_string (names : string array) (f : tree list) : string =
  String.concat "" (List.map (fun (Node (r, tg, s, e, ch)) ->
    let i = int_of_nat r in
    Printf.sprintf "%s%s(%d,%d)[%s]" (if i < Array.length names then names.(i) else "EOI")
      (match tg with None -> "" | Some t -> "#" ^ tag_string t) (int_of_nat s) (int_of_nat e) (forest_string names ch)) f)

(* token queue (stream order) -> forest *)
let forest_of_queue (q : qtoken list) : tree list =
  let stack = ref [] and cur = ref [] in
  List.iter (function
    | QStart (_, p) -> stack := (p, !cur) :: !stack; cur := []
    | QEnd (_, r, tg, p) ->
      (match !stack with
       | (sp, saved) :: rest -> stack := rest; cur := Node (r, tg, sp, p, List.rev !cur) :: saved
       | [] -> ())) q;
  List.rev !cur

let cfg = { memchr = true; fixed3 = true; fixedlim = true }

(* per-evaluation wall-clock guard: a diverging grammar can make the fuelled evaluators crawl *)
exception Timeout
let timeouts = ref 0
let with_timeout (secs : float) (f : unit -> string) : string =
  let old = Sys.signal Sys.sigalrm (Sys.Signal_handle (fun _ -> raise Timeout)) in
  ignore (Unix.setitimer Unix.ITIMER_REAL { Unix.it_interval = 0.0; it_value = secs });
  let r = (try f () with Timeout -> incr timeouts; "Fuel" | Stack_overflow -> "Fuel") in
  ignore (Unix.setitimer Unix.ITIMER_REAL { Unix.it_interval = 0.0; it_value = 0.0 });
  Sys.set_signal Sys.sigalrm old;
  r
let limit = 4000

let names_of_g (g : grammar) = Array.of_list (List.map (fun r -> string_of_bytes r.rname) g)
let names_of_og (g : ogrammar) = Array.of_list (List.map (fun r -> string_of_bytes r.oname) g)
let name_of names i = if i < Array.length names then names.(i) else "EOI"

let () =
  Array.iter (fun a -> if a = "--fixedlim" then () ) Sys.argv;
  let gs : (string, bool * string * string * grammar * ogrammar) Hashtbl.t = Hashtbl.create 16 in
  let listers : (string, bool) Hashtbl.t = Hashtbl.create 16 in
  let known_lister = ref 0 in
  let known_tag = ref 0 in
  let n = ref 0 and spec_fuel = ref 0 and known_empty = ref 0 in
  read_lines (fun line ->
    if String.length line > 0 && line.[0] = '#' then print_endline line else
    match split_tab line with
    | ["G"; id; x; g; og] ->
      Hashtbl.replace gs id (x.[0] = '1', g, og, grammar_of g, ogrammar_of og);
      Hashtbl.replace listers id (String.length x > 1 && x.[1] = 'L')
    | "R" :: _ -> ()
    | [case; impl] ->
      (match String.split_on_char ' ' case with
       | [id; rule; inp] ->
         incr n;
         let (extras, gtxt, ogtxt, g, og) = Hashtbl.find gs id in
         let full = Printf.sprintf "x=%d r=%s in=%s g=%s" (if extras then 1 else 0) rule inp gtxt in
         let input = unhex inp in
         (* the specification on the original grammar *)
         let spec =
           if impl = "Limit" then "Fuel" else
           with_timeout 2.0 (fun () -> match spec_parse g extras (fun _ -> None) input (nat_of_int 1500) (bytes_of rule) with
              | SMatch (_, _, f) -> "Ok " ^ forest_string (names_of_g g) f
              | SFail -> "Err"
              | SFuel -> "Fuel") in
         (* the model of the VM on the optimized rules *)
         let model =
           with_timeout 4.0 (fun () ->
              let env = vm_env og (fun _ -> None) in
              let r = run_state cfg env (nat_of_int 9000) (vm_start og (fun _ -> None) (bytes_of rule)) input (Some (nat_of_int limit)) false in
              match outcome_of cfg r with
              | OPairs q -> "Ok " ^ forest_string (names_of_og og) (forest_of_queue q)
              | OCallLimit _ -> "Limit"
              | OParsingError (ps, ns, p) ->
                let nm l = String.concat "," (List.sort compare (List.map (fun i -> name_of (names_of_og og) (int_of_nat i)) l)) in
                Printf.sprintf "Err %d [%s] [%s]" (int_of_nat p) (nm ps) (nm ns)
              | OPanic -> "Panic"
              | OOutOfFuel -> "Fuel") in
         if model <> impl && not (model = "Fuel") then report "model" (full ^ " og=" ^ ogtxt) impl model;
         (* spec oracle: acceptance and forest; the error contents are not part of the Spec *)
         if impl = "Panic" && model = "Panic" && spec <> "Fuel" then begin
           (* PEEK/POP on an empty stack: ParserState documents a panic, the grammar documentation a failed match (known finding C01-emptystack) *)
           incr known_empty; if !known_empty <= 2 then Printf.printf "KNOWN\temptystack\t%s\t%s\t%s\n" full impl spec
         end
         else if spec = "Fuel" || impl = "Limit" then incr spec_fuel
         else begin
           let impl_proj = if String.length impl >= 3 && String.sub impl 0 3 = "Err" then "Err" else impl in
           let strip_tags (x : string) =
             (* remove "#name" up to the following '(' *)
             let b = Buffer.create (String.length x) in
             let skipping = ref false in
             String.iter (fun c -> if c = '#' then skipping := true else if c = '(' then (skipping := false; Buffer.add_char b c)
                                   else if not !skipping then Buffer.add_char b c) x;
             Buffer.contents b in
           if impl_proj <> spec && extras && strip_tags impl_proj = strip_tags spec then begin
             (* grammar-extras: tag_node labels whatever End token is last in the queue, also when the tagged
                expression emitted no node of its own (known finding C01-node-tag) *)
             incr known_tag; if !known_tag <= 2 then Printf.printf "KNOWN\tnodetag\t%s\t%s\t%s\n" (full ^ " og=" ^ ogtxt) impl spec
           end else
           if impl_proj <> spec then begin
             if (try Hashtbl.find listers id with Not_found -> false) then begin
               (* the lister rewrite (x ~ y)* ~ x  =>  x ~ (y ~ x)* changed this grammar: known finding C05-lister *)
               incr known_lister; if !known_lister <= 2 then Printf.printf "KNOWN\tlister\t%s\t%s\t%s\n" (full ^ " og=" ^ ogtxt) impl spec
             end else report "spec" (full ^ " og=" ^ ogtxt) impl spec
           end
         end
       | _ -> ())
    | _ -> ());
  Printf.printf "#RUNNER\tcases=%d\tmismatches=%d\tspec_undecided=%d\tknown_emptystack=%d\tknown_lister=%d\ttimeouts=%d\tknown_nodetag=%d\n" !n !mismatches !spec_fuel !known_empty !known_lister !timeouts !known_tag
