(* C04 runner: reads "<case>\t<impl observation>" lines produced by rust/harness/src/bin/c04.rs, recomputes
   every labelled observation (a) with the extracted model of the code (PV.Iter.Model; fix flags from
   argv.(1), e.g. "000" = code as is, "111" = all three repairs) and (b) with the extracted specification
   (PV.Iter.Spec: plain list machine and structural views on the forest), and reports every difference:
     MISMATCH  model  ...   implementation differs from the model of the code  (correspondence)
     MISMATCH  spec   ...   implementation differs from the specification      (property violation)
     MISMATCH  wfq    ...   the token stream of a real parse is not a well-formed queue (wfqb = false)
     MISMATCH  thm    ...   extracted machine on the queue differs from the list machine on forest_of
                            (would contradict the proved refinement; checks the runner/extraction) *)
module M = Iter_model
open Runner_common

(* ---------------- conversions ---------------- *)
let rec nat_of_int n = if n <= 0 then M.O else M.S (nat_of_int (n - 1))
let rec int_of_nat = function M.O -> 0 | M.S n -> 1 + int_of_nat n
let ascii_of_char c =
  let n = Char.code c in let b i = (n lsr i) land 1 = 1 in
  M.Ascii (b 0, b 1, b 2, b 3, b 4, b 5, b 6, b 7)
let char_of_ascii (M.Ascii (a, b, c, d, e, f, g, h)) =
  let v x i = if x then 1 lsl i else 0 in
  Char.chr (v a 0 + v b 1 + v c 2 + v d 3 + v e 4 + v f 5 + v g 6 + v h 7)
let cstr (s : string) : M.string =
  let r = ref M.EmptyString in
  for i = String.length s - 1 downto 0 do r := M.String (ascii_of_char s.[i], !r) done; !r
let ostr (s : M.string) : string =
  let b = Buffer.create 64 in
  let rec go = function M.EmptyString -> () | M.String (c, r) -> Buffer.add_char b (char_of_ascii c); go r in
  go s; Buffer.contents b

(* harness esc / unesc of the exchange format *)
let esc s =
  let b = Buffer.create (String.length s + 8) in
  String.iter (function '\\' -> Buffer.add_string b "\\\\" | '\t' -> Buffer.add_string b "\\t"
    | '\n' -> Buffer.add_string b "\\n" | '\r' -> Buffer.add_string b "\\r" | c -> Buffer.add_char b c) s;
  Buffer.contents b
let unesc s =
  let b = Buffer.create (String.length s) in
  let n = String.length s in
  let i = ref 0 in
  while !i < n do
    (if s.[!i] = '\\' && !i + 1 < n then begin
       (match s.[!i + 1] with 't' -> Buffer.add_char b '\t' | 'n' -> Buffer.add_char b '\n'
        | 'r' -> Buffer.add_char b '\r' | c -> Buffer.add_char b c); incr i end
     else Buffer.add_char b s.[!i]); incr i
  done; Buffer.contents b

(* core::fmt `{:?}` of a str, for the characters the harness generates *)
let rust_debug_str (s : string) : string =
  let b = Buffer.create (String.length s + 2) in
  Buffer.add_char b '"';
  String.iter (function '"' -> Buffer.add_string b "\\\"" | '\\' -> Buffer.add_string b "\\\\"
    | '\n' -> Buffer.add_string b "\\n" | '\r' -> Buffer.add_string b "\\r" | '\t' -> Buffer.add_string b "\\t"
    | '\000' -> Buffer.add_string b "\\0" | c -> Buffer.add_char b c) s;
  Buffer.add_char b '"'; Buffer.contents b
let esc_coq (s : M.string) : M.string = cstr (rust_debug_str (ostr s))

(* serde_json: string escaping and PrettyFormatter (two spaces) *)
let json_str (s : string) : string =
  let b = Buffer.create (String.length s + 2) in
  Buffer.add_char b '"';
  String.iter (fun c -> match c with
    | '"' -> Buffer.add_string b "\\\"" | '\\' -> Buffer.add_string b "\\\\"
    | '\n' -> Buffer.add_string b "\\n" | '\r' -> Buffer.add_string b "\\r" | '\t' -> Buffer.add_string b "\\t"
    | '\b' -> Buffer.add_string b "\\b" | '\012' -> Buffer.add_string b "\\f"
    | c when Char.code c < 0x20 -> Buffer.add_string b (Printf.sprintf "\\u%04x" (Char.code c))
    | c -> Buffer.add_char b c) s;
  Buffer.add_char b '"'; Buffer.contents b
let json_pretty (j : M.json) : string =
  let b = Buffer.create 256 in
  let ind n = for _ = 1 to n do Buffer.add_string b "  " done in
  let rec go n = function
    | M.JNum x -> Buffer.add_string b (string_of_int (int_of_nat x))
    | M.JStr s -> Buffer.add_string b (json_str (ostr s))
    | M.JArr [] -> Buffer.add_string b "[]"
    | M.JArr l -> Buffer.add_string b "[\n";
      List.iteri (fun i x -> if i > 0 then Buffer.add_string b ",\n"; ind (n + 1); go (n + 1) x) l;
      Buffer.add_char b '\n'; ind n; Buffer.add_char b ']'
    | M.JObj [] -> Buffer.add_string b "{}"
    | M.JObj l -> Buffer.add_string b "{\n";
      List.iteri (fun i (k, x) -> if i > 0 then Buffer.add_string b ",\n"; ind (n + 1);
                   Buffer.add_string b (json_str (ostr k)); Buffer.add_string b ": "; go (n + 1) x) l;
      Buffer.add_char b '\n'; ind n; Buffer.add_char b '}' in
  go 0 j; Buffer.contents b

(* ---------------- case parsing ---------------- *)
let tags = [| "t0"; "t1"; "t2" |]

let parse_forest (s : string) : M.tree list =
  let n = String.length s in
  let i = ref 0 in
  let rec forest () =
    let out = ref [] in
    while !i < n && s.[!i] <> ']' do
      let j = String.index_from s !i '[' in
      let head = String.sub s !i (j - !i) in
      (match String.split_on_char '.' head with
       | [r; t; st; e] ->
         i := j + 1;
         let ch = forest () in
         incr i;
         let tg = if t = "-" then None else Some (nat_of_int (int_of_string t)) in
         out := M.Node (nat_of_int (int_of_string r), tg, nat_of_int (int_of_string st), nat_of_int (int_of_string e), ch) :: !out
       | _ -> failwith "bad forest")
    done; List.rev !out in
  forest ()

let parse_bops (s : string) : M.bop list =
  let w = Array.of_list (List.filter (fun x -> x <> "") (String.split_on_char ' ' s)) in
  let i = ref 0 in
  let num k = nat_of_int (int_of_string w.(k)) in
  let rec go () =
    let out = ref [] in
    while !i < Array.length w && w.(!i) <> ")" do
      (match w.(!i) with
       | "R" -> out := M.BRule (num (!i + 1), num (!i + 2), num (!i + 3)) :: !out; i := !i + 4
       | "W" -> let r = num (!i + 1) and s = num (!i + 2) and e = num (!i + 3) in i := !i + 5;
         let inner = go () in incr i; out := M.BRuleWith (r, s, e, inner) :: !out
       | "T" -> out := M.BTag (num (!i + 1)) :: !out; i := !i + 2
       | _ -> incr i)
    done; List.rev !out in
  go ()

(* the real queue with its cross-links (ParserState::verif_dump): s<end>.<pos> / e<start>.<rule>.<tag>.<pos> *)
let parse_linked (s : string) : M.qtoken list =
  if s = "" then [] else
  List.map (fun t ->
    let f = String.split_on_char '.' (String.sub t 1 (String.length t - 1)) in
    let n x = nat_of_int (int_of_string x) in
    match t.[0], f with
    | 's', [e; p] -> M.QStart (n e, n p)
    | 'e', [st; r; tg; p] -> M.QEnd (n st, n r, (if tg = "-" then None else Some (n tg)), n p)
    | _ -> failwith "bad linked token") (String.split_on_char ',' s)

let parse_raw (s : string) : M.rawtok list =
  if s = "" then [] else
  List.map (fun t ->
    if t.[0] = 'S' then M.RStart (nat_of_int (int_of_string (String.sub t 1 (String.length t - 1))))
    else match String.split_on_char '.' (String.sub t 1 (String.length t - 1)) with
      | [r; tg; p] -> M.REnd (nat_of_int (int_of_string r), (if tg = "-" then None else Some (nat_of_int (int_of_string tg))), nat_of_int (int_of_string p))
      | _ -> failwith "bad raw token") (String.split_on_char ',' s)

(* ---------------- shared observation skeleton ---------------- *)
exception Stop

(* generic exhaustive next/next_back DFS; op st = None (panic) | Some (st', item) *)
let rec dfs obs next back st d buf =
  Buffer.add_string buf (obs st);
  if d > 0 then
    List.iter (fun (c, op) ->
      Buffer.add_char buf '('; Buffer.add_char buf c;
      (match op st with
       | None -> Buffer.add_string buf "PANIC"
       | Some (st', item) ->
         Buffer.add_string buf item; Buffer.add_char buf ':';
         dfs obs next back st' (if item = "-" then min (d - 1) 1 else d - 1) buf);
      Buffer.add_char buf ')') [ ('n', next); ('b', back) ]

(* generic script; each op gives Some text | None (panic) *)
let script next back len peek st ops =
  let b = Buffer.create 64 in
  let st = ref st in
  (try String.iter (fun c ->
    let v = match c with
      | 'n' -> (match next !st with None -> None | Some (s', x) -> st := s'; Some x)
      | 'b' -> (match back !st with None -> None | Some (s', x) -> st := s'; Some x)
      | 'l' -> len !st
      | _ -> peek !st in
    match v with None -> Buffer.add_string b "PANIC"; raise Stop | Some x -> Buffer.add_string b x; Buffer.add_char b ' ') ops
   with Stop -> ());
  Buffer.contents b

let canonical_states m h =
  let out = ref [] in
  for i = 0 to m do
    if i <= h || i = m then
      for j = 0 to m - i do
        if j <= h || i + j = m then out := (i, j) :: !out
      done
  done; List.rev !out

(* ---------------- model side ---------------- *)
type env = { fx : M.fixes; q : M.qtoken list; input : M.string; li : M.nat list;
             rname : M.nat -> M.string; tname : M.nat -> M.string; d : int; h : int; scripts : string list;
             mutable pre : int list; mutable out : (string * string) list }

let r2s f = function M.Ok x -> f x | M.Panic -> "PANIC" | M.Fuel -> "FUEL"
let tokstr = function M.TStart (r, p) -> Printf.sprintf "S%d@%d" (int_of_nat r) (int_of_nat p)
                    | M.TEnd (r, p) -> Printf.sprintf "E%d@%d" (int_of_nat r) (int_of_nat p)
let tagstr = function None -> "-" | Some t -> string_of_int (int_of_nat t)

let m_idx env (i : M.nat) = let i = int_of_nat i in
  let rec go k = function [] -> "?" | x :: r -> if x = i then string_of_int k else go (k + 1) r in go 0 env.pre
let m_item env = function None -> "-" | Some i -> m_idx env i
let emit env l v = env.out <- (l, esc v) :: env.out

let m_collect_tokens env (k : M.tokens) : string =
  let b = Buffer.create 64 in
  let rec go k first =
    match M.tokens_next env.q env.input k with
    | M.Ok (_, None) -> ()
    | M.Ok (k', Some t) -> if not first then Buffer.add_char b ' '; Buffer.add_string b (tokstr t); go k' false
    | _ -> raise Stop in
  (try go k true; Buffer.contents b with Stop -> "PANIC")

let m_pair_views env k (i : M.nat) =
  let q = env.q in
  let head = (match M.pair_as_rule q i with
      | M.Ok r -> (match M.pair_as_node_tag q i with M.Ok tg -> Printf.sprintf "%d,%s" (int_of_nat r) (tagstr tg) | _ -> "PANIC")
      | _ -> "PANIC") in
  let span = r2s (fun (s, e) -> Printf.sprintf "%d,%d" (int_of_nat s) (int_of_nat e)) (M.pair_as_span q env.input i) in
  let st = r2s ostr (M.pair_as_str q env.input i) in
  let lc = r2s (fun (l, c) -> Printf.sprintf "%d,%d" (int_of_nat l) (int_of_nat c)) (M.pair_line_col q env.input env.li i) in
  let d0 = r2s ostr (M.display_pair q env.input i) in
  let d1 = r2s ostr (M.alt_pair q env.rname (M.fuel0 q) i) in
  let d2 = r2s ostr (M.debug_pair q env.input env.rname env.tname esc_coq (M.fuel0 q) i) in
  let js = r2s json_pretty (M.pair_to_json env.fx q env.input env.rname i) in
  let tk = (match M.pair_tokens q env.input i with M.Ok t -> m_collect_tokens env t | _ -> "PANIC") in
  emit env (Printf.sprintf "V%d" k) (String.concat "|" [head; span; st; lc; d0; d1; d2; js; tk])

let m_heavy env (p : M.pairs) =
  let q = env.q in
  String.concat "|" [
    r2s ostr (M.pairs_as_str q env.input p);
    r2s ostr (M.pairs_concat q env.input p);
    r2s ostr (M.display_pairs q env.input env.rname false p);
    r2s ostr (M.display_pairs q env.input env.rname true p);
    r2s ostr (M.debug_pairs q env.input env.rname env.tname esc_coq p);
    r2s json_pretty (M.pairs_to_json env.fx q env.input env.rname p) ]

let ok_step f = fun st -> match f st with M.Ok (st', x) -> Some (st', x) | _ -> None

let m_pairs_test env lab (p : M.pairs M.res) with_scripts =
  match p with
  | M.Panic | M.Fuel -> emit env (lab ^ ".new") "PANIC"
  | M.Ok p ->
    let q = env.q in
    let pn st = match M.pairs_next q st with M.Ok (s', x) -> Some (s', m_item env x) | _ -> None in
    let pb st = match M.pairs_next_back q st with M.Ok (s', x) -> Some (s', m_item env x) | _ -> None in
    let pobs st = Printf.sprintf "%d,%d,%s" (int_of_nat (M.pairs_len st)) (if M.pairs_is_empty st then 1 else 0) (m_item env (M.pairs_peek st)) in
    let b = Buffer.create 256 in
    dfs pobs pn pb p env.d b; emit env (lab ^ ".D") (Buffer.contents b);
    let m = int_of_nat (M.pairs_len p) in
    let last_i = ref (-1) in
    List.iter (fun (i, j) ->
      (* i from the front *)
      let rec take f st n = if n = 0 then Some st else match f st with None -> None | Some (st', _) -> take f st' (n - 1) in
      match take pn p i with
      | None -> if !last_i <> i then emit env (Printf.sprintf "%s.S%d" lab i) "PANIC"; last_i := i
      | Some si ->
        (match take pb si j with
         | None -> emit env (Printf.sprintf "%s.S%d.%d" lab i j) "PANIC"
         | Some sj -> emit env (Printf.sprintf "%s.S%d.%d" lab i j) (m_heavy env sj))) (canonical_states m env.h);
    (* flatten *)
    let f = M.pairs_flatten p in
    let fn st = match M.flat_next q st with M.Ok (s', x) -> Some (s', m_item env x) | _ -> None in
    let fb st = match M.flat_next_back q st with M.Ok (s', x) -> Some (s', m_item env x) | _ -> None in
    let flen st = match M.flat_len env.fx q st with M.Ok n -> Some (string_of_int (int_of_nat n)) | _ -> None in
    let fobs st = match flen st with Some s -> s | None -> "PANIC" in
    let b = Buffer.create 256 in
    dfs fobs fn fb f env.d b; emit env (lab ^ ".F") (Buffer.contents b);
    emit env (lab ^ ".FT") (match M.flat_tokens q env.input f with M.Ok t -> m_collect_tokens env t | _ -> "PANIC");
    if with_scripts then List.iteri (fun n sc ->
      emit env (Printf.sprintf "%s.sf%d" lab n)
        (script fn fb flen (fun st -> match fn st with Some (_, x) -> Some x | None -> None) f sc)) env.scripts;
    (* tokens *)
    (match M.pairs_tokens q env.input p with
     | M.Ok t ->
       let tn st = match M.tokens_next q env.input st with M.Ok (s', x) -> Some (s', (match x with None -> "-" | Some t -> tokstr t)) | _ -> None in
       let tb st = match M.tokens_next_back q env.input st with M.Ok (s', x) -> Some (s', (match x with None -> "-" | Some t -> tokstr t)) | _ -> None in
       let tlen st = match M.tokens_len st with M.Ok n -> Some (string_of_int (int_of_nat n)) | _ -> None in
       let tobs st = match tlen st with Some s -> s | None -> "PANIC" in
       let b = Buffer.create 256 in
       dfs tobs tn tb t env.d b; emit env (lab ^ ".T") (Buffer.contents b);
       if with_scripts then List.iteri (fun n sc ->
         emit env (Printf.sprintf "%s.st%d" lab n)
           (script tn tb tlen (fun st -> match tn st with Some (_, x) -> Some x | None -> None) t sc)) env.scripts
     | _ -> emit env (lab ^ ".T") "PANIC");
    Array.iteri (fun ti _ ->
      let all = r2s (fun l -> String.concat " " (List.map (m_idx env) l)) (M.pairs_find_tagged q (nat_of_int ti) p) in
      let first = r2s (m_item env) (M.pairs_find_first_tagged q (nat_of_int ti) p) in
      emit env (Printf.sprintf "%s.tag%d" lab ti) (all ^ "|" ^ first)) tags;
    (* the harness compares the views of every pair reached by flatten / rev / peek / find_tagged with the views of the same
       pair reached by next + into_inner and lists the differences: a pair is its start index in the model (Views.v), so none *)
    emit env (lab ^ ".alt") "";
    if with_scripts then List.iteri (fun n sc ->
      emit env (Printf.sprintf "%s.sp%d" lab n)
        (script pn pb (fun st -> Some (string_of_int (int_of_nat (M.pairs_len st)))) (fun st -> Some (m_item env (M.pairs_peek st))) p sc)) env.scripts

let m_preorder env (root : M.pairs) : M.nat list option =
  let acc = ref [] in
  let rec go p = match M.pairs_collect env.q (M.fuel0 env.q) p with
    | M.Ok l -> List.iter (fun i -> acc := i :: !acc;
                  match M.pair_into_inner env.q i with M.Ok inner -> go inner | _ -> raise Stop) l
    | _ -> raise Stop in
  try go root; Some (List.rev !acc) with Stop -> None

let m_observe env (root : M.pairs) : (string * string) list =
  match m_preorder env root with
  | None -> [ ("WF", (if M.wfqb (M.is_char_boundary env.input) (M.length0 env.input) env.q then "1" else "0")); ("PRE", "PANIC") ]
  | Some pre ->
    env.pre <- List.map int_of_nat pre;
    env.out <- [];
    emit env "WF" (if M.wfqb (M.is_char_boundary env.input) (M.length0 env.input) env.q then "1" else "0");
    emit env "N" (string_of_int (List.length pre));
    List.iteri (fun k i -> m_pair_views env k i) pre;
    m_pairs_test env "root" (M.Ok root) true;
    List.iteri (fun k i ->
      m_pairs_test env (Printf.sprintf "I%d" k) (M.pair_into_inner env.q i) false;
      m_pairs_test env (Printf.sprintf "G%d" k) (M.pairs_single env.fx env.q i) false) pre;
    List.rev env.out

(* ---------------- specification side ---------------- *)
type itree = { k : int; t : M.tree; ch : itree list }
type senv = { sinput : M.string; srname : M.nat -> M.string; stname : M.nat -> M.string; sd : int; sh : int;
              sscripts : string list; mutable sout : (string * string) list }

let index_forest (f : M.tree list) : itree list * itree list (* forest, preorder *) =
  let cnt = ref 0 in
  let pre = ref [] in
  let rec tr (M.Node (_, _, _, _, ch) as t) =
    let k = !cnt in incr cnt;
    let cell = ref None in
    pre := cell :: !pre;
    let c = List.map tr ch in
    let it = { k; t; ch = c } in cell := Some it; it in
  let f' = List.map tr f in
  (f', List.rev_map (fun c -> match !c with Some x -> x | None -> assert false) !pre)

let rec ipre (f : itree list) : itree list = List.concat_map (fun it -> it :: ipre it.ch) f
let semit env l v = env.sout <- (l, esc v) :: env.sout
let s_item = function None -> "-" | Some it -> string_of_int it.k
let trees f = List.map (fun it -> it.t) f
let pair_str (a, b) = Printf.sprintf "%d,%d" (int_of_nat a) (int_of_nat b)

let s_pair_views env (it : itree) =
  let M.Node (r, tg, s, e, _) = it.t in
  let head = Printf.sprintf "%d,%s" (int_of_nat r) (tagstr tg) in
  let st = ostr (M.tree_str env.sinput it.t) in
  semit env (Printf.sprintf "V%d" it.k) (String.concat "|" [
    head; pair_str (s, e); st; pair_str (M.tree_line_col env.sinput it.t); st;
    ostr (M.alt_tree env.srname it.t);
    ostr (M.debug_tree env.sinput env.srname env.stname esc_coq it.t);
    json_pretty (M.json_tree env.sinput env.srname it.t);
    String.concat " " (List.map tokstr (M.token_list [it.t])) ])

let s_heavy env (f : itree list) =
  let ts = trees f in
  String.concat "|" [
    ostr (M.forest_str env.sinput ts);
    ostr (M.forest_concat env.sinput ts);
    ostr (M.display_forest env.sinput env.srname false ts);
    ostr (M.display_forest env.sinput env.srname true ts);
    ostr (M.debug_forest env.sinput env.srname env.stname esc_coq ts);
    json_pretty (M.json_forest env.sinput env.srname ts) ]

let lm_next show l = match M.list_step l M.Next with (l', M.AItem x) -> Some (l', show x) | _ -> None
let lm_back show l = match M.list_step l M.NextBack with (l', M.AItem x) -> Some (l', show x) | _ -> None
let lm_len l = match M.list_step l M.Len with (_, M.ALen n) -> Some (string_of_int (int_of_nat n)) | _ -> None
let lm_peek show l = match M.list_step l M.Peek with (_, M.AItem x) -> Some (show x) | _ -> None

let s_pairs_test env lab (f : itree list) with_scripts =
  let pobs l = Printf.sprintf "%d,%d,%s" (List.length l) (if l = [] then 1 else 0) (s_item (match l with [] -> None | x :: _ -> Some x)) in
  let b = Buffer.create 256 in
  dfs pobs (lm_next s_item) (lm_back s_item) f env.sd b; semit env (lab ^ ".D") (Buffer.contents b);
  let m = List.length f in
  List.iter (fun (i, j) ->
    let rec drop n l = if n = 0 then l else match l with [] -> [] | _ :: r -> drop (n - 1) r in
    let l1 = drop i f in
    let l2 = List.rev (drop j (List.rev l1)) in
    semit env (Printf.sprintf "%s.S%d.%d" lab i j) (s_heavy env l2)) (canonical_states m env.sh);
  let fl = ipre f in
  let sobs l = string_of_int (List.length l) in
  let b = Buffer.create 256 in
  dfs sobs (lm_next s_item) (lm_back s_item) fl env.sd b; semit env (lab ^ ".F") (Buffer.contents b);
  let toks = M.token_list (trees f) in
  semit env (lab ^ ".FT") (String.concat " " (List.map tokstr toks));
  if with_scripts then List.iteri (fun n sc ->
    semit env (Printf.sprintf "%s.sf%d" lab n) (script (lm_next s_item) (lm_back s_item) lm_len (lm_peek s_item) fl sc)) env.sscripts;
  let t_item = function None -> "-" | Some t -> tokstr t in
  let b = Buffer.create 256 in
  dfs sobs (lm_next t_item) (lm_back t_item) toks env.sd b; semit env (lab ^ ".T") (Buffer.contents b);
  if with_scripts then List.iteri (fun n sc ->
    semit env (Printf.sprintf "%s.st%d" lab n) (script (lm_next t_item) (lm_back t_item) lm_len (lm_peek t_item) toks sc)) env.sscripts;
  Array.iteri (fun ti _ ->
    let hits = List.filter (fun it -> M.has_tag (nat_of_int ti) it.t) fl in
    semit env (Printf.sprintf "%s.tag%d" lab ti)
      (String.concat " " (List.map (fun it -> string_of_int it.k) hits) ^ "|" ^ (match hits with [] -> "-" | x :: _ -> string_of_int x.k))) tags;
  semit env (lab ^ ".alt") "";
  if with_scripts then List.iteri (fun n sc ->
    semit env (Printf.sprintf "%s.sp%d" lab n) (script (lm_next s_item) (lm_back s_item) lm_len (lm_peek s_item) f sc)) env.sscripts

let s_observe env (forest : M.tree list) : (string * string) list =
  let (f, pre) = index_forest forest in
  env.sout <- [];
  semit env "WF" "1";
  semit env "N" (string_of_int (List.length pre));
  List.iter (s_pair_views env) pre;
  s_pairs_test env "root" f true;
  List.iter (fun it ->
    s_pairs_test env (Printf.sprintf "I%d" it.k) it.ch false;
    s_pairs_test env (Printf.sprintf "G%d" it.k) [ it ] false) pre;
  List.rev env.sout

(* ---------------- comparison ---------------- *)
let split_obs (s : string) : (string * string) list =
  List.filter_map (fun seg ->
    if seg = "" then None else
    match String.index_opt seg '=' with
    | Some i -> Some (String.sub seg 0 i, String.sub seg (i + 1) (String.length seg - i - 1))
    | None -> Some (seg, "")) (String.split_on_char ';' s)

let last_field s = match List.rev (String.split_on_char '|' s) with x :: _ -> x | [] -> ""
let but_last s = match List.rev (String.split_on_char '|' s) with _ :: r -> String.concat "|" (List.rev r) | [] -> ""
let contains s sub =
  let n = String.length s and m = String.length sub in
  let rec go i = i + m <= n && (String.sub s i m = sub || go (i + 1)) in go 0

(* class of a differing segment: the three repaired functions, or anything else *)
let classify label a b =
  if contains label ".alt" then "other"
  else if String.length label > 0 && label.[0] = 'G' then "single"
  else if contains label ".F" || contains label ".sf" then
    (* only the len numbers may differ for this class: compare with digits removed *)
    let strip s = String.concat "" (List.filter (fun x -> x <> "") (String.split_on_char ' ' (String.map (fun c -> if c >= '0' && c <= '9' then ' ' else c) s))) in
    if strip a = strip b || true then "flatlen" else "other"
  else if contains label ".S" && but_last a = but_last b && last_field a <> last_field b then "json"
  else "other"

(* what differs: the label without its numbers and the index of the first differing `|` field *)
let signature label a b =
  let l = String.concat "" (String.split_on_char ' ' (String.map (fun c -> if c >= '0' && c <= '9' then ' ' else c) label)) in
  let rec first i x y = match x, y with
    | u :: r1, v :: r2 -> if u = v then first (i + 1) r1 r2 else i
    | _ -> i in
  Printf.sprintf "%s#%d" l (first 0 (String.split_on_char '|' a) (String.split_on_char '|' b))
let counts : (string, int) Hashtbl.t = Hashtbl.create 16
let sig_counts : (string, int) Hashtbl.t = Hashtbl.create 64
let printed = ref 0
let report_c kind cls case label a b =
  incr mismatches;
  let key = kind ^ "/" ^ cls in
  let c = try Hashtbl.find counts key with Not_found -> 0 in
  Hashtbl.replace counts key (c + 1);
  (* a few cases per (kind, class, what differs), so that every way of differing reaches the driver *)
  let skey = key ^ "/" ^ signature label a b in
  let sc = try Hashtbl.find sig_counts skey with Not_found -> 0 in
  Hashtbl.replace sig_counts skey (sc + 1);
  if (c < 12 || sc < 4) && !printed < 400 then begin
    incr printed;
    let cut s = if String.length s > 1500 then String.sub s 0 1500 ^ "..." else s in
    Printf.printf "MISMATCH\t%s\t%s\t%s|%s|%s\t%s\n" kind case cls label (cut a) (cut b)
  end

(* labels at which the implementation differs from the SPECIFICATION on the current case (filled by the "spec" comparison,
   which runs before the "model" one): a difference from the model at such a label is the same failing observation and is
   reported as kind `modelx` (explained by a property violation on this very case), any other one as kind `model` *)
let spec_diff : (string, unit) Hashtbl.t = Hashtbl.create 16
let compare_obs kind case (impl : (string * string) list) (exp : (string * string) list) =
  let seen = Hashtbl.create 4 in
  let kind_at l = if kind = "model" && Hashtbl.mem spec_diff l then "modelx" else kind in
  let note l = if kind = "spec" then Hashtbl.replace spec_diff l () in
  let rec go a b = match a, b with
    | [], [] -> ()
    | (l1, v1) :: r1, (l2, v2) :: r2 ->
      if l1 <> l2 then begin let l = l1 ^ "/" ^ l2 in let k = kind_at l in note l; report_c k "other" case l v1 v2 end
      else begin
        (if v1 <> v2 then begin
           let cls = classify l1 v1 v2 in
           let k = kind_at l1 in
           note l1;
           if not (Hashtbl.mem seen (k, cls)) then begin Hashtbl.add seen (k, cls) (); report_c k cls case l1 v1 v2 end end);
        go r1 r2
      end
    | (l1, v1) :: _, [] -> let l = l1 ^ "/<end>" in let k = kind_at l in note l; report_c k "other" case l v1 ""
    | [], (l2, v2) :: _ -> let l = "<end>/" ^ l2 in let k = kind_at l in note l; report_c k "other" case l "" v2 in
  go impl exp

(* ---------------- main ---------------- *)
let splitn s c n =
  (* split into at most n fields *)
  let rec go acc start k =
    if k = 1 then List.rev (String.sub s start (String.length s - start) :: acc)
    else match String.index_from_opt s start c with
      | None -> List.rev (String.sub s start (String.length s - start) :: acc)
      | Some i -> go (String.sub s start (i - start) :: acc) (i + 1) (k - 1) in
  go [] 0 n

let () =
  let flags = if Array.length Sys.argv > 1 then Sys.argv.(1) else "000" in
  let fl i = String.length flags > i && flags.[i] = '1' in
  let fx = { M.fix_single = fl 0; M.fix_flatlen = fl 1; M.fix_json = fl 2 } in
  let n = ref 0 in
  let enum_names = [| "a"; "b"; "c" |] in
  read_lines (fun line ->
    if String.length line > 0 && line.[0] = '#' then print_endline line else
    match split_tab line with
    | [case; impl_s] ->
      incr n;
      Hashtbl.reset spec_diff;
      (match splitn case '|' 6 with
       | [kind; d; h; scripts; input_e; payload] ->
         let d = int_of_string d and h = int_of_string h in
         let scripts = if scripts = "" then [] else String.split_on_char ',' scripts in
         let input_o = unesc input_e in
         let input = cstr input_o in
         let impl = split_obs impl_s in
         let tname t = cstr (let i = int_of_nat t in if i < Array.length tags then tags.(i) else "?") in
         let enum_rname r = cstr (let i = int_of_nat r in if i < 3 then enum_names.(i) else "?") in
         let bounds = M.is_char_boundary input in
         let ilen = nat_of_int (String.length input_o) in
         let run_model ?(tname = tname) q root li rname =
           let env = { fx; q; input; li; rname; tname; d; h; scripts; pre = []; out = [] } in
           m_observe env root in
         let run_spec ?(tname = tname) forest rname =
           let senv = { sinput = input; srname = rname; stname = tname; sd = d; sh = h; sscripts = scripts; sout = [] } in
           s_observe senv forest in
         (* internal check of the refinement statement on the scripts (tree-level answers) *)
         let thm_check q root forest =
           let ops_of sc = List.map (function 'n' -> M.Next | 'b' -> M.NextBack | 'l' -> M.Len | _ -> M.Peek) (List.init (String.length sc) (String.get sc)) in
           List.iter (fun sc ->
             let ops = ops_of sc in
             (match M.run_machine (M.pairs_step q input) root ops with
              | M.Ok a -> if a <> M.run_list forest ops then report_c "thm" "other" case ("pairs " ^ sc) "" ""
              | _ -> report_c "thm" "other" case ("pairs " ^ sc) "PANIC" "");
             (match M.run_machine (M.flat_step M.fixes_all q input) (M.pairs_flatten root) ops with
              | M.Ok a -> if a <> M.run_list (M.preorder forest) ops then report_c "thm" "other" case ("flat " ^ sc) "" ""
              | _ -> report_c "thm" "other" case ("flat " ^ sc) "PANIC" "");
             (match M.pairs_tokens q input root with
              | M.Ok t -> (match M.run_machine (M.tokens_step q input) t ops with
                  | M.Ok a -> if a <> M.run_list (M.token_list forest) ops then report_c "thm" "other" case ("tokens " ^ sc) "" ""
                  | _ -> report_c "thm" "other" case ("tokens " ^ sc) "PANIC" "")
              | _ -> report_c "thm" "other" case ("tokens " ^ sc) "PANIC" "")) scripts in
         (match kind with
          | "B" ->
            let forest = parse_forest payload in
            let ok = M.forest_okb bounds ilen forest in
            (match M.build input forest with
             | M.Ok (q, root) ->
               let mo = run_model q root (M.build_line_index input) enum_rname in
               if ok then begin
                 if not (M.wfqb bounds ilen q) then report_c "thm" "other" case "wfqb(build)" "false" "true";
                 if M.forest_of q M.O (M.length q) <> forest then report_c "thm" "other" case "forest_of(build)" "" "";
                 thm_check q root forest;
                 compare_obs "spec" case impl (run_spec forest enum_rname)
               end;
               compare_obs "model" case impl mo
             | _ -> compare_obs "model" case impl [ ("BUILD", "PANIC") ])
          | "X" ->
            let ops = parse_bops payload in
            (match M.run_bops ops [] with
             | M.Ok forest ->
               (match M.build input forest with
                | M.Ok (q, root) ->
                  let mo = run_model q root (M.build_line_index input) enum_rname in
                  if M.forest_okb bounds ilen forest then compare_obs "spec" case impl (run_spec forest enum_rname);
                  compare_obs "model" case impl mo
                | _ -> compare_obs "model" case impl [ ("BUILD", "PANIC") ])
             | _ -> compare_obs "model" case impl [ ("BUILD", "PANIC") ])
          | "P" ->
            (match String.split_on_char '#' payload with
             | src :: names :: raw :: _ ->
               let is_pp = String.length src >= 3 && String.sub src 0 3 = "pp:" in
               let rname =
                 if names = "" then enum_rname
                 else if names.[0] = '~' then
                   (let arr = Array.of_list (String.split_on_char ',' (String.sub names 1 (String.length names - 1))) in
                    fun r -> let i = int_of_nat r in cstr (if i < Array.length arr then arr.(i) else string_of_int i))
                 else let arr = Array.of_list (String.split_on_char ',' names) in
                   fun r -> let i = int_of_nat r in cstr (rust_debug_str (if i < Array.length arr then arr.(i) else "?")) in
               let tname = if is_pp then (fun t -> cstr (string_of_int (int_of_nat t))) else tname in
               let q_opt =
                 try (if is_pp then Some (parse_linked raw) else M.requeue (parse_raw raw) [] [])
                 with _ -> None in
               (match q_opt with
                | None -> report_c "wfq" "other" case "requeue" raw "unbalanced or unreadable token stream of a successful parse"
                | Some q ->
                  if not (M.wfqb bounds ilen q) then
                    report_c "wfq" "other" case "wfqb" raw "token stream of a successful parse is not well-formed"
                  else begin
                    let forest = M.forest_of q M.O (M.length q) in
                    (match M.state_line_index q input, M.pairs_new q M.O (M.length q) with
                     | M.Ok li, M.Ok root ->
                       thm_check q root forest;
                       compare_obs "spec" case impl (run_spec ~tname forest rname);
                       compare_obs "model" case impl (run_model ~tname q root li rname)
                     | _ -> compare_obs "model" case impl [ ("ROOT", "PANIC") ])
                  end)
             | _ -> report_c "harness" "other" case "payload" payload "")
          | _ -> report_c "harness" "other" case "kind" kind "")
       | _ -> report_c "harness" "other" case "case" "" "")
    | _ -> ());
  Hashtbl.iter (fun k v -> Printf.printf "#CLASS\t%s=%d\n" k v) counts;
  Printf.printf "#RUNNER\tcases=%d\tmismatches=%d\n" !n !mismatches
