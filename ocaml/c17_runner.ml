(* C17 runner (extracted model: Debugger_model = coq/Debugger/Proto.v).

   commands: R run, V recv, K cont, A<r> add_breakpoint, D<r> delete_breakpoint, L add_all_rules_breakpoints.
   c17_runner gen <preemptions> <nrandom> <seed>
       stdin : "MODE\t<literal|fixed>" and "CFG\t<id>\t<entries>\t<E|X>\t<names>" lines (from `c17 entries`)
       stdout: those lines again, then one case per line  "<cfg>\t<cap>\t<bps>\t<cmds>\t<sched>":
               every COMPLETE schedule (run until no thread is enabled) of the model with at most
               <preemptions> preemptive context switches, for a fixed list of command histories per
               grammar, plus <nrandom> random histories with random complete schedules.
   c17_runner check
       stdin : MODE / CFG lines and the cases with the observation of the real code appended (from `c17 force`)
       stdout: MISMATCH\tmodel\t...   the real threads did not do what the model does on that schedule
               MISMATCH\tspec\t...    a re-run started with every delivered event received hangs in join
               KNOWN\tundisciplined\t... same, but a cont() without an unanswered breakpoint event preceded
               #RUNNER\tcases=..\tmismatches=..  *)
module M = Debugger_model
open Runner_common

let rec nat_of_int n : M.nat = if n <= 0 then M.O else M.S (nat_of_int (n - 1))
let rec int_of_n : M.nat -> int = function M.O -> 0 | M.S n -> 1 + int_of_n n

type cfg = { id : string; entries : ((M.nat * M.nat) * bool) list; outc : M.outcome; grules : int list (* name indices of the grammar's own rules *) }

let parse_cfg f =
  match f with
  | _ :: id :: es :: o :: _ ->
    let entries = List.filter_map (fun s ->
        match String.split_on_char ':' s with
        | [r; p; b] -> Some ((nat_of_int (int_of_string r), nat_of_int (int_of_string p)), b = "1")
        | _ -> None) (String.split_on_char ',' es) in
    let grules = (match f with _ :: _ :: _ :: _ :: _ :: g :: _ ->
        List.filter_map (fun x -> if x = "" then None else Some (int_of_string x)) (String.split_on_char ',' g) | _ -> []) in
    { id; entries; outc = (if o = "E" then M.OEof else M.OErr M.O); grules }
  | _ -> failwith "bad CFG line"

let ints s = List.filter_map (fun x -> if x = "" then None else Some (int_of_string x)) (String.split_on_char ',' s)

let cmds_of (c : cfg) (s : string) : M.cmd list =
  List.filter_map (fun x ->
      if x = "" then None else
        let n () = nat_of_int (int_of_string (String.sub x 1 (String.length x - 1))) in
        Some (match x.[0] with
            | 'R' -> M.CRun (c.entries, c.outc) | 'K' -> M.CCont | 'V' -> M.CRecv
            | 'A' -> M.CAdd [n ()] | 'D' -> M.CDel (n ())
            | 'L' -> M.CAdd (List.map nat_of_int c.grules)   (* add_all_rules_breakpoints: one guard, the grammar's rules inserted *)
            | _ -> failwith "bad cmd"))
    (String.split_on_char ',' s)

let config fixed cap : M.config = if fixed then M.repaired (nat_of_int cap) else M.literal (nat_of_int cap)

(* one step of the REAL threads = the code between two yield points.  The model is finer: acquiring the
   guard of the breakpoint set and using + dropping it are two steps with no yield point in between
   (PLock -> PHeld -> .., CIdle -> EAdd/EDel -> CIdle); the second one is always enabled and is taken at once. *)
let mstep (cf : M.config) (s : M.state) (t : M.tid) : M.state option =
  match M.step cf s t with
  | None -> None
  | Some s' ->
    (match t, s'.M.p_pc, s'.M.c_pc with
     | M.P, M.PHeld _, _ -> M.step cf s' M.P
     | M.C, _, (M.EAdd _ | M.EDel _) -> M.step cf s' M.C
     | _ -> Some s')

let ev_str = function
  | M.EvBp (r, p) -> Printf.sprintf "B%d@%d" (int_of_n r) (int_of_n p)
  | M.EvEof -> "EOF" | M.EvErr _ -> "ERR" | M.EvAbort -> "ABORT"
let obs_str = function
  | M.ORecv e -> "recv=" ^ ev_str e | M.ODisc -> "recv=disc" | M.ONoRx -> "recv=norx"
  | M.OContOk -> "cont=ok" | M.OContEof -> "cont=eof" | M.OContNoRun -> "cont=norun" | M.ORunPanic -> "run=panic"

let c_name (s : M.state) = match s.M.c_pc with
  | M.CIdle -> if s.M.cmds = [] then "end" else "cmd"
  | M.RLoad _ -> "r_load" | M.RStore _ -> "r_store" | M.RUnpark _ -> "r_unpark" | M.RJoin _ -> "r_join"
  | M.RReset _ -> "r_reset" | M.RSpawn _ -> "r_spawn" | M.KLoad -> "c_load" | M.KUnpark -> "c_unpark"
  | M.EAdd _ | M.EDel _ -> "edit"
let p_name fixed (s : M.state) = match s.M.p_pc with
  | M.PNone -> "none" | M.PStart _ -> "t_start" | M.PLoad _ -> "l_load" | M.PLock _ -> "l_lock"
  | M.PHeld _ -> "held" | M.PSend _ -> "l_send" | M.PPark _ -> "l_park"
  | M.PFinal _ -> if fixed then "t_final" else "t_final_send"
  | M.PFinalSend _ -> "t_final_send" | M.PStore -> "t_store" | M.PExit -> "t_exit" | M.PDone -> "done" | M.PDead -> "dead"

(* the observation the real code must produce on schedule `sched` *)
let simulate fixed cap (c : cfg) bps cmds sched : string * M.state option =
  let cf = config fixed cap in
  let s = ref (M.init (cmds_of c cmds) (List.map nat_of_int bps)) in
  let tr = Buffer.create 256 in
  let ok = ref true in
  String.iter (fun ch ->
      if !ok then begin
        let t = if ch = 'C' then M.C else M.P in
        match mstep cf !s t with
        | None -> ok := false; Buffer.add_string tr (Printf.sprintf "%c:DISABLED " ch)
        | Some s' -> s := s';
          Buffer.add_string tr (Printf.sprintf "%c:%s " ch (if ch = 'C' then c_name s' else p_name fixed s'))
      end) sched;
  let t = Buffer.contents tr in
  let t = if String.length t > 0 then String.sub t 0 (String.length t - 1) else t in
  if not !ok then (t ^ "||DISABLED", None) else
    let obs = String.concat "," (List.rev_map obs_str !s.M.out) in
    let status = if M.c_finished !s then "FIN" else if M.deadlocked cf !s then "HANG" else "LIVE" in
    (Printf.sprintf "%s|%s|%s" t obs status, Some !s)

(* ---- generation -------------------------------------------------------------------------- *)
let emitted = ref 0
let emit (c : cfg) cap bps cmds sched =
  incr emitted;
  Printf.printf "%s\t%d\t%s\t%s\t%s\n" c.id cap (String.concat "," (List.map string_of_int bps)) cmds sched

(* every complete schedule with at most k preemptions (a switch away from a thread that could go on);
   switches forced by blocking are free *)
let enumerate fixed cap (c : cfg) bps cmds k =
  let cf = config fixed cap in
  let buf = Bytes.create 4096 in
  let rec go (s : M.state) cur n k =
    if n >= 4000 then () else
    let ec = M.enabled cf s M.C and ep = M.enabled cf s M.P in
    if not ec && not ep then emit c cap bps cmds (Bytes.sub_string buf 0 n)
    else begin
      let take t ch k' = match mstep cf s t with
        | Some s' -> Bytes.set buf n ch; go s' ch (n + 1) k'
        | None -> () in
      let cur_enabled = (cur = 'C' && ec) || (cur = 'P' && ep) in
      if ec then (if cur = 'C' || not cur_enabled then take M.C 'C' k else if k > 0 then take M.C 'C' (k - 1));
      if ep then (if cur = 'P' || not cur_enabled then take M.P 'P' k else if k > 0 then take M.P 'P' (k - 1))
    end in
  go (M.init (cmds_of c cmds) (List.map nat_of_int bps)) 'C' 0 k

let rng = ref 0x9E3779B97F4A7C15L
let next () =
  rng := Int64.add !rng 0x9E3779B97F4A7C15L;
  let z = !rng in
  let z = Int64.mul (Int64.logxor z (Int64.shift_right_logical z 30)) 0xBF58476D1CE4E5B9L in
  let z = Int64.mul (Int64.logxor z (Int64.shift_right_logical z 27)) 0x94D049BB133111EBL in
  Int64.logxor z (Int64.shift_right_logical z 31)
let below n = if n <= 0 then 0 else Int64.to_int (Int64.unsigned_rem (next ()) (Int64.of_int n))

let random_case fixed (c : cfg) nrules =
  let cap = if below 5 = 0 then 2 else 1 in
  let bps = List.filter (fun _ -> below 2 = 0) (List.init nrules (fun i -> i)) in
  let len = 3 + below 9 in
  let cmds = "R" :: List.init len (fun _ ->
      match below 12 with
      | 0 | 1 -> "R" | 2 | 3 | 4 | 5 -> "K" | 6 | 7 | 8 | 9 -> "V"
      | 10 -> if below 4 = 0 then "L" else "A" ^ string_of_int (below nrules) | _ -> "D" ^ string_of_int (below nrules)) in
  (* sometimes the breakpoints are edited before the first run (the set is then constant during the runs: full event oracle) *)
  let cmds = (match below 4 with
      | 0 -> (if below 2 = 0 then ["A" ^ string_of_int (below nrules)] else []) @ ["L"] @ (if below 2 = 0 then ["D" ^ string_of_int (below nrules)] else [])
      | _ -> []) @ cmds in
  let cmds = String.concat "," cmds in
  let cf = config fixed cap in
  let b = Buffer.create 128 in
  let s = ref (M.init (cmds_of c cmds) (List.map nat_of_int bps)) in
  let cur = ref M.C in
  let stop = ref false in
  while not !stop && Buffer.length b < 1500 do
    let ec = M.enabled cf !s M.C and ep = M.enabled cf !s M.P in
    if not ec && not ep then stop := true else begin
      let other = if !cur = M.C then M.P else M.C in
      let cur_en = if !cur = M.C then ec else ep and oth_en = if !cur = M.C then ep else ec in
      let t = if cur_en && (not oth_en || below 4 <> 0) then !cur else other in
      cur := t;
      (match mstep cf !s t with Some s' -> s := s' | None -> stop := true);
      Buffer.add_char b (if t = M.C then 'C' else 'P')
    end
  done;
  emit c cap bps cmds (Buffer.contents b)

(* command histories enumerated exhaustively (per grammar): (breakpoints, commands) by rule NAME index *)
let histories (c : cfg) : (int list * string) list =
  if c.id = "ident" then  (* alpha0 digit1 ident2 ident_list3 *)
    [ ([0;1;2;3], "R,V,K,R");            (* DESIGN.md section 4 row 12 *)
      ([2], "R,V,K,V,K,V");              (* test_full_flow *)
      ([2], "R,V,R,V");                  (* test_restart *)
      ([2], "R,V,K,K,R,V");              (* cont without an unanswered event, then re-run *)
      ([], "R,K,V,K");                   (* no breakpoints *)
      ([2], "R,V,D2,K,V");               (* delete racing with the lookups *)
      ([], "R,A2,V,K,V");                (* add racing with the lookups *)
      ([2], "R,V,A1,D2,K,V,D1,K,V");     (* edits while stopped at a breakpoint *)
      ([1], "L,D0,R,V,K,V,K,V");         (* add-all before the run: digit stays, alpha removed again *)
      ([2], "R,K,V,V,K,V") ]             (* continue issued before the pending event is received: nothing may be lost *)
  else if c.id = "ws" then  (* ASCII_DIGIT0 WHITESPACE1 item2 list3 num4: input "1 ,2" *)
    [ ([1], "R,V,K,V,K,V,K,V,K,V,K,V");   (* implicit skipping enters WHITESPACE: every attempt is a visit *)
      ([1;2], "R,V,K,V,K,V,K,V,K,V,K,V,K,V");
      ([0;4], "R,V,K,V,K,V,K,V,K,V") ]
  else if c.id = "builtin" then  (* ANY0 ASCII_DIGIT1 EOI2 NEWLINE3 SOI4 line5 other6 word7 *)
    [ ([2;7], "R,V,K,V,K,V,K,V");        (* word and EOI: word@0 word@2 EOI@4 Eof *)
      ([0;3;4], "R,V,K,V,K,V,K,V");      (* built-ins alone: SOI@0 ANY@2 NEWLINE@3 Eof *)
      ([1], "R,V,K,V,K,R,V");            (* ASCII_DIGIT (three visits), then a re-run *)
      ([2], "R,V,A0,K,V");               (* EOI, ANY added while running *)
      ([1], "L,R,V,K,V,K,V,K,V,K,V");    (* ASCII_DIGIT set before add-all: the built-in breakpoint must survive it *)
      ([], "A0,L,D5,R,V,K,V,K,V,K,V");   (* ANY, then add-all, line removed *)
      ([1], "R,K,V,V,K,V,K,V") ]         (* continue before the receive, three visits of ASCII_DIGIT *)
  else
    [ ([0;1;2;3;4], "R,V,K,R,V");
      ([0;1], "R,V,K,V,K,V,K");
      ([1], "R,K,V,R,K,V");
      ([0], "R,V,K,K,R,V,K,V") ]

(* ---- specification oracle on the REAL observations (independent of the model of the code) ------ *)
(* For every run: the events the controller received are a prefix of
   [breakpoint events of the entries whose rule is in the breakpoint set] ++ [outcome of the plain parse],
   an abort error is never received, and #received <= 1 + #cont=ok of that run.  The event sequence is
   only checked for histories without add/delete (the set is then constant); the count always. *)
let spec_oracle (c : cfg) (bps : int list) (cmds : string) (impl : string) (model_obs : string) : string option =
  let obs = match String.split_on_char '|' impl with
    | _ :: o :: _ -> List.filter (fun x -> x <> "") (String.split_on_char ',' o) | _ -> [] in
  let cl = List.filter (fun x -> x <> "") (String.split_on_char ',' cmds) in
  (* edits before the first run change the set the runs start with; it is constant from then on unless edited again *)
  let is_edit x = x.[0] = 'A' || x.[0] = 'D' || x.[0] = 'L' in
  let rec lead b = function
    | x :: rest when x.[0] <> 'R' ->
      let k () = int_of_string (String.sub x 1 (String.length x - 1)) in
      let b = (match x.[0] with
          | 'A' -> if List.mem (k ()) b then b else k () :: b
          | 'D' -> List.filter (fun y -> y <> k ()) b
          | 'L' -> List.fold_left (fun b r -> if List.mem r b then b else r :: b) b c.grules
          | _ -> b) in
      lead b rest
    | rest -> (b, rest) in
  let bps, after = lead bps cl in
  let static = not (List.exists is_edit after) in
  let expected = List.filter_map (fun ((r, p), _) ->
      if List.mem (int_of_n r) bps then Some (Printf.sprintf "B%d@%d" (int_of_n r) (int_of_n p)) else None) c.entries
    @ [ (match c.outc with M.OEof -> "EOF" | M.OErr _ -> "ERR") ] in
  let err = ref None and obs = ref obs and idx = ref 0 and conts = ref 0 and nrecv = ref 0 and started = ref false in
  let got_outcome = ref false and killed = ref false in
  (* run() = PreviousRunPanic leaves the old receiver in place; a run() that succeeds prints nothing, so with several runs in a row
     the observation list does not say which of them it was: the disconnect rule is then not applied at all *)
  let panic_somewhere = List.mem "run=panic" !obs in
  (* every continue so far answered a received breakpoint event (two unparks before the next park are one token: only then is
     "a continue resumes the parse" owed) *)
  let disciplined = ref true and nbp = ref 0 in
  let fail m = if !err = None then err := Some m in
  List.iter (fun cmd ->
      if !err = None then
      match cmd.[0], !obs with
      | 'R', "run=panic" :: rest -> obs := rest; killed := true   (* the previous session was terminated, no new one started *)
      | 'R', _ -> started := true; idx := 0; conts := 0; nrecv := 0; got_outcome := false; killed := false; nbp := 0; disciplined := true
      | 'K', o :: rest -> obs := rest; if o = "cont=ok" then begin (if !conts >= !nbp then disciplined := false); incr conts end
      | 'V', o :: rest ->
        obs := rest;
        let v = String.sub o 5 (String.length o - 5) in
        if v = "ABORT" then fail "the error of an aborted parse was received"
        else if v = "TIMEOUT" then begin
          if static && !started && !disciplined && !nrecv <= !conts && !idx < List.length expected then
            fail "recv() got nothing although the debugger was not waiting for a continue and the parse has more to report"
        end
        else if v = "disc" then begin
          (* the session's channel closed: legitimate only after the outcome was delivered or after a re-run terminated the session *)
          if static && !started && not !got_outcome && not !killed && not panic_somewhere then
            fail "the session ended without delivering the outcome of the parse (channel disconnected before end-of-input / error was received)"
        end
        else if v = "norx" then ()
        else begin
          incr nrecv;
          if v = "EOF" || v = "ERR" then got_outcome := true else incr nbp;
          if static && !started then begin
            (match List.nth_opt expected !idx with
             | Some e when e = v -> ()
             | Some e -> fail (Printf.sprintf "received %s where the parse has %s" v e)
             | None -> fail (Printf.sprintf "received %s after the outcome" v));
            incr idx
          end;
          if !nrecv > 1 + !conts then fail (Printf.sprintf "%d events received with %d cont" !nrecv !conts)
        end
      | _, _ -> ()) cl;
  (* a granted wake-up that never happens: cont() did not resume the parse *)
  let tr = match String.split_on_char '|' impl with t :: _ -> String.split_on_char ' ' t | [] -> [] in
  let etr = match String.split_on_char (Char.chr 124) model_obs with t :: _ -> String.split_on_char ' ' t | [] -> [] in
  let lastp = ref "" and agree = ref true in
  List.iteri (fun i x ->
      let same = (match List.nth_opt etr i with Some y -> y = x | None -> false) in
      if String.length x > 2 && x.[0] = 'P' then begin
        let pt = String.sub x 2 (String.length x - 2) in
        (* only when the real threads had followed the model up to here *)
        if pt = "TIMEOUT" && !lastp = "l_park" && !agree then fail "park() did not return although an unpark had been issued";
        lastp := pt end;
      if not same then agree := false) tr;
  !err

(* for each entry of the controller into run() with a live handle: (index of that step in the schedule, drained flag) *)
let run_entries fixed cap (c : cfg) bps cmds sched : (int * bool) list =
  let cf = config fixed cap in
  let s = ref (M.init (cmds_of c cmds) (List.map nat_of_int bps)) in
  let acc = ref [] and ok = ref true in
  String.iteri (fun i ch ->
      if !ok then
        match mstep cf !s (if ch = 'C' then M.C else M.P) with
        | None -> ok := false
        | Some s' ->
          (match !s.M.c_pc, s'.M.c_pc with
           | M.CIdle, M.RLoad (d, _, _) -> acc := (i, d) :: !acc
           | _ -> ());
          s := s') sched;
  List.rev !acc

(* indices of the schedule steps in which the controller executes add_breakpoint / delete_breakpoint *)
let edit_steps fixed cap (c : cfg) bps cmds sched : int list =
  let cf = config fixed cap in
  let s = ref (M.init (cmds_of c cmds) (List.map nat_of_int bps)) in
  let acc = ref [] and ok = ref true in
  String.iteri (fun i ch ->
      if !ok then begin
        (if ch = 'C' then match !s.M.c_pc, !s.M.cmds with
            | M.CIdle, (M.CAdd _ | M.CDel _) :: _ -> acc := i :: !acc
            | _ -> ());
        match mstep cf !s (if ch = 'C' then M.C else M.P) with
        | None -> ok := false
        | Some s' -> s := s'
      end) sched;
  !acc


(* ---- the command-line front end (debugger/src/main.rs) ------------------------------------------
   A session = options (-b <rule>.. [-r <rule>]) followed by command lines.  main.rs turns it into the controller history
   add*, [run, recv], then per line: b -> add, d -> delete, ba -> add-all, da -> delete each, r -> run, recv, c -> cont, recv (only if cont() = Ok).
   The front end waits for the answer of every run / cont before it reads the next line, so the parsing thread is always blocked
   (parked, in send, or finished) when the next command starts: the model is run with the parsing thread taking every step it can first. *)
let cli_lines s = List.filter (fun x -> x <> "") (String.split_on_char ',' s)

let cli_model fixed (c : cfg) nnames (argb : int list) (argr : bool) (lines : string list) : string =
  let cf = config fixed 1 in
  let s = ref (M.init [] []) in
  let settle () =
    let fuel = ref 100000 and go = ref true in
    while !go && !fuel > 0 do
      decr fuel;
      if M.enabled cf !s M.P then (match mstep cf !s M.P with Some s' -> s := s' | None -> go := false)
      else if M.enabled cf !s M.C && not (M.c_finished !s) then (match mstep cf !s M.C with Some s' -> s := s' | None -> go := false)
      else go := false
    done in
  let obs = ref [] in
  let issue (cmds : M.cmd list) : M.obs list =
    let before = List.length !s.M.out in
    s := { !s with M.cmds = cmds };
    settle ();
    let o = List.rev !s.M.out in
    let rec drop n l = if n <= 0 then l else match l with [] -> [] | _ :: t -> drop (n - 1) t in
    let fresh = drop before o in
    if not (M.c_finished !s) then obs := "KILLED" :: !obs;
    fresh in
  let show o = List.iter (fun x ->
      match x with
      | M.ORecv e -> obs := ev_str e :: !obs
      | M.ODisc -> obs := "TIMEDOUT" :: !obs
      | M.ONoRx -> obs := "norx" :: !obs
      | M.OContOk -> ()
      | M.OContEof -> obs := "cont=eof" :: !obs
      | M.OContNoRun -> obs := "cont=norun" :: !obs
      | M.ORunPanic -> obs := "run=panic" :: !obs) o in
  let run () =
    let o = issue [M.CRun (c.entries, c.outc)] in
    show o;
    if not (List.mem M.ORunPanic o) then show (issue [M.CRecv]) in
  List.iter (fun b -> ignore (issue [M.CAdd [nat_of_int b]])) argb;
  if argr then run ();
  List.iter (fun l ->
      if not (List.mem "KILLED" !obs) then
      match l with
      | "r" -> run ()
      | "c" -> let o = issue [M.CCont] in show o; if List.mem M.OContOk o then show (issue [M.CRecv])
      | "ba" -> ignore (issue [M.CAdd (List.map nat_of_int c.grules)])
      | "da" -> List.iter (fun k -> ignore (issue [M.CDel (nat_of_int k)])) (List.init nnames (fun i -> i))
      | "l" -> let v = List.sort compare (List.map (fun r -> string_of_int (int_of_n r)) !s.M.bps) in
        obs := ("L" ^ String.concat "+" v) :: !obs
      | "g" | "i" | "id" -> ()   (* the same grammar / input text loaded again: the next run parses what the earlier ones parsed *)
      | x when x.[0] = 'b' -> ignore (issue [M.CAdd [nat_of_int (int_of_string (String.sub x 1 (String.length x - 1)))]])
      | x when x.[0] = 'd' -> ignore (issue [M.CDel (nat_of_int (int_of_string (String.sub x 1 (String.length x - 1))))])
      | _ -> failwith "bad cli line") lines;
  String.concat "," (List.rev !obs)

(* the specification, read off the property: every run / continue reports the next visit of the parse whose rule is in the breakpoint
   set (as it is at that moment), then the plain outcome; nothing else is ever printed.  Returns None when the observation is allowed. *)
let cli_spec (c : cfg) (argb : int list) (argr : bool) (lines : string list) (impl : string) : string option =
  let obs = ref (List.filter (fun x -> x <> "") (String.split_on_char ',' impl)) in
  let set = ref [] and session = ref `None and err = ref None in
  let fail m = if !err = None then err := Some m in
  let add k = if not (List.mem k !set) then set := k :: !set in
  let pop () = match !obs with [] -> "(nothing)" | o :: rest -> obs := rest; o in
  let entries = Array.of_list (List.map (fun ((r, p), _) -> (int_of_n r, int_of_n p)) c.entries) in
  let outcome = (match c.outc with M.OEof -> "EOF" | M.OErr _ -> "ERR") in
  let deliver from what =
    let n = Array.length entries in
    let rec find i = if i >= n then None else if List.mem (fst entries.(i)) !set then Some i else find (i + 1) in
    let expected, next = (match find from with
        | Some i -> Printf.sprintf "B%d@%d" (fst entries.(i)) (snd entries.(i)), `At (i + 1)
        | None -> outcome, `Finished) in
    let got = pop () in
    if got <> expected then fail (Printf.sprintf "%s printed %s where the parse has %s (breakpoints {%s})" what got expected
                                    (String.concat "," (List.map string_of_int (List.sort compare !set))));
    session := next in
  let run () =
    (match !session, !obs with
     | `At _, "run=panic" :: rest -> obs := rest; session := `Dead   (* the aborted parse panicked inside the VM: noted finding, session not started *)
     | _ -> deliver 0 "run") in
  List.iter add argb;
  if argr then run ();
  List.iter (fun l ->
      if !err = None then
      match l with
      | "r" -> run ()
      | "c" -> (match !session with
          | `None -> let g = pop () in if g <> "cont=norun" then fail ("continue before any run printed " ^ g)
          | `Finished | `Dead -> let g = pop () in if g <> "cont=eof" then fail ("continue after the end of the parse printed " ^ g)
          | `At i -> deliver i "continue")
      | "ba" -> List.iter add c.grules
      | "da" -> set := []
      | "g" | "i" | "id" -> ()
      | "l" -> let v = "L" ^ String.concat "+" (List.sort compare (List.map string_of_int !set)) in
        let g = pop () in if g <> v then fail (Printf.sprintf "list printed %s, breakpoints are %s" g v)
      | x when x.[0] = 'b' -> add (int_of_string (String.sub x 1 (String.length x - 1)))
      | x when x.[0] = 'd' -> let k = int_of_string (String.sub x 1 (String.length x - 1)) in set := List.filter (fun y -> y <> k) !set
      | _ -> ()) lines;
  if !err = None && !obs <> [] then fail ("unexpected output: " ^ String.concat "," !obs);
  !err

let cli_session (c : cfg) nnames =
  let pick () = below nnames in
  let argb = List.filter (fun _ -> below 3 = 0) (List.init nnames (fun i -> i)) in
  let argr = below 2 = 0 in
  let len = 2 + below 9 in
  let lines = List.init len (fun _ ->
      match below 16 with
      | 0 | 1 -> "r" | 2 | 3 | 4 | 5 | 6 | 7 -> "c" | 8 | 9 -> "b" ^ string_of_int (pick ()) | 10 -> "d" ^ string_of_int (pick ())
      | 11 -> "ba" | 12 -> "da" | 13 -> "l" | 14 -> [| "id"; "i"; "g" |].(below 3) | _ -> "c") in
  let lines = if argr || below 3 = 0 then lines else
      (List.init (below 3) (fun _ -> "b" ^ string_of_int (pick ()))) @ ["r"] @ lines in
  Printf.printf "%s\t%s\t%d\t%s\n" c.id (String.concat "," (List.map string_of_int argb)) (if argr then 1 else 0) (String.concat "," lines)

(* ---- main ---------------------------------------------------------------------------------- *)
let () =
  let mode = if Array.length Sys.argv > 1 then Sys.argv.(1) else "check" in
  let fixed = ref false and cfgs = ref [] and names = Hashtbl.create 7 in
  let header f = match f with
    | "MODE" :: m :: _ -> fixed := (m = "fixed"); true
    | "CFG" :: _ -> let c = parse_cfg f in cfgs := !cfgs @ [c];
      Hashtbl.replace names c.id (List.length (String.split_on_char ',' (List.nth f 4))); true
    | _ -> false in
  if mode = "genfree" then begin
    let nrandom = int_of_string Sys.argv.(2) in
    rng := Int64.of_string Sys.argv.(3);
    read_lines (fun line -> if header (split_tab line) then print_endline line);
    let n = List.length !cfgs in
    if n > 0 then for i = 1 to nrandom do
        let c = List.nth !cfgs (i mod n) in
        let nn = Hashtbl.find names c.id in
        let bps = List.filter (fun _ -> below 2 = 0) (List.init nn (fun i -> i)) in
        let len = 3 + below 8 in
        (* one run, then continues / receives / pauses in any order (continue before the pending event is received included),
           and enough receives at the end to see the rest; no re-run, so nothing here can block for good *)
        let body = List.init len (fun _ -> match below 8 with 0 | 1 | 2 -> "K" | 3 | 4 | 5 -> "V" | _ -> "S") in
        let cmds = ["R"] @ body @ ["S"; "V"; "V"] in
        Printf.printf "%s\t%d\t%s\t%s\n" c.id (if below 5 = 0 then 2 else 1) (String.concat "," (List.map string_of_int bps)) (String.concat "," cmds)
      done
  end else if mode = "gencli" then begin
    let nrandom = int_of_string Sys.argv.(2) in
    rng := Int64.of_string Sys.argv.(3);
    read_lines (fun line -> if header (split_tab line) then print_endline line);
    let n = List.length !cfgs in
    (* the options alone, as a user would type them: -b .. -r .. then continue to the end *)
    List.iter (fun c ->
        let nn = Hashtbl.find names c.id in
        List.iter (fun k -> Printf.printf "%s\t%d\t1\tc,c,c,c\n" c.id k) (List.init nn (fun i -> i));
        Printf.printf "%s\t\t0\tba,r,c,c,l\n" c.id;
        (* to the very end of the parse: what was loaded decides the late stops *)
        let cs = String.concat "," (List.init (List.length c.entries + 2) (fun _ -> "c")) in
        Printf.printf "%s\t\t0\tid,ba,r,%s\n" c.id cs;
        Printf.printf "%s\t\t0\tg,i,ba,r,%s\n" c.id cs;
        Printf.printf "%s\t\t0\tba,r,c,id,r,%s\n" c.id cs) !cfgs;
    if n > 0 then for i = 1 to nrandom do let c = List.nth !cfgs (i mod n) in cli_session c (Hashtbl.find names c.id) done
  end else if mode = "cli" then begin
    let n = ref 0 in
    read_lines (fun line ->
        if String.length line > 0 && line.[0] = '#' then print_endline line else
        let f = split_tab line in
        if header f then () else
        match f with
        | id :: argb :: argr :: lines :: rest ->
          incr n;
          let impl = (match rest with x :: _ -> x | [] -> "") in
          let c = List.find (fun c -> c.id = id) !cfgs in
          let case = String.concat "\t" [id; argb; argr; lines] in
          let expected = cli_model !fixed c (Hashtbl.find names c.id) (ints argb) (argr = "1") (cli_lines lines) in
          (match cli_spec c (ints argb) (argr = "1") (cli_lines lines) impl with
           | Some m -> report "spec" case impl m
           | None -> if impl <> expected then report "model" case impl expected)
        | _ -> ());
    Printf.printf "#RUNNER\tcases=%d\tmismatches=%d\n" !n !mismatches
  end else if mode = "gen" then begin
    let k = int_of_string Sys.argv.(2) and nrandom = int_of_string Sys.argv.(3) in
    rng := Int64.of_string Sys.argv.(4);
    read_lines (fun line -> if header (split_tab line) then print_endline line);
    List.iter (fun c -> List.iter (fun (bps, cmds) -> enumerate !fixed 1 c bps cmds k) (histories c)) !cfgs;
    let n = List.length !cfgs in
    if n > 0 then for i = 1 to nrandom do
        let c = List.nth !cfgs (i mod n) in random_case !fixed c (Hashtbl.find names c.id) done
  end else begin
    let n = ref 0 and nontrivial = ref 0 and hangs = ref 0 and known = ref 0 and panics = ref 0 in
    let contains s sub = (try ignore (Str.search_forward (Str.regexp_string sub) s 0); true with Not_found -> false) in
    read_lines (fun line ->
        if String.length line > 0 && line.[0] = '#' then print_endline line else
        let f = split_tab line in
        if header f then () else
        match f with
        | [id; cap; bps; cmds; "FREE"; impl] ->
          (* natural timing: only the specification is consulted (the schedule is whatever the OS did) *)
          incr n; incr nontrivial;
          let c = List.find (fun c -> c.id = id) !cfgs in
          let case = String.concat "\t" [id; cap; bps; cmds; "FREE"] in
          (match spec_oracle c (ints bps) cmds impl "" with
           | Some m -> report "spec" case impl m
           | None ->
             (match List.rev (String.split_on_char '|' impl) with
              | "STUCK" :: _ -> report "spec" case impl "the controller's commands (no re-run among them) all return"
              | _ -> ()))
        | [id; cap; bps; cmds; sched; impl] ->
          incr n;
          let c = List.find (fun c -> c.id = id) !cfgs in
          let case = String.concat "\t" [id; cap; bps; cmds; sched] in
          let expected, st = simulate !fixed (int_of_string cap) c (ints bps) cmds sched in
          (* non-trivial: both threads took steps while the other one was enabled at least once = has a P step and a re-run or cont *)
          if String.contains sched 'P' && (String.contains cmds 'K' || (String.length cmds > 1 && String.contains_from cmds 1 'R')) then incr nontrivial;
          let status = match List.rev (String.split_on_char '|' impl) with x :: _ -> x | [] -> "" in
          let drained_join, undisc = match st with
            | Some s -> (match s.M.c_pc with M.RJoin (true, _, _) -> true | _ -> false), s.M.undisc
            | None -> false, false in
          if status = "HANG" then incr hangs;
          if contains impl "P:dead" then incr panics;
          if status = "HANG" && drained_join then begin
            if undisc && !fixed then begin incr known; Printf.printf "KNOWN\tundisciplined\t%s\t%s\n" case impl end
            else report "spec" case impl "run() returns: every delivered event had been received when it was called"
          end;
          (* the real threads left the schedule and, running freely, the controller never got out of run() *)
          (let pre = "TIMEOUT-STUCK@r_" in
           if String.length status >= String.length pre && String.sub status 0 (String.length pre) = pre then begin
             let itr = (match String.split_on_char '|' impl with t :: _ -> String.split_on_char ' ' t | [] -> []) in
             let etr = (match String.split_on_char '|' expected with t :: _ -> String.split_on_char ' ' t | [] -> []) in
             let nloads = List.length (List.filter (fun x -> x = "C:r_load") itr) in
             match (if nloads >= 1 then List.nth_opt (run_entries !fixed (int_of_string cap) c (ints bps) cmds sched) (nloads - 1) else None) with
             | Some (i, true) ->
               let rec agree k = k > i || (List.nth_opt itr k = List.nth_opt etr k && List.nth_opt itr k <> None && agree (k + 1)) in
               if agree 0 then report "spec" case impl "run() returns: every delivered event had been received when it was called (threads left the model's schedule; run freely for 1.5 s)"
             | _ -> ()
           end);
          (* a breakpoint edit that does not return (the model proves it never blocks: C17_breakpoint_edits_never_block) *)
          (let itr = (match String.split_on_char '|' impl with t :: _ -> String.split_on_char ' ' t | [] -> []) in
           let etr = (match String.split_on_char '|' expected with t :: _ -> String.split_on_char ' ' t | [] -> []) in
           List.iteri (fun i x ->
               if x = "C:TIMEOUT" && List.mem i (edit_steps !fixed (int_of_string cap) c (ints bps) cmds sched) then begin
                 let rec agree k = k >= i || (List.nth_opt itr k = List.nth_opt etr k && agree (k + 1)) in
                 if agree 0 then report "spec" case impl "add_breakpoint / delete_breakpoint returns (it blocked for 2 s: the breakpoint set is locked while the parse is stopped)"
               end) itr);
          (match spec_oracle c (ints bps) cmds impl expected with
           | Some m -> report "spec" case impl m
           | None -> ());
          if impl <> expected then report "model" case impl expected
        | _ -> ());
    Printf.printf "#RUNNER\tcases=%d\tmismatches=%d\tdistinct_nontrivial=%d\thangs=%d\tknown_undisciplined=%d\tabort_panics=%d\tfixed=%d\n"
      !n !mismatches !nontrivial !hangs !known !panics (if !fixed then 1 else 0)
  end
