(* C17 runner (extracted model: Debugger_model = coq/Debugger/Proto.v).

   c17_runner gen <preemptions> <nrandom> <seed>
       stdin : "MODE\t<literal|fixed>" and "CFG\t<id>\t<entries>\t<E|X>\t<names>" lines (from `c17 entries`)
       stdout: those lines again, then one case per line  "<cfg>\t<cap>\t<bps>\t<cmds>\t<sched>":
               every COMPLETE schedule (run until no thread is enabled) of the model with at most
               <preemptions> preemptive context switches, for a fixed list of command histories per
               grammar, plus <nrandom> random histories with random complete schedules.
   c17_runner check
       stdin : MODE / CFG lines and the cases with the observation of the real code appended (from `c17 force`)
       stdout: MISMATCH\tmodel\t...   the real threads did not do what the model does on that schedule
               MISMATCH\tspec\t...    a re-run started with every delivered event received hangs in join
               KNOWN\tundisciplined\t... same, but a cont() without an unanswered breakpoint event preceded
               #RUNNER\tcases=..\tmismatches=..  *)
module M = Debugger_model
open Runner_common

let rec nat_of_int n : M.nat = if n <= 0 then M.O else M.S (nat_of_int (n - 1))
let rec int_of_n : M.nat -> int = function M.O -> 0 | M.S n -> 1 + int_of_n n

type cfg = { id : string; entries : (M.nat * M.nat) list; outc : M.outcome }

let parse_cfg f =
  match f with
  | _ :: id :: es :: o :: _ ->
    let entries = List.filter_map (fun s ->
        match String.split_on_char ':' s with
        | [r; p] -> Some (nat_of_int (int_of_string r), nat_of_int (int_of_string p))
        | _ -> None) (String.split_on_char ',' es) in
    { id; entries; outc = (if o = "E" then M.OEof else M.OErr M.O) }
  | _ -> failwith "bad CFG line"

let ints s = List.filter_map (fun x -> if x = "" then None else Some (int_of_string x)) (String.split_on_char ',' s)

let cmds_of (c : cfg) (s : string) : M.cmd list =
  List.filter_map (fun x ->
      if x = "" then None else
        let n () = nat_of_int (int_of_string (String.sub x 1 (String.length x - 1))) in
        Some (match x.[0] with
            | 'R' -> M.CRun (c.entries, c.outc) | 'K' -> M.CCont | 'V' -> M.CRecv
            | 'A' -> M.CAdd (n ()) | 'D' -> M.CDel (n ()) | _ -> failwith "bad cmd"))
    (String.split_on_char ',' s)

let config fixed cap : M.config = if fixed then M.repaired (nat_of_int cap) else M.literal (nat_of_int cap)

let ev_str = function
  | M.EvBp (r, p) -> Printf.sprintf "B%d@%d" (int_of_n r) (int_of_n p)
  | M.EvEof -> "EOF" | M.EvErr _ -> "ERR" | M.EvAbort -> "ABORT"
let obs_str = function
  | M.ORecv e -> "recv=" ^ ev_str e | M.ODisc -> "recv=disc" | M.ONoRx -> "recv=norx"
  | M.OContOk -> "cont=ok" | M.OContEof -> "cont=eof" | M.OContNoRun -> "cont=norun"

let c_name (s : M.state) = match s.M.c_pc with
  | M.CIdle -> if s.M.cmds = [] then "end" else "cmd"
  | M.RLoad _ -> "r_load" | M.RStore _ -> "r_store" | M.RUnpark _ -> "r_unpark" | M.RJoin _ -> "r_join"
  | M.RReset _ -> "r_reset" | M.RSpawn _ -> "r_spawn" | M.KLoad -> "c_load" | M.KUnpark -> "c_unpark"
let p_name fixed (s : M.state) = match s.M.p_pc with
  | M.PNone -> "none" | M.PStart _ -> "t_start" | M.PLoad _ -> "l_load" | M.PLock _ -> "l_lock"
  | M.PSend _ -> "l_send" | M.PPark _ -> "l_park"
  | M.PFinal _ -> if fixed then "t_final" else "t_final_send"
  | M.PFinalSend _ -> "t_final_send" | M.PStore -> "t_store" | M.PExit -> "t_exit" | M.PDone -> "done"

(* the observation the real code must produce on schedule `sched` *)
let simulate fixed cap (c : cfg) bps cmds sched : string * M.state option =
  let cf = config fixed cap in
  let s = ref (M.init (cmds_of c cmds) (List.map nat_of_int bps)) in
  let tr = Buffer.create 256 in
  let ok = ref true in
  String.iter (fun ch ->
      if !ok then begin
        let t = if ch = 'C' then M.C else M.P in
        match M.step cf !s t with
        | None -> ok := false; Buffer.add_string tr (Printf.sprintf "%c:DISABLED " ch)
        | Some s' -> s := s';
          Buffer.add_string tr (Printf.sprintf "%c:%s " ch (if ch = 'C' then c_name s' else p_name fixed s'))
      end) sched;
  let t = Buffer.contents tr in
  let t = if String.length t > 0 then String.sub t 0 (String.length t - 1) else t in
  if not !ok then (t ^ "||DISABLED", None) else
    let obs = String.concat "," (List.rev_map obs_str !s.M.out) in
    let status = if M.c_finished !s then "FIN" else if M.deadlocked cf !s then "HANG" else "LIVE" in
    (Printf.sprintf "%s|%s|%s" t obs status, Some !s)
