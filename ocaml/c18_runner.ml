(* C18 runner: reads the lines of rust/harness/src/bin/c18.rs  (<input hex>\t<observation>[\tVM=<observation>]).
   For every input it computes
     - MODEL: Peg.Spec.spec_parse on json_grammar, the Gallina term REGENERATED from json.pest by tools/pest2v.py
              (the documented PEG semantics of the grammar as shipped)                         -> kind "model"
     - SPEC : the extracted RFC 8259 recogniser rfc_parse (proved sound and complete for the inductive json_doc)
              and the token tree that mirrors the document (tree_top)                          -> kind "spec"
   and compares both with what the real pest_grammars::json::JsonParser returned; a pest_vm observation that
   differs from the derive-generated parser is reported as kind "model" too (case suffixed with " vm").     *)
open Json_model
open Runner_common
type string = Stdlib.String.t

let rec nat_of_int i = if i <= 0 then O else S (nat_of_int (i - 1))
let rec int_of_nat = function O -> 0 | S n -> 1 + int_of_nat n
let rec pos_of_int i = if i <= 1 then XH else if i land 1 = 0 then XO (pos_of_int (i lsr 1)) else XI (pos_of_int (i lsr 1))
let n_of_int i = if i = 0 then N0 else Npos (pos_of_int i)
let rec int_of_pos = function XH -> 1 | XO p -> 2 * int_of_pos p | XI p -> 2 * int_of_pos p + 1
let int_of_n = function N0 -> 0 | Npos p -> int_of_pos p

let unhex (h : string) : byte list =
  if h = "-" then [] else List.init (String.length h / 2) (fun i -> n_of_int (int_of_string ("0x" ^ String.sub h (2 * i) 2)))
let bytes_of (s : string) : byte list = List.init (String.length s) (fun i -> n_of_int (Char.code s.[i]))
let string_of_bytes (l : byte list) : string = String.concat "" (List.map (fun b -> String.make 1 (Char.chr (int_of_n b))) l)

let names = Array.of_list (List.map (fun r -> string_of_bytes r.rname) json_grammar)
let rec forest_string (f : tree list) : string =
  String.concat "" (List.map (fun (Node (r, tg, s, e, ch)) ->
    let i = int_of_nat r in
    Printf.sprintf "%s%s(%d,%d)[%s]" (if i < Array.length names then names.(i) else "EOI")
      (match tg with None -> "" | Some _ -> "#?") (int_of_nat s) (int_of_nat e) (forest_string ch)) f)

let rid (n : byte list) : nat = rule_id json_grammar n

let () =
  let n = ref 0 and acc = ref 0 and fuelled = ref 0 in
  read_lines (fun line ->
    if String.length line > 0 && line.[0] = '#' then print_endline line else
    match split_tab line with
    | hexin :: impl :: rest ->
      incr n;
      let input = unhex hexin in
      let len = List.length input in
      let model =
        (try match spec_parse json_grammar false (fun _ -> None) input (nat_of_int (200 + 24 * len)) (bytes_of "json") with
           | SMatch (_, _, f) -> "Ok " ^ forest_string f
           | SFail -> "Err"
           | SFuel -> incr fuelled; "Fuel"
         with Stack_overflow -> "Fuel") in
      let spec =
        (match rfc_parse input with
         | Some d -> incr acc; "Ok " ^ forest_string (tree_top rid (nat_of_int len) d)
         | None -> "Err") in
      if model <> impl then report "model" hexin impl model;
      if spec <> impl then report "spec" hexin impl spec;
      List.iter (fun x ->
        if String.length x > 3 && String.sub x 0 3 = "VM=" then report "model" (hexin ^ " vm") impl (String.sub x 3 (String.length x - 3))) rest
    | _ -> ());
  Printf.printf "#RUNNER\tcases=%d\tmismatches=%d\trfc_accepted=%d\tmodel_out_of_fuel=%d\n" !n !mismatches !acc !fuelled
