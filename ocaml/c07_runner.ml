(* C07 runner: reads the lines of rust/harness/src/bin/c07.rs.
   For every spelling (concrete grammar c, text t, result and token forest of the REAL reader):
     model : the extracted model of consume_rules (Meta.Consume.consume) run on the real forest must give the real result;
             the extracted Spec run of the transcribed grammar.pest (Meta.Consume.read's first half) must give the real forest;
             `M` line: the transcription of grammar.pest (Meta.Tokens.meta_grammar) must be the AST the real reader produces for it
     spec  : the real result must be Ok (abs c) (the property), unless the forest lies in the decidable known class
             (Meta.Spell.known_class) -> KNOWN line; the real forest must have the shape Meta.Spell.tokens_of_grammar c;
             cases with m=1 (escalated search, no written AST): when the specification reader (Meta.Tokens.meta_grammar under Peg.Spec,
             then Meta.Consume.consume) reads the text as Ok G, the real reader must return Ok G as well;
     harness: the generated spelling must satisfy wp / writable (the harness and Spell.v agree on what a legal spelling is). *)
open Meta_model
open Runner_common
type string = Stdlib.String.t

let rec nat_of_int i = if i <= 0 then O else S (nat_of_int (i - 1))
let rec pos_of_int i = if i <= 1 then XH else if i land 1 = 0 then XO (pos_of_int (i lsr 1)) else XI (pos_of_int (i lsr 1))
let n_of_int i = if i = 0 then N0 else Npos (pos_of_int i)
let z_of_int i = if i = 0 then Z0 else if i > 0 then Zpos (pos_of_int i) else Zneg (pos_of_int (-i))
let rec int_of_pos = function XH -> 1 | XO p -> 2 * int_of_pos p | XI p -> 2 * int_of_pos p + 1
let int_of_n = function N0 -> 0 | Npos p -> int_of_pos p
let int_of_z = function Z0 -> 0 | Zpos p -> int_of_pos p | Zneg p -> - (int_of_pos p)
let rec int_of_natv = function O -> 0 | S n -> 1 + int_of_natv n

let unhex (h : string) : byte list =
  if h = "-" then [] else List.init (String.length h / 2) (fun i -> n_of_int (int_of_string ("0x" ^ String.sub h (2 * i) 2)))
let bytes_of (s : string) : byte list = List.init (String.length s) (fun i -> n_of_int (Char.code s.[i]))
let string_of_bytes (l : byte list) : string = String.concat "" (List.map (fun b -> String.make 1 (Char.chr ((int_of_n b) land 255))) l)
let hex_of_bytes (l : byte list) : string = if l = [] then "-" else String.concat "" (List.map (fun b -> Printf.sprintf "%02x" (int_of_n b)) l)

(* ---- s-expressions ---- *)
type sx = A of string | L of sx list
let tokenize (s : string) : string list =
  let b = Buffer.create (String.length s + 16) in
  String.iter (fun c -> match c with '(' -> Buffer.add_string b " ( " | ')' -> Buffer.add_string b " ) " | c -> Buffer.add_char b c) s;
  List.filter (fun x -> x <> "") (String.split_on_char ' ' (Buffer.contents b))
let rec parse_sx (t : string list) : sx * string list =
  match t with
  | "(" :: r -> let rec items acc r = (match r with ")" :: r' -> (L (List.rev acc), r') | _ -> let x, r' = parse_sx r in items (x :: acc) r') in items [] r
  | a :: r -> (A a, r)
  | [] -> failwith "eof"
let sx_of_string s = fst (parse_sx (tokenize s))
let ios = int_of_string

(* abstract grammars, the format of gram.rs sexp_grammar *)
let rec expr_of (x : sx) : expr =
  match x with
  | L [A "str"; A h] -> EStr (unhex h) | L [A "ins"; A h] -> EInsens (unhex h)
  | L [A "range"; A a; A b] -> ERange (n_of_int (ios a), n_of_int (ios b))
  | L [A "id"; A n] -> EIdent (bytes_of n)
  | L [A "slice"; A i; A j] -> EPeekSlice (z_of_int (ios i), if j = "-" then None else Some (z_of_int (ios j)))
  | L [A "pos"; e] -> EPosPred (expr_of e) | L [A "neg"; e] -> ENegPred (expr_of e)
  | L [A "seq"; a; b] -> ESeq (expr_of a, expr_of b) | L [A "cho"; a; b] -> EChoice (expr_of a, expr_of b)
  | L [A "opt"; e] -> EOpt (expr_of e) | L [A "rep"; e] -> ERep (expr_of e) | L [A "rep1"; e] -> ERepOnce (expr_of e)
  | L [A "repx"; A n; e] -> ERepExact (expr_of e, n_of_int (ios n)) | L [A "repmin"; A n; e] -> ERepMin (expr_of e, n_of_int (ios n))
  | L [A "repmax"; A n; e] -> ERepMax (expr_of e, n_of_int (ios n))
  | L [A "repmm"; A m; A n; e] -> ERepMinMax (expr_of e, n_of_int (ios m), n_of_int (ios n))
  | L [A "push"; e] -> EPush (expr_of e) | L [A "pushlit"; A h] -> EPushLiteral (unhex h)
  | L [A "tag"; A t; e] -> ENodeTag (expr_of e, bytes_of t)
  | _ -> failwith "bad expr"
let rty_of = function "n" -> RNormal | "s" -> RSilent | "a" -> RAtomic | "c" -> RCompound | _ -> RNonAtomic
let ty_char = function RNormal -> "n" | RSilent -> "s" | RAtomic -> "a" | RCompound -> "c" | RNonAtomic -> "x"
let grammar_of (s : string) : grammar =
  List.map (fun r -> match sx_of_string r with L [A n; A t; e] -> { rname = bytes_of n; rty = rty_of t; rexpr = expr_of e } | _ -> failwith "bad rule")
    (String.split_on_char ';' s)
let rec sexp (e : expr) : string =
  let p = Printf.sprintf in
  match e with
  | EStr s -> p "(str %s)" (hex_of_bytes s) | EInsens s -> p "(ins %s)" (hex_of_bytes s)
  | ERange (a, b) -> p "(range %d %d)" (int_of_n a) (int_of_n b) | EIdent n -> p "(id %s)" (string_of_bytes n)
  | EPeekSlice (i, j) -> p "(slice %d %s)" (int_of_z i) (match j with None -> "-" | Some z -> string_of_int (int_of_z z))
  | EPosPred x -> p "(pos %s)" (sexp x) | ENegPred x -> p "(neg %s)" (sexp x)
  | ESeq (a, b) -> p "(seq %s %s)" (sexp a) (sexp b) | EChoice (a, b) -> p "(cho %s %s)" (sexp a) (sexp b)
  | EOpt x -> p "(opt %s)" (sexp x) | ERep x -> p "(rep %s)" (sexp x) | ERepOnce x -> p "(rep1 %s)" (sexp x)
  | ERepExact (x, n) -> p "(repx %d %s)" (int_of_n n) (sexp x) | ERepMin (x, n) -> p "(repmin %d %s)" (int_of_n n) (sexp x)
  | ERepMax (x, n) -> p "(repmax %d %s)" (int_of_n n) (sexp x) | ERepMinMax (x, m, n) -> p "(repmm %d %d %s)" (int_of_n m) (int_of_n n) (sexp x)
  | ESkip _ -> "(skip)" | EPush x -> p "(push %s)" (sexp x) | EPushLiteral s -> p "(pushlit %s)" (hex_of_bytes s)
  | ENodeTag (x, t) -> p "(tag %s %s)" (string_of_bytes t) (sexp x)
let sexp_grammar (g : grammar) : string =
  String.concat ";" (List.map (fun r -> Printf.sprintf "(%s %s %s)" (string_of_bytes r.rname) (ty_char r.rty) (sexp r.rexpr)) g)

(* concrete grammars, the format of c07.rs cgsexp *)
let cps (a : string) : n list = if a = "-" then [] else List.map (fun x -> n_of_int (ios x)) (String.split_on_char '.' a)
let oz (a : string) = if a = "-" then None else Some (z_of_int (ios a))
let rec cexpr_of (x : sx) : cexpr =
  match x with
  | L [A "str"; A c] -> CStr (cps c) | L [A "ins"; A c] -> CInsens (cps c)
  | L [A "range"; A a; A b] -> CRange (n_of_int (ios a), n_of_int (ios b)) | L [A "id"; A n] -> CIdent (bytes_of n)
  | L [A "slice"; A i; A j] -> CPeek (oz i, oz j)
  | L [A "pos"; e] -> CPos (cexpr_of e) | L [A "neg"; e] -> CNeg (cexpr_of e)
  | L [A "seq"; a; b] -> CSeq (cexpr_of a, cexpr_of b) | L [A "cho"; a; b] -> CChoice (cexpr_of a, cexpr_of b)
  | L [A "opt"; e] -> COpt (cexpr_of e) | L [A "rep"; e] -> CRep (cexpr_of e) | L [A "rep1"; e] -> CRepOnce (cexpr_of e)
  | L [A "repx"; A n; e] -> CRepExact (cexpr_of e, n_of_int (ios n)) | L [A "repmin"; A n; e] -> CRepMin (cexpr_of e, n_of_int (ios n))
  | L [A "repmax"; A n; e] -> CRepMax (cexpr_of e, n_of_int (ios n))
  | L [A "repmm"; A m; A n; e] -> CRepMinMax (cexpr_of e, n_of_int (ios m), n_of_int (ios n))
  | L [A "push"; A b; e] -> CPush (b = "1", cexpr_of e) | L [A "pushlit"; A c] -> CPushLit (cps c)
  | L [A "tag"; A t; e] -> CTag (cexpr_of e, bytes_of t) | L [A "paren"; A b; e] -> CParen (b = "1", cexpr_of e)
  | _ -> failwith "bad cexpr"
let cgrammar_of (s : string) : cgrammar =
  match sx_of_string s with
  | L (A "g" :: A gd :: A tr :: rules) ->
    { cg_docs = nat_of_int (ios gd); cg_trailing = nat_of_int (ios tr);
      cg_rules = List.map (function
        | L [A "r"; A d; A n; A t; A b; e] -> { cr_docs = nat_of_int (ios d); cr_name = bytes_of n; cr_ty = rty_of t; cr_bar = (b = "1"); cr_body = cexpr_of e }
        | _ -> failwith "bad crule") rules }
  | _ -> failwith "bad cgrammar"

(* token forests:  name(s,e)[children]...  *)
let rule_table : (string, mrule) Hashtbl.t =
  let h = Hashtbl.create 128 in
  List.iter (fun r -> Hashtbl.replace h (string_of_bytes (mrule_name r)) r) all_mrules; Hashtbl.replace h "EOI" MEOI; h
let parse_forest (s : string) : mtree list =
  let n = String.length s in
  let i = ref 0 in
  let rec forest () =
    let acc = ref [] in
    while !i < n && s.[!i] <> ']' do
      let j = String.index_from s !i '(' in
      let name = String.sub s !i (j - !i) in
      let c = String.index_from s j ',' in
      let k = String.index_from s c ')' in
      let st = ios (String.sub s (j + 1) (c - j - 1)) and en = ios (String.sub s (c + 1) (k - c - 1)) in
      i := k + 2;                                   (* skip ")[" *)
      let ch = forest () in
      incr i;                                       (* skip "]" *)
      let r = (try Hashtbl.find rule_table name with Not_found -> failwith ("unknown rule " ^ name)) in
      acc := MT (r, nat_of_int st, nat_of_int en, ch) :: !acc
    done;
    List.rev !acc in
  if s = "-" then [] else forest ()
let rec forest_string (f : mtree list) : string =
  String.concat "" (List.map (fun (MT (r, s, e, ch)) ->
    Printf.sprintf "%s(%d,%d)[%s]" (string_of_bytes (mrule_name r)) (int_of_natv s) (int_of_natv e) (forest_string ch)) f)

let render (r : rule list cres) : string =
  match r with
  | COk g -> "Ok " ^ sexp_grammar g
  | CErr (k, s, e) ->
    (match k with
     | ESyntax -> "Syntax"
     | _ -> Printf.sprintf "Err %s %d %d" (match k with ENumOverflow -> "overflow" | EZeroRepeat -> "zero" | EPushLiteralFeature -> "pushlit"
                                                    | EInvalidLiteral -> "invalid" | EPeekOverflow -> "peekoverflow" | ESyntax -> "syntax")
              (int_of_natv s) (int_of_natv e))
  | CPanic -> "Panic"
  | CFuel -> "Fuel"

let () =
  let readcheck = ref 1 in
  (* fix=<insens><bar><literal_err><peek_err> : the state of the tree as probed by the harness (default: as shipped) *)
  let fx = ref shipped in
  Array.iter (fun a ->
    if String.length a > 5 && String.sub a 0 5 = "read=" then readcheck := ios (String.sub a 5 (String.length a - 5));
    if String.length a = 8 && String.sub a 0 4 = "fix=" then
      fx := { fix_insens = a.[4] = '1'; fix_bar = a.[5] = '1'; fix_literal_err = a.[6] = '1'; fix_peek_err = a.[7] = '1' }) Sys.argv;
  let fx = !fx in
  let known_for mt = (not fx.fix_insens && List.exists known_insens_gap mt) || (not fx.fix_bar && List.exists (known_nested_bar false) mt) in
  let n = ref 0 and known = ref 0 and reads = ref 0 and invalid = ref 0 and known_bar = ref 0 and known_ins = ref 0 in
  let esc_reads = ref 0 and esc_legal = ref 0 and esc_agree = ref 0 and esc_skipped = ref 0 in
  let has_field case k = List.exists (fun s -> String.length s > String.length k && String.sub s 0 (String.length k + 1) = k ^ "=") (String.split_on_char '|' case) in
  read_lines (fun line ->
    if String.length line > 0 && line.[0] = '#' then print_endline line
    else match split_tab line with
    | "CONTRACT" :: _ -> print_endline line
    | ["M"; g] ->
      incr n;
      let mine = sexp_grammar meta_grammar in
      if mine <> g then report "model" "metagrammar (coq/Meta/Tokens.v meta_grammar vs the real reader on grammar.pest)" g mine
    | [case; impl] when has_field case "m" ->
      (* escalated search: the text is not known to spell a given grammar; what it means is decided by the specification reader *)
      (try
        incr n; incr esc_reads;
        let f = String.split_on_char '|' case in
        let get k = let p = k ^ "=" in let x = List.find (fun s -> String.length s > String.length p - 1 && String.sub s 0 (String.length p) = p) f in
                    String.sub x (String.length p) (String.length x - String.length p) in
        let extras = get "x" = "1" in
        let text = unhex (get "t") in
        let bar = String.index impl '|' in
        let res = String.sub impl 0 bar in
        let fuel = nat_of_int (200 + 40 * List.length text) in
        (match (try spec_parse meta_grammar false (fun _ -> None) text fuel (bytes_of "grammar_rules") with Stack_overflow -> SFuel) with
         | SMatch (_, _, sf) ->
           let mt = List.map of_tree sf in
           let model = render (consume fx extras text mt) in
           if String.length model > 3 && String.sub model 0 3 = "Ok " then begin
             incr esc_legal;
             if res = model then incr esc_agree
             else if res = "Invalid" || known_for mt then incr esc_skipped
             else report "spec" case res model
           end
         | SFail | SFuel -> ())
      with Failure m | Invalid_argument m -> report "harness" case impl ("runner cannot read the line: " ^ m) | Not_found -> report "harness" case impl "runner cannot read the line")
    | [case; impl] ->
      (try
        incr n;
        let f = String.split_on_char '|' case in
        let get k = let p = k ^ "=" in let x = List.find (fun s -> String.length s > String.length p - 1 && String.sub s 0 (String.length p) = p) f in
                    String.sub x (String.length p) (String.length x - String.length p) in
        let extras = get "x" = "1" in
        let cg = cgrammar_of (get "c") in
        let text = unhex (get "t") in
        let bar = String.index impl '|' in
        let res = String.sub impl 0 bar and fo = String.sub impl (bar + 1) (String.length impl - bar - 1) in
        let expected = "Ok " ^ sexp_grammar (abs_grammar cg) in
        let have_forest = fo <> "-" || res <> "Syntax" && res <> "Panic" in
        let mt = if have_forest then parse_forest fo else [] in
        (* harness vs Spell.v on legality *)
        List.iter (fun r -> if not (wp r.cr_body) then report "harness" case "wp = false" "a well-parenthesised spelling";
                            if not (writable extras r.cr_body) then report "harness" case "writable = false" "a writable spelling") cg.cg_rules;
        if have_forest then begin
          (* model of consume_rules on the real forest *)
          let model = render (consume fx extras text mt) in
          if res = "Invalid" then begin incr invalid; if model <> expected && not (known_for mt) then report "spec" case ("model:" ^ model) expected end
          else if model <> res then report "model" case res model;
          (* shape of the forest *)
          if not (shape_list_eqb (tokens_of_grammar cg) mt) then report "spec" case ("forest " ^ fo) "the shape tokens_of_grammar c";
          (* the transcribed meta-grammar under Spec gives the same forest *)
          if !readcheck > 0 && !n mod !readcheck = 0 then begin
            incr reads;
            let fuel = nat_of_int (200 + 40 * List.length text) in
            match (try spec_parse meta_grammar false (fun _ -> None) text fuel (bytes_of "grammar_rules") with Stack_overflow -> SFuel) with
            | SMatch (_, _, sf) -> let s = forest_string (List.map of_tree sf) in if s <> fo then report "model" (case ^ " [Spec run of meta_grammar]") fo s
            | SFail -> report "model" (case ^ " [Spec run of meta_grammar]") fo "Syntax"
            | SFuel -> report "model" (case ^ " [Spec run of meta_grammar]") fo "Fuel"
          end
        end;
        (* the property *)
        if res <> expected && res <> "Invalid" then begin
          if have_forest && known_for mt then begin
            incr known;
            let cls = if not fx.fix_bar && List.exists (known_nested_bar false) mt then (incr known_bar; "nested-bar") else (incr known_ins; "insens-gap") in
            if !known <= 40 then Printf.printf "KNOWN\t%s\t%s\t%s\t%s\n" cls case res expected
          end else report "spec" case res expected
        end
      with Failure m | Invalid_argument m -> report "harness" case impl ("runner cannot read the line: " ^ m) | Not_found -> report "harness" case impl "runner cannot read the line")
    | _ -> ());
  Printf.printf "#RUNNER\tcases=%d\tmismatches=%d\tknown_class=%d\tknown_nested_bar=%d\tknown_insens_gap=%d\tspec_forest_checks=%d\tinvalid_checked_on_model=%d\tescalation_spec_reads=%d\tescalation_read_as_a_grammar_by_the_specification=%d\tescalation_agreeing=%d\tescalation_outside_C07=%d\n"
    !n !mismatches !known !known_bar !known_ins !reads !invalid !esc_reads !esc_legal !esc_agree !esc_skipped
