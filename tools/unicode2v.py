#!/usr/bin/env python3
"""unicode2v.py - translator for property C16 (Unicode property rules).

Re-reads, from the repository given by $VERIF_REPO (default /repo):
  pest/src/unicode/{binary,category,script}.rs   every `TrieSet` constant (all six arrays) and the BY_NAME table
  pest/src/unicode/mod.rs                        the property_functions!/char_property_functions! macros, their three
                                                 invocations (function + advertised-name lists), unicode_property_names, by_name
  meta/src/validator.rs                          the BUILTINS list
  generator/src/generator.rs                     generate_builtin_rules (insert_builtin! names + the unicode loop)
  vm/src/lib.rs                                  the hard-coded names of Vm::parse_rule and its fall-back to unicode::by_name
and writes coq/gen/Unicode{Binary,Category,Script,Names}.v (only when the content changed).

The translator is deliberately strict: it understands exactly the shapes that exist today (plus the few variations
listed in the code) and raises TranslatorError on anything else, so that an edit it cannot read can never be
translated into a model that silently still satisfies the theorems.  The generated files are one definition per
line in a tiny subset of Gallina which ocaml/c16_runner.ml parses too (the model-side digests are computed from
the very text Coq checks).

Also provides, for the driver's failing-input search, a plain python re-implementation of the chunk view of a
table (`chunk_words`) and of the three table theorems (`find_table_witness`)."""
import os
import re
import sys

MODULES = ["binary", "category", "script"]
FIELDS = ["tree1_level1", "tree2_level1", "tree2_level2", "tree3_level1", "tree3_level2", "tree3_level3"]
FIELD_BITS = {"tree1_level1": 64, "tree2_level1": 8, "tree2_level2": 64, "tree3_level1": 8, "tree3_level2": 8, "tree3_level3": 64}
NCHUNKS = 0x110000 // 64  # 17408
IDENT = re.compile(r"^[A-Za-z_][A-Za-z0-9_]*$")


class TranslatorError(Exception):
    pass


def repo_root():
    return os.environ.get("VERIF_REPO", "/repo")


def strip_comments(src):
    """Remove // and /* */ comments outside string/char literals."""
    out = []
    i, n = 0, len(src)
    while i < n:
        c = src[i]
        if c == '"':
            j = i + 1
            while j < n and src[j] != '"':
                j += 2 if src[j] == "\\" else 1
            out.append(src[i:j + 1])
            i = j + 1
        elif c == "'" and i + 2 < n and (src[i + 2] == "'" or (src[i + 1] == "\\" and "'" in src[i + 2:i + 8])):
            j = src.index("'", i + 2 if src[i + 1] != "\\" else i + 3)
            out.append(src[i:j + 1])
            i = j + 1
        elif src.startswith("//", i):
            j = src.find("\n", i)
            i = n if j < 0 else j
        elif src.startswith("/*", i):
            depth, j = 1, i + 2
            while j < n and depth:
                if src.startswith("/*", j):
                    depth += 1
                    j += 2
                elif src.startswith("*/", j):
                    depth -= 1
                    j += 2
                else:
                    j += 1
            i = j
        else:
            out.append(c)
            i += 1
    return "".join(out)


TOKEN = re.compile(r'"(?:[^"\\]|\\.)*"|\'(?:[^\'\\]|\\.)\'|[A-Za-z_][A-Za-z0-9_]*|0x[0-9A-Fa-f_]+|[0-9][0-9_]*|::|->|=>|==|&&|\.\.|\$\w+|#\w+|@\w+@|\S')


def norm(src):
    """Whitespace-insensitive canonical form: tokens joined by single blanks (trailing commas before a closer dropped)."""
    toks = TOKEN.findall(src)
    out = []
    for k, t in enumerate(toks):
        if t == "," and k + 1 < len(toks) and toks[k + 1] in (")", "]", "}"):
            continue
        out.append(t)
    if out and out[-1] == ",":
        out.pop()
    return " ".join(out)


def read(rel):
    path = os.path.join(repo_root(), rel)
    try:
        with open(path, encoding="utf-8") as f:
            return f.read()
    except OSError as e:
        raise TranslatorError("cannot read %s: %s" % (path, e))


def balanced(src, start, open_c, close_c):
    """src[start] == open_c; returns index just after the matching closer (string literals skipped)."""
    assert src[start] == open_c, (src[start:start + 20], open_c)
    depth, i, n = 0, start, len(src)
    while i < n:
        c = src[i]
        if c == '"':
            i += 1
            while i < n and src[i] != '"':
                i += 2 if src[i] == "\\" else 1
        elif c == "'" and i + 2 < n and src[i + 2] == "'":
            i += 2
        elif c == "'" and i + 3 < n and src[i + 1] == "\\" and src[i + 3] == "'":
            i += 3
        elif c == open_c:
            depth += 1
        elif c == close_c:
            depth -= 1
            if depth == 0:
                return i + 1
        i += 1
    raise TranslatorError("unbalanced %s%s" % (open_c, close_c))


# ---------------------------------------------------------------------------------------------
# the three table modules
# ---------------------------------------------------------------------------------------------

TRIE_RE = re.compile(r"pub const (\w+): &'static ::ucd_trie::TrieSet = &::ucd_trie::TrieSet \{(.*?)\n\};", re.S)
BYNAME_RE = re.compile(r"pub const BY_NAME: &'static \[\(&'static str, &'static ::ucd_trie::TrieSet\)\] = &\[(.*?)\n\];", re.S)
NUM_RE = re.compile(r"0x[0-9A-Fa-f]+|[0-9]+")


def parse_table_module(mod):
    rel = "pest/src/unicode/%s.rs" % mod
    src = strip_comments(read(rel))
    m = BYNAME_RE.search(src)
    if not m:
        raise TranslatorError("%s: BY_NAME table not found in the expected shape" % rel)
    body = m.group(1)
    by_name = re.findall(r'\(\s*"([^"\\]*)"\s*,\s*(\w+)\s*\)', body)
    if norm(body) != norm(", ".join('("%s", %s)' % e for e in by_name)):
        raise TranslatorError("%s: BY_NAME has entries of an unknown shape" % rel)
    rest = src[:m.start()] + src[m.end():]
    tables = {}
    order = []
    for tm in TRIE_RE.finditer(rest):
        name, tbody = tm.group(1), tm.group(2)
        fields = {}
        pos = 0
        for fm in re.finditer(r"\s*(\w+): &\[(.*?)\],", tbody, re.S):
            if fm.start() != pos:
                raise TranslatorError("%s: %s: unreadable text between fields" % (rel, name))
            pos = fm.end()
            fname, nums = fm.group(1), fm.group(2)
            if fname in fields or fname not in FIELD_BITS:
                raise TranslatorError("%s: %s: unexpected or repeated field %s" % (rel, name, fname))
            vals = NUM_RE.findall(nums)
            if norm(nums) != norm(", ".join(vals)):
                raise TranslatorError("%s: %s.%s: not a plain list of integer literals" % (rel, name, fname))
            ints = [int(v, 0) for v in vals]
            lim = 1 << FIELD_BITS[fname]
            for v in ints:
                if v >= lim:
                    raise TranslatorError("%s: %s.%s: literal %d does not fit u%d" % (rel, name, fname, v, FIELD_BITS[fname]))
            fields[fname] = ints
        if tbody[pos:].strip():
            raise TranslatorError("%s: %s: unreadable trailing text in the TrieSet literal" % (rel, name))
        if sorted(fields) != sorted(FIELDS):
            raise TranslatorError("%s: %s: fields %s (expected the six tree arrays)" % (rel, name, sorted(fields)))
        if name in tables:
            raise TranslatorError("%s: constant %s defined twice" % (rel, name))
        tables[name] = fields
        order.append(name)
    leftover = TRIE_RE.sub("", rest).strip()
    if leftover:
        raise TranslatorError("%s: text the translator cannot read: %r" % (rel, leftover[:200]))
    for disp, const in by_name:
        if const not in tables:
            raise TranslatorError("%s: BY_NAME entry (%s, %s) names no TrieSet constant of this module" % (rel, disp, const))
        if not all(ord(ch) < 128 for ch in disp):
            raise TranslatorError("%s: BY_NAME name %r is not ASCII (to_uppercase is modelled for ASCII only)" % (rel, disp))
    return {"module": mod, "order": order, "tables": tables, "by_name": by_name}


# ---------------------------------------------------------------------------------------------
# mod.rs
# ---------------------------------------------------------------------------------------------

PROPERTY_FUNCTIONS_EXPECTED = norm(r"""
    ($module:ident, $property_names:ident, [$(
        $prop:ident,
    )*]) => {
        #[allow(unused)]
        mod $module;
        $(pub fn $prop(c: char) -> bool {
            @TABLE@.contains_char(c)
        })*

        pub static $property_names: &[&str] = &[
            $(stringify!($prop),)*
        ];
    };
""")

CHAR_PROPERTY_FUNCTIONS_EXPECTED = norm(r"""
    {$(
        mod $module:ident;
        static $property_names:ident = [$(
            $prop:ident,
        )*];
    )*} => {$(
        property_functions!($module, $property_names, [$(
            $prop,
        )*]);
    )*};
    {$(
        mod $module:ident;
        static $property_names:ident = [$(
            ($_name:tt, $prop:ident),
        )*];
    )*} => {$(
        property_functions!($module, $property_names, [$(
            $prop,
        )*]);
    )*};
""")

UPN_EXPECTED = re.compile(
    r"^\{ Box :: new \( (\w+) \. iter \( \) \. map \( \| name \| \* name \)((?: \. chain \( \w+ \. iter \( \) \. map \( \| name \| \* name \) \))*) \) \}$")

BYNAME_LOOP = re.compile(
    r"for property in (\w+) :: BY_NAME \{ if name == property \. 0( \. to_uppercase \( \)| \. to_lowercase \( \)| \. to_ascii_uppercase \( \)|) "
    r"\{ return Some \( Box :: new \( move \| c \| property \. 1 \. contains_char \( c \) \) \) ; \} \} ")


def macro_body(src, name):
    m = re.search(r"macro_rules!\s+%s\s*\{" % re.escape(name), src)
    if not m:
        raise TranslatorError("mod.rs: macro %s not found" % name)
    end = balanced(src, m.end() - 1, "{", "}")
    return src[m.end():end - 1], (m.start(), end)


def fn_body(src, rel, header_re):
    m = re.search(header_re, src)
    if not m:
        raise TranslatorError("%s: function matching %s not found" % (rel, header_re))
    start = src.index("{", m.end() - 1) if src[m.end() - 1] != "{" else m.end() - 1
    end = balanced(src, start, "{", "}")
    return src[start:end], (m.start(), end)


def parse_mod_rs(mods):
    rel = "pest/src/unicode/mod.rs"
    src = strip_comments(read(rel))
    spans = []

    body, sp = macro_body(src, "property_functions")
    spans.append(sp)
    nb = norm(body)
    tm = re.search(r"\{ (self :: \$module :: (?:\$prop|\w+)) \. contains_char \( c \) \}", nb)
    if not tm or nb.replace(tm.group(1), "@TABLE@", 1) != PROPERTY_FUNCTIONS_EXPECTED:
        raise TranslatorError("%s: macro property_functions! has a shape the translator cannot read" % rel)
    table_expr = tm.group(1).split(" :: ")[2]          # "$prop" (same-named table) or a fixed identifier

    body, sp = macro_body(src, "char_property_functions")
    spans.append(sp)
    if norm(body) != CHAR_PROPERTY_FUNCTIONS_EXPECTED:
        raise TranslatorError("%s: macro char_property_functions! has a shape the translator cannot read" % rel)

    # invocations
    functions = []          # (module, static name, [prop...]) in source order
    for m in re.finditer(r"char_property_functions!\s*\{", src):
        end = balanced(src, m.end() - 1, "{", "}")
        spans.append((m.start(), end))
        inner = src[m.end():end - 1]
        pos = 0
        for bm in re.finditer(r"\s*mod (\w+);\s*static (\w+) = \[(.*?)\];", inner, re.S):
            if bm.start() != pos:
                raise TranslatorError("%s: unreadable text inside char_property_functions!{...}" % rel)
            pos = bm.end()
            module, static, items = bm.group(1), bm.group(2), bm.group(3)
            plain = re.findall(r"[A-Za-z_][A-Za-z0-9_]*", items)
            pairs = re.findall(r'\(\s*"([^"\\]*)"\s*,\s*(\w+)\s*\)', items)
            if pairs and norm(items) == norm(", ".join('("%s", %s)' % p for p in pairs)):
                props = [p[1] for p in pairs]
            elif norm(items) == norm(", ".join(plain)):
                props = plain
            else:
                raise TranslatorError("%s: the list of %s mixes shapes the macro does not accept" % (rel, static))
            if module not in mods:
                raise TranslatorError("%s: property module %s is not one of %s" % (rel, module, MODULES))
            functions.append((module, static, props))
        if inner[pos:].strip():
            raise TranslatorError("%s: unreadable trailing text inside char_property_functions!{...}" % rel)

    body, sp = fn_body(src, rel, r"pub fn unicode_property_names\(\) -> Box<dyn Iterator<Item = &'static str>> \{")
    spans.append(sp)
    um = UPN_EXPECTED.match(norm(body))
    if not um:
        raise TranslatorError("%s: unicode_property_names has a shape the translator cannot read" % rel)
    chain = [um.group(1)] + re.findall(r"chain \( (\w+) \.", um.group(2))

    body, sp = fn_body(src, rel, r"pub fn by_name\(name: &str\) -> Option<Box<dyn Fn\(char\) -> bool>> \{")
    spans.append(sp)
    nb = norm(body)
    if not (nb.startswith("{ ") and nb.endswith(" None }")):
        raise TranslatorError("%s: by_name has a shape the translator cannot read" % rel)
    inner = nb[2:-len("None }")]
    loops = []
    pos = 0
    for lm in BYNAME_LOOP.finditer(inner):
        if lm.start() != pos:
            break
        pos = lm.end()
        xf = {"": "XId", ". to_uppercase ( )": "XUpper", ". to_ascii_uppercase ( )": "XUpper", ". to_lowercase ( )": "XLower"}[lm.group(2).strip()]
        if lm.group(1) not in mods:
            raise TranslatorError("%s: by_name loops over unknown module %s" % (rel, lm.group(1)))
        loops.append((lm.group(1), xf))
    if pos != len(inner):
        raise TranslatorError("%s: by_name has a shape the translator cannot read (near %r)" % (rel, inner[pos:pos + 80]))

    # whatever remains must be the known prelude
    rest = src
    for a, b in sorted(spans, reverse=True):
        rest = rest[:a] + rest[b:]
    if norm(rest) != norm("#![allow(bad_style)] #![allow(clippy::all)] use alloc::boxed::Box;"):
        raise TranslatorError("%s: text the translator cannot read: %r" % (rel, norm(rest)[:200]))

    statics = {s: (mo, props) for mo, s, props in functions}
    if len(statics) != len(functions):
        raise TranslatorError("%s: a name list is defined twice" % rel)
    for s in chain:
        if s not in statics:
            raise TranslatorError("%s: unicode_property_names chains %s, which no char_property_functions! block defines" % (rel, s))
    # resolve the table every generated function reads
    wired = []
    for module, static, props in functions:
        lst = []
        for p in props:
            const = p if table_expr == "$prop" else table_expr
            if const not in mods[module]["tables"]:
                raise TranslatorError("%s: function %s would read %s::%s, which does not exist" % (rel, p, module, const))
            lst.append((p, module, const))
        wired.append((module, static, lst))
    return {"functions": wired, "chain": chain, "by_name_loops": loops, "table_expr": table_expr}


# ---------------------------------------------------------------------------------------------
# validator / generator / vm
# ---------------------------------------------------------------------------------------------

def string_list(items, what):
    strs = re.findall(r'"([^"\\]*)"', items)
    if norm(items) != norm(", ".join('"%s"' % s for s in strs)):
        raise TranslatorError("%s: not a plain list of string literals" % what)
    return strs


def parse_validator():
    rel = "meta/src/validator.rs"
    src = strip_comments(read(rel))
    m = re.search(r"static BUILTINS: LazyLock<HashSet<&'static str>> = LazyLock::new\(\|\| \{\s*\[(.*?)\]\s*(.*?)\s*\}\);", src, re.S)
    if not m:
        raise TranslatorError("%s: BUILTINS not found in the expected shape" % rel)
    lits = string_list(m.group(1), rel + ": BUILTINS")
    tail = norm(m.group(2))
    if tail == norm(".iter().cloned().chain(unicode_property_names()).collect::<HashSet<&str>>()"):
        chains = True
        if not re.search(r"^use pest::unicode::unicode_property_names;", src, re.M):
            raise TranslatorError("%s: unicode_property_names is not pest::unicode::unicode_property_names" % rel)
    elif tail == norm(".iter().cloned().collect::<HashSet<&str>>()"):
        chains = False
    else:
        raise TranslatorError("%s: BUILTINS is built in a way the translator cannot read: %s" % (rel, tail[:160]))
    uses = len(re.findall(r"\bBUILTINS\b", src)) - 1
    if not re.search(r"!definitions\.contains\(name\) && !BUILTINS\.contains\(name\)", src):
        raise TranslatorError("%s: validate_undefined no longer consults BUILTINS in the expected way" % rel)
    return {"literals": lits, "chains_unicode": chains, "uses": uses}


def parse_generator():
    rel = "generator/src/generator.rs"
    src = strip_comments(read(rel))
    body, _ = fn_body(src, rel, r"fn generate_builtin_rules\(\) -> Vec<\(&'static str, TokenStream\)> \{")
    names = []
    pos = 0
    rest = body
    # insert_builtin!(builtins, NAME, pattern);
    out = []
    i = 0
    while True:
        m = re.search(r"insert_builtin!\s*\(", rest[i:])
        if not m:
            out.append(rest[i:])
            break
        out.append(rest[i:i + m.start()])
        start = i + m.end() - 1
        end = balanced(rest, start, "(", ")")
        args = rest[start + 1:end - 1]
        am = re.match(r"\s*builtins\s*,\s*(\w+)\s*,", args)
        if not am:
            raise TranslatorError("%s: insert_builtin! with unreadable arguments" % rel)
        names.append(am.group(1))
        i = end
        if rest[i:i + 1] == ";":
            i += 1
    remaining = norm("".join(out))
    loop = norm("""
        for property in unicode_property_names() {
            let property_ident: Ident = syn::parse_str(property).unwrap();
            builtins.push((property, quote! {
                #[inline]
                #[allow(dead_code, non_snake_case, unused_variables)]
                fn #property_ident(state: #box_ty<::pest::ParserState<'_, Rule>>) -> ::pest::ParseResult<#box_ty<::pest::ParserState<'_, Rule>>> {
                    state.match_char_by(::pest::unicode::#property_ident)
                }
            }));
        }""")
    with_loop = norm("{ let mut builtins = Vec::new(); let box_ty = box_type();") + " " + loop + " builtins }"
    without = norm("{ let mut builtins = Vec::new(); let box_ty = box_type(); builtins }")
    if remaining == with_loop:
        has_loop = True
        if not re.search(r"^use pest::unicode::unicode_property_names;", src, re.M):
            raise TranslatorError("%s: unicode_property_names is not pest::unicode::unicode_property_names" % rel)
    elif remaining == without:
        has_loop = False
    else:
        raise TranslatorError("%s: generate_builtin_rules has a shape the translator cannot read" % rel)
    # the consumer: builtins are emitted iff the grammar uses them
    if norm("rules.extend(builtins.into_iter().filter_map(|(builtin, tokens)| { if defaults.contains(&builtin) { Some(tokens) } else { None } }));") not in norm(src):
        raise TranslatorError("%s: generate() no longer selects built-ins by `defaults.contains`" % rel)
    return {"literals": names, "unicode_loop": has_loop}


def parse_vm():
    rel = "vm/src/lib.rs"
    src = strip_comments(read(rel))
    body, _ = fn_body(src, rel, r"fn parse_rule<'a>\(")
    m = re.search(r"match rule \{", body)
    if not m:
        raise TranslatorError("%s: parse_rule: `match rule` not found" % rel)
    mend = balanced(body, m.end() - 1, "{", "}")
    arms = body[m.end():mend - 1]
    hard = []
    depth = 0
    # top-level arms only:  "NAME" => ...
    i = 0
    while i < len(arms):
        c = arms[i]
        if c in "{(":
            i = balanced(arms, i, c, "}" if c == "{" else ")")
            continue
        am = re.match(r'"([^"\\]*)"\s*=>', arms[i:])
        if am:
            hard.append(am.group(1))
            i += am.end()
            continue
        if c == '"':
            i = arms.index('"', i + 1) + 1
            continue
        i += 1
    if not re.search(r"_\s*=>\s*\(\)\s*,?\s*$", arms):
        raise TranslatorError("%s: parse_rule: the hard-coded match no longer ends with `_ => ()`" % rel)
    after = norm(body[mend:])
    fb = norm("else { if let Some(property) = unicode::by_name(rule) { return state.match_char_by(property); } panic!(\"undefined rule {rule}\"); } }")
    if not after.startswith("; if let Some ( rule ) = self . rules . get ( rule ) {"):
        raise TranslatorError("%s: parse_rule: user rules are no longer looked up right after the hard-coded names" % rel)
    if after.endswith(fb):
        fallback = True
        if not re.search(r"^use pest::\{unicode, Position\};|^use pest::unicode;", src, re.M):
            raise TranslatorError("%s: `unicode` is not pest::unicode" % rel)
    elif after.endswith(norm("else { panic!(\"undefined rule {rule}\"); } }")):
        fallback = False
    else:
        raise TranslatorError("%s: parse_rule: the fall-back for names that are not user rules has an unknown shape" % rel)
    return {"hardcoded": hard, "fallback_by_name": fallback}


# ---------------------------------------------------------------------------------------------
# everything
# ---------------------------------------------------------------------------------------------

def translate():
    mods = {m: parse_table_module(m) for m in MODULES}
    data = {"modules": mods}
    data.update(parse_mod_rs(mods))
    data["validator"] = parse_validator()
    data["generator"] = parse_generator()
    data["vm"] = parse_vm()
    for _, _, lst in data["functions"]:
        for p, _, _ in lst:
            if not IDENT.match(p):
                raise TranslatorError("property name %r is not an identifier" % p)
    return data


def coq_str(s):
    return '"' + s.replace('"', '""') + '"'


def coq_list(items):
    return "[" + "; ".join(items) + "]"


HEADER = "(* GENERATED by tools/unicode2v.py from %s - do not edit; regenerated on every check run. *)\n"


def render(data):
    """-> {filename: content} for coq/gen/."""
    files = {}
    for mod in MODULES:
        md = data["modules"][mod]
        L = [HEADER % ("pest/src/unicode/%s.rs" % mod),
             "From Coq Require Import NArith List String.", "Require Import PV.Unicode.Trie.",
             "Import ListNotations.", "Open Scope N_scope.", "Open Scope string_scope."]
        for name in md["order"]:
            f = md["tables"][name]
            L.append("Definition %s_%s : trie := mk_trie %s." % (mod, name, " ".join(coq_list([str(v) for v in f[k]]) for k in FIELDS)))
        L.append("Definition %s_BY_NAME : list (string * trie) := %s." %
                 (mod, coq_list(["(%s, %s_%s)" % (coq_str(d), mod, c) for d, c in md["by_name"]])))
        L.append("Definition %s_TABLES : list (string * trie) := %s." %
                 (mod, coq_list(["(%s, %s_%s)" % (coq_str(c), mod, c) for c in md["order"]])))
        files["Unicode%s.v" % mod.capitalize()] = "\n".join(L) + "\n"
    L = [HEADER % "pest/src/unicode/mod.rs, meta/src/validator.rs, generator/src/generator.rs, vm/src/lib.rs",
         "From Coq Require Import NArith List String.", "Require Import PV.Unicode.Trie PV.Unicode.Names.",
         "Require Import PV.gen.UnicodeBinary PV.gen.UnicodeCategory PV.gen.UnicodeScript.",
         "Import ListNotations.", "Open Scope string_scope."]
    for module, static, lst in data["functions"]:
        L.append("Definition %s_FUNCTIONS : list (string * trie) := %s." %
                 (static, coq_list(["(%s, %s_%s)" % (coq_str(p), mo, c) for p, mo, c in lst])))
        L.append("Definition %s : list string := %s." % (static, coq_list([coq_str(p) for p, _, _ in lst])))
    L.append("Definition pest_unicode_functions : list (string * trie) := %s." %
             (" ++ ".join("%s_FUNCTIONS" % s for _, s, _ in data["functions"]) or "[]"))
    L.append("Definition unicode_property_names : list string := %s." % (" ++ ".join(data["chain"]) or "[]"))
    L.append("Definition script_property_names : list string := %s." %
             (" ++ ".join(s for mo, s, _ in data["functions"] if mo == "script") or "[]"))
    L.append("Definition category_property_names : list string := %s." %
             (" ++ ".join(s for mo, s, _ in data["functions"] if mo == "category") or "[]"))
    L.append("Definition by_name_loops : list (xform * list (string * trie)) := %s." %
             coq_list(["(%s, %s_BY_NAME)" % (xf, mo) for mo, xf in data["by_name_loops"]]))
    v = data["validator"]
    L.append("Definition validator_literals : list string := %s." % coq_list([coq_str(s) for s in v["literals"]]))
    L.append("Definition validator_chains_unicode : bool := %s." % ("true" if v["chains_unicode"] else "false"))
    g = data["generator"]
    L.append("Definition generator_literals : list string := %s." % coq_list([coq_str(s) for s in g["literals"]]))
    L.append("Definition generator_unicode_loop : bool := %s." % ("true" if g["unicode_loop"] else "false"))
    vm = data["vm"]
    L.append("Definition vm_hardcoded : list string := %s." % coq_list([coq_str(s) for s in vm["hardcoded"]]))
    L.append("Definition vm_fallback_by_name : bool := %s." % ("true" if vm["fallback_by_name"] else "false"))
    files["UnicodeNames.v"] = "\n".join(L) + "\n"
    return files


def write_if_changed(path, content):
    try:
        with open(path, encoding="utf-8") as f:
            if f.read() == content:
                return False
    except FileNotFoundError:
        pass
    os.makedirs(os.path.dirname(path), exist_ok=True)
    tmp = path + ".tmp"
    with open(tmp, "w", encoding="utf-8") as f:
        f.write(content)
    os.replace(tmp, path)
    return True


def generate(outdir):
    """Translate and write; returns (data, [files changed])."""
    data = translate()
    changed = []
    for name, content in sorted(render(data).items()):
        if write_if_changed(os.path.join(outdir, name), content):
            changed.append(name)
    return data, changed


# ---------------------------------------------------------------------------------------------
# python view of the tables, used ONLY to search for a concrete failing code point when a theorem breaks
# ---------------------------------------------------------------------------------------------

def chunk_words(f):
    """The 17408 64-bit words of a table (None where the Rust lookup would panic), following TrieSetSlice::contains."""
    out = []
    t1, t2l1, t2l2, t3l1, t3l2, t3l3 = (f[k] for k in FIELDS)
    for k in range(NCHUNKS):
        if k < 32:
            out.append(t1[k] if k < len(t1) else None)
        elif k < 1024:
            i = k - 32
            if i >= len(t2l1):
                out.append(0)
            else:
                leaf = t2l1[i]
                out.append(t2l2[leaf] if leaf < len(t2l2) else None)
        else:
            i = (k >> 6) - 16
            if i >= len(t3l1):
                out.append(0)
            else:
                j = t3l1[i] * 64 + (k & 63)
                if j >= len(t3l2):
                    out.append(None)
                else:
                    leaf = t3l2[j]
                    out.append(t3l3[leaf] if leaf < len(t3l3) else None)
    return out


def lowest_bit(w):
    return (w & -w).bit_length() - 1


def find_table_witness(data, two_letter, groups):
    """Search the translated tables for a code point violating one of the three table theorems.
    Returns a list of dicts {theorem, cp, names, detail}; empty if the tables satisfy all three."""
    fn = {}
    for _, _, lst in data["functions"]:
        for p, mo, c in lst:
            fn.setdefault(p, (mo, c))
    cache = {}

    def words(name):
        if name not in fn:
            return None
        key = fn[name]
        if key not in cache:
            cache[key] = chunk_words(data["modules"][key[0]]["tables"][key[1]])
        return cache[key]

    found = []
    FULL = (1 << 64) - 1
    # scalar values first, the surrogate chunks (0xD800..0xDFFF = chunks 864..895) last
    ORDER = [k for k in range(NCHUNKS) if not 864 <= k < 896] + list(range(864, 896))

    def panic_check(names, thm):
        for n in names:
            w = words(n)
            if w is None:
                found.append({"theorem": thm, "name": n, "detail": "no function pest::unicode::%s is generated" % n})
                return True
            for k, x in enumerate(w):
                if x is None:
                    found.append({"theorem": thm, "cp": k * 64, "names": [n],
                                  "detail": "the lookup in table %s indexes out of bounds (panics) for code points of chunk %d" % (n, k)})
                    return True
        return False

    if not panic_check(two_letter, "categories_partition"):
        ws = [words(n) for n in two_letter]
        for k in ORDER:
            acc = 0
            bad = None
            for w in ws:
                if acc & w[k]:
                    bad = lowest_bit(acc & w[k])
                    break
                acc |= w[k]
            if bad is None and acc != FULL:
                bad = lowest_bit(~acc & FULL)
            if bad is not None:
                cp = k * 64 + bad
                hit = [n for n, w in zip(two_letter, ws) if (w[k] >> bad) & 1]
                found.append({"theorem": "categories_partition", "cp": cp, "names": hit,
                              "detail": "U+%04X is matched by %d two-letter categories %s (expected exactly one)" % (cp, len(hit), hit)})
                break
    for g, members in groups:
        if panic_check([g] + members, "groups_are_unions"):
            break
        wg = words(g)
        wm = [words(n) for n in members]
        for k in ORDER:
            u = 0
            for w in wm:
                u |= w[k]
            if u != wg[k]:
                bad = lowest_bit(u ^ wg[k])
                cp = k * 64 + bad
                hit = [n for n, w in zip(members, wm) if (w[k] >> bad) & 1]
                found.append({"theorem": "groups_are_unions", "cp": cp, "names": [g] + members,
                              "detail": "U+%04X: %s matches=%s but members matching=%s" % (cp, g, bool((wg[k] >> bad) & 1), hit)})
                break
        if found and found[-1]["theorem"] == "groups_are_unions":
            break
    scripts = [p for mo, _, lst in data["functions"] if mo == "script" for p, _, _ in lst]
    if not panic_check(scripts, "scripts_disjoint"):
        ws = [words(n) for n in scripts]
        for k in ORDER:
            acc = 0
            bad = None
            for w in ws:
                if acc & w[k]:
                    bad = lowest_bit(acc & w[k])
                    break
                acc |= w[k]
            if bad is not None:
                cp = k * 64 + bad
                hit = [n for n, w in zip(scripts, ws) if (w[k] >> bad) & 1]
                found.append({"theorem": "scripts_disjoint", "cp": cp, "names": hit,
                              "detail": "U+%04X is matched by the script rules %s" % (cp, hit)})
                break
    return found


# ---------------------------------------------------------------------------------------------
# the harness' table of (name, property function): generated from the source on every run
# ---------------------------------------------------------------------------------------------

def function_candidates(data=None):
    """Names that may be functions `pest::unicode::NAME(char) -> bool`, in source order.  Deliberately lenient (unlike
    translate()): it has to produce a list for ANY edit of mod.rs, also one the strict translator refuses.  The list is
    only a first guess - the driver lets rustc decide which of the candidates exist (an entry that does not compile is
    moved to NOFN with the compiler's message) and adds every name the real code advertises at run time."""
    out = []

    def add(n):
        if IDENT.match(n) and n not in out:
            out.append(n)
    if data is not None:
        for _, _, lst in data["functions"]:
            for p, _, _ in lst:
                add(p)
    try:
        src = strip_comments(read("pest/src/unicode/mod.rs"))
    except TranslatorError:
        return out
    for m in re.finditer(r"char_property_functions!\s*\{", src):
        try:
            end = balanced(src, m.end() - 1, "{", "}")
        except (TranslatorError, AssertionError):
            continue
        inner = src[m.end():end - 1]
        for bm in re.finditer(r"static\s+\w+\s*=\s*\[(.*?)\]\s*;", inner, re.S):
            items = re.sub(r'"(?:[^"\\]|\\.)*"', " ", bm.group(1))
            for n in re.findall(r"[A-Za-z_][A-Za-z0-9_]*", items):
                add(n)
    for m in re.finditer(r"property_functions!\s*\(\s*\w+\s*,\s*\w+\s*,\s*\[(.*?)\]\s*\)", src, re.S):
        if "$" in m.group(1):
            continue
        items = re.sub(r'"(?:[^"\\]|\\.)*"', " ", m.group(1))
        for n in re.findall(r"[A-Za-z_][A-Za-z0-9_]*", items):
            add(n)
    for n in re.findall(r"pub\s+fn\s+(\w+)\s*\(\s*\w+\s*:\s*char\s*\)\s*->\s*bool", src):
        add(n)
    return out


RUST_NAMES_HEADER = ("// GENERATED by tools/unicode2v.py (render_rust_names) from pest/src/unicode/mod.rs - do not edit; regenerated on every\n"
                     "// run of `./check C16`.  One entry per line: an entry rustc rejects (the function does not exist / has another type) is\n"
                     "// moved to NOFN by the driver, so that the harness builds for any set of advertised names.\n")


def render_rust_names(cands, nofn=None):
    """Source of rust/harness/gen/c16_names.rs: FNS = (name, pest::unicode::NAME) for every candidate, NOFN = (name, why) for the
    candidates rustc refused.  -> (text, {line number: name})"""
    nofn = nofn or {}
    lines = RUST_NAMES_HEADER.rstrip("\n").split("\n")
    lines.append("static FNS: &[(&str, fn(char) -> bool)] = &[")
    at = {}
    for n in cands:
        if n in nofn:
            continue
        lines.append('    ("%s", pest::unicode::%s as fn(char) -> bool),' % (n, n))
        at[len(lines)] = n
    lines.append("];")
    lines.append("/// candidates that are not functions `pest::unicode::NAME(char) -> bool` according to rustc")
    lines.append("static NOFN: &[(&str, &str)] = &[")
    for n in cands:
        if n in nofn:
            lines.append('    ("%s", "%s"),' % (n, nofn[n].replace("\\", "\\\\").replace('"', '\\"')))
    lines.append("];")
    return "\n".join(lines) + "\n", at


if __name__ == "__main__":
    if len(sys.argv) > 1 and sys.argv[1] == "--rust-list":
        # the first guess of rust/harness/gen/c16_names.rs (the driver prunes it with rustc, see lib/props/c16.py)
        try:
            d = translate()
        except TranslatorError:
            d = None
        sys.stdout.write(render_rust_names(function_candidates(d))[0])
        sys.exit(0)
    out = sys.argv[1] if len(sys.argv) > 1 else os.path.join(os.path.dirname(os.path.dirname(os.path.abspath(__file__))), "coq", "gen")
    try:
        d, ch = generate(out)
    except TranslatorError as e:
        print("TRANSLATOR-ERROR: %s" % e)
        sys.exit(3)
    n = sum(len(m["order"]) for m in d["modules"].values())
    print("unicode2v: %d tables, %d advertised names, changed: %s" % (n, sum(len(l) for _, _, l in d["functions"]), ch or "none"))
