#!/usr/bin/env python3
"""pest2v - translate a .pest grammar file into a Gallina term of type PV.Peg.Ast.grammar.

An independent recursive-descent reader of pest's concrete syntax (meta/src/grammar.pest as consumed by
meta/src/parser.rs::consume_rules): rules with modifiers (_ @ $ !), strings with escapes, ^"..", 'a'..'z',
identifiers, ~ | ! & ? * + {n} {n,} {,n} {m,n}, PUSH(..), PUSH_LITERAL(".."), PEEK[a..b], #tag = .., parentheses,
// and nested /* */ comments, //! and /// doc comments.  Strict: anything it does not understand is an error.

The AST it builds is the one pest_meta builds (`~` and `|` left-associative, `~` binds tighter; prefix operators
apply to the node together with its postfix operators; a tag wraps the whole term and is dropped without
grammar-extras).  `sexp()` prints it in the exchange format of rust/harness/src/gram.rs, so that every run can
compare it with what the real pest_meta parser reads from the same file (c18 gram FILE).

  python3 tools/pest2v.py FILE.pest --sexp                 print the s-expression
  python3 tools/pest2v.py FILE.pest --coq NAME             print the Gallina definition NAME
"""
import os
import sys


class TranslatorError(Exception):
    pass


ALPHA = "abcdefghijklmnopqrstuvwxyzABCDEFGHIJKLMNOPQRSTUVWXYZ"
DIGITS = "0123456789"
HEX = "0123456789abcdefABCDEF"


class Reader:
    def __init__(self, text, extras=False):
        self.s = text
        self.i = 0
        self.extras = extras

    # ---- lexical layer ----
    def fail(self, msg):
        line = self.s.count("\n", 0, self.i) + 1
        col = self.i - (self.s.rfind("\n", 0, self.i) + 1) + 1
        raise TranslatorError("%s at %d:%d (near %r)" % (msg, line, col, self.s[self.i:self.i + 20]))

    def at(self, lit):
        return self.s.startswith(lit, self.i)

    def skip(self):
        """implicit WHITESPACE / COMMENT of the meta-grammar: blanks, newlines ("\\n" | "\\r\\n"), // comments that are
        not doc comments, nested /* */"""
        while True:
            if self.i < len(self.s) and self.s[self.i] in " \t\n":
                self.i += 1
            elif self.at("\r\n"):
                self.i += 2
            elif self.at("//") and not self.at("///") and not self.at("//!"):
                while self.i < len(self.s) and not self.at("\n") and not self.at("\r\n"):
                    self.i += 1
            elif self.at("/*"):
                self.block_comment()
            else:
                return

    def block_comment(self):
        assert self.at("/*")
        self.i += 2
        while True:
            if self.i >= len(self.s):
                self.fail("unterminated block comment")
            if self.at("/*"):
                self.block_comment()
            elif self.at("*/"):
                self.i += 2
                return
            else:
                self.i += 1

    def doc_line(self):
        while self.i < len(self.s) and not self.at("\n") and not self.at("\r\n"):
            self.i += 1

    def eat(self, lit):
        if self.at(lit):
            self.i += len(lit)
            return True
        return False

    def expect(self, lit):
        if not self.eat(lit):
            self.fail("expected %r" % lit)

    def identifier(self):
        """identifier = @{ !"PUSH" ~ ("_" | alpha) ~ ("_" | alpha_num)* }"""
        j = self.i
        if j < len(self.s) and (self.s[j] == "_" or self.s[j] in ALPHA) and not self.at("PUSH"):
            j += 1
            while j < len(self.s) and (self.s[j] == "_" or self.s[j] in ALPHA or self.s[j] in DIGITS):
                j += 1
            name = self.s[self.i:j]
            self.i = j
            return name
        return None

    def number(self):
        j = self.i
        while j < len(self.s) and self.s[j] in DIGITS:
            j += 1
        if j == self.i:
            return None
        v = int(self.s[self.i:j])
        if v >= 2 ** 32:
            self.fail("number cannot overflow u32")
        self.i = j
        return v

    def integer(self):
        """integer = @{ number | "-" ~ "0"* ~ '1'..'9' ~ number? }  (an i32)"""
        j = self.i
        if j < len(self.s) and self.s[j] == "-":
            k = j + 1
            while k < len(self.s) and self.s[k] == "0":
                k += 1
            if not (k < len(self.s) and self.s[k] in "123456789"):
                return None
            k += 1
            while k < len(self.s) and self.s[k] in DIGITS:
                k += 1
        else:
            k = j
            while k < len(self.s) and self.s[k] in DIGITS:
                k += 1
            if k == j:
                return None
        v = int(self.s[j:k])
        if not (-2 ** 31 <= v < 2 ** 31):
            self.fail("PEEK index does not fit i32")
        self.i = k
        return v

    def escape(self):
        """after a backslash: \" \\\\ r n t 0 ' xHH u{HH..HHHHHH}"""
        c = self.s[self.i] if self.i < len(self.s) else ""
        simple = {'"': '"', "\\": "\\", "r": "\r", "n": "\n", "t": "\t", "0": "\0", "'": "'"}
        if c in simple and c:
            self.i += 1
            return simple[c]
        if c == "x":
            h = self.s[self.i + 1:self.i + 3]
            if len(h) != 2 or any(x not in HEX for x in h):
                self.fail("bad \\x escape")
            self.i += 3
            return chr(int(h, 16))
        if c == "u":
            if not self.s.startswith("{", self.i + 1):
                self.fail("bad \\u escape")
            j = self.s.find("}", self.i + 2)
            h = self.s[self.i + 2:j] if j >= 0 else ""
            if not (2 <= len(h) <= 6) or any(x not in HEX for x in h):
                self.fail("bad \\u escape")
            v = int(h, 16)
            if v > 0x10FFFF or 0xD800 <= v <= 0xDFFF:
                self.fail("\\u escape is not a char")
            self.i = j + 1
            return chr(v)
        self.fail("unknown escape")

    def string(self):
        """string = ${ quote ~ inner_str ~ quote }"""
        if not self.eat('"'):
            return None
        out = []
        while True:
            if self.i >= len(self.s):
                self.fail("unterminated string")
            c = self.s[self.i]
            if c == '"':
                self.i += 1
                return "".join(out)
            if c == "\\":
                self.i += 1
                out.append(self.escape())
            else:
                out.append(c)
                self.i += 1

    def character(self):
        """character = ${ single_quote ~ inner_chr ~ single_quote }"""
        if not self.eat("'"):
            return None
        if self.i >= len(self.s):
            self.fail("unterminated char")
        c = self.s[self.i]
        if c == "\\":
            self.i += 1
            v = self.escape()
        elif c == "'":
            self.fail("empty char literal")
        else:
            v = c
            self.i += 1
        self.expect("'")
        return v

    # ---- grammar layer ----
    def grammar(self):
        rules = []
        self.skip()
        while self.at("//!"):
            self.doc_line()
            self.skip()
        while True:
            self.skip()
            if self.i >= len(self.s):
                return rules
            if self.at("///"):
                self.doc_line()
                continue
            if self.at("//!"):
                self.fail("grammar doc comment after the first rule")
            rules.append(self.rule())

    def rule(self):
        name = self.identifier()
        if name is None:
            self.fail("expected a rule name")
        self.skip()
        self.expect("=")
        self.skip()
        ty = "n"
        for lit, t in (("_", "s"), ("@", "a"), ("$", "c"), ("!", "x")):
            if self.at(lit):
                self.i += 1
                ty = t
                break
        self.skip()
        self.expect("{")
        self.skip()
        e = self.expression()
        self.skip()
        self.expect("}")
        return (name, ty, e)

    def no_doc(self):
        if self.at("///") or self.at("//!"):
            self.fail("doc comment inside an expression")

    def expression(self):
        """expression = { choice_operator? ~ term ~ (infix_operator ~ term)* }; `~` tighter than `|`, both left-assoc"""
        self.skip()
        self.no_doc()
        if self.eat("|"):
            self.skip()
        alts = []
        seq = self.term()
        while True:
            self.skip()
            self.no_doc()
            if self.eat("~"):
                self.skip()
                seq = ("seq", seq, self.term())
            elif self.eat("|"):
                self.skip()
                alts.append(seq)
                seq = self.term()
            else:
                break
        alts.append(seq)
        e = alts[0]
        for a in alts[1:]:
            e = ("cho", e, a)
        return e

    def term(self):
        """term = { node_tag? ~ prefix_operator* ~ node ~ postfix_operator* }"""
        self.no_doc()
        tag = None
        if self.at("#"):
            j = self.i + 1
            k = j
            if k < len(self.s) and (self.s[k] == "_" or self.s[k] in ALPHA):
                k += 1
                while k < len(self.s) and (self.s[k] == "_" or self.s[k] in ALPHA or self.s[k] in DIGITS):
                    k += 1
            else:
                self.fail("bad tag")
            tag = self.s[j:k]
            self.i = k
            self.skip()
            self.expect("=")
            self.skip()
        prefixes = []
        while True:
            if self.eat("&"):
                prefixes.append("pos")
            elif self.eat("!"):
                prefixes.append("neg")
            else:
                break
            self.skip()
        e = self.node()
        while True:
            self.skip()
            self.no_doc()
            if self.eat("?"):
                e = ("opt", e)
            elif self.eat("*"):
                e = ("rep", e)
            elif self.eat("+"):
                e = ("rep1", e)
            elif self.at("{"):
                e = self.bounded(e)
            else:
                break
        for p in reversed(prefixes):
            e = (p, e)
        if tag is not None and self.extras:
            e = ("tag", tag, e)
        return e

    def bounded(self, e):
        self.expect("{")
        self.skip()
        if self.eat(","):
            self.skip()
            n = self.number()
            if n is None:
                self.fail("expected a number")
            if n == 0:
                self.fail("cannot repeat 0 times")
            self.skip()
            self.expect("}")
            return ("repmax", n, e)
        m = self.number()
        if m is None:
            self.fail("expected a number")
        self.skip()
        if self.eat("}"):
            if m == 0:
                self.fail("cannot repeat 0 times")
            return ("repx", m, e)
        self.expect(",")
        self.skip()
        if self.eat("}"):
            return ("repmin", m, e)
        n = self.number()
        if n is None:
            self.fail("expected a number")
        if n == 0:
            self.fail("cannot repeat 0 times")
        self.skip()
        self.expect("}")
        return ("repmm", m, n, e)

    def node(self):
        """node = _{ opening_paren ~ expression ~ closing_paren | terminal }
        terminal = _{ _push_literal | _push | peek_slice | identifier | string | insensitive_string | range }"""
        if self.eat("("):
            e = self.expression()
            self.skip()
            self.expect(")")
            return e
        if self.at("PUSH_LITERAL"):
            save = self.i
            self.i += len("PUSH_LITERAL")
            self.skip()
            if self.eat("("):
                self.skip()
                s = self.string()
                if s is None:
                    self.fail("PUSH_LITERAL takes a string")
                self.skip()
                self.expect(")")
                if not self.extras:
                    self.fail("PUSH_LITERAL requires feature grammar-extras")
                return ("pushlit", s)
            self.i = save
        if self.at("PUSH"):
            save = self.i
            self.i += 4
            self.skip()
            if self.eat("("):
                e = self.expression()
                self.skip()
                self.expect(")")
                return ("push", e)
            self.i = save
            self.fail("an identifier cannot start with PUSH")
        if self.at("PEEK"):
            save = self.i
            self.i += 4
            self.skip()
            if self.eat("["):
                self.skip()
                a = self.integer()
                self.skip()
                self.expect("..")
                self.skip()
                b = self.integer()
                self.skip()
                self.expect("]")
                return ("slice", 0 if a is None else a, b)
            self.i = save
        name = self.identifier()
        if name is not None:
            return ("id", name)
        if self.at('"'):
            return ("str", self.string())
        if self.eat("^"):
            self.skip()
            s = self.string()
            if s is None:
                self.fail("expected a string after ^")
            return ("ins", s)
        if self.at("'"):
            a = self.character()
            self.skip()
            self.expect("..")
            self.skip()
            b = self.character()
            if b is None:
                self.fail("expected a char")
            return ("range", a, b)
        self.fail("expected a term")


def parse_grammar(text, extras=False):
    return Reader(text, extras).grammar()


# ---- printers ----
def hexs(s):
    b = s.encode("utf-8")
    return b.hex() if b else "-"


def sexp(e):
    k = e[0]
    if k in ("str", "ins", "pushlit"):
        return "(%s %s)" % (k, hexs(e[1]))
    if k == "range":
        return "(range %d %d)" % (ord(e[1]), ord(e[2]))
    if k == "id":
        return "(id %s)" % e[1]
    if k == "slice":
        return "(slice %d %s)" % (e[1], "-" if e[2] is None else str(e[2]))
    if k in ("pos", "neg", "opt", "rep", "rep1", "push"):
        return "(%s %s)" % (k, sexp(e[1]))
    if k in ("seq", "cho"):
        return "(%s %s %s)" % (k, sexp(e[1]), sexp(e[2]))
    if k in ("repx", "repmin", "repmax"):
        return "(%s %d %s)" % (k, e[1], sexp(e[2]))
    if k == "repmm":
        return "(repmm %d %d %s)" % (e[1], e[2], sexp(e[3]))
    if k == "tag":
        return "(tag %s %s)" % (e[1], sexp(e[2]))
    raise TranslatorError("unknown node %r" % (k,))


def sexp_grammar(rules):
    return ";".join("(%s %s %s)" % (n, t, sexp(e)) for n, t, e in rules)


def coq_bytes(s):
    return "[" + "; ".join("%d%%N" % b for b in s.encode("utf-8")) + "]"


def coq_name(n):
    if not n or any(c not in ALPHA + DIGITS + "_" for c in n):
        raise TranslatorError("name %r is not an identifier" % n)
    return '(nm "%s")' % n


def coq_z(v):
    return "(%d)%%Z" % v


def coq_expr(e):
    k = e[0]
    if k == "str":
        return "EStr %s" % coq_bytes(e[1])
    if k == "ins":
        return "EInsens %s" % coq_bytes(e[1])
    if k == "pushlit":
        return "EPushLiteral %s" % coq_bytes(e[1])
    if k == "range":
        return "ERange %d%%N %d%%N" % (ord(e[1]), ord(e[2]))
    if k == "id":
        return "EIdent %s" % coq_name(e[1])
    if k == "slice":
        return "EPeekSlice %s %s" % (coq_z(e[1]), "None" if e[2] is None else "(Some %s)" % coq_z(e[2]))
    un = {"pos": "EPosPred", "neg": "ENegPred", "opt": "EOpt", "rep": "ERep", "rep1": "ERepOnce", "push": "EPush"}
    if k in un:
        return "%s (%s)" % (un[k], coq_expr(e[1]))
    if k == "seq":
        return "ESeq (%s) (%s)" % (coq_expr(e[1]), coq_expr(e[2]))
    if k == "cho":
        return "EChoice (%s) (%s)" % (coq_expr(e[1]), coq_expr(e[2]))
    cnt = {"repx": "ERepExact", "repmin": "ERepMin", "repmax": "ERepMax"}
    if k in cnt:
        return "%s (%s) %d%%N" % (cnt[k], coq_expr(e[2]), e[1])
    if k == "repmm":
        return "ERepMinMax (%s) %d%%N %d%%N" % (coq_expr(e[3]), e[1], e[2])
    if k == "tag":
        return "ENodeTag (%s) %s" % (coq_expr(e[2]), coq_name(e[1]))
    raise TranslatorError("unknown node %r" % (k,))


RTY = {"n": "RNormal", "s": "RSilent", "a": "RAtomic", "c": "RCompound", "x": "RNonAtomic"}


def coq_grammar(rules, defname, source):
    out = ["(* GENERATED by tools/pest2v.py from %s - do not edit; regenerated on every run. *)" % source,
           "From Coq Require Import List NArith ZArith String.",
           "Import ListNotations.",
           "Require Import PV.Peg.Ast.",
           "Local Open Scope string_scope.",
           "",
           "Definition %s : grammar := [" % defname]
    items = []
    for n, t, e in rules:
        items.append("  {| rname := %s; rty := %s;\n     rexpr := %s |}" % (coq_name(n), RTY[t], coq_expr(e)))
    out.append(";\n".join(items))
    out.append("].")
    out.append("")
    return "\n".join(out)


def write_if_changed(path, content):
    try:
        with open(path) as f:
            if f.read() == content:
                return False
    except FileNotFoundError:
        pass
    os.makedirs(os.path.dirname(path), exist_ok=True)
    with open(path, "w") as f:
        f.write(content)
    return True


def generate_json(gen_dir, repo=None):
    """coq/gen/JsonGrammar.v from <repo>/grammars/src/grammars/json.pest; returns (rules, sexp, changed)"""
    repo = repo or os.environ.get("VERIF_REPO", "/repo")
    rel = "grammars/src/grammars/json.pest"
    text = open(os.path.join(repo, rel), encoding="utf-8", newline="").read()
    rules = parse_grammar(text)
    v = coq_grammar(rules, "json_grammar", rel)
    changed = write_if_changed(os.path.join(gen_dir, "JsonGrammar.v"), v)
    return rules, sexp_grammar(rules), changed


def main(argv):
    if len(argv) < 3:
        print(__doc__)
        return 2
    extras = "--extras" in argv
    text = open(argv[1], encoding="utf-8", newline="").read()
    rules = parse_grammar(text, extras)
    if argv[2] == "--sexp":
        print(sexp_grammar(rules))
    elif argv[2] == "--coq":
        sys.stdout.write(coq_grammar(rules, argv[3], os.path.basename(argv[1])))
    return 0


if __name__ == "__main__":
    try:
        sys.exit(main(sys.argv))
    except TranslatorError as e:
        print("pest2v: " + str(e), file=sys.stderr)
        sys.exit(1)
