#!/usr/bin/env python3
"""Re-run a check against an already validated seeded change (seeded/<ID>/<n>/patch.diff) and refresh meta.json's "check" entry.
usage: recheck_seeded.py <ID> <n> [--check-as ID] [--tier quick|thorough]"""
import hashlib, json, os, re, subprocess, sys, time
ROOT = os.path.dirname(os.path.dirname(os.path.abspath(__file__)))

def sh(cmd, cwd=None, env=None, timeout=3000):
    e = dict(os.environ); e["CARGO_NET_OFFLINE"] = "true"; e.update(env or {})
    p = subprocess.run(cmd, shell=True, cwd=cwd, stdout=subprocess.PIPE, stderr=subprocess.STDOUT, timeout=timeout, env=e)
    return p.returncode, p.stdout.decode("utf-8", "replace")

def main():
    pid, n = sys.argv[1], sys.argv[2]
    tier = sys.argv[sys.argv.index("--tier") + 1] if "--tier" in sys.argv else "quick"
    check_as = sys.argv[sys.argv.index("--check-as") + 1] if "--check-as" in sys.argv else pid
    d = os.path.join(ROOT, "seeded", pid, n)
    meta = json.load(open(os.path.join(d, "meta.json")))
    copy = "/tmp/repo-reseed-%s-%s-%s" % (pid.lower(), n, check_as.lower())
    sh("rm -rf %s && rsync -a --exclude target /repo/ %s/" % (copy, copy))
    rc, out = sh("git apply %s" % os.path.join(d, "patch.diff"), cwd=copy)
    if rc != 0:
        print("patch does not apply: " + out[-300:]); sh("rm -rf " + copy); sys.exit(2)
    t0 = time.time()
    rc, out = sh("./check %s %s" % (check_as, tier), cwd=ROOT, env={"VERIF_REPO": copy})
    viol = [l for l in out.split("\n") if l.startswith("VIOLATION")]
    replays = []
    for v in viol:
        m = re.search(r"replay=(\S+)", v)
        if m and os.path.exists(m.group(1)):
            try:
                r = json.load(open(m.group(1)))
                replays.append({k: (r[k][:400] if isinstance(r[k], str) else r[k]) for k in r if k in ("what", "case", "theorem_or_correspondence", "impl", "spec", "model")})
            except Exception:
                pass
    entry = {"cmd": "VERIF_REPO=<copy of /repo + patch> ./check %s %s" % (check_as, tier), "checked_with": check_as, "exit": rc, "violations": viol,
             "replays": replays[:3], "wall_s": round(time.time() - t0, 1), "caught": rc == 1 and bool(viol),
             "with_failing_input": any("no-failing-input-found" not in v for v in viol), "rechecked_at": time.strftime("%Y-%m-%dT%H:%M:%SZ", time.gmtime())}
    if check_as == pid or not meta.get("check", {}).get("caught"):
        if "check" in meta and meta["check"].get("checked_with", pid) == pid and check_as != pid:
            meta["check_own"] = meta["check"]
        old = meta.get("check")
        if old and (not old.get("caught") or not old.get("with_failing_input")):
            meta.setdefault("check_history", []).append({k: old.get(k) for k in ("cmd", "caught", "with_failing_input", "violations")})
        meta["check"] = entry
    else:
        meta.setdefault("also_checked", []).append(entry)
    json.dump(meta, open(os.path.join(d, "meta.json"), "w"), indent=1)
    tag = hashlib.sha1(copy.encode()).hexdigest()[:8]
    sh("rm -rf %s /tmp/pvharness-%s /tmp/pvtarget-%s*" % (copy, tag, tag))
    print("%s/%s as %s: caught=%s failing_input=%s %s" % (pid, n, check_as, entry["caught"], entry["with_failing_input"], viol[:2]))
    if "-v" in sys.argv:
        print(out[-3000:])

if __name__ == "__main__":
    main()
