#!/usr/bin/env python3
"""Summarise /verif/seeded/*/*/meta.json into seeded/RESULTS.md (which checks catch which seeded changes)."""
import glob, json, os
ROOT = os.path.dirname(os.path.dirname(os.path.abspath(__file__)))
rows = []
for m in sorted(glob.glob(os.path.join(ROOT, "seeded", "*", "*", "meta.json"))):
    d = json.load(open(m))
    patch = open(os.path.join(os.path.dirname(m), "patch.diff")).read() if os.path.exists(os.path.join(os.path.dirname(m), "patch.diff")) else ""
    files = sorted(set(l[6:] for l in patch.split("\n") if l.startswith("+++ b/")))
    chk = d.get("check", {})
    v = chk.get("violations", [])
    kind = "not caught" if not chk.get("caught") else ("failing input" if chk.get("with_failing_input") else "correspondence/proof break (no-failing-input-found)")
    what = (chk.get("details") or [""])[0].replace("violation detail: ", "")[:160]
    rows.append((d["property"], d["n"], ", ".join(files), "yes" if d.get("confirmed") else "NO", kind, what))
out = ["# Seeded changes (independent sub-agents, property text only) and what the checks report",
       "", "Each change compiles, keeps the project's own suite at its baseline result and comes with a demonstration that fails with it and passes without it",
       "(`confirmed`); the check column is the result of `VERIF_REPO=<copy of /repo + patch> ./check <id> quick` (see each meta.json).", "",
       "| property | n | files changed | confirmed | check result | first report |", "|---|---|---|---|---|---|"]
for r in rows:
    out.append("| %s | %s | %s | %s | %s | %s |" % r)
open(os.path.join(ROOT, "seeded", "RESULTS.md"), "w").write("\n".join(out) + "\n")
print("\n".join(out[-len(rows):]))
