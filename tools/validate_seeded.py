#!/usr/bin/env python3
"""Validate a seeded defect produced by an independent agent and record it under /verif/seeded/.

usage: validate_seeded.py <property id, e.g. C11> <worktree> <n> [--tier quick|thorough]

Steps (all in scratch locations, /repo itself is never touched):
  1. in the agent's worktree: demo passes on the unmodified tree; apply patch.diff; the project's own
     test-suite gives the baseline result (610 passed / 1 known failure); the demo fails; revert.
  2. copy /repo to a scratch directory, apply the patch there, run `VERIF_REPO=<copy> ./check <id> <tier>`
     and record exit code and VIOLATION lines; remove the copy and its build output.
  3. write /verif/seeded/<id>/<n>/{patch.diff, demo files, notes.md, meta.json}.
"""
import json
import os
import re
import shutil
import subprocess
import sys
import time

ROOT = os.path.dirname(os.path.dirname(os.path.abspath(__file__)))


def sh(cmd, cwd=None, timeout=3600, env=None):
    e = dict(os.environ)
    e["CARGO_NET_OFFLINE"] = "true"
    if env:
        e.update(env)
    p = subprocess.run(cmd, shell=True, cwd=cwd, stdout=subprocess.PIPE, stderr=subprocess.STDOUT, timeout=timeout, env=e)
    return p.returncode, p.stdout.decode("utf-8", "replace")


def suite(wt):
    rc, out = sh("cargo test --workspace --offline --no-fail-fast 2>&1", cwd=wt, timeout=3000)
    passed = sum(int(m.group(1)) for m in re.finditer(r"test result: \w+\. (\d+) passed", out))
    failed = sum(int(m.group(1)) for m in re.finditer(r"test result: \w+\. \d+ passed; (\d+) failed", out))
    failing = sorted(set(re.findall(r"^test (\S+) \.\.\. FAILED", out, re.M)))
    compiled = "error: could not compile" not in out and "error[E" not in out
    return {"passed": passed, "failed": failed, "failing_tests": failing, "compiled": compiled}


def main():
    pid, wt, n = sys.argv[1], sys.argv[2], sys.argv[3]
    tier = sys.argv[sys.argv.index("--tier") + 1] if "--tier" in sys.argv else "quick"
    check_as = sys.argv[sys.argv.index("--check-as") + 1] if "--check-as" in sys.argv else pid
    dest_n = sys.argv[sys.argv.index("--dest") + 1] if "--dest" in sys.argv else n
    src = os.path.join(wt, "SEEDED", n)
    patch = os.path.join(src, "patch.diff")
    meta = {"property": pid, "source": "independent sub-agent given only the property text and a scratch worktree", "n": dest_n, "round": (int(dest_n) - 1) // 3 + 1,
            "validated_at": time.strftime("%Y-%m-%dT%H:%M:%SZ", time.gmtime())}
    sh("git checkout -- .", cwd=wt)
    rc0, out0 = sh("bash SEEDED/%s/demo.sh" % n, cwd=wt, timeout=1800)
    meta["demo_unmodified_exit"] = rc0
    rc, out = sh("git apply %s" % patch, cwd=wt)
    if rc != 0:
        meta["error"] = "patch does not apply: " + out[-500:]
    else:
        meta["suite_with_change"] = suite(wt)
        rc1, out1 = sh("bash SEEDED/%s/demo.sh" % n, cwd=wt, timeout=1800)
        meta["demo_with_change_exit"] = rc1
        meta["demo_with_change_tail"] = out1[-600:]
    sh("git checkout -- .", cwd=wt)
    # the check against a scratch copy of /repo carrying the change
    copy = "/tmp/repo-seed-%s-%s" % (pid.lower(), dest_n)
    sh("rm -rf %s && rsync -a --exclude target /repo/ %s/" % (copy, copy))
    rc, out = sh("git apply %s" % patch, cwd=copy)
    if rc != 0:
        meta["check"] = {"error": "patch does not apply to /repo HEAD: " + out[-300:]}
    else:
        t0 = time.time()
        rc, out = sh("./check %s %s" % (check_as, tier), cwd=ROOT, env={"VERIF_REPO": copy}, timeout=3000)
        viol = [l for l in out.split("\n") if l.startswith("VIOLATION")]
        detail = [l.strip() for l in out.split("\n") if l.strip().startswith("violation detail")]
        replays = []
        for v in viol:
            m = re.search(r"replay=(\S+)", v)
            if m and os.path.exists(m.group(1)):
                try:
                    r = json.load(open(m.group(1)))
                    replays.append({k: (r[k][:400] if isinstance(r[k], str) else r[k]) for k in r if k in ("what", "case", "theorem_or_correspondence", "impl", "spec", "model")})
                except Exception:
                    pass
        meta["check"] = {"cmd": "VERIF_REPO=<copy of /repo + patch> ./check %s %s" % (check_as, tier), "checked_with": check_as, "exit": rc, "violations": viol, "details": detail[:4],
                         "replays": replays[:3], "wall_s": round(time.time() - t0, 1),
                         "caught": rc == 1 and bool(viol), "with_failing_input": any("no-failing-input-found" not in v for v in viol)}
    tag = __import__("hashlib").sha1(copy.encode()).hexdigest()[:8]
    sh("rm -rf %s /tmp/pvharness-%s /tmp/pvtarget-%s*" % (copy, tag, tag))
    ok = (meta.get("demo_unmodified_exit") == 0 and meta.get("demo_with_change_exit", 0) != 0 and
          meta.get("suite_with_change", {}).get("compiled") and meta.get("suite_with_change", {}).get("failing_tests", ["x"]) in ([], ["quote"]))
    meta["confirmed"] = bool(ok)
    dst = os.path.join(ROOT, "seeded", pid, dest_n)
    if os.path.exists(dst):
        shutil.rmtree(dst)
    os.makedirs(dst)
    for f in os.listdir(src):
        p = os.path.join(src, f)
        if os.path.isfile(p) and os.path.getsize(p) < 200000:
            shutil.copy(p, dst)
    if os.path.exists(os.path.join(src, "notes.md")):
        txt = open(os.path.join(src, "notes.md")).read()
        m = re.search(r"(?is)(trigger|needs|manifest)[^\n]*\n(.{0,600})", txt)
        meta["needs_to_manifest"] = (m.group(0)[:700] if m else txt[:700])
    json.dump(meta, open(os.path.join(dst, "meta.json"), "w"), indent=1)
    print("%s/%s confirmed=%s caught=%s %s" % (pid, dest_n, meta["confirmed"], meta.get("check", {}).get("caught"), meta.get("check", {}).get("violations", [])[:2]))


if __name__ == "__main__":
    main()
