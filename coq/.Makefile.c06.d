Valid/Validator.vo Valid/Validator.glob Valid/Validator.v.beautified Valid/Validator.required_vo: Valid/Validator.v Comb/PState.vo Peg/Ast.vo
Valid/Validator.vio: Valid/Validator.v Comb/PState.vio Peg/Ast.vio
Valid/Validator.vos Valid/Validator.vok Valid/Validator.required_vos: Valid/Validator.v Comb/PState.vos Peg/Ast.vos
Valid/Known.vo Valid/Known.glob Valid/Known.v.beautified Valid/Known.required_vo: Valid/Known.v Comb/PState.vo Peg/Ast.vo Peg/Spec.vo Valid/Validator.vo
Valid/Known.vio: Valid/Known.v Comb/PState.vio Peg/Ast.vio Peg/Spec.vio Valid/Validator.vio
Valid/Known.vos Valid/Known.vok Valid/Known.required_vos: Valid/Known.v Comb/PState.vos Peg/Ast.vos Peg/Spec.vos Valid/Validator.vos
Extract/ValidExtract.vo Extract/ValidExtract.glob Extract/ValidExtract.v.beautified Extract/ValidExtract.required_vo: Extract/ValidExtract.v Comb/PState.vo Comb/Bytes.vo Iter/Queue.vo Peg/Ast.vo Peg/Spec.vo Valid/Validator.vo Valid/Known.vo
Extract/ValidExtract.vio: Extract/ValidExtract.v Comb/PState.vio Comb/Bytes.vio Iter/Queue.vio Peg/Ast.vio Peg/Spec.vio Valid/Validator.vio Valid/Known.vio
Extract/ValidExtract.vos Extract/ValidExtract.vok Extract/ValidExtract.required_vos: Extract/ValidExtract.v Comb/PState.vos Comb/Bytes.vos Iter/Queue.vos Peg/Ast.vos Peg/Spec.vos Valid/Validator.vos Valid/Known.vos
