(* Transaction laws of the backtracking stack, for the implementation model, at every reachable
   state and any nesting depth: a snapshot followed by a well-bracketed body and a restore brings
   the stack back to a state that is observationally identical to the one before the snapshot
   (same contents now, same trace for every continuation); with clear_snapshot instead of restore
   the body's effect on the contents is kept and the outer snapshots are untouched.
   This is the shape in which ParserState uses the stack (checkpoint / restore / checkpoint_ok). *)
From Coq Require Import List Arith Lia Bool.
Import ListNotations.
Require Import PV.Stack.Model PV.Stack.Proofs PV.Stack.Top.
Set Implicit Arguments.

Section Laws.
Variable T : Type.
Notation op := (op T).

(* final abstract / concrete state after a history *)
Fixpoint exec_spec (a : spec T) (ops : list op) : spec T :=
  match ops with [] => a | o :: r => exec_spec (fst (step_spec a o)) r end.
Fixpoint exec_impl (s : stk T) (ops : list op) : option (stk T) :=
  match ops with [] => Some s | o :: r =>
    match step_impl s o with None => None | Some (s', _) => exec_impl s' r end end.

(* well-bracketed body: the depth of snapshots opened inside the body never goes below 0
   (it never clears or restores a snapshot it did not take); result = depth left open *)
Fixpoint bal (d : nat) (ops : list op) : option nat :=
  match ops with
  | [] => Some d
  | Snapshot :: r => bal (S d) r
  | Clear :: r | Restore :: r => match d with 0 => None | S d' => bal d' r end
  | _ :: r => bal d r
  end.

Lemma exec_spec_app a xs ys : exec_spec a (xs ++ ys) = exec_spec (exec_spec a xs) ys.
Proof. revert a; induction xs as [|x xs IH]; intros a; cbn; auto. Qed.

Lemma run_spec_app a xs ys :
  run_spec a (xs ++ ys) = run_spec a xs ++ run_spec (exec_spec a xs) ys.
Proof.
  revert a; induction xs as [|x xs IH]; intros a; cbn; auto.
  destruct (step_spec a x) as [a' out] eqn:E. cbn. now rewrite IH.
Qed.

Lemma run_spec_length (a : spec T) (xs : list op) : length (run_spec a xs) = length xs.
Proof.
  revert a; induction xs as [|x xs IH]; intros a; cbn; auto.
  destruct (step_spec a x); cbn; now rewrite IH.
Qed.

(* the snapshots below the body's own ones are never touched *)
Lemma bal_base body : forall d d' (a : spec T) top base,
  bal d body = Some d' -> snaps a = top ++ base -> length top = d ->
  exists top', snaps (exec_spec a body) = top' ++ base /\ length top' = d'.
Proof.
  induction body as [|o body IH]; intros d d' a top base Hb Hs Hl; cbn in Hb.
  - injection Hb as <-. now exists top.
  - destruct o; cbn [exec_spec step_spec fst].
    + apply (IH d d' _ top base Hb); auto.
    + apply (IH d d' _ top base Hb); [|exact Hl].
      unfold spop. destruct (cur a); cbn; exact Hs.
    + apply (IH d d' _ top base Hb); auto.
    + apply (IH (S d) d' _ (cur a :: top) base Hb); [cbn; rewrite Hs; reflexivity | cbn; now rewrite Hl].
    + destruct d as [|d0]; [discriminate|]. destruct top as [|t top0]; [discriminate|].
      apply (IH d0 d' _ top0 base Hb); [cbn; rewrite Hs; reflexivity | cbn in Hl; lia].
    + destruct d as [|d0]; [discriminate|]. destruct top as [|t top0]; [discriminate|].
      apply (IH d0 d' _ top0 base Hb); [unfold srestore; rewrite Hs; reflexivity | cbn in Hl; lia].
Qed.

Lemma spec_eta (a b : spec T) : cur a = cur b -> snaps a = snaps b -> a = b.
Proof. destruct a, b; cbn; intros -> ->; reflexivity. Qed.

Lemma spec_snapshot_restore a body :
  bal 0 body = Some 0 -> exec_spec a (Snapshot :: body ++ [Restore]) = a.
Proof.
  intros Hb. cbn [exec_spec step_spec fst]. rewrite exec_spec_app.
  destruct (@bal_base body 0 0 (ssnapshot a) [] (cur a :: snaps a) Hb eq_refl eq_refl) as (top' & Hs & Hl).
  destruct top'; [|discriminate]. cbn in Hs. cbn [exec_spec step_spec fst]. unfold srestore. rewrite Hs.
  apply spec_eta; reflexivity.
Qed.

Lemma spec_snapshot_clear a body :
  bal 0 body = Some 0 ->
  snaps (exec_spec a (Snapshot :: body ++ [Clear])) = snaps a /\
  cur (exec_spec a (Snapshot :: body ++ [Clear])) = cur (exec_spec (ssnapshot a) body).
Proof.
  intros Hb. cbn [exec_spec step_spec fst]. rewrite exec_spec_app.
  destruct (@bal_base body 0 0 (ssnapshot a) [] (cur a :: snaps a) Hb eq_refl eq_refl) as (top' & Hs & Hl).
  destruct top'; [|discriminate]. cbn in Hs. cbn [exec_spec step_spec fst]. unfold sclear. cbn. rewrite Hs. auto.
Qed.

(* impl level, through the refinement theorem: for every history h, every well-bracketed body and
   every continuation k the model of stack.rs does not panic, and after snapshot/body/restore it
   produces for k exactly the trace it produces for k straight after h. *)
Theorem checkpoint_restore_transparent (h body k : list op) :
  bal 0 body = Some 0 ->
  exists t0 t1 tk,
    run_impl (@empty T) (h ++ k) = Some (t0 ++ tk) /\
    run_impl (@empty T) (h ++ (Snapshot :: body ++ [Restore]) ++ k) = Some (t0 ++ t1 ++ tk) /\
    length t0 = length h /\ length t1 = S (S (length body)).
Proof.
  intros Hb. rewrite !C11_stack_transactional.
  exists (run_spec (@sempty T) h),
         (run_spec (exec_spec (@sempty T) h) (Snapshot :: body ++ [Restore])),
         (run_spec (exec_spec (@sempty T) h) k).
  pose proof run_spec_length as Hlen.
  split; [now rewrite run_spec_app|]. split.
  - rewrite run_spec_app. f_equal. rewrite run_spec_app. f_equal.
    now rewrite (spec_snapshot_restore _ _ Hb).
  - split; rewrite Hlen; auto. cbn. rewrite app_length. cbn. lia.
Qed.

(* clear_snapshot keeps the body's effect and leaves the enclosing snapshots alone: a later
   restore goes back to the enclosing snapshot exactly as if the inner one had never been taken *)
Theorem checkpoint_clear_keeps_outer (h body : list op) :
  bal 0 body = Some 0 ->
  snaps (exec_spec (@sempty T) (h ++ Snapshot :: body ++ [Clear])) = snaps (exec_spec (@sempty T) h) /\
  exists t, run_impl (@empty T) (h ++ Snapshot :: body ++ [Clear]) = Some t /\
            length t = length h + S (S (length body)).
Proof.
  intros Hb. split.
  - rewrite exec_spec_app. now destruct (spec_snapshot_clear (exec_spec (@sempty T) h) _ Hb).
  - rewrite C11_stack_transactional. eexists; split; [reflexivity|].
    pose proof run_spec_length as Hlen.
    rewrite Hlen, app_length. cbn. rewrite app_length. cbn. lia.
Qed.
End Laws.
