From Coq Require Import List Arith Lia Bool.
Import ListNotations.
Require Import PV.Stack.Model PV.Stack.Proofs.
Set Implicit Arguments.
Section Top.
Variable T : Type.
Inductive op := Push (x : T) | Pop | Peek | Snapshot | Clear | Restore.
Definition step_impl (s : stk T) (o : op) : option (stk T * option T) :=
  match o with
  | Push x => Some (push s x, None) | Pop => Some (pop s) | Peek => Some (s, peek s)
  | Snapshot => Some (snapshot s, None)
  | Clear => option_map (fun s' => (s', None)) (clear_snapshot s)
  | Restore => option_map (fun s' => (s', None)) (restore s) end.
Definition step_spec (a : spec T) (o : op) : spec T * option T :=
  match o with
  | Push x => (spush a x, None) | Pop => spop a | Peek => (a, speek a)
  | Snapshot => (ssnapshot a, None) | Clear => (sclear a, None) | Restore => (srestore a, None) end.

Lemma step_refines s a o : Inv s a ->
  exists s' out, step_impl s o = Some (s', out) /\ Inv s' (fst (step_spec a o)) /\ out = snd (step_spec a o).
Proof.
  intros H. destruct o; cbn.
  - eexists _, _; split; [reflexivity|]; split; [now apply inv_push|reflexivity].
  - destruct (inv_pop H) as [H1 H2]. exists (fst (pop s)), (snd (pop s)). split; [now destruct (pop s)|]. split; auto.
  - eexists _, _; split; [reflexivity|]; split; [exact H| now apply inv_peek].
  - eexists _, _; split; [reflexivity|]; split; [now apply inv_snapshot|reflexivity].
  - destruct (inv_clear H) as (s' & E & I). rewrite E. cbn. eexists _, _; split; [reflexivity|]; split; auto.
  - destruct (inv_restore H) as (s' & E & I). rewrite E. cbn. eexists _, _; split; [reflexivity|]; split; auto.
Qed.

Fixpoint run_impl (s : stk T) (ops : list op) : option (list (list T * option T)) :=
  match ops with [] => Some [] | o :: r =>
    match step_impl s o with None => None | Some (s', out) =>
      option_map (cons (cache s', out)) (run_impl s' r) end end.
Fixpoint run_spec (a : spec T) (ops : list op) : list (list T * option T) :=
  match ops with [] => [] | o :: r => let '(a', out) := step_spec a o in (cur a', out) :: run_spec a' r end.

Theorem C11_stack_transactional : forall ops, run_impl (@empty T) ops = Some (run_spec (@sempty T) ops).
Proof.
  intros ops. generalize (@inv_empty T). generalize (@empty T) (@sempty T).
  induction ops as [|o ops IH]; intros s a H; cbn; auto.
  destruct (step_refines o H) as (s' & out & E & I & O). rewrite E.
  destruct (step_spec a o) as [a' out'] eqn:Es. cbn in I, O. subst out'.
  rewrite (IH _ _ I). cbn. destruct I as [Ic _]. now rewrite Ic.
Qed.
End Top.
Arguments Pop {T}. Arguments Peek {T}. Arguments Snapshot {T}. Arguments Clear {T}. Arguments Restore {T}.
Arguments Push {T} x.
