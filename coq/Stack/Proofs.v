From Coq Require Import List Arith Lia Bool.
Import ListNotations.
Require Import PV.Stack.Model.
Set Implicit Arguments.
Arguments lastn : simpl never.
Arguments Nat.sub : simpl never.
Arguments Nat.min : simpl never.

Section P.
Variable T : Type.
Notation stk := (stk T). Notation spec := (spec T).
Implicit Types (s : stk) (a : spec) (c l : list T).

Lemma lastn_all c : lastn (length c) c = c.
Proof. unfold lastn. now rewrite Nat.sub_diag. Qed.

Lemma lastn_cons n x c : n <= length c -> lastn n (x :: c) = lastn n c.
Proof. unfold lastn; intros H; cbn [length]. replace (S (length c) - n) with (S (length c - n)) by lia. reflexivity. Qed.

Lemma lastn_length n c : n <= length c -> length (lastn n c) = n.
Proof. unfold lastn; intros; rewrite skipn_length; lia. Qed.

Lemma skipn_skipn' (x y : nat) l : skipn x (skipn y l) = skipn (x + y) l.
Proof.
  revert l; induction y as [|y IH]; intros l.
  - now rewrite Nat.add_0_r.
  - rewrite Nat.add_succ_r. destruct l as [|a l]; [now rewrite !skipn_nil|]. cbn [skipn]. apply IH.
Qed.

Lemma lastn_lastn m k c : m <= k -> k <= length c -> lastn m (lastn k c) = lastn m c.
Proof.
  intros Hm Hk. unfold lastn. rewrite skipn_length, skipn_skipn'. f_equal. lia.
Qed.

Lemma firstn_skipn_split (n m : nat) l : n <= m ->
  firstn m l = firstn n l ++ firstn (m - n) (skipn n l).
Proof.
  intros H. rewrite <- (firstn_skipn n l) at 1.
  rewrite firstn_app. rewrite firstn_firstn.
  replace (Nat.min m n) with n by lia.
  destruct (le_lt_dec (length l) n) as [Hl|Hl].
  - rewrite (firstn_all2 (n:=n)) by lia. rewrite skipn_all2 by lia. now rewrite !firstn_nil.
  - rewrite firstn_length. replace (Nat.min n (length l)) with n by lia. reflexivity.
Qed.

(* Rep only looks at the live cache through its first frame *)
Lemma Rep_change_cache ls pop ss c c' :
  (match ls with [] => True | (l0, r) :: _ => r <= length c' /\ lastn r c' = lastn r c end) ->
  Rep ls pop ss c -> Rep ls pop ss c'.
Proof.
  destruct ls as [|[l0 r] ls]; destruct ss as [|S1 ss]; cbn; auto.
  intros [H1 H2] (A & B & C & D & E). repeat split; auto. congruence.
Qed.

Lemma inv_empty : Inv (@empty T) (@sempty T).
Proof. split; cbn; auto. Qed.

Lemma inv_push s a x : Inv s a -> Inv (push s x) (spush a x).
Proof.
  intros [Hc HR]. split; cbn; [now f_equal|].
  eapply Rep_change_cache; [|exact HR].
  destruct (lengths s) as [|[l0 r] ls]; auto.
  destruct (snaps a) as [|S1 ss]; cbn in HR; [tauto|]. destruct HR as (_ & _ & Hr & _).
  split; [cbn [push cache length]; lia| now apply lastn_cons].
Qed.

Lemma inv_peek s a : Inv s a -> peek s = speek a.
Proof. intros [Hc _]. unfold peek, speek. now rewrite Hc. Qed.

Lemma skipn_S_tl (n : nat) l : skipn (S n) l = tl (skipn n l).
Proof.
  revert l; induction n as [|n IH]; intros l.
  - destruct l; reflexivity.
  - destruct l as [|y l]; [reflexivity|]. change (skipn (S n) l = tl (skipn n l)). apply IH.
Qed.

Lemma lastn_S_hd r S1 x c' : S (length c') = r -> r <= length S1 ->
  lastn r S1 = x :: c' ->
  lastn (r - 1) S1 = c' /\ firstn (length S1 - (r - 1)) S1 = firstn (length S1 - r) S1 ++ [x].
Proof.
  intros Hr Hle H. unfold lastn in *.
  split.
  - replace (length S1 - (r - 1)) with (S (length S1 - r)) by lia.
    rewrite skipn_S_tl. now rewrite H.
  - rewrite (@firstn_skipn_split (length S1 - r) (length S1 - (r-1))) by lia.
    f_equal. rewrite H. replace (length S1 - (r - 1) - (length S1 - r)) with 1 by lia. reflexivity.
Qed.

Lemma inv_pop s a : Inv s a ->
  Inv (fst (pop s)) (fst (spop a)) /\ snd (pop s) = snd (spop a).
Proof.
  intros [Hc HR]. unfold pop, spop. rewrite <- Hc.
  destruct (cache s) as [|x c'] eqn:Ec; [split; [split|]; cbn; auto; now rewrite Ec|].
  destruct (lengths s) as [|[l0 r] ls] eqn:El.
  - split; [|reflexivity]. split; cbn; auto.
  - destruct (snaps a) as [|S1 ss] eqn:Es; cbn in HR; [tauto|].
    destruct HR as (Hl & Hrl & Hrc & Hlast & pop' & Hpop & Hrest).
    destruct (Nat.eqb_spec (S (length c')) r) as [Heq|Hne]; (split; [|reflexivity]); split; cbn; auto.
    + rewrite <- Heq in Hlast at 2. change (S (length c')) with (length (x :: c')) in Hlast.
      rewrite lastn_all in Hlast. subst l0.
      destruct (@lastn_S_hd r S1 x c' Heq Hrl Hlast) as [H1 H2].
      repeat split; try lia.
      * rewrite H1. replace (r - 1) with (length c') by lia. now rewrite lastn_all.
      * exists pop'. split; auto. rewrite Hpop, H2, rev_app_distr. reflexivity.
    + cbn in Hrc. repeat split; auto; try lia.
      * rewrite Hlast. apply lastn_cons. lia.
      * exists pop'; auto.
Qed.

Lemma inv_snapshot s a : Inv s a -> Inv (snapshot s) (ssnapshot a).
Proof.
  intros [Hc HR]. split; cbn; auto. rewrite <- Hc. repeat split; auto.
  exists (popped s). rewrite Nat.sub_diag. cbn. split; auto.
Qed.

Lemma csub_some (x y : nat) : y <= x -> csub x y = Some (x - y).
Proof. unfold csub; intros; destruct (Nat.leb_spec y x); auto; lia. Qed.

Lemma rev_firstn_length n l : n <= length l -> length (rev (firstn n l)) = n.
Proof. intros; rewrite rev_length, firstn_length; lia. Qed.

Lemma inv_clear s a : Inv s a -> exists s', clear_snapshot s = Some s' /\ Inv s' (sclear a).
Proof.
  intros [Hc HR]. unfold clear_snapshot, sclear.
  destruct (lengths s) as [|[l0 r] ls] eqn:El.
  - exists s. split; auto. split; auto. rewrite El. destruct (snaps a); cbn in *; auto. tauto.
  - destruct (snaps a) as [|S1 ss] eqn:Es; cbn in HR; [tauto|].
    destruct HR as (Hl & Hrl & Hrc & Hlast & pop' & Hpop & Hrest).
    rewrite csub_some by lia.
    assert (Hseg : length (rev (firstn (l0 - r) S1)) = l0 - r) by (apply rev_firstn_length; lia).
    destruct ls as [|[pl pr] ls'].
    + destruct ss as [|S2 ss']; cbn in Hrest; [|tauto]. subst pop'.
      rewrite csub_some by (rewrite Hpop, app_nil_r, Hseg; lia).
      eexists; split; [reflexivity|]. split; cbn; auto.
      rewrite Hpop, app_nil_r. rewrite skipn_all2 by lia. reflexivity.
    + destruct ss as [|S2 ss']; cbn in Hrest; [tauto|].
      destruct Hrest as (Hpl & Hprl & Hprc & Hlast2 & pop'' & Hpop' & Hrest').
      assert (Hlen : length (popped s) = (l0 - r) + length pop') by (rewrite Hpop, app_length, Hseg; lia).
      rewrite csub_some by lia.
      assert (Hpp : pr - Nat.min pr r <= l0 - r) by lia.
      rewrite csub_some by lia.
      destruct (Nat.leb_spec (length (popped s) - (l0 - r)) (length (popped s) - (l0 - r) + (l0 - r) - (pr - Nat.min pr r))); [|lia].
      eexists; split; [reflexivity|]. split; cbn; auto.
      repeat split; try lia.
      * (* lastn *)
        set (m := Nat.min pr r).
        rewrite <- (@lastn_lastn m pr S2) by lia. rewrite Hlast2.
        rewrite (@lastn_lastn m pr S1) by lia.
        rewrite <- (@lastn_lastn m r S1) by lia. rewrite Hlast.
        apply lastn_lastn; lia.
      * exists pop''. split; auto.
        rewrite Hpop at 2. rewrite skipn_app, Hseg, Nat.sub_diag, skipn_all2 by lia. cbn [skipn app].
        rewrite Hpop'. rewrite app_assoc. f_equal.
        rewrite Hpop. rewrite firstn_app, Hseg.
        replace (pr - Nat.min pr r - (l0 - r)) with 0 by lia. rewrite firstn_O, app_nil_r.
        destruct (le_lt_dec pr r) as [Hle|Hlt].
        -- replace (Nat.min pr r) with pr by lia. rewrite Nat.sub_diag. reflexivity.
        -- replace (Nat.min pr r) with r by lia.
           (* firstn (pl - r) S2 = firstn (pl-pr) S2 ++ firstn (pr-r) (skipn (pl-pr) S2) *)
           rewrite (@firstn_skipn_split (pl - pr) (pl - r) S2) by lia.
           rewrite rev_app_distr. f_equal.
           replace (pl - r - (pl - pr)) with (pr - r) by lia.
           unfold lastn in Hlast2. rewrite <- Hpl in Hlast2. rewrite Hlast2.
           (* firstn (pr-r) (rev (firstn (l0-r) S1)) = rev (firstn (pr-r) (skipn (|S1|-pr) S1)) *)
           rewrite <- Hl.
           rewrite (@firstn_skipn_split (l0 - pr) (l0 - r) S1) by lia.
           rewrite rev_app_distr. replace (l0 - r - (l0 - pr)) with (pr - r) by lia.
           rewrite firstn_app.
           assert (length (rev (firstn (pr - r) (skipn (l0 - pr) S1))) = pr - r) as Hk.
           { rewrite rev_length, firstn_length, skipn_length. lia. }
           rewrite Hk, Nat.sub_diag, firstn_O, app_nil_r.
           rewrite <- Hk at 1. apply firstn_all.
Qed.

Lemma inv_restore s a : Inv s a -> exists s', restore s = Some s' /\ Inv s' (srestore a).
Proof.
  intros [Hc HR]. unfold restore, srestore.
  destruct (lengths s) as [|[l0 r] ls] eqn:El.
  - destruct (snaps a) eqn:Es; cbn in HR; [|tauto].
    eexists; split; [reflexivity|]. split; cbn; auto.
  - destruct (snaps a) as [|S1 ss] eqn:Es; cbn in HR; [tauto|].
    destruct HR as (Hl & Hrl & Hrc & Hlast & pop' & Hpop & Hrest).
    assert (Hc1 : (if r <? length (cache s) then skipn (length (cache s) - r) (cache s) else cache s) = lastn r (cache s)).
    { destruct (Nat.ltb_spec r (length (cache s))); [reflexivity|].
      replace r with (length (cache s)) by lia. now rewrite lastn_all. }
    rewrite Hc1, <- Hlast.
    assert (Hseg : length (rev (firstn (l0 - r) S1)) = l0 - r) by (apply rev_firstn_length; lia).
    destruct (Nat.ltb_spec r l0).
    + rewrite csub_some by (rewrite Hpop, app_length, Hseg; lia).
      eexists; split; [reflexivity|]. split; cbn.
      * rewrite Hpop, firstn_app, Hseg, Nat.sub_diag, firstn_O, app_nil_r.
        rewrite <- Hseg at 1. rewrite firstn_all, rev_involutive.
        unfold lastn. rewrite <- Hl. apply firstn_skipn.
      * rewrite Hpop, skipn_app, Hseg, Nat.sub_diag, skipn_all2 by lia. cbn.
        rewrite firstn_app, Hseg, Nat.sub_diag, firstn_O, app_nil_r.
        rewrite <- Hseg at 1. rewrite firstn_all, rev_involutive.
        unfold lastn. rewrite <- Hl, firstn_skipn. exact Hrest.
    + eexists; split; [reflexivity|]. split; cbn.
      * replace r with (length S1) by lia. apply lastn_all.
      * replace r with (length S1) by lia. rewrite lastn_all.
        replace (l0 - r) with 0 in Hpop by lia. cbn in Hpop. subst pop'. exact Hrest.
Qed.

End P.
