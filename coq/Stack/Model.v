From Coq Require Import List Arith Lia Bool.
Import ListNotations.
Set Implicit Arguments.

Section S.
Variable T : Type.

(* Vec<T> as list with the LAST element of the Vec at the head *)
Record stk := { cache : list T; popped : list T; lengths : list (nat * nat) }.
Definition empty : stk := {| cache := []; popped := []; lengths := [] |}.

Definition push (s : stk) (x : T) : stk :=
  {| cache := x :: cache s; popped := popped s; lengths := lengths s |}.
Definition peek (s : stk) : option T := hd_error (cache s).

Definition pop (s : stk) : stk * option T :=
  match cache s with
  | [] => (s, None)
  | x :: c' =>
    let len := S (length c') in
    match lengths s with
    | (l, r) :: ls =>
      if Nat.eqb len r
      then ({| cache := c'; popped := x :: popped s; lengths := (l, r - 1) :: ls |}, Some x)
      else ({| cache := c'; popped := popped s; lengths := lengths s |}, Some x)
    | [] => ({| cache := c'; popped := popped s; lengths := [] |}, Some x)
    end
  end.

Definition snapshot (s : stk) : stk :=
  {| cache := cache s; popped := popped s;
     lengths := (length (cache s), length (cache s)) :: lengths s |}.

(* checked subtraction: None = usize underflow = panic *)
Definition csub (a b : nat) : option nat := if Nat.leb b a then Some (a - b) else None.

Definition clear_snapshot (s : stk) : option stk :=
  match lengths s with
  | [] => Some s
  | (len, remained) :: rest =>
    match csub len remained with None => None | Some popped_count =>
    match rest with
    | (pl, pr) :: rest' =>
      let merged := Nat.min pr remained in
      let parent_popped := pr - merged in
      match csub (length (popped s)) popped_count with None => None | Some popped_start =>
      match csub (popped_start + popped_count) parent_popped with None => None | Some drain_end =>
      if Nat.leb popped_start drain_end then   (* drain(a..b) panics if a > b *)
        Some {| cache := cache s;
                popped := firstn parent_popped (popped s) ++ skipn popped_count (popped s);
                lengths := (pl, merged) :: rest' |}
      else None end end
    | [] =>
      match csub (length (popped s)) popped_count with None => None | Some _ =>
        Some {| cache := cache s; popped := skipn popped_count (popped s); lengths := [] |} end
    end end
  end.

Definition restore (s : stk) : option stk :=
  match lengths s with
  | [] => Some {| cache := []; popped := popped s; lengths := [] |}
  | (len_stack, remained) :: rest =>
    let c1 := if Nat.ltb remained (length (cache s))
              then skipn (length (cache s) - remained) (cache s) else cache s in
    if Nat.ltb remained len_stack then
      let rewind := len_stack - remained in
      match csub (length (popped s)) rewind with None => None | Some _ =>
        Some {| cache := rev (firstn rewind (popped s)) ++ c1;
                popped := skipn rewind (popped s); lengths := rest |} end
    else Some {| cache := c1; popped := popped s; lengths := rest |}
  end.

(* naive spec *)
Record spec := { cur : list T; snaps : list (list T) }.
Definition sempty : spec := {| cur := []; snaps := [] |}.
Definition spush (a : spec) x := {| cur := x :: cur a; snaps := snaps a |}.
Definition speek (a : spec) := hd_error (cur a).
Definition spop (a : spec) : spec * option T :=
  match cur a with [] => (a, None) | x :: c => ({| cur := c; snaps := snaps a |}, Some x) end.
Definition ssnapshot (a : spec) := {| cur := cur a; snaps := cur a :: snaps a |}.
Definition sclear (a : spec) := {| cur := cur a; snaps := tl (snaps a) |}.
Definition srestore (a : spec) :=
  match snaps a with [] => {| cur := []; snaps := [] |} | x :: r => {| cur := x; snaps := r |} end.

Definition lastn (n : nat) (l : list T) := skipn (length l - n) l.

Fixpoint Rep (ls : list (nat * nat)) (pop : list T) (ss : list (list T)) (c : list T) : Prop :=
  match ls, ss with
  | [], [] => pop = []
  | (l, r) :: ls', S1 :: ss' =>
      l = length S1 /\ r <= l /\ r <= length c /\ lastn r S1 = lastn r c /\
      exists pop', pop = rev (firstn (l - r) S1) ++ pop' /\ Rep ls' pop' ss' S1
  | _, _ => False
  end.

Definition Inv (s : stk) (a : spec) : Prop :=
  cache s = cur a /\ Rep (lengths s) (popped s) (snaps a) (cache s).
End S.
