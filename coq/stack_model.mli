
type nat =
| O
| S of nat

val option_map : ('a1 -> 'a2) -> 'a1 option -> 'a2 option

val length : 'a1 list -> nat

val app : 'a1 list -> 'a1 list -> 'a1 list

val add : nat -> nat -> nat

val sub : nat -> nat -> nat

module Nat :
 sig
  val eqb : nat -> nat -> bool

  val leb : nat -> nat -> bool

  val ltb : nat -> nat -> bool

  val min : nat -> nat -> nat
 end

val hd_error : 'a1 list -> 'a1 option

val tl : 'a1 list -> 'a1 list

val rev : 'a1 list -> 'a1 list

val firstn : nat -> 'a1 list -> 'a1 list

val skipn : nat -> 'a1 list -> 'a1 list

type 't stk = { cache : 't list; popped : 't list; lengths : (nat * nat) list }

val cache : 'a1 stk -> 'a1 list

val popped : 'a1 stk -> 'a1 list

val lengths : 'a1 stk -> (nat * nat) list

val empty : 'a1 stk

val push : 'a1 stk -> 'a1 -> 'a1 stk

val peek : 'a1 stk -> 'a1 option

val pop : 'a1 stk -> 'a1 stk * 'a1 option

val snapshot : 'a1 stk -> 'a1 stk

val csub : nat -> nat -> nat option

val clear_snapshot : 'a1 stk -> 'a1 stk option

val restore : 'a1 stk -> 'a1 stk option

type 't spec = { cur : 't list; snaps : 't list list }

val cur : 'a1 spec -> 'a1 list

val sempty : 'a1 spec

val spush : 'a1 spec -> 'a1 -> 'a1 spec

val speek : 'a1 spec -> 'a1 option

val spop : 'a1 spec -> 'a1 spec * 'a1 option

val ssnapshot : 'a1 spec -> 'a1 spec

val sclear : 'a1 spec -> 'a1 spec

val srestore : 'a1 spec -> 'a1 spec

type 't op =
| Push of 't
| Pop
| Peek
| Snapshot
| Clear
| Restore

val step_impl : 'a1 stk -> 'a1 op -> ('a1 stk * 'a1 option) option

val step_spec : 'a1 spec -> 'a1 op -> 'a1 spec * 'a1 option
