(* C09, part 2: executable model of meta/src/parser.rs below `consume_rules_with_spans`
   (get_node_tag, consume_expr/unaries, the postfix fold, unescape) over the token forest of Shape.v.
   Every `unwrap`, `expect`, `unreachable!`, slice and number parse is an explicit branch:
     OPanic  = the Rust code panics,     OErrs l = Err(vec![..]) with located errors,
     OFuel   = model artefact (the nesting-depth fuel ran out; never with fuel > depth, see Total.v).
   Flags select the code as shipped (false) or with the repairs of /verif/fixes/C09-*.patch (true).
   The Pratt parser is the model of C13 (PV.Pratt.Model.pratt_parse) with the table
   `.op(infix(choice_operator, Left)).op(infix(sequence_operator, Left))`, map_primary and map_infix. *)
From Coq Require Import List Arith NArith ZArith Bool.
Import ListNotations.
Require Import PV.Pos.Model PV.Front.Shape.
Require PV.Pratt.Syntax PV.Pratt.Model.

Record flags := { extras : bool;        (* feature grammar-extras *)
                  fix_escape : bool;    (* fixes/C09-1: unescape failure -> located error *)
                  fix_peek : bool;      (* fixes/C09-2: PEEK index outside i32 -> located error *)
                  fix_choice : bool;    (* fixes/C09-3: leading `|` skipped in every expression *)
                  fix_unroll : bool;    (* fixes/C09-4: unroller ranges without u32 overflow *)
                  (* two repairs made for property C06 change functions modelled here; the model follows whichever the tree has *)
                  fix_lr : bool;        (* left_recursion::check_expr: left side of a sequence always checked, bounded repetitions and tags descended *)
                  fix_tag : bool;       (* ParserNode::filter_map_top_down descends into NodeTag (grammar-extras) *)
                  (* a repair made for property C07 *)
                  fix_insens : bool }.  (* the ^"..." literal is read from the inner `string` pair, not from the whole `^ ".."` text *)

Inductive loc := LPos (p : nat) | LSpan (a b : nat).
Inductive ekind :=
| KKeyword | KAlreadyDefined | KUndefined                      (* validate_pairs *)
| KOverflowU32 | KRepeatZero | KPushLiteralFeature             (* consume_expr *)
| KBadEscape | KOverflowI32                                    (* consume_expr, repaired code only *)
| KRepNonFailing | KRepNonProgressing | KChoiceUnreachable
| KWsNonFailing | KWsNonProgressing | KLeftRecursion
| KTagSilent | KTagBuiltin.                                    (* validate_ast *)
Definition err := (ekind * loc)%type.

Inductive out (A : Type) := ODone (a : A) | OErrs (l : list err) | OPanic | OFuel.
Arguments ODone {A} a. Arguments OErrs {A} l. Arguments OPanic {A}. Arguments OFuel {A}.
Definition obind {A B} (o : out A) (f : A -> out B) : out B :=
  match o with ODone a => f a | OErrs l => OErrs l | OPanic => OPanic | OFuel => OFuel end.

Definition span := (nat * nat)%type.
Inductive rtype := TNormal | TSilent | TAtomic | TCompound | TNonAtomic.

(* ParserNode { expr, span }: the span is the first argument of every constructor *)
Inductive pnode :=
| PStr (sp : span) (s : str)
| PInsens (sp : span) (s : str)
| PRange (sp : span) (a b : str)
| PIdent (sp : span) (n : str)
| PPeekSlice (sp : span) (i : Z) (j : option Z)
| PPosPred (sp : span) (n : pnode)
| PNegPred (sp : span) (n : pnode)
| PSeq (sp : span) (l r : pnode)
| PChoice (sp : span) (l r : pnode)
| POpt (sp : span) (n : pnode)
| PRep (sp : span) (n : pnode)
| PRepOnce (sp : span) (n : pnode)
| PRepExact (sp : span) (n : pnode) (k : N)
| PRepMin (sp : span) (n : pnode) (k : N)
| PRepMax (sp : span) (n : pnode) (k : N)
| PRepMinMax (sp : span) (n : pnode) (k1 k2 : N)
| PPush (sp : span) (n : pnode)
| PPushLiteral (sp : span) (s : str)
| PNodeTag (sp : span) (n : pnode) (tag : str).

Definition nspan (n : pnode) : span :=
  match n with
  | PStr sp _ | PInsens sp _ | PRange sp _ _ | PIdent sp _ | PPeekSlice sp _ _ | PPosPred sp _ | PNegPred sp _ | PSeq sp _ _
  | PChoice sp _ _ | POpt sp _ | PRep sp _ | PRepOnce sp _ | PRepExact sp _ _ | PRepMin sp _ _ | PRepMax sp _ _
  | PRepMinMax sp _ _ _ | PPush sp _ | PPushLiteral sp _ | PNodeTag sp _ _ => sp
  end.
(* ParserNode { expr: node.expr, span: sp } *)
Definition with_span (n : pnode) (sp : span) : pnode :=
  match n with
  | PStr _ s => PStr sp s | PInsens _ s => PInsens sp s | PRange _ a b => PRange sp a b | PIdent _ x => PIdent sp x
  | PPeekSlice _ i j => PPeekSlice sp i j | PPosPred _ x => PPosPred sp x | PNegPred _ x => PNegPred sp x
  | PSeq _ l r => PSeq sp l r | PChoice _ l r => PChoice sp l r | POpt _ x => POpt sp x | PRep _ x => PRep sp x
  | PRepOnce _ x => PRepOnce sp x | PRepExact _ x k => PRepExact sp x k | PRepMin _ x k => PRepMin sp x k
  | PRepMax _ x k => PRepMax sp x k | PRepMinMax _ x a b => PRepMinMax sp x a b | PPush _ x => PPush sp x
  | PPushLiteral _ s => PPushLiteral sp s | PNodeTag _ x t => PNodeTag sp x t
  end.
Definition nstart (n : pnode) : nat := fst (nspan n).
Definition nend (n : pnode) : nat := snd (nspan n).

Record prule := { pname : str; pspan : span; pty : rtype; pbody : pnode }.

(* ------------------------------------------------------------------ numbers *)
Definition is_digit (c : char) : bool := (48 <=? c)%N && (c <=? 57)%N.
Definition ch_plus : char := 43%N.
Definition ch_minus : char := 45%N.
Fixpoint digits_val (acc : N) (s : str) : option N :=
  match s with
  | [] => Some acc
  | c :: r => if is_digit c then digits_val (acc * 10 + (c - 48))%N r else None
  end.
(* <u32 as FromStr>: optional '+', at least one digit, value <= u32::MAX *)
Definition u32_max : N := 4294967295.
Definition parse_u32 (s : str) : option N :=
  let body := match s with c :: r => if ceq c ch_plus then r else s | [] => s end in
  match body with
  | [] => None
  | _ => match digits_val 0 body with Some v => if (v <=? u32_max)%N then Some v else None | None => None end
  end.
(* <i32 as FromStr>: optional '+' or '-', at least one digit, value in i32::MIN ..= i32::MAX *)
Definition parse_i32 (s : str) : option Z :=
  let '(neg, body) := match s with
                      | c :: r => if ceq c ch_plus then (false, r) else if ceq c ch_minus then (true, r) else (false, s)
                      | [] => (false, s)
                      end in
  match body with
  | [] => None
  | _ => match digits_val 0 body with
         | Some v => if neg then (if (v <=? 2147483648)%N then Some (- Z.of_N v)%Z else None)
                     else (if (v <=? 2147483647)%N then Some (Z.of_N v) else None)
         | None => None
         end
  end.

(* ------------------------------------------------------------------ unescape *)
Definition hex_val (c : char) : option N :=
  if (48 <=? c)%N && (c <=? 57)%N then Some (c - 48)%N
  else if (97 <=? c)%N && (c <=? 102)%N then Some (c - 87)%N
  else if (65 <=? c)%N && (c <=? 70)%N then Some (c - 55)%N
  else None.
Fixpoint hex_digits (acc : N) (s : str) : option N :=
  match s with [] => Some acc | c :: r => match hex_val c with Some v => hex_digits (acc * 16 + v)%N r | None => None end end.
(* uN::from_str_radix(s, 16): optional '+', at least one digit (overflow cannot occur for the lengths used) *)
Definition from_str_radix16 (s : str) : option N :=
  let body := match s with c :: r => if ceq c ch_plus then r else s | [] => s end in
  match body with [] => None | _ => hex_digits 0 body end.
(* char::from_u32 *)
Definition char_from_u32 (v : N) : option char :=
  if ((55296 <=? v)%N && (v <=? 57343)%N) || (1114111 <? v)%N then None else Some v.
Fixpoint take_while_not (stop : char) (s : str) : str :=
  match s with [] => [] | c :: r => if ceq c stop then [] else c :: take_while_not stop r end.

Inductive ures := UOk (s : str) | UNone | UFuel.
(* the `loop { match chars.next() .. }` of unescape; acc is `result` reversed; every iteration consumes a char *)
Fixpoint unesc (fuel : nat) (cs : str) (acc : str) : ures :=
  match fuel with
  | 0 => UFuel
  | S f =>
    match cs with
    | [] => UOk (rev acc)
    | c :: cs1 =>
      if ceq c ch_bslash then
        match cs1 with
        | [] => UNone                                               (* chars.next()? *)
        | d :: cs2 =>
          if ceq d ch_dquote then unesc f cs2 (ch_dquote :: acc)
          else if ceq d ch_bslash then unesc f cs2 (ch_bslash :: acc)
          else if ceq d 114%N then unesc f cs2 (13%N :: acc)        (* r *)
          else if ceq d 110%N then unesc f cs2 (10%N :: acc)        (* n *)
          else if ceq d 116%N then unesc f cs2 (9%N :: acc)         (* t *)
          else if ceq d 48%N then unesc f cs2 (0%N :: acc)          (* 0 *)
          else if ceq d ch_squote then unesc f cs2 (ch_squote :: acc)
          else if ceq d 120%N then                                   (* x *)
            let string := firstn 2 cs2 in
            if negb (Nat.eqb (blen string) 2) then UNone
            else if Nat.ltb (length cs2) 2 then UNone               (* for _ in 0..string.len() { chars.next()?; } *)
            else match from_str_radix16 string with
                 | None => UNone
                 | Some v => unesc f (skipn 2 cs2) (v :: acc)       (* char::from(u8) *)
                 end
          else if ceq d 117%N then                                   (* u *)
            match cs2 with
            | [] => UNone
            | o :: cs3 =>
              if negb (ceq o 123%N) then UNone                       (* { *)
              else
                let string := take_while_not 125%N cs3 in            (* } *)
                if Nat.ltb (blen string) 2 || Nat.ltb 6 (blen string) then UNone
                else if Nat.ltb (length cs3) (blen string + 1) then UNone
                else match from_str_radix16 string with
                     | None => UNone
                     | Some v => match char_from_u32 v with
                                 | None => UNone
                                 | Some ch => unesc f (skipn (blen string + 1) cs3) (ch :: acc)
                                 end
                     end
            end
          else UNone
        end
      else unesc f cs1 (c :: acc)
    end
  end.
Definition unescape (s : str) : ures := unesc (S (length s)) s [].

(* &s[a .. s.len() - 1]  (usize underflow and non-boundary slicing panic) *)
Definition strip (a : nat) (s : str) : option str :=
  match csub (blen s) 1 with None => None | Some e => slice s a e end.

(* ------------------------------------------------------------------ consume_expr *)
Definition tspan (t : tok) : span := (tstart t, tend t).
Definition is_rule (r : mrule) (t : tok) : bool := mrule_eqb (trule t) r.

(* the Pratt table of consume_rules_with_spans *)
Definition pratt_table : PV.Pratt.Syntax.table :=
  PV.Pratt.Model.builder_get (PV.Pratt.Model.builder_table [ ((mrule_code r_choice_operator, PV.Pratt.Syntax.Infix PV.Pratt.Syntax.ALeft), []);
                                     ((mrule_code r_sequence_operator, PV.Pratt.Syntax.Infix PV.Pratt.Syntax.ALeft), []) ]).
Definition pratt_maps : PV.Pratt.Model.maps := {| PV.Pratt.Model.m_prefix := false; PV.Pratt.Model.m_postfix := false; PV.Pratt.Model.m_infix := true |}.
Definition ptoks (l : list tok) : list (PV.Pratt.Syntax.tok tok) := map (fun k => (mrule_code (trule k), k)) l.

Section Consume.
Variable fl : flags.
Variable text : str.

(* Pair::as_str: &input[start..end] *)
Definition as_str (t : tok) : option str := slice text (tstart t) (tend t).

(* number.as_str().parse::<u32>() with the "number cannot overflow u32" error *)
Definition number_of (t : tok) : out N :=
  match as_str t with
  | None => OPanic
  | Some w => match parse_u32 w with Some n => ODone n | None => OErrs [(KOverflowU32, LSpan (tstart t) (tend t))] end
  end.
Definition nonzero (t : tok) (n : N) : out N :=
  if (n =? 0)%N then OErrs [(KRepeatZero, LSpan (tstart t) (tend t))] else ODone n.

(* one step of `pairs.try_fold(node, |node, pair| ..)`: the postfix operators and closing_paren *)
Definition post_step (node : pnode) (pr : tok) : out pnode :=
  let sp := (nstart node, tend pr) in
  match trule pr with
  | r_optional_operator => ODone (POpt sp node)
  | r_repeat_operator => ODone (PRep sp node)
  | r_repeat_once_operator => ODone (PRepOnce sp node)
  | r_repeat_exact =>
      match tkids pr with
      | _ :: number :: _ => obind (number_of number) (fun n => obind (nonzero number n) (fun n => ODone (PRepExact sp node n)))
      | _ => OPanic
      end
  | r_repeat_min =>
      match tkids pr with
      | _ :: mn :: _ => obind (number_of mn) (fun n => ODone (PRepMin sp node n))
      | _ => OPanic
      end
  | r_repeat_max =>
      match tkids pr with
      | _ :: _ :: mx :: _ => obind (number_of mx) (fun n => obind (nonzero mx n) (fun n => ODone (PRepMax sp node n)))
      | _ => OPanic
      end
  | r_repeat_min_max =>
      match tkids pr with
      | _ :: mn :: rest =>
          obind (number_of mn) (fun lo =>
            match rest with
            | _ :: mx :: _ => obind (number_of mx) (fun hi => obind (nonzero mx hi) (fun hi => ODone (PRepMinMax sp node lo hi)))
            | _ => OPanic
            end)
      | _ => OPanic
      end
  | r_closing_paren => ODone (with_span node sp)
  | _ => OPanic                                                   (* unreachable!("node: {:?}", rule) *)
  end.
Fixpoint fold_post (node : pnode) (l : list tok) : out pnode :=
  match l with [] => ODone node | p :: l' => obind (post_step node p) (fun n => fold_post n l') end.

(* unescape(pair.as_str()).expect("incorrect .. literal")  /  repaired: a located error *)
Definition unescaped (t : tok) : out str :=
  match as_str t with
  | None => OPanic
  | Some w => match unescape w with
              | UOk s => ODone s
              | UNone => if fix_escape fl then OErrs [(KBadEscape, LSpan (tstart t) (tend t))] else OPanic
              | UFuel => OFuel
              end
  end.
Definition stripped (a : nat) (s : str) : out str := match strip a s with Some x => ODone x | None => OPanic end.

(* pair.as_str().parse::<i32>().unwrap()  /  repaired: a located error *)
Definition peek_index (t : tok) : out Z :=
  match as_str t with
  | None => OPanic
  | Some w => match parse_i32 w with
              | Some z => ODone z
              | None => if fix_peek fl then OErrs [(KOverflowI32, LSpan (tstart t) (tend t))] else OPanic
              end
  end.

Definition peek_slice_node (pr : tok) : out pnode :=
  match tkids pr with
  | _ :: ps :: rest =>                                            (* opening_brack; `..` or integer *)
      let start_rest :=
        match trule ps with
        | r_range_operator => ODone (0%Z, rest)
        | r_integer => match rest with
                       | _ :: rest' => obind (peek_index ps) (fun z => ODone (z, rest'))
                       | [] => OPanic
                       end
        | _ => OPanic                                             (* unreachable!("peek start") *)
        end in
      obind start_rest (fun sr =>
        let '(start, rest) := sr in
        match rest with
        | pe :: rest' =>
            match trule pe with
            | r_closing_brack => ODone (PPeekSlice (tspan pr) start None)
            | r_integer => match rest' with
                           | _ :: _ => obind (peek_index pe) (fun z => ODone (PPeekSlice (tspan pr) start (Some z)))
                           | [] => OPanic
                           end
            | _ => OPanic                                         (* unreachable!("peek end") *)
            end
        | [] => OPanic
        end)
  | _ => OPanic
  end.

Definition range_node (pr : tok) : out pnode :=
  match tkids pr with
  | p1 :: rest =>
      obind (unescaped p1) (fun s1 =>
        match rest with                                           (* pairs.next(); let pair = pairs.next().unwrap(); *)
        | _ :: p2 :: _ =>
            obind (unescaped p2) (fun s2 =>
              obind (stripped 1 s1) (fun a => obind (stripped 1 s2) (fun b => ODone (PRange (tstart p1, tend p2) a b))))
        | _ => OPanic
        end)
  | [] => OPanic
  end.

(* consume_expr; `rec` is consume_expr one nesting level down, `un` is `unaries`, `ev` applies map_primary / map_infix
   to the Pratt tree *)
Section Body.
Variable rec : list tok -> out pnode.

Definition atom (pr : tok) : out pnode :=
  match trule pr with
  | r_expression => rec (tkids pr)
  | r_push =>
      match tkids pr with
      | _ :: x :: _ => obind (rec (tkids x)) (fun node => ODone (PPush (tstart pr, nend node) node))
      | _ => OPanic
      end
  | r_push_literal =>
      if extras fl then
        match tkids pr with
        | _ :: c :: _ => obind (unescaped c) (fun s => obind (stripped 1 s) (fun x => ODone (PPushLiteral (tspan c) x)))
        | _ => OPanic
        end
      else OErrs [(KPushLiteralFeature, LSpan (tstart pr) (tend pr))]
  | r_peek_slice => peek_slice_node pr
  | r_identifier => match as_str pr with Some w => ODone (PIdent (tspan pr) w) | None => OPanic end
  | r_string => obind (unescaped pr) (fun s => obind (stripped 1 s) (fun x => ODone (PStr (tspan pr) x)))
  | r_insensitive_string =>
      if fix_insens fl then
        match tkids pr with                                     (* pair.clone().into_inner().next().unwrap() *)
        | literal :: _ => obind (unescaped literal) (fun s => obind (stripped 1 s) (fun x => ODone (PInsens (tspan pr) x)))
        | [] => OPanic
        end
      else obind (unescaped pr) (fun s => obind (stripped 2 s) (fun x => ODone (PInsens (tspan pr) x)))
  | r_range => range_node pr
  | _ => OPanic                                               (* unreachable!("other rule: {:?}", x) *)
  end.

Definition add_tag (tag : option (str * nat)) (n : pnode) : out pnode :=
  match tag with
  | Some (t, st) => if extras fl then ODone (PNodeTag (st, nend n) n t) else ODone n
  | None => ODone n
  end.
(* the body of `unaries` once get_node_tag has split off the tag; `r` is `unaries(pairs, pratt)` on the rest *)
Definition core (pr : tok) (rest : list tok) (r : out pnode) (tag : option (str * nat)) : out pnode :=
  obind (match trule pr with
         | r_opening_paren => obind r (fun n => ODone (with_span n (tstart pr, nend n)))
         | r_positive_predicate_operator => obind r (fun n => ODone (PPosPred (tstart pr, nend n) n))
         | r_negative_predicate_operator => obind r (fun n => ODone (PNegPred (tstart pr, nend n) n))
         | _ => obind (atom pr) (fun n => fold_post n rest)
         end) (add_tag tag).

Fixpoint un (l : list tok) {struct l} : out pnode :=
  match l with
  | [] => OPanic                                              (* get_node_tag: pairs.next().unwrap() *)
  | pt :: l1 =>
      match l1 with
      | nx :: l2 =>
          if is_rule r_assignment_operator nx then
            match l2 with
            | pr :: l3 =>
                match as_str pt with
                | Some w => match slice w 1 (blen w) with                    (* pair_or_tag.as_str()[1..] *)
                            | Some tag => core pr l3 (un l3) (Some (tag, tstart pt))
                            | None => OPanic
                            end
                | None => OPanic
                end
            | [] => OPanic                                    (* pairs.next().unwrap() *)
            end
          else core pt l1 (un l1) None
      | [] => core pt l1 (un l1) None
      end
  end.

Definition infix_node (lhs : pnode) (o : tok) (rhs : pnode) : out pnode :=
  match trule o with
  | r_sequence_operator => ODone (PSeq (nstart lhs, nend rhs) lhs rhs)
  | r_choice_operator => ODone (PChoice (nstart lhs, nend rhs) lhs rhs)
  | _ => OPanic                                               (* unreachable!("infix") *)
  end.
Fixpoint ev (t : PV.Pratt.Syntax.tree tok) : out pnode :=
  match t with
  | PV.Pratt.Syntax.Leaf a => un (tkids (snd a))                           (* term = |pair| unaries(pair.into_inner().peekable(), pratt) *)
  | PV.Pratt.Syntax.Bin l o r =>
      match ev l, ev r with                                   (* both operands are computed before `infix` runs *)
      | OPanic, _ | _, OPanic => OPanic
      | OFuel, _ | _, OFuel => OFuel
      | OErrs e, _ => OErrs e                                 (* let lhs = lhs?; *)
      | _, OErrs e => OErrs e                                 (* let rhs = rhs?; *)
      | ODone lhs, ODone rhs => infix_node lhs (snd o) rhs
      end
  | _ => OPanic                                               (* no prefix / postfix operator is declared *)
  end.

Definition skip_choice (kids : list tok) : list tok :=
  match kids with k :: r => if is_rule r_choice_operator k then r else kids | [] => kids end.
Definition cexpr_body (kids : list tok) : out pnode :=
  let kids' := if fix_choice fl then skip_choice kids else kids in
  match PV.Pratt.Model.pratt_parse pratt_maps pratt_table (ptoks kids') with
  | PV.Pratt.Syntax.Ok t _ => ev t
  | PV.Pratt.Syntax.Panic _ => OPanic
  | PV.Pratt.Syntax.OutOfFuel => OFuel
  end.
End Body.

(* nesting fuel: one unit per level of `expression` *)
Fixpoint cexpr (d : nat) : list tok -> out pnode :=
  match d with 0 => fun _ => OFuel | S d' => cexpr_body (cexpr d') end.

(* the closure of `.map(|pair| ..)` in consume_rules_with_spans, for one grammar_rule pair that is not a line_doc *)
Definition consume_rule (d : nat) (t : tok) : out prule :=
  match tkids t with
  | nm :: l1 =>
      match as_str nm with
      | None => OPanic
      | Some name =>
        match l1 with
        | _ :: l2 =>                                              (* assignment_operator *)
          match l2 with
          | [] => OPanic                                          (* pairs.peek().unwrap() *)
          | m :: l3 =>
            let ty_rest : out (rtype * list tok) :=
              if negb (is_rule r_opening_brace m) then
                match trule m with
                | r_silent_modifier => ODone (TSilent, l3)
                | r_atomic_modifier => ODone (TAtomic, l3)
                | r_compound_atomic_modifier => ODone (TCompound, l3)
                | r_non_atomic_modifier => ODone (TNonAtomic, l3)
                | _ => OPanic                                     (* unreachable!() *)
                end
              else ODone (TNormal, l2) in
            obind ty_rest (fun tr =>
              let '(ty, rest) := tr in
              match rest with
              | _ :: x :: _ =>                                    (* opening_brace; expression *)
                  let inner := tkids x in
                  let inner' : out (list tok) :=
                    if fix_choice fl then ODone inner
                    else match inner with
                         | [] => OPanic                           (* inner_nodes.peek().unwrap() *)
                         | k :: r => if is_rule r_choice_operator k then ODone r else ODone inner
                         end in
                  obind inner' (fun ks =>
                    obind (cexpr d ks) (fun node => ODone {| pname := name; pspan := tspan nm; pty := ty; pbody := node |}))
              | _ => OPanic
              end)
          end
        | [] => OPanic
        end
      end
  | [] => OPanic
  end.

(* pairs.filter(grammar_rule).filter(first child is not line_doc).map(..).collect::<Result<Vec<_>, _>>():
   lazy, stops at the first Err *)
Fixpoint consume_rules_with_spans (d : nat) (f : list tok) : out (list prule) :=
  match f with
  | [] => ODone []
  | t :: f' =>
    if is_rule r_grammar_rule t then
      match tkids t with
      | [] => OPanic                                              (* pairs.next().unwrap() in the filter *)
      | k :: _ =>
        if is_rule r_line_doc k then consume_rules_with_spans d f'
        else obind (consume_rule d t) (fun r => obind (consume_rules_with_spans d f') (fun rs => ODone (r :: rs)))
      end
    else consume_rules_with_spans d f'
  end.
End Consume.
