(* C09, part 1: the token forest of the meta-grammar (what `parser::parse(Rule::grammar_rules, text)`
   returns) and its SHAPE invariant.

   The front end (validate_pairs, consume_rules, docs::consume) walks over this forest with
   `pairs.next().unwrap()`, `unreachable!()`, `as_str()[1..]` ...; what discharges them is the shape of
   the forest, which is fixed by meta/src/grammar.pest:

     (R) the rules of the children of a node of rule r form a word of the regular language denoted by
         r's expression (silent rules inlined; rules inside atomic rules produce no token);
     (L) the first / last characters that r's expression fixes literally ("#" of tag_id, the quotes of
         string / character, "^" of insensitive_string followed by blank, comment or the quote);
     (S) spans are nested and ordered and lie on char boundaries of the text (any Pairs, property C04).

   `shape_ok` is the executable conjunction of (R), (L), (S); it is checked on every real parse by the
   correspondence harness.  (R) is stated with a generic regular-expression matcher (Brzozowski
   derivatives) proved equivalent to the declarative semantics `matches`.                         *)
From Coq Require Import List Arith NArith Bool Lia.
Import ListNotations.
Require Import PV.Pos.Model.

(* the variants of pest_meta::parser::Rule that can label a token *)
Inductive mrule :=
| r_EOI | r_grammar_rule | r_assignment_operator | r_opening_brace | r_closing_brace | r_opening_paren | r_closing_paren
| r_opening_brack | r_closing_brack | r_silent_modifier | r_atomic_modifier | r_compound_atomic_modifier
| r_non_atomic_modifier | r_tag_id | r_expression | r_term | r_positive_predicate_operator | r_negative_predicate_operator
| r_sequence_operator | r_choice_operator | r_optional_operator | r_repeat_operator | r_repeat_once_operator
| r_repeat_exact | r_repeat_min | r_repeat_max | r_repeat_min_max | r_number | r_integer | r_comma | r_push | r_push_literal
| r_peek_slice | r_identifier | r_string | r_insensitive_string | r_range | r_character | r_inner_str | r_inner_chr
| r_quote | r_single_quote | r_range_operator | r_grammar_doc | r_line_doc | r_inner_doc
| r_other.   (* any other variant (silent rules, rules inside atomic rules): never labels a token *)

Definition mrule_code (r : mrule) : nat :=
  match r with
  | r_EOI => 0 | r_grammar_rule => 1 | r_assignment_operator => 2 | r_opening_brace => 3 | r_closing_brace => 4
  | r_opening_paren => 5 | r_closing_paren => 6 | r_opening_brack => 7 | r_closing_brack => 8 | r_silent_modifier => 9
  | r_atomic_modifier => 10 | r_compound_atomic_modifier => 11 | r_non_atomic_modifier => 12 | r_tag_id => 13
  | r_expression => 14 | r_term => 15 | r_positive_predicate_operator => 16 | r_negative_predicate_operator => 17
  | r_sequence_operator => 18 | r_choice_operator => 19 | r_optional_operator => 20 | r_repeat_operator => 21
  | r_repeat_once_operator => 22 | r_repeat_exact => 23 | r_repeat_min => 24 | r_repeat_max => 25 | r_repeat_min_max => 26
  | r_number => 27 | r_integer => 28 | r_comma => 29 | r_push => 30 | r_push_literal => 31 | r_peek_slice => 32
  | r_identifier => 33 | r_string => 34 | r_insensitive_string => 35 | r_range => 36 | r_character => 37
  | r_inner_str => 38 | r_inner_chr => 39 | r_quote => 40 | r_single_quote => 41 | r_range_operator => 42
  | r_grammar_doc => 43 | r_line_doc => 44 | r_inner_doc => 45 | r_other => 46
  end.
Definition mrule_eqb (a b : mrule) : bool := Nat.eqb (mrule_code a) (mrule_code b).
Lemma mrule_eqb_eq a b : mrule_eqb a b = true <-> a = b.
Proof.
  unfold mrule_eqb. rewrite Nat.eqb_eq. split; [|intros ->; reflexivity].
  destruct a, b; cbn; intros H; try reflexivity; discriminate H.
Qed.
Lemma mrule_eqb_refl a : mrule_eqb a a = true.
Proof. apply mrule_eqb_eq. reflexivity. Qed.

(* a Pair: rule, span (byte offsets), children *)
Inductive tok := Tok (r : mrule) (s e : nat) (kids : list tok).
Definition trule (t : tok) : mrule := match t with Tok r _ _ _ => r end.
Definition tstart (t : tok) : nat := match t with Tok _ s _ _ => s end.
Definition tend (t : tok) : nat := match t with Tok _ _ e _ => e end.
Definition tkids (t : tok) : list tok := match t with Tok _ _ _ k => k end.
Definition word (l : list tok) : list mrule := map trule l.

(* ------------------------------------------------------------------ regular expressions over mrule *)
Inductive re :=
| REmpty                     (* no word *)
| REps
| RSym (r : mrule)
| RCat (a b : re)
| RAlt (a b : re)
| RStar (a : re).
Definition ROpt (a : re) : re := RAlt a REps.

Inductive matches : re -> list mrule -> Prop :=
| m_eps : matches REps []
| m_sym r : matches (RSym r) [r]
| m_cat a b u v : matches a u -> matches b v -> matches (RCat a b) (u ++ v)
| m_alt_l a b u : matches a u -> matches (RAlt a b) u
| m_alt_r a b u : matches b u -> matches (RAlt a b) u
| m_star_nil a : matches (RStar a) []
| m_star_cons a u v : matches a u -> matches (RStar a) v -> matches (RStar a) (u ++ v).

Fixpoint nullable (a : re) : bool :=
  match a with
  | REmpty => false | REps => true | RSym _ => false
  | RCat x y => nullable x && nullable y
  | RAlt x y => nullable x || nullable y
  | RStar _ => true
  end.
Fixpoint deriv (c : mrule) (a : re) : re :=
  match a with
  | REmpty => REmpty | REps => REmpty
  | RSym r => if mrule_eqb r c then REps else REmpty
  | RCat x y => if nullable x then RAlt (RCat (deriv c x) y) (deriv c y) else RCat (deriv c x) y
  | RAlt x y => RAlt (deriv c x) (deriv c y)
  | RStar x => RCat (deriv c x) (RStar x)
  end.
Fixpoint re_matchb (a : re) (w : list mrule) : bool :=
  match w with [] => nullable a | c :: w' => re_matchb (deriv c a) w' end.

(* ------------------------------------------------------------------ grammar.pest, rule by rule *)
Definition sy := RSym.
Fixpoint cat (l : list re) : re := match l with [] => REps | [a] => a | a :: r => RCat a (cat r) end.
Fixpoint alt (l : list re) : re := match l with [] => REmpty | [a] => a | a :: r => RAlt a (alt r) end.

(* modifier = _{ silent_modifier | atomic_modifier | compound_atomic_modifier | non_atomic_modifier } *)
Definition re_modifier := alt [sy r_silent_modifier; sy r_atomic_modifier; sy r_compound_atomic_modifier; sy r_non_atomic_modifier].
(* node_tag = _{ tag_id ~ assignment_operator } *)
Definition re_node_tag := cat [sy r_tag_id; sy r_assignment_operator].
Definition re_prefix := alt [sy r_positive_predicate_operator; sy r_negative_predicate_operator].
Definition re_infix := alt [sy r_sequence_operator; sy r_choice_operator].
Definition re_postfix := alt [sy r_optional_operator; sy r_repeat_operator; sy r_repeat_once_operator; sy r_repeat_exact;
                              sy r_repeat_min; sy r_repeat_max; sy r_repeat_min_max].
(* terminal = _{ _push_literal | _push | peek_slice | identifier | string | insensitive_string | range } *)
Definition re_terminal := alt [sy r_push_literal; sy r_push; sy r_peek_slice; sy r_identifier; sy r_string; sy r_insensitive_string; sy r_range].
(* node = _{ opening_paren ~ expression ~ closing_paren | terminal } *)
Definition re_node := RAlt (cat [sy r_opening_paren; sy r_expression; sy r_closing_paren]) re_terminal.

Definition rule_re (r : mrule) : re :=
  match r with
  (* grammar_rule = { identifier ~ assignment_operator ~ modifier? ~ opening_brace ~ expression ~ closing_brace | line_doc } *)
  | r_grammar_rule => RAlt (cat [sy r_identifier; sy r_assignment_operator; ROpt re_modifier; sy r_opening_brace; sy r_expression; sy r_closing_brace])
                           (sy r_line_doc)
  (* expression = { choice_operator? ~ term ~ (infix_operator ~ term)* } *)
  | r_expression => cat [ROpt (sy r_choice_operator); sy r_term; RStar (RCat re_infix (sy r_term))]
  (* term = { node_tag? ~ prefix_operator* ~ node ~ postfix_operator* } *)
  | r_term => cat [ROpt re_node_tag; RStar re_prefix; re_node; RStar re_postfix]
  | r_repeat_exact => cat [sy r_opening_brace; sy r_number; sy r_closing_brace]
  | r_repeat_min => cat [sy r_opening_brace; sy r_number; sy r_comma; sy r_closing_brace]
  | r_repeat_max => cat [sy r_opening_brace; sy r_comma; sy r_number; sy r_closing_brace]
  | r_repeat_min_max => cat [sy r_opening_brace; sy r_number; sy r_comma; sy r_number; sy r_closing_brace]
  (* _push = { "PUSH" ~ opening_paren ~ expression ~ closing_paren } *)
  | r_push => cat [sy r_opening_paren; sy r_expression; sy r_closing_paren]
  | r_push_literal => cat [sy r_opening_paren; sy r_string; sy r_closing_paren]
  (* peek_slice = { "PEEK" ~ opening_brack ~ integer? ~ range_operator ~ integer? ~ closing_brack } *)
  | r_peek_slice => cat [sy r_opening_brack; ROpt (sy r_integer); sy r_range_operator; ROpt (sy r_integer); sy r_closing_brack]
  (* string = ${ quote ~ inner_str ~ quote } ; insensitive_string = { "^" ~ string } *)
  | r_string => cat [sy r_quote; sy r_inner_str; sy r_quote]
  | r_insensitive_string => sy r_string
  (* range = { character ~ range_operator ~ character } ; character = ${ single_quote ~ inner_chr ~ single_quote } *)
  | r_range => cat [sy r_character; sy r_range_operator; sy r_character]
  | r_character => cat [sy r_single_quote; sy r_inner_chr; sy r_single_quote]
  (* grammar_doc = ${ "//!" ~ space? ~ inner_doc } ; line_doc = ${ "///" ~ space? ~ inner_doc } *)
  | r_grammar_doc => sy r_inner_doc
  | r_line_doc => sy r_inner_doc
  | r_other => REmpty
  (* every other rule is a literal or atomic: no children *)
  | _ => REps
  end.
(* grammar_rules = _{ SOI ~ grammar_doc* ~ grammar_rule* ~ EOI }  (silent: its children are the top-level forest) *)
Definition top_re : re := cat [RStar (sy r_grammar_doc); RStar (sy r_grammar_rule); sy r_EOI].

(* ------------------------------------------------------------------ (L): literal first / last characters *)
Definition ch_hash : char := 35%N.      (* hash *)
Definition ch_dquote : char := 34%N.    (* double quote *)
Definition ch_squote : char := 39%N.    (* single quote *)
Definition ch_caret : char := 94%N.     (* caret *)
Definition ch_bslash : char := 92%N.    (* backslash *)

Definition last_is (c : char) (s : str) : bool := match rev s with x :: _ => ceq x c | [] => false end.
Definition lex_okb (r : mrule) (s : str) : bool :=
  match r with
  | r_tag_id => match s with c :: _ => ceq c ch_hash | [] => false end
  | r_string => match s with c :: (_ :: _) as rest => ceq c ch_dquote && last_is ch_dquote rest | _ => false end
  | r_character => match s with c :: (_ :: _) as rest => ceq c ch_squote && last_is ch_squote rest | _ => false end
  (* "^" then (implicit whitespace / comment)* then the string: the second char is a blank, '/' or the quote *)
  | r_insensitive_string =>
      match s with
      | c :: d :: (_ :: _) as rest => ceq c ch_caret && (d <? 128)%N && negb (ceq d ch_bslash) && last_is ch_dquote rest
      | _ => false
      end
  | _ => true
  end.

(* ------------------------------------------------------------------ (S) + (R) + (L) *)
(* children ordered, non-overlapping, inside [lo, hi]; every offset a char boundary (slice <> None) *)
Definition span_okb (text : str) (a b : nat) : bool := match slice text a b with Some _ => true | None => false end.

Fixpoint tok_okb (text : str) (t : tok) {struct t} : bool :=
  match t with
  | Tok r s e kids =>
      span_okb text s e
      && re_matchb (rule_re r) (word kids)
      && (match slice text s e with Some w => lex_okb r w | None => false end)
      && (fix go (lo : nat) (l : list tok) {struct l} : bool :=
            match l with
            | [] => Nat.leb lo e
            | k :: l' => Nat.leb lo (tstart k) && tok_okb text k && go (tend k) l'
            end) s kids
  end.
Fixpoint forest_okb (text : str) (lo hi : nat) (l : list tok) : bool :=
  match l with
  | [] => Nat.leb lo hi
  | k :: l' => Nat.leb lo (tstart k) && tok_okb text k && forest_okb text (tend k) hi l'
  end.
Definition shape_ok (text : str) (f : list tok) : bool :=
  re_matchb top_re (word f) && forest_okb text 0 (blen text) f.

(* nesting depth of a forest: the fuel of the walks over it *)
Fixpoint tdepth (t : tok) : nat :=
  match t with Tok _ _ _ kids => S ((fix go (l : list tok) : nat := match l with [] => 0 | k :: l' => Nat.max (tdepth k) (go l') end) kids) end.
Fixpoint fdepth (l : list tok) : nat := match l with [] => 0 | k :: l' => Nat.max (tdepth k) (fdepth l') end.
