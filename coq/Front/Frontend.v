(* C09, part 5: pest_meta::parse_and_optimize after the meta-parse (whose result, the token forest, is an input
   of the model: its shape is the invariant of Shape.v), and pest_generator::docs::consume.

     validate_pairs(pairs.clone())?  ->  consume_rules(pairs)? (= consume_rules_with_spans, validate_ast)  ->  optimize(ast)

   FRules n = Ok((defaults, rules)) with n rules, FErrors l = Err(l), FPanic = the call panics,
   FFuel = model artefact (see the fuel lemmas in Total.v).  One fuel value serves every fuelled walk. *)
From Coq Require Import List Arith NArith Bool.
Import ListNotations.
Require Import PV.Pos.Model PV.Front.Shape PV.Front.Consume PV.Front.Validate PV.Front.Optimize.

Inductive fres := FRules (n : nat) | FErrors (l : list err) | FPanic | FFuel.

Definition frontend (fl : flags) (builtins : list str) (fuel : nat) (text : str) (forest : list tok) : fres :=
  match validate_pairs text builtins forest with
  | OPanic => FPanic | OFuel => FFuel | OErrs l => FErrors l
  | ODone _ =>
    match consume_rules_with_spans fl text fuel forest with
    | OPanic => FPanic | OFuel => FFuel | OErrs l => FErrors l
    | ODone rules =>
      match validate_ast rules fuel (fix_lr fl) (fix_tag fl) builtins (extras fl) with
      | VPanic => FPanic | VFuel => FFuel
      | VOk (e :: errs) _ => FErrors (e :: errs)
      | VOk [] _ =>
          let ast := map convert_rule rules in
          match optimize (extras fl) (fix_unroll fl) fuel ast ast with
          | OptOk => FRules (length rules) | OptPanic => FPanic | OptFuel => FFuel
          end
      end
    end
  end.

(* the number of steps of the recursive predicates of validate_ast on the rules that consume_rules produced *)
Definition validate_steps (rules : list prule) (fuel : nat) (lrf tgf : bool) (builtins : list str) (ex : bool) : option nat :=
  match validate_ast rules fuel lrf tgf builtins ex with VOk _ n => Some n | _ => None end.

(* pest_generator::docs::consume: false = panic (`pair.into_inner().next().unwrap()` on a grammar_doc) *)
Fixpoint docs_consume (f : list tok) : bool :=
  match f with
  | [] => true
  | t :: f' => if is_rule r_grammar_doc t then match tkids t with [] => false | _ :: _ => docs_consume f' end else docs_consume f'
  end.

(* the fuel the runner uses: above the nesting depth and the number of rules (which is what consume and validate need,
   FuelProofs.v) and above twice the length of the text (expression sizes for the top-down optimizer passes) *)
Definition default_fuel (text : str) (forest : list tok) : nat := 2 * blen text + fdepth forest + length forest + 16.

(* the state of the tree apart from the C09 repairs: ex = grammar-extras; lr, tg = the two C06 repairs, ins = the C07 repair *)
Record tree_state := { st_extras : bool; st_lr : bool; st_tag : bool; st_insens : bool }.
Definition shipped (st : tree_state) : flags :=
  {| extras := st_extras st; fix_escape := false; fix_peek := false; fix_choice := false; fix_unroll := false;
     fix_lr := st_lr st; fix_tag := st_tag st; fix_insens := st_insens st |}.
Definition repaired (st : tree_state) : flags :=
  {| extras := st_extras st; fix_escape := true; fix_peek := true; fix_choice := true; fix_unroll := true;
     fix_lr := st_lr st; fix_tag := st_tag st; fix_insens := st_insens st |}.
(* the tree as it is when this file was written: the C06 and C07 repairs are in *)
Definition current : tree_state := {| st_extras := false; st_lr := true; st_tag := true; st_insens := true |}.
Definition original : tree_state := {| st_extras := false; st_lr := false; st_tag := false; st_insens := false |}.
