(* C09, the step bound: "bounded time" is read as "the number of steps of the model is bounded by a fixed polynomial
   in the length of the text" (DESIGN.md section 2).  It is REFUTED for the validator: on the family
       a1 = { a2 ~ a2 }   a2 = { a3 ~ a3 }  ...  a(n+2) = { "" }
   validate_ast performs at least 2^n steps (one step = one expression node visited by is_non_failing /
   is_non_progressing / check_expr), while the family has size O(n^2).  The cause: every call of these predicates
   re-traverses the rules it reaches (the `trace` argument prevents cycles, nothing is remembered).         *)
From Coq Require Import List Arith NArith ZArith Bool Lia.
Import ListNotations.
Require Import PV.Pos.Model PV.Front.Shape PV.Front.Consume PV.Front.Validate.
Open Scope list_scope.

(* rule names a, aa, aaa, ...: i letters *)
Definition nm (i : nat) : str := repeat 97%N i.
Definition sp0 : span := (0, 0).
Definition body (n i : nat) : pnode := if Nat.ltb i n then PSeq sp0 (PIdent sp0 (nm (S i))) (PIdent sp0 (nm (S i))) else PStr sp0 [].
Definition rule_i (n i : nat) : prule := {| pname := nm i; pspan := sp0; pty := TNormal; pbody := body n i |}.
(* rules a_1 .. a_n *)
Definition rules_upto (n : nat) : list prule := map (rule_i n) (seq 1 n).
Definition fam (n : nat) : list prule := rules_upto (n + 2).

Lemma str_eqb_refl s : str_eqb s s = true.
Proof. induction s; cbn; auto. rewrite N.eqb_refl. exact IHs. Qed.
Lemma str_eqb_eq a : forall b, str_eqb a b = true -> a = b.
Proof. induction a; destruct b; cbn; intros H; try discriminate; auto. apply andb_prop in H as [H1 H2]. apply N.eqb_eq in H1. f_equal; auto. Qed.
Lemma nm_inj i j : nm i = nm j -> i = j.
Proof. intros H. apply (f_equal (@length _)) in H. unfold nm in H. now rewrite !repeat_length in H. Qed.
Lemma nm_eqb i j : str_eqb (nm i) (nm j) = Nat.eqb i j.
Proof.
  destruct (Nat.eqb_spec i j) as [->|N]; [apply str_eqb_refl|].
  destruct (str_eqb (nm i) (nm j)) eqn:E; [|reflexivity]. apply str_eqb_eq, nm_inj in E. contradiction.
Qed.

(* lookup in the family *)
Lemma lookup_map n : forall l i, NoDup l -> In i l -> lookup (map (rule_i n) l) (nm i) = Some (rule_i n i).
Proof.
  induction l as [|j l IH]; intros i ND I; [contradiction|]. inversion ND as [|? ? NI ND']; subst. cbn [map lookup].
  destruct I as [->|I].
  - assert (L : lookup (map (rule_i n) l) (nm i) = None).
    { clear IH ND ND'. induction l as [|k l IHl]; [reflexivity|]. cbn [map lookup]. rewrite IHl by (intros X; apply NI; right; exact X).
      cbn [rule_i pname]. rewrite nm_eqb. destruct (Nat.eqb_spec k i) as [->|]; [exfalso; apply NI; left; reflexivity|reflexivity]. }
    rewrite L. cbn [rule_i pname]. rewrite str_eqb_refl. reflexivity.
  - rewrite (IH i ND' I). reflexivity.
Qed.
Lemma lookup_fam n i : 1 <= i <= n -> lookup (rules_upto n) (nm i) = Some (rule_i n i).
Proof. intros H. apply lookup_map; [apply seq_NoDup|apply in_seq; lia]. Qed.

Lemma mem_nm i T : mem (nm i) T = false <-> ~ In (nm i) T.
Proof.
  unfold mem. split.
  - intros H I. assert (X : existsb (str_eqb (nm i)) T = true) by (apply existsb_exists; exists (nm i); split; [exact I|apply str_eqb_refl]). congruence.
  - intros H. destruct (existsb (str_eqb (nm i)) T) eqn:E; [|reflexivity]. apply existsb_exists in E as (x & I & E). apply str_eqb_eq in E. subst x. contradiction.
Qed.

(* is_non_failing on a_i: true, in at least 2^(n-i) steps, whenever the fuel allows n-i+2 nested rules *)
Lemma nfail_family n : forall k i T f, i + k = n -> 1 <= i -> (forall j, i <= j -> ~ In (nm j) T) -> k + 2 <= f ->
  exists s, nfail (rules_upto n) f T (PIdent sp0 (nm i)) = VOk true s /\ 2 ^ k <= s.
Proof.
  induction k as [|k IH]; intros i T f E I1 HT Hf.
  - assert (i = n) by lia. subst i. destruct f as [|[|f]]; try lia. exists 2. split; [|cbn; lia]. cbn [nfail].
    rewrite (proj2 (mem_nm n T)) by (apply HT; lia). cbn [negb].
    rewrite lookup_fam by lia. cbn [rule_i pbody]. unfold body. rewrite Nat.ltb_irrefl. reflexivity.
  - assert (Hlt : i < n) by lia. destruct f as [|f]; [lia|].
    assert (HT' : forall j, S i <= j -> ~ In (nm j) (T ++ [nm i])).
    { intros j Hj X. apply in_app_or in X as [X|[X|[]]]; [apply (HT j); [lia|exact X]|apply nm_inj in X; lia]. }
    destruct (IH (S i) (T ++ [nm i]) f ltac:(lia) ltac:(lia) HT' ltac:(lia)) as (s & Es & Ls).
    exists (S (S (s + s))). split; [|cbn [Nat.pow]; lia].
    destruct f as [|f']; [lia|].
    remember (S f') as f eqn:Ef.
    cbn [nfail]. rewrite (proj2 (mem_nm i T)) by (apply HT; lia). cbn [negb]. rewrite lookup_fam by lia.
    cbn [rule_i pbody]. unfold body. rewrite (proj2 (Nat.ltb_lt i n) Hlt). cbv beta iota.
    subst f.
    change (nfail (rules_upto n) (S f') (T ++ [nm i]) (PSeq sp0 (PIdent sp0 (nm (S i))) (PIdent sp0 (nm (S i)))))
      with (vtick (vbind (nfail (rules_upto n) (S f') (T ++ [nm i]) (PIdent sp0 (nm (S i))))
                         (fun b => if b then nfail (rules_upto n) (S f') (T ++ [nm i]) (PIdent sp0 (nm (S i))) else VOk false 0))).
    assert (X : forall v : vres bool, v = VOk true s ->
              vtick (vtick (vbind v (fun b : bool => if b then v else VOk false 0))) = VOk true (S (S (s + s)))) by (intros v ->; reflexivity).
    apply X. exact Es.
Qed.

Lemma vbind_ok {A B} (v : vres A) (f : A -> vres B) b s : vbind v f = VOk b s ->
  exists a n m, v = VOk a n /\ f a = VOk b m /\ s = n + m.
Proof. destruct v as [a n| |]; cbn; try discriminate. destruct (f a) as [b' m| |] eqn:E; try discriminate. intros H; inversion H; subst. eauto 6. Qed.
Lemma vtick_ok {A} (v : vres A) b s : vtick v = VOk b s -> exists n, v = VOk b n /\ s = S n.
Proof. destruct v; cbn; try discriminate. intros H; inversion H; subst. eauto. Qed.

(* with the repaired check_expr the left side is checked first: on the family it finds nothing *)
Lemma check_none n fuel0 : forall k i T f x c, i + k = n -> 2 <= i -> (forall j, i <= j -> ~ In (nm j) (nm 1 :: T)) ->
  check_expr (rules_upto n) fuel0 true f (nm 1 :: T) (PIdent sp0 (nm i)) = VOk x c -> x = None.
Proof.
  induction k as [|k IH]; intros i T f x c E I2 HT H; (destruct f as [|f]; [discriminate|]); cbn [check_expr] in H;
    rewrite nm_eqb in H; replace (Nat.eqb 1 i) with false in H by (symmetry; apply Nat.eqb_neq; lia);
    rewrite (proj2 (mem_nm i (nm 1 :: T))) in H by (apply HT; lia); cbn [negb] in H; rewrite lookup_fam in H by lia;
    cbn [rule_i pbody] in H; unfold body in H.
  - replace (i <? n) with false in H by (symmetry; apply Nat.ltb_ge; lia).
    apply vtick_ok in H as (c' & H & _). destruct f; [discriminate|]. cbn in H. inversion H. reflexivity.
  - replace (i <? n) with true in H by (symmetry; apply Nat.ltb_lt; lia).
    apply vtick_ok in H as (c' & H & _). destruct f as [|f]; [discriminate|]. cbn [check_expr] in H.
    destruct (rev ((nm 1 :: T) ++ [nm i])) as [|lst r0]; [discriminate|].
    apply vtick_ok in H as (c2 & H & _).
    assert (HT' : forall j, S i <= j -> ~ In (nm j) (nm 1 :: T ++ [nm i])).
    { intros j Hj X. change (nm 1 :: T ++ [nm i]) with ((nm 1 :: T) ++ [nm i]) in X.
      apply in_app_or in X as [X|[X|[]]]; [apply (HT j); [lia|exact X]|apply nm_inj in X; lia]. }
    apply vbind_ok in H as (x1 & n1 & m1 & H1 & H2 & _).
    assert (x1 = None) by (eapply (IH (S i) (T ++ [nm i]) (S f)); eauto; lia). subst x1.
    apply vbind_ok in H2 as (b1 & n2 & m2 & _ & H2 & _). apply vbind_ok in H2 as (b2 & n3 & m3 & _ & H3 & _).
    destruct b2; [|inversion H3; reflexivity].
    eapply (IH (S i) (T ++ [nm i]) (S f)); eauto; lia.
Qed.

(* the left-recursion check of rule a_1 alone costs 2^n steps, with either version of check_expr *)
Theorem validator_steps_exponential n fuel lrf tgf builtins ex errs s : n + 4 <= fuel ->
  validate_ast (fam n) fuel lrf tgf builtins ex = VOk errs s -> 2 ^ n <= s.
Proof.
  intros Hf H. unfold validate_ast in H.
  apply vbind_ok in H as (e1 & s1 & r1 & _ & H & ->).
  apply vbind_ok in H as (e2 & s2 & r2 & _ & H & ->).
  apply vbind_ok in H as (e3 & s3 & r3 & _ & H & ->).
  apply vbind_ok in H as (e4 & s4 & r4 & H4 & _ & ->).
  enough (2 ^ n <= s4) by lia. clear - Hf H4.
  unfold fam, rules_upto in H4. replace (n + 2) with (S (S n)) in H4 by lia. rewrite <- cons_seq in H4. cbn [map lr_rules mem existsb] in H4.
  change (rule_i (S (S n)) 1 :: map (rule_i (S (S n))) (seq 2 (S n))) with (rules_upto (S (S n))) in H4.
  cbn [rule_i pname] in H4. rewrite lookup_fam in H4 by lia.
  apply vbind_ok in H4 as (x & c & m & HC & _ & ->). enough (2 ^ n <= c) by lia.
  cbn [rule_i pbody] in HC. unfold body in HC. replace (1 <? S (S n)) with true in HC by (symmetry; apply Nat.ltb_lt; lia).
  destruct fuel as [|f]; [lia|]. cbn [check_expr rev app] in HC.
  destruct (nfail_family (S (S n)) n 2 [nm 1] (S f)) as (s' & Es & Ls); try lia.
  { intros j Hj [X|[]]. apply nm_inj in X. lia. }
  destruct lrf.
  - apply vtick_ok in HC as (c' & HC & ->). apply vbind_ok in HC as (x1 & n1 & m1 & H1 & H2 & ->).
    assert (x1 = None).
    { eapply (check_none (S (S n)) (S f) n 2 [] (S f)); [lia|lia| |exact H1].
      intros j Hj [X|[]]. apply nm_inj in X. lia. }
    subst x1. apply vbind_ok in H2 as (b1 & c1 & m2 & HN & _ & ->).
    assert (c1 = s') by (rewrite Es in HN; inversion HN; reflexivity). lia.
  - apply vtick_ok in HC as (c' & HC & ->). apply vbind_ok in HC as (b1 & c1 & m1 & HN & _ & ->).
    assert (c1 = s') by (rewrite Es in HN; inversion HN; reflexivity). lia.
Qed.

(* ---- the size of the family is quadratic in n *)
Fixpoint psize (n : pnode) : nat :=
  match n with
  | PStr _ s | PInsens _ s | PIdent _ s | PPushLiteral _ s => S (length s)
  | PRange _ a b => S (length a + length b)
  | PPeekSlice _ _ _ => 1
  | PPosPred _ x | PNegPred _ x | POpt _ x | PRep _ x | PRepOnce _ x | PRepExact _ x _ | PRepMin _ x _ | PRepMax _ x _
  | PRepMinMax _ x _ _ | PPush _ x => S (psize x)
  | PNodeTag _ x t => S (psize x + length t)
  | PSeq _ l r | PChoice _ l r => S (psize l + psize r)
  end.
(* characters needed to write the rules: names, literals, one per operator *)
Definition rules_size (rs : list prule) : nat := fold_right (fun r acc => length (pname r) + psize (pbody r) + acc) 0 rs.

Lemma rules_size_map n : forall l, (forall i, In i l -> i <= n) -> rules_size (map (rule_i n) l) <= length l * (3 * n + 6).
Proof.
  induction l as [|i l IH]; intros H; [cbn; lia|]. cbn [map rules_size fold_right length].
  assert (Hi : i <= n) by (apply H; left; reflexivity).
  assert (IHl : rules_size (map (rule_i n) l) <= length l * (3 * n + 6)) by (apply IH; intros; apply H; right; assumption).
  unfold rules_size in IHl. cbn [rule_i pname pbody]. unfold body, nm. rewrite repeat_length.
  destruct (Nat.ltb i n); cbn [psize]; rewrite ?repeat_length; cbn [length]; lia.
Qed.
Lemma fam_size n : rules_size (fam n) <= 3 * (n + 4) * (n + 4).
Proof.
  unfold fam, rules_upto. pose proof (rules_size_map (n + 2) (seq 1 (n + 2))) as H. rewrite seq_length in H.
  assert (L : rules_size (map (rule_i (n + 2)) (seq 1 (n + 2))) <= (n + 2) * (3 * (n + 2) + 6)) by (apply H; intros i Hi; apply in_seq in Hi; lia).
  nia.
Qed.

(* ---- an exponential outgrows every polynomial of a quadratic *)
Lemma pow_le_mono_base a b k : a <= b -> a ^ k <= b ^ k.
Proof. intros H. apply Nat.pow_le_mono_l. exact H. Qed.
Lemma lin_lt_pow2 m : m < 2 ^ m.
Proof. apply Nat.pow_gt_lin_r. lia. Qed.

Lemma exp_beats_poly c k : exists n, c * (3 * (n + 4) * (n + 4)) ^ k < 2 ^ n.
Proof.
  (* n = m * (2k+1) with m large: 2^n = (2^m)^(2k+1) > m^(2k+1), and 3 (n+4)^2 <= D m^2 *)
  set (e := 2 * k + 1).
  set (D := 3 * (e + 4) * (e + 4)).
  set (m := S (c * D ^ k)).
  exists (m * e).
  assert (Hm : 1 <= m) by (subst m; lia).
  assert (B1 : 3 * (m * e + 4) * (m * e + 4) <= D * (m * m)).
  { subst D. assert (m * e + 4 <= m * (e + 4)) by nia. nia. }
  assert (B2 : (3 * (m * e + 4) * (m * e + 4)) ^ k <= D ^ k * m ^ (2 * k)).
  { eapply Nat.le_trans; [apply Nat.pow_le_mono_l; exact B1|]. rewrite Nat.pow_mul_l.
    rewrite <- (Nat.pow_2_r m). rewrite <- Nat.pow_mul_r. apply le_n. }
  assert (B3 : m ^ e < 2 ^ (m * e)).
  { rewrite Nat.pow_mul_r. apply Nat.pow_lt_mono_l; try (subst e; lia). apply lin_lt_pow2. }
  assert (B4 : c * (D ^ k * m ^ (2 * k)) < m ^ e).
  { subst e. replace (2 * k + 1) with (S (2 * k)) by lia. cbn [Nat.pow].
    assert (P : 1 <= m ^ (2 * k)) by (apply Nat.neq_0_lt_0, Nat.pow_nonzero; lia).
    assert (c * D ^ k < m) by (subst m; lia). nia. }
  eapply Nat.le_lt_trans; [|exact B3]. eapply Nat.le_trans; [|apply Nat.lt_le_incl; exact B4].
  apply Nat.mul_le_mono_l. exact B2.
Qed.
