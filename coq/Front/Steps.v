(* C09, the step bound: "bounded time" is read as "the number of steps of the model is bounded by a fixed polynomial
   in the length of the text" (DESIGN.md section 2).  It is REFUTED for the validator: on the family
       a1 = { a2 ~ a2 }   a2 = { a3 ~ a3 }  ...  a(n+2) = { "" }
   validate_ast performs at least 2^n steps (one step = one expression node visited by is_non_failing /
   is_non_progressing / check_expr), while the family has size O(n^2).  The cause: every call of these predicates
   re-traverses the rules it reaches (the `trace` argument prevents cycles, nothing is remembered).         *)
From Coq Require Import List Arith NArith ZArith Bool Lia.
Import ListNotations.
Require Import PV.Pos.Model PV.Front.Shape PV.Front.Consume PV.Front.Validate.
Open Scope list_scope.

(* rule names a, aa, aaa, ...: i letters *)
Definition nm (i : nat) : str := repeat 97%N i.
Definition sp0 : span := (0, 0).
Definition body (n i : nat) : pnode := if Nat.ltb i n then PSeq sp0 (PIdent sp0 (nm (S i))) (PIdent sp0 (nm (S i))) else PStr sp0 [].
Definition rule_i (n i : nat) : prule := {| pname := nm i; pspan := sp0; pty := TNormal; pbody := body n i |}.
(* rules a_1 .. a_n *)
Definition rules_upto (n : nat) : list prule := map (rule_i n) (seq 1 n).
Definition fam (n : nat) : list prule := rules_upto (n + 2).

Lemma str_eqb_refl s : str_eqb s s = true.
Proof. induction s; cbn; auto. rewrite N.eqb_refl. exact IHs. Qed.
Lemma str_eqb_eq a : forall b, str_eqb a b = true -> a = b.
Proof. induction a; destruct b; cbn; intros H; try discriminate; auto. apply andb_prop in H as [H1 H2]. apply N.eqb_eq in H1. f_equal; auto. Qed.
Lemma nm_inj i j : nm i = nm j -> i = j.
Proof. intros H. apply (f_equal (@length _)) in H. unfold nm in H. now rewrite !repeat_length in H. Qed.
Lemma nm_eqb i j : str_eqb (nm i) (nm j) = Nat.eqb i j.
Proof.
  destruct (Nat.eqb_spec i j) as [->|N]; [apply str_eqb_refl|].
  destruct (str_eqb (nm i) (nm j)) eqn:E; [|reflexivity]. apply str_eqb_eq, nm_inj in E. contradiction.
Qed.

(* lookup in the family *)
Lemma lookup_map n : forall l i, NoDup l -> In i l -> lookup (map (rule_i n) l) (nm i) = Some (rule_i n i).
Proof.
  induction l as [|j l IH]; intros i ND I; [contradiction|]. inversion ND as [|? ? NI ND']; subst. cbn [map lookup].
  destruct I as [->|I].
  - assert (L : lookup (map (rule_i n) l) (nm i) = None).
    { clear IH ND ND'. induction l as [|k l IHl]; [reflexivity|]. cbn [map lookup]. rewrite IHl by (intros X; apply NI; right; exact X).
      cbn [rule_i pname]. rewrite nm_eqb. destruct (Nat.eqb_spec k i) as [->|]; [exfalso; apply NI; left; reflexivity|reflexivity]. }
    rewrite L. cbn [rule_i pname]. rewrite str_eqb_refl. reflexivity.
  - rewrite (IH i ND' I). reflexivity.
Qed.
Lemma lookup_fam n i : 1 <= i <= n -> lookup (rules_upto n) (nm i) = Some (rule_i n i).
Proof. intros H. apply lookup_map; [apply seq_NoDup|apply in_seq; lia]. Qed.

Lemma mem_nm i T : mem (nm i) T = false <-> ~ In (nm i) T.
Proof.
  unfold mem. split.
  - intros H I. assert (X : existsb (str_eqb (nm i)) T = true) by (apply existsb_exists; exists (nm i); split; [exact I|apply str_eqb_refl]). congruence.
  - intros H. destruct (existsb (str_eqb (nm i)) T) eqn:E; [|reflexivity]. apply existsb_exists in E as (x & I & E). apply str_eqb_eq in E. subst x. contradiction.
Qed.

(* is_non_failing on a_i: true, in at least 2^(n-i) steps *)
Lemma nfail_family n : forall k i T, i + k = n -> 1 <= i -> (forall j, i <= j -> ~ In (nm j) T) ->
  exists s, nfail (rules_upto n) (S (S k)) T (PIdent sp0 (nm i)) = VOk true s /\ 2 ^ k <= s.
Proof.
  induction k as [|k IH]; intros i T E I1 HT.
  - assert (i = n) by lia. subst i. cbn [nfail]. rewrite (proj2 (mem_nm n T)) by (apply HT; lia). cbn [negb].
    rewrite lookup_fam by lia. cbn [rule_i pbody]. unfold body. rewrite Nat.ltb_irrefl. cbn. eexists; split; [reflexivity|lia].
  - assert (Hlt : i < n) by lia.
    assert (HT' : forall j, S i <= j -> ~ In (nm j) (T ++ [nm i])).
    { intros j Hj X. apply in_app_or in X as [X|[X|[]]]; [apply (HT j); [lia|exact X]|apply nm_inj in X; lia]. }
    destruct (IH (S i) (T ++ [nm i]) ltac:(lia) ltac:(lia) HT') as (s & Es & Ls).
    remember (S (S k)) as f eqn:Ef.
    cbn [nfail]. rewrite (proj2 (mem_nm i T)) by (apply HT; lia). cbn [negb]. rewrite lookup_fam by lia.
    cbn [rule_i pbody]. unfold body. rewrite (proj2 (Nat.ltb_lt i n) Hlt).
    (* the body is a_(i+1) ~ a_(i+1): both operands are evaluated *)
    subst f. rewrite Es in *.
    change (nfail (rules_upto n) (S (S k)) (T ++ [nm i]) (PSeq sp0 (PIdent sp0 (nm (S i))) (PIdent sp0 (nm (S i)))))
      with (vtick (vbind (nfail (rules_upto n) (S (S k)) (T ++ [nm i]) (PIdent sp0 (nm (S i))))
                         (fun b => if b then nfail (rules_upto n) (S (S k)) (T ++ [nm i]) (PIdent sp0 (nm (S i))) else VOk false 0))).
    rewrite Es. cbn [vbind vtick]. rewrite Es. cbn [vtick]. eexists; split; [reflexivity|]. cbn [Nat.pow]. lia.
Qed.
