(* C09: termination of the top-down optimizer passes.  `rotate` and `factor` never run out of fuel when the fuel is at
   least the size of the expression (their rewrites do not grow it); the skipper is the one pass left: its
   populate_choices follows rule references without any cycle check, so its termination rests on the validator
   having rejected left recursion (property C06) and is not proved here. *)
From Coq Require Import List Arith NArith ZArith Bool Lia.
Import ListNotations.
Require Import PV.Pos.Model PV.Front.Shape PV.Front.Consume PV.Front.Validate PV.Front.Optimize.
Open Scope list_scope.

Lemma asize_pos e : 1 <= asize e.
Proof. destruct e; cbn; lia. Qed.

Lemma map_td_total F (f : aexpr -> option aexpr) :
  (forall x, asize x <= F -> exists y, f x = Some y /\ asize y <= asize x) ->
  forall fuel e, asize e <= fuel -> asize e <= F -> map_td fuel f e <> None.
Proof.
  intros Hf. induction fuel as [|k IH]; intros e L LF; [pose proof (asize_pos e); lia|].
  cbn [map_td]. destruct (Hf e LF) as (y & -> & Ly). cbn [obnd].
  assert (R : forall c, asize c < asize y -> map_td k f c <> None) by (intros c Hc; apply IH; lia).
  destruct y; cbn [asize] in *; try discriminate;
    repeat match goal with
    | |- omap _ (map_td k f ?c) <> None => let E := fresh in destruct (map_td k f c) eqn:E; [discriminate|exfalso; apply (R c); [lia|exact E]]
    | |- obnd (map_td k f ?c) _ <> None => let E := fresh in destruct (map_td k f c) eqn:E; [cbn [obnd]|exfalso; apply (R c); [lia|exact E]]
    end.
Qed.

(* rotate_internal: the size of the left operand decreases at every step, the size of the whole is unchanged *)
Definition left_size (e : aexpr) : nat := match e with ASeq l _ | AChoice l _ => asize l | _ => 0 end.
Lemma rotate_internal_total : forall fuel e, left_size e < fuel -> exists y, rotate_internal fuel e = Some y /\ asize y = asize e.
Proof.
  induction fuel as [|k IH]; intros e L; [lia|]. cbn [rotate_internal].
  destruct e; try (eexists; split; reflexivity).
  - destruct e1; try (eexists; split; reflexivity). cbn [left_size asize] in L.
    destruct (IH (ASeq e1_1 (ASeq e1_2 e2))) as (y & E & S); [cbn [left_size]; lia|]. exists y. split; [exact E|]. rewrite S. cbn [asize]. lia.
  - destruct e1; try (eexists; split; reflexivity). cbn [left_size asize] in L.
    destruct (IH (AChoice e1_1 (AChoice e1_2 e2))) as (y & E & S); [cbn [left_size]; lia|]. exists y. split; [exact E|]. rewrite S. cbn [asize]. lia.
Qed.
Lemma left_size_lt e : left_size e < asize e.
Proof. destruct e; cbn; lia. Qed.

Lemma factor_fn_total ty x : exists y, factor_fn ty x = Some y /\ asize y <= asize x.
Proof.
  unfold factor_fn. destruct x; try (eexists; split; [reflexivity|lia]).
  destruct x1, x2; try (eexists; split; [reflexivity|lia]);
    repeat match goal with
    | |- exists y, (if ?b then _ else _) = Some y /\ _ => destruct b
    | |- exists y, match ty with _ => _ end = Some y /\ _ => destruct ty
    end; eexists; (split; [reflexivity|cbn [asize]; lia]).
Qed.

Theorem rotate_pass_terminates fuel e : asize e <= fuel -> map_td fuel (rotate_internal fuel) e <> None.
Proof.
  intros L. apply (map_td_total fuel); auto. intros x Lx.
  destruct (rotate_internal_total fuel x) as (y & E & S); [pose proof (left_size_lt x); lia|]. exists y. split; [exact E|lia].
Qed.
Theorem factor_pass_terminates ty e : map_td (asize e) (factor_fn ty) e <> None.
Proof. apply (map_td_total (asize e)); auto. intros x _. apply factor_fn_total. Qed.

(* hence: out of fuel can only come from the skipper (atomic rules) *)
Theorem optimize_rule_fuel ex fixed fuel map r : asize (abody r) <= fuel ->
  optimize_rule ex fixed fuel map r = OptFuel ->
  aty r = TAtomic /\ exists e1, map_td fuel (rotate_internal fuel) (abody r) = Some e1 /\ map_td fuel (skip_fn fuel map) e1 = None.
Proof.
  intros L H. unfold optimize_rule in H.
  destruct (map_td fuel (rotate_internal fuel) (abody r)) as [e1|] eqn:E1; [|exfalso; eapply rotate_pass_terminates; eauto].
  destruct (aty r) eqn:T;
    try (exfalso; destruct (map_bu (unroll_fn ex fixed) e1) as [e3|]; [|discriminate];
         destruct (map_bu (concat_fn _) e3) as [e4|]; [|discriminate];
         destruct (map_td (asize e4) (factor_fn _) e4) as [e5|] eqn:E5; [|eapply factor_pass_terminates; eauto];
         destruct (map_bu list_fn e5); [destruct (optimizable ex a)|]; discriminate).
  split; [reflexivity|]. exists e1. split; [reflexivity|].
  destruct (map_td fuel (skip_fn fuel map) e1) as [e2|] eqn:E2; [|reflexivity]. exfalso.
  destruct (map_bu (unroll_fn ex fixed) e2) as [e3|]; [|discriminate].
  destruct (map_bu (concat_fn TAtomic) e3) as [e4|]; [|discriminate].
  destruct (map_td (asize e4) (factor_fn TAtomic) e4) as [e5|] eqn:E5; [|eapply factor_pass_terminates; eauto].
  destruct (map_bu list_fn e5); [destruct (optimizable ex a)|]; discriminate.
Qed.
