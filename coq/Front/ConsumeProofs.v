(* C09: the consume step on a well-shaped forest never panics, and everything it returns is located:
   every span inside a returned ParserNode and every error location is an ordered pair of char boundaries
   of the text (`good`).  Proved for the code with fixes C09-1..3 (flags fix_escape, fix_peek, fix_choice). *)
From Coq Require Import List Arith NArith ZArith Bool Lia.
Import ListNotations.
Require Import PV.Pos.Model PV.Pos.Spec PV.Pos.BasicProofs.
Require Import PV.Front.Shape PV.Front.ShapeFacts PV.Front.Consume PV.Front.UnescapeProofs PV.Front.PrattFacts.
Require PV.Pratt.Syntax PV.Pratt.Model PV.Pratt.Proofs.
Open Scope list_scope.

Ltac inv_matches :=
  repeat match goal with
  | H : matches REps _ |- _ => apply inv_eps in H
  | H : matches (RSym _) _ |- _ => apply inv_sym in H
  | H : matches (RCat _ _) _ |- _ => apply inv_cat in H as (? & ? & ? & ? & ?)
  | H : matches (RAlt _ _) _ |- _ => apply inv_alt in H as [?|?]
  | H : matches REmpty _ |- _ => destruct (inv_empty _ H)
  end.
(* from `word kids = [r1; ..; rn]` to kids = [k1; ..; kn] with trule ki = ri *)
Ltac inv_word H :=
  repeat match type of H with
  | word ?l = _ :: _ => let k := fresh "k" in let l' := fresh "l" in let Hk := fresh "Hk" in
                        destruct (word_eq_cons _ _ _ H) as (k & l' & -> & Hk & ?); clear H;
                        match goal with H' : word l' = _ |- _ => rename H' into H end
  | word ?l = [] => apply word_eq_nil in H; subst l
  end.

Ltac inv_word_auto := match goal with H : word _ = _ |- _ => inv_word H end.

Section P.
Variable fl : flags.
Variable text : str.
(* strict = true: the three reader repairs are present and a panic is excluded;
   strict = false: nothing is assumed about the flags and a panic is an allowed outcome (only locatedness is claimed) *)
Variable strict : bool.
Hypothesis Hesc : strict = true -> fix_escape fl = true.
Hypothesis Hpeek : strict = true -> fix_peek fl = true.
Hypothesis Hcho : strict = true -> fix_choice fl = true.

Definition loc_ok (l : loc) : Prop := match l with LPos p => boundary text p | LSpan a b => span_ok text a b end.
Definition errs_ok (l : list err) : Prop := Forall (fun e => loc_ok (snd e)) l.

(* every span inside the node is a span of the text; the counts that the reader refuses are absent *)
Fixpoint node_ok (n : pnode) : Prop :=
  span_ok text (nstart n) (nend n) /\
  match n with
  | PPosPred _ x | PNegPred _ x | POpt _ x | PRep _ x | PRepOnce _ x | PPush _ x | PNodeTag _ x _ | PRepMin _ x _ => node_ok x
  | PRepExact _ x k | PRepMax _ x k | PRepMinMax _ x _ k => node_ok x /\ k <> 0%N
  | PSeq _ l r | PChoice _ l r => node_ok l /\ node_ok r
  | _ => True
  end.
Definition good (lo hi : nat) (o : out pnode) : Prop :=
  match o with
  | ODone n => node_ok n /\ lo <= nstart n /\ nend n <= hi
  | OErrs l => errs_ok l
  | OPanic => strict = false
  | OFuel => True
  end.

Lemma node_ok_span n : node_ok n -> span_ok text (nstart n) (nend n).
Proof. destruct n; cbn; tauto. Qed.
Lemma span_ok_mk a b : boundary text a -> boundary text b -> a <= b -> span_ok text a b.
Proof. intros. apply span_ok_facts. auto. Qed.
Lemma span_ok_l a b : span_ok text a b -> boundary text a.
Proof. intros H. apply span_ok_facts in H. tauto. Qed.
Lemma span_ok_r a b : span_ok text a b -> boundary text b.
Proof. intros H. apply span_ok_facts in H. tauto. Qed.
Lemma span_ok_le a b : span_ok text a b -> a <= b.
Proof. intros H. apply span_ok_facts in H. tauto. Qed.

Lemma tok_span k : tok_okb text k = true -> span_ok text (tstart k) (tend k).
Proof. destruct k. intros H. apply tok_okb_unfold in H. cbn. tauto. Qed.
Lemma tok_as_str k : tok_okb text k = true -> exists w, as_str text k = Some w /\ lex_okb (trule k) w = true.
Proof. destruct k. intros H. apply tok_okb_unfold in H. cbn. unfold as_str. cbn. tauto. Qed.
Lemma tok_kids k : tok_okb text k = true -> matches (rule_re (trule k)) (word (tkids k)) /\ kids_ok text (tstart k) (tend k) (tkids k).
Proof. destruct k. intros H. apply tok_okb_unfold in H. cbn. tauto. Qed.

Lemma err_tok_ok kd k : tok_okb text k = true -> errs_ok [(kd, LSpan (tstart k) (tend k))].
Proof. intros H. constructor; [|constructor]. cbn. apply tok_span. exact H. Qed.

(* children: the i-th child is well-shaped and lies inside; later children start after earlier ones end *)
Lemma kids_ok_head lo hi k l : kids_ok text lo hi (k :: l) ->
  lo <= tstart k /\ tok_okb text k = true /\ kids_ok text (tend k) hi l.
Proof. cbn. tauto. Qed.
Lemma kids_ok_bound : forall l lo hi, kids_ok text lo hi l -> lo <= hi.
Proof.
  induction l as [|k l IH]; intros lo hi H; cbn in H; [exact H|].
  destruct H as (H1 & H2 & H3). apply IH in H3. apply tok_span, span_ok_le in H2. lia.
Qed.
Lemma kids_ok_weaken : forall l lo lo' hi, lo' <= lo -> kids_ok text lo hi l -> kids_ok text lo' hi l.
Proof. destruct l; cbn; intros; [lia|]. destruct H0 as (? & ? & ?). repeat split; auto. lia. Qed.

(* ---- numbers *)
Lemma number_of_good k : tok_okb text k = true ->
  match number_of text k with ODone _ => True | OErrs l => errs_ok l | _ => False end.
Proof.
  intros H. unfold number_of. destruct (tok_as_str _ H) as (w & -> & _).
  destruct (parse_u32 w); [exact I|]. apply err_tok_ok. exact H.
Qed.
Lemma nonzero_good k n : tok_okb text k = true ->
  match nonzero k n with ODone m => m = n /\ n <> 0%N | OErrs l => errs_ok l | _ => False end.
Proof.
  intros H. unfold nonzero. destruct (N.eqb_spec n 0); [apply err_tok_ok; exact H|auto].
Qed.

(* ---- the postfix fold *)
Definition post_rule (r : mrule) : Prop :=
  r = r_optional_operator \/ r = r_repeat_operator \/ r = r_repeat_once_operator \/ r = r_repeat_exact \/ r = r_repeat_min \/
  r = r_repeat_max \/ r = r_repeat_min_max \/ r = r_closing_paren.

Lemma with_span_ok n sp : node_ok n -> span_ok text (fst sp) (snd sp) -> node_ok (with_span n sp).
Proof. destruct n; cbn; tauto. Qed.
Lemma nstart_with_span n sp : nstart (with_span n sp) = fst sp.
Proof. destruct n; reflexivity. Qed.
Lemma nend_with_span n sp : nend (with_span n sp) = snd sp.
Proof. destruct n; reflexivity. Qed.

Lemma post_step_good node p lo mid hi :
  node_ok node -> lo <= nstart node -> nend node <= mid -> mid <= tstart p -> tend p <= hi ->
  tok_okb text p = true -> post_rule (trule p) -> good lo hi (post_step text node p).
Proof.
  intros Hn Hlo Hmid Hp Hhi Hok Hr.
  assert (SP : span_ok text (nstart node) (tend p)).
  { pose proof (tok_span _ Hok) as S. pose proof (node_ok_span _ Hn) as S'.
    apply span_ok_mk; [eapply span_ok_l; eauto|eapply span_ok_r; eauto|].
    apply span_ok_le in S, S'. lia. }
  destruct (tok_kids _ Hok) as [M K].
  unfold post_step. remember (tkids p) as ks eqn:Eks. clear Eks.
  destruct Hr as [E|[E|[E|[E|[E|[E|[E|E]]]]]]]; rewrite E in *; cbn [rule_re cat alt] in M; unfold ROpt, sy in M.
  - cbn. auto.
  - cbn. auto.
  - cbn. auto.
  - inv_matches. subst. cbn [app] in *. inv_word_auto. cbn [kids_ok] in K. destruct K as (_ & _ & _ & Kn & _).
    pose proof (number_of_good _ Kn) as G. destruct (number_of text k0) as [n| | |]; cbn [obind]; try contradiction; [|exact G].
    pose proof (nonzero_good k0 n Kn) as G2. destruct (nonzero k0 n) as [m| | |]; cbn [obind]; try contradiction; [|exact G2].
    destruct G2 as [-> Hz]. cbn. auto.
  - inv_matches. subst. cbn [app] in *. inv_word_auto. cbn [kids_ok] in K. destruct K as (_ & _ & _ & Kn & _).
    pose proof (number_of_good _ Kn) as G. destruct (number_of text k0) as [n| | |]; cbn [obind]; try contradiction; [|exact G].
    cbn. auto.
  - inv_matches. subst. cbn [app] in *. inv_word_auto. cbn [kids_ok] in K. destruct K as (_ & _ & _ & _ & _ & Kn & _).
    pose proof (number_of_good _ Kn) as G. destruct (number_of text k1) as [n| | |]; cbn [obind]; try contradiction; [|exact G].
    pose proof (nonzero_good k1 n Kn) as G2. destruct (nonzero k1 n) as [m| | |]; cbn [obind]; try contradiction; [|exact G2].
    destruct G2 as [-> Hz]. cbn. auto.
  - inv_matches. subst. cbn [app] in *. inv_word_auto. cbn [kids_ok] in K. destruct K as (_ & _ & _ & Kn & _ & _ & _ & Km & _).
    pose proof (number_of_good _ Kn) as G. destruct (number_of text k0) as [n| | |]; cbn [obind]; try contradiction; [|exact G].
    pose proof (number_of_good _ Km) as G'. destruct (number_of text k2) as [n'| | |]; cbn [obind]; try contradiction; [|exact G'].
    pose proof (nonzero_good k2 n' Km) as G2. destruct (nonzero k2 n') as [m| | |]; cbn [obind]; try contradiction; [|exact G2].
    destruct G2 as [-> Hz]. cbn. auto.
  - cbn [good]. rewrite nstart_with_span, nend_with_span. cbn [fst snd]. split; [|lia]. apply with_span_ok; auto.
Qed.

Lemma good_weaken lo lo' hi hi' o : lo' <= lo -> hi <= hi' -> good lo hi o -> good lo' hi' o.
Proof. destruct o; cbn; auto. intros ? ? (? & ? & ?). repeat split; auto; lia. Qed.

Lemma fold_post_good : forall l node lo mid hi,
  node_ok node -> lo <= nstart node -> nend node <= mid -> kids_ok text mid hi l ->
  Forall (fun p => post_rule (trule p)) l -> good lo hi (fold_post text node l).
Proof.
  induction l as [|p l IH]; intros node lo mid hi Hn Hlo Hmid K F.
  - cbn in *. repeat split; auto. lia.
  - cbn [fold_post]. destruct K as (K1 & K2 & K3). inversion F as [|? ? F1 F2]; subst.
    pose proof (kids_ok_bound _ _ _ K3) as B.
    pose proof (post_step_good node p lo mid (tend p) Hn Hlo Hmid K1 (le_n _) K2 F1) as G.
    destruct (post_step text node p) as [n'| | |]; cbn [obind good] in *; auto; try contradiction.
    destruct G as (G1 & G2 & G3). eapply IH; eauto.
Qed.

(* ---- literals *)
Definition out_ok {A} (P : A -> Prop) (o : out A) : Prop :=
  match o with ODone a => P a | OErrs l => errs_ok l | OPanic => strict = false | OFuel => True end.

Lemma unescaped_ok k : tok_okb text k = true ->
  out_ok (fun s => exists w, as_str text k = Some w /\ unescape w = UOk s) (unescaped fl text k).
Proof.
  intros H. unfold unescaped. destruct (tok_as_str _ H) as (w & E & _). rewrite E.
  destruct (unescape w) eqn:U; cbn; eauto.
  destruct (fix_escape fl) eqn:FE; [apply err_tok_ok; exact H|]. cbn. destruct strict; [pose proof (Hesc eq_refl); congruence|reflexivity].
Qed.
Lemma peek_index_ok k : tok_okb text k = true -> out_ok (fun _ => True) (peek_index fl text k).
Proof.
  intros H. unfold peek_index. destruct (tok_as_str _ H) as (w & E & _). rewrite E.
  destruct (parse_i32 w); cbn; auto. destruct (fix_peek fl) eqn:FE; [apply err_tok_ok; exact H|]. cbn. destruct strict; [pose proof (Hpeek eq_refl); congruence|reflexivity].
Qed.

Lemma lex_string w : lex_okb r_string w = true -> exists rest, w = ch_dquote :: rest /\ rest <> [] /\ last rest 0%N = ch_dquote.
Proof.
  cbn. destruct w as [|c [|d r]]; try discriminate. intros H. apply andb_prop in H as [H1 H2].
  apply ceq_eq in H1. subst c. apply last_is_spec in H2. eauto.
Qed.
Lemma lex_character w : lex_okb r_character w = true -> exists rest, w = ch_squote :: rest /\ rest <> [] /\ last rest 0%N = ch_squote.
Proof.
  cbn. destruct w as [|c [|d r]]; try discriminate. intros H. apply andb_prop in H as [H1 H2].
  apply ceq_eq in H1. subst c. apply last_is_spec in H2. eauto.
Qed.
Lemma lex_insens w : lex_okb r_insensitive_string w = true ->
  exists d rest, w = ch_caret :: d :: rest /\ (d <? 128)%N = true /\ ceq d ch_bslash = false /\ rest <> [] /\ last rest 0%N = ch_dquote.
Proof.
  cbn. destruct w as [|c [|d [|x r]]]; try discriminate. intros H.
  apply andb_prop in H as [H H4]. apply andb_prop in H as [H H3]. apply andb_prop in H as [H1 H2].
  apply ceq_eq in H1. subst c. apply last_is_spec in H4. apply negb_true_iff in H3. exists d, (x :: r). tauto.
Qed.
Lemma len_ascii d : (d <? 128)%N = true -> len_utf8 d = 1.
Proof. intros H. unfold len_utf8. now rewrite H. Qed.

(* a string / character token: unescape then [1..len-1] *)
Lemma quoted_literal k q : tok_okb text k = true -> is_quote q ->
  (forall w, lex_okb (trule k) w = true -> exists rest, w = q :: rest /\ rest <> [] /\ last rest 0%N = q) ->
  out_ok (fun _ => True) (obind (unescaped fl text k) (fun s => stripped 1 s)).
Proof.
  intros H Q L. pose proof (unescaped_ok k H) as U. destruct (tok_as_str _ H) as (w & E & Lx).
  destruct (unescaped fl text k) as [s| | |]; cbn [obind out_ok] in *; auto.
  destruct U as (w' & E' & U). rewrite E in E'. injection E' as <-.
  destruct (L _ Lx) as (rest & -> & Hne & Hl).
  destruct (unescape_quoted q rest s Q Hne Hl U) as (mid & ->).
  unfold stripped. rewrite strip1_ok by (apply len1_quote; exact Q). exact I.
Qed.

Lemma out_ok_bind {A} (P : A -> Prop) (o : out A) f lo hi :
  out_ok P o -> (forall a, P a -> good lo hi (f a)) -> good lo hi (obind o f).
Proof. destruct o; cbn; auto; intros []. Qed.
Lemma out_ok_bind' {A B} (P : A -> Prop) (Q : B -> Prop) (o : out A) (f : A -> out B) :
  out_ok P o -> (forall a, P a -> out_ok Q (f a)) -> out_ok Q (obind o f).
Proof. destruct o; cbn; auto; intros []. Qed.

Lemma insens_literal k : tok_okb text k = true -> trule k = r_insensitive_string ->
  out_ok (fun _ => True) (obind (unescaped fl text k) (fun s => stripped 2 s)).
Proof.
  intros H R. pose proof (unescaped_ok k H) as U. destruct (tok_as_str _ H) as (w & E & Lx). rewrite R in Lx.
  destruct (unescaped fl text k) as [s| | |]; cbn [obind out_ok] in *; auto.
  destruct U as (w' & E' & U). rewrite E in E'. injection E' as <-.
  destruct (lex_insens _ Lx) as (d & rest & -> & D1 & D2 & Hne & Hl).
  destruct (unescape_insens d rest s D1 D2 Hne Hl U) as (mid & ->).
  unfold stripped. rewrite strip2_ok; [exact I|reflexivity|apply len_ascii; exact D1|reflexivity].
Qed.
Lemma string_literal k : tok_okb text k = true -> trule k = r_string ->
  out_ok (fun _ => True) (obind (unescaped fl text k) (fun s => stripped 1 s)).
Proof.
  intros H R. apply (quoted_literal k ch_dquote H (or_introl eq_refl)). rewrite R. apply lex_string.
Qed.
Lemma char_literal k : tok_okb text k = true -> trule k = r_character ->
  out_ok (fun _ => True) (obind (unescaped fl text k) (fun s => stripped 1 s)).
Proof.
  intros H R. apply (quoted_literal k ch_squote H (or_intror eq_refl)). rewrite R. apply lex_character.
Qed.
(* the same with the continuation that builds the node *)
Lemma literal_then k a (f : str -> out pnode) lo hi :
  out_ok (fun _ => True) (obind (unescaped fl text k) (fun s => stripped a s)) ->
  (forall x, good lo hi (f x)) ->
  good lo hi (obind (unescaped fl text k) (fun s => obind (stripped a s) f)).
Proof.
  intros H F. destruct (unescaped fl text k) as [s| | |]; cbn [obind out_ok good] in *; auto.
  destruct (stripped a s); cbn [obind out_ok good] in *; auto.
Qed.

Definition terminal_rule (r : mrule) : Prop :=
  r = r_push_literal \/ r = r_push \/ r = r_peek_slice \/ r = r_identifier \/ r = r_string \/ r = r_insensitive_string \/ r = r_range.

Definition rec_good (rec : list tok -> out pnode) : Prop :=
  forall kids lo hi, kids_ok text lo hi kids -> matches (rule_re r_expression) (word kids) -> good lo hi (rec kids).

Lemma leaf_good sp (n : pnode) : nspan n = sp -> span_ok text (fst sp) (snd sp) ->
  (match n with PStr _ _ | PInsens _ _ | PRange _ _ _ | PIdent _ _ | PPeekSlice _ _ _ | PPushLiteral _ _ => True | _ => False end) ->
  node_ok n.
Proof. intros <-. destruct n; cbn; tauto. Qed.

Lemma obind_assoc {A B C} (o : out A) (f : A -> out B) (g : B -> out C) :
  obind (obind o f) g = obind o (fun a => obind (f a) g).
Proof. destruct o; reflexivity. Qed.
Lemma pk_bind t lo hi (f : Z -> out pnode) : tok_okb text t = true -> (forall z, good lo hi (f z)) ->
  good lo hi (obind (peek_index fl text t) f).
Proof. intros H F. eapply out_ok_bind; [apply peek_index_ok; exact H|]. intros z _. apply F. Qed.

Lemma peek_slice_good k : tok_okb text k = true -> trule k = r_peek_slice -> good (tstart k) (tend k) (peek_slice_node fl text k).
Proof.
  intros H R. destruct (tok_kids _ H) as [M K]. rewrite R in M. cbn [rule_re cat alt] in M; unfold ROpt, sy in M.
  pose proof (tok_span _ H) as SP.
  assert (G : forall i j, good (tstart k) (tend k) (ODone (PPeekSlice (tspan k) i j))).
  { intros. cbn. repeat split; auto. }
  unfold peek_slice_node. remember (tkids k) as ks eqn:Eks. clear Eks.
  inv_matches; subst; cbn [app] in *; inv_word_auto; cbn [kids_ok] in K; cbn [trule].
  all: decompose [and] K; clear K.
  all: repeat first
    [ progress (rewrite ?Hk, ?Hk0, ?Hk1, ?Hk2, ?Hk3)
    | progress cbn [obind]
    | apply G
    | (apply pk_bind; [assumption|intros ?])
    | match goal with
      | |- context [obind (obind (peek_index fl text ?t) _) _] =>
          let P := fresh "P" in
          assert (P : out_ok (fun _ => True) (peek_index fl text t)) by (apply peek_index_ok; assumption);
          destruct (peek_index fl text t); cbn [obind out_ok good] in P |- *; [|exact P|exact P|exact I]
      end ].
Qed.

Lemma range_good k : tok_okb text k = true -> trule k = r_range -> good (tstart k) (tend k) (range_node fl text k).
Proof.
  intros H R. destruct (tok_kids _ H) as [M K]. rewrite R in M. cbn [rule_re cat alt] in M; unfold ROpt, sy in M.
  unfold range_node. remember (tkids k) as ks eqn:Eks. clear Eks.
  inv_matches; subst; cbn [app] in *; inv_word_auto; cbn [kids_ok] in K.
  destruct K as (A1 & K0 & A2 & K1 & A3 & K2 & A4).
  pose proof (tok_span _ K0) as S0. pose proof (tok_span _ K1) as S1. pose proof (tok_span _ K2) as S2.
  pose proof (span_ok_le _ _ S0). pose proof (span_ok_le _ _ S1). pose proof (span_ok_le _ _ S2).
  pose proof (char_literal _ K0 Hk) as L0. pose proof (char_literal _ K2 Hk1) as L2.
  destruct (unescaped fl text k0) as [s0| | |]; cbn [obind out_ok good] in *; auto.
  destruct (unescaped fl text k2) as [s2| | |]; cbn [obind out_ok good] in *; auto.
  destruct (stripped 1 s0); cbn [obind out_ok good] in *; auto; try contradiction.
  destruct (stripped 1 s2); cbn [obind out_ok good] in *; auto; try contradiction.
  cbn. repeat split; try lia. apply span_ok_mk; [eapply span_ok_l; eauto|eapply span_ok_r; eauto|lia].
Qed.

Lemma atom_good rec k : rec_good rec -> tok_okb text k = true -> (terminal_rule (trule k) \/ trule k = r_expression) ->
  good (tstart k) (tend k) (atom fl text rec k).
Proof.
  intros RG H T. destruct (tok_kids _ H) as [M K]. pose proof (tok_span _ H) as SP. unfold atom.
  destruct T as [[E|[E|[E|[E|[E|[E|E]]]]]]|E]; rewrite E in *.
  - (* PUSH_LITERAL *)
    destruct (extras fl); [|apply err_tok_ok; exact H].
    cbn [rule_re cat alt] in M; unfold ROpt, sy in M. remember (tkids k) as ks eqn:Eks. clear Eks.
    inv_matches; subst; cbn [app] in *; inv_word_auto; cbn [kids_ok] in K.
    destruct K as (A1 & K0 & A2 & K1 & A3 & K2 & A4).
    pose proof (tok_span _ K0) as S0. pose proof (tok_span _ K1) as S1. pose proof (tok_span _ K2) as S2.
    pose proof (span_ok_le _ _ S0). pose proof (span_ok_le _ _ S1). pose proof (span_ok_le _ _ S2).
    apply literal_then; [apply string_literal; auto|]. intros x. cbn. repeat split; auto; lia.
  - (* PUSH *)
    cbn [rule_re cat alt] in M; unfold ROpt, sy in M. remember (tkids k) as ks eqn:Eks. clear Eks.
    inv_matches; subst; cbn [app] in *; inv_word_auto; cbn [kids_ok] in K.
    destruct K as (A1 & K0 & A2 & K1 & A3 & K2 & A4).
    pose proof (tok_span _ K0) as S0. pose proof (tok_span _ K1) as S1. pose proof (tok_span _ K2) as S2.
    pose proof (span_ok_le _ _ S0). pose proof (span_ok_le _ _ S1). pose proof (span_ok_le _ _ S2).
    destruct (tok_kids _ K1) as [M1 KK1]. rewrite Hk0 in M1.
    pose proof (RG _ _ _ KK1 M1) as G. destruct (rec (tkids k1)) as [n| | |]; cbn [obind good] in *; auto.
    destruct G as (G1 & G2 & G3). pose proof (node_ok_span _ G1) as SN. pose proof (span_ok_le _ _ SN).
    repeat split; auto; try (cbn; lia).
    cbn. apply span_ok_mk; [eapply span_ok_l; eauto|eapply span_ok_r; eauto|lia].
  - apply peek_slice_good; auto.
  - destruct (tok_as_str _ H) as (w & -> & _). cbn. repeat split; auto.
  - apply literal_then; [apply string_literal; auto|]. intros x. cbn. repeat split; auto.
  - destruct (fix_insens fl).
    + cbn [rule_re] in M. unfold sy in M. apply inv_sym in M. remember (tkids k) as ks eqn:Eks. clear Eks. inv_word M.
      cbn [kids_ok] in K. destruct K as (_ & K0 & _).
      apply literal_then; [apply string_literal; auto|]. intros x. cbn. repeat split; auto.
    + apply literal_then; [apply insens_literal; auto|]. intros x. cbn. repeat split; auto.
  - apply range_good; auto.
  - apply RG; auto.
Qed.

(* ---- unaries *)
Definition prefix_rule (r : mrule) : Prop := r = r_positive_predicate_operator \/ r = r_negative_predicate_operator.
Definition node_shape (l : list tok) : Prop :=
  (exists p x c, l = [p; x; c] /\ trule p = r_opening_paren /\ trule x = r_expression /\ trule c = r_closing_paren) \/
  (exists k, l = [k] /\ terminal_rule (trule k)).
Definition tag_ok (lo0 lo : nat) (tag : option (str * nat)) : Prop :=
  match tag with None => True | Some (_, st) => boundary text st /\ lo0 <= st /\ st <= lo end.

Lemma add_tag_good lo0 lo hi tag n : lo0 <= lo -> tag_ok lo0 lo tag -> node_ok n -> lo <= nstart n -> nend n <= hi ->
  good lo0 hi (add_tag fl tag n).
Proof.
  intros L T N A B. unfold add_tag. destruct tag as [[t st]|]; [|cbn; repeat split; auto; lia].
  destruct T as (T1 & T2 & T3). destruct (extras fl); [|cbn; repeat split; auto; lia].
  pose proof (node_ok_span _ N) as S. pose proof (span_ok_le _ _ S).
  cbn. repeat split; auto; try lia. apply span_ok_mk; auto; [eapply span_ok_r; eauto|lia].
Qed.

Lemma is_rule_true r k : is_rule r k = true <-> trule k = r.
Proof. unfold is_rule. apply mrule_eqb_eq. Qed.
Lemma is_rule_false r k : trule k <> r -> is_rule r k = false.
Proof. intros H. destruct (is_rule r k) eqn:E; [apply is_rule_true in E; contradiction|reflexivity]. Qed.

Lemma un_notag rec pt l1 : (forall nx l2, l1 = nx :: l2 -> trule nx <> r_assignment_operator) ->
  un fl text rec (pt :: l1) = core fl text rec pt l1 (un fl text rec l1) None.
Proof.
  intros H. cbn [un]. destruct l1 as [|nx l2]; [reflexivity|]. rewrite is_rule_false; [reflexivity|]. eapply H; eauto.
Qed.

Lemma post_not_assign r : post_rule r -> r <> r_assignment_operator.
Proof. intros [E|[E|[E|[E|[E|[E|[E|E]]]]]]]; rewrite E; discriminate. Qed.
Lemma prefix_not_assign r : prefix_rule r -> r <> r_assignment_operator.
Proof. intros [E|E]; rewrite E; discriminate. Qed.
Lemma terminal_not_assign r : terminal_rule r -> r <> r_assignment_operator.
Proof. intros [E|[E|[E|[E|[E|[E|E]]]]]]; rewrite E; discriminate. Qed.

Section Un.
Variable rec : list tok -> out pnode.
Hypothesis RG : rec_good rec.
Variable nodep post : list tok.
Hypothesis NS : node_shape nodep.
Hypothesis PS : Forall (fun p => post_rule (trule p)) post.

(* the first token after the prefixes is never `=` *)
Lemma head_not_assign pre : Forall (fun p => prefix_rule (trule p)) pre ->
  forall nx l2, pre ++ nodep ++ post = nx :: l2 -> trule nx <> r_assignment_operator.
Proof.
  intros F nx l2 E. destruct pre as [|p pre'].
  - destruct NS as [(p & x & c & -> & Hp & _)|(k & -> & Hk)]; cbn in E; inversion E; subst.
    + rewrite Hp. discriminate.
    + apply terminal_not_assign. exact Hk.
  - cbn in E. inversion E; subst. inversion F; subst. apply prefix_not_assign. assumption.
Qed.

Lemma second_not_assign pre : Forall (fun p => prefix_rule (trule p)) pre ->
  forall pr l3, pre ++ nodep ++ post = pr :: l3 -> forall nx l2, l3 = nx :: l2 -> trule nx <> r_assignment_operator.
Proof.
  intros F pr l3 E nx l2 E2. subst l3. destruct pre as [|p' pre'].
  - cbn [app] in E. destruct NS as [(p0 & x & c & -> & Hp & Hx & Hc)|(k & -> & Hk)]; cbn [app] in E; inversion E; subst.
    + rewrite Hx. discriminate.
    + inversion PS; subst. apply post_not_assign. assumption.
  - cbn [app] in E. inversion E; subst. inversion F; subst. eapply (head_not_assign pre'); eauto.
Qed.

Lemma core_good : forall pre lo hi, Forall (fun p => prefix_rule (trule p)) pre -> kids_ok text lo hi (pre ++ nodep ++ post) ->
  forall lo0 tag, lo0 <= lo -> tag_ok lo0 lo tag ->
  match pre ++ nodep ++ post with
  | pr :: l3 => good lo0 hi (core fl text rec pr l3 (un fl text rec l3) tag)
  | [] => False
  end.
Proof.
  induction pre as [|p pre IH]; intros lo hi F K lo0 tag L0 T.
  - cbn [app] in *. destruct NS as [(p & x & c & -> & Hp & Hx & Hc)|(k & -> & Hk)]; cbn [app] in *.
    + (* ( expression ) post *)
      destruct K as (A1 & Kp & A2 & Kx & Kr).
      unfold core. rewrite Hp.
      rewrite un_notag by (intros nx l2 E; inversion E; subst; rewrite Hc; discriminate).
      unfold core at 1. rewrite Hx.
      pose proof (atom_good rec x RG Kx (or_intror Hx)) as GA.
      pose proof (tok_span _ Kp) as Sp. pose proof (span_ok_le _ _ Sp) as Lp.
      pose proof (tok_span _ Kx) as Sx. pose proof (span_ok_le _ _ Sx) as Lx.
      destruct (atom fl text rec x) as [n| | |]; cbn [obind good] in *; auto.
      destruct GA as (N1 & N2 & N3).
      assert (GF : good (tstart x) hi (fold_post text n (c :: post))).
      { eapply fold_post_good; eauto. constructor; auto. right. right. right. right. right. right. right. exact Hc. }
      destruct (fold_post text n (c :: post)) as [n'| | |]; cbn [obind good add_tag] in *; auto.
      destruct GF as (M1 & M2 & M3). pose proof (node_ok_span _ M1) as Sn. pose proof (span_ok_le _ _ Sn).
      apply (add_tag_good lo0 lo hi); auto.
      * apply with_span_ok; auto. cbn [fst snd]. apply span_ok_mk; [eapply span_ok_l; eauto|eapply span_ok_r; eauto|lia].
      * rewrite nstart_with_span. cbn. lia.
      * rewrite nend_with_span. cbn. lia.
    + (* terminal post *)
      destruct K as (A1 & Kk & Kr).
      assert (NX : trule k <> r_opening_paren /\ trule k <> r_positive_predicate_operator /\ trule k <> r_negative_predicate_operator)
        by (destruct Hk as [E|[E|[E|[E|[E|[E|E]]]]]]; rewrite E; repeat split; discriminate).
      destruct NX as (X1 & X2 & X3).
      assert (CE : forall r tg, core fl text rec k post r tg = obind (obind (atom fl text rec k) (fun n => fold_post text n post)) (add_tag fl tg)).
      { intros. unfold core. destruct (trule k); try reflexivity; congruence. }
      rewrite CE.
      pose proof (atom_good rec k RG Kk (or_introl Hk)) as GA.
      pose proof (tok_span _ Kk) as Sk. pose proof (span_ok_le _ _ Sk) as Lk.
      destruct (atom fl text rec k) as [n| | |]; cbn [obind good] in *; auto.
      destruct GA as (N1 & N2 & N3).
      assert (GF : good (tstart k) hi (fold_post text n post)) by (eapply fold_post_good; eauto).
      destruct (fold_post text n post) as [n'| | |]; cbn [obind good add_tag] in *; auto.
      destruct GF as (M1 & M2 & M3). apply (add_tag_good lo0 lo hi); auto. lia.
  - cbn [app] in *. destruct K as (A1 & Kp & Kr). inversion F as [|? ? Fp F']; subst.
    pose proof (tok_span _ Kp) as Sp. pose proof (span_ok_le _ _ Sp) as Lp.
    (* unaries on the rest *)
    assert (GU : good (tend p) hi (un fl text rec (pre ++ nodep ++ post))).
    { specialize (IH (tend p) hi F' Kr (tend p) None (le_n _) I).
      destruct (pre ++ nodep ++ post) as [|pr l3] eqn:E; [contradiction|].
      rewrite un_notag; [exact IH|]. eapply second_not_assign; eauto. }
    set (rest := pre ++ nodep ++ post) in *.
    assert (CE : forall tg, core fl text rec p rest (un fl text rec rest) tg =
                 obind (obind (un fl text rec rest) (fun n => ODone ((if mrule_eqb (trule p) r_positive_predicate_operator then PPosPred else PNegPred) (tstart p, nend n) n))) (add_tag fl tg)).
    { intros. unfold core. destruct Fp as [E|E]; rewrite E; reflexivity. }
    rewrite CE. destruct (un fl text rec rest) as [n| | |]; cbn [obind good] in *; auto.
    destruct GU as (N1 & N2 & N3). pose proof (node_ok_span _ N1) as Sn. pose proof (span_ok_le _ _ Sn).
    apply (add_tag_good lo0 lo hi); auto.
    + assert (SPN : span_ok text (tstart p) (nend n)) by (apply span_ok_mk; [eapply span_ok_l; eauto|eapply span_ok_r; eauto|lia]).
      destruct (mrule_eqb (trule p) r_positive_predicate_operator); cbn; auto.
    + destruct (mrule_eqb (trule p) r_positive_predicate_operator); cbn; lia.
    + destruct (mrule_eqb (trule p) r_positive_predicate_operator); cbn; lia.
Qed.

Lemma un_good pre lo hi : Forall (fun p => prefix_rule (trule p)) pre -> kids_ok text lo hi (pre ++ nodep ++ post) ->
  good lo hi (un fl text rec (pre ++ nodep ++ post)).
Proof.
  intros F K. pose proof (core_good pre lo hi F K lo None (le_n _) I) as G.
  destruct (pre ++ nodep ++ post) as [|pr l3] eqn:E; [contradiction|].
  rewrite un_notag; [exact G|]. eapply second_not_assign; eauto.
Qed.
End Un.

(* the children of a `term` *)
Lemma star_forall (P : mrule -> Prop) a w : (forall u, matches a u -> exists r, u = [r] /\ P r) ->
  matches (RStar a) w -> Forall P w.
Proof.
  intros Ha H. remember (RStar a) as s eqn:E. induction H; inversion E; subst; auto.
  destruct (Ha _ H) as (r & -> & Hr). cbn. constructor; auto.
Qed.
Lemma forall_word (P : mrule -> Prop) l : Forall P (word l) -> Forall (fun k => P (trule k)) l.
Proof. induction l; cbn; intros H; inversion H; subst; constructor; auto. Qed.

Lemma term_shape kids : matches (rule_re r_term) (word kids) ->
  exists tagp pre nodep post, kids = tagp ++ pre ++ nodep ++ post /\
    (tagp = [] \/ exists t a, tagp = [t; a] /\ trule t = r_tag_id /\ trule a = r_assignment_operator) /\
    Forall (fun p => prefix_rule (trule p)) pre /\ node_shape nodep /\ Forall (fun p => post_rule (trule p)) post.
Proof.
  intros M. cbn [rule_re cat] in M.
  apply inv_cat in M as (u1 & w1 & E1 & M1 & M). apply inv_cat in M as (u2 & w2 & E2 & M2 & M).
  apply inv_cat in M as (u3 & u4 & E3 & M3 & M4). subst w1 w2.
  destruct (word_eq_app _ _ _ E1) as (l1 & r1 & -> & W1 & E1'). destruct (word_eq_app _ _ _ E1') as (l2 & r2 & -> & W2 & E2').
  destruct (word_eq_app _ _ _ E2') as (l3 & l4 & -> & W3 & W4). subst. clear E1 E1' E2'.
  exists l1, l2, l3, l4. split; [reflexivity|]. repeat split.
  - unfold ROpt, re_node_tag in M1. cbn [cat] in M1. unfold sy in M1. inv_matches; subst; cbn [app] in *.
    + right. inv_word_auto. eauto.
    + left. inv_word_auto. reflexivity.
  - apply forall_word. eapply star_forall; [|exact M2]. intros u Hu. unfold re_prefix in Hu. cbn [alt] in Hu. unfold sy in Hu.
    inv_matches; subst; eexists; (split; [reflexivity|]); [left|right]; reflexivity.
  - unfold re_node, re_terminal in M3. cbn [cat alt] in M3. unfold sy in M3. inv_matches; subst; cbn [app] in *; inv_word_auto.
    + left. eauto 10.
    + right. eexists; split; [reflexivity|]. rewrite Hk. left. reflexivity.
    + right. eexists; split; [reflexivity|]. rewrite Hk. right; left. reflexivity.
    + right. eexists; split; [reflexivity|]. rewrite Hk. right; right; left. reflexivity.
    + right. eexists; split; [reflexivity|]. rewrite Hk. right; right; right; left. reflexivity.
    + right. eexists; split; [reflexivity|]. rewrite Hk. right; right; right; right; left. reflexivity.
    + right. eexists; split; [reflexivity|]. rewrite Hk. right; right; right; right; right; left. reflexivity.
    + right. eexists; split; [reflexivity|]. rewrite Hk. right; right; right; right; right; right. reflexivity.
  - apply forall_word. eapply star_forall; [|exact M4]. intros u Hu. unfold re_postfix in Hu. cbn [alt] in Hu. unfold sy in Hu.
    inv_matches; subst; eexists; (split; [reflexivity|]); unfold post_rule; tauto.
Qed.

Lemma un_term_good rec k : rec_good rec -> tok_okb text k = true -> trule k = r_term ->
  good (tstart k) (tend k) (un fl text rec (tkids k)).
Proof.
  intros RG H R. destruct (tok_kids _ H) as [M K]. rewrite R in M.
  destruct (term_shape _ M) as (tagp & pre & nodep & post & E & T & F & NS & PS). rewrite E in *. clear E.
  destruct T as [->|(t & a & -> & Ht & Ha)]; cbn [app] in *.
  - apply un_good; auto.
  - destruct K as (A1 & Kt & A2 & Ka & Kr).
    pose proof (tok_span _ Kt) as St. pose proof (span_ok_le _ _ St). pose proof (tok_span _ Ka) as Sa. pose proof (span_ok_le _ _ Sa).
    pose proof (core_good rec RG nodep post NS PS pre (tend a) (tend k) F Kr (tstart k)) as G.
    cbn [un]. rewrite (proj2 (is_rule_true _ _) Ha).
    assert (L0 : tstart k <= tend a) by lia.
    pose proof (G None L0 I) as G0.
    destruct (pre ++ nodep ++ post) as [|pr l3] eqn:E; [contradiction|]. clear G0.
    destruct (tok_as_str _ Kt) as (w & -> & Lx). rewrite Ht in Lx. cbn in Lx. destruct w as [|c r]; [discriminate|].
    apply ceq_eq in Lx. subst c. rewrite tail1_ok by reflexivity.
    apply G; [lia|]. cbn. repeat split; [eapply span_ok_l; eauto|lia|lia].
Qed.

(* ---- the children of an `expression`: choice_operator? term (infix term)* *)
Definition infix_rule (r : mrule) : Prop := r = r_sequence_operator \/ r = r_choice_operator.
(* term (infix term)* *)
Inductive alternating : list tok -> Prop :=
| alt_one t : trule t = r_term -> alternating [t]
| alt_more t o l : trule t = r_term -> infix_rule (trule o) -> alternating l -> alternating (t :: o :: l).

Lemma expression_shape kids : matches (rule_re r_expression) (word kids) ->
  exists lead body, kids = lead ++ body /\ (lead = [] \/ exists c, lead = [c] /\ trule c = r_choice_operator) /\ alternating body.
Proof.
  intros M. cbn [rule_re cat] in M.
  apply inv_cat in M as (u1 & w1 & E1 & M1 & M). apply inv_cat in M as (u2 & u3 & E2 & M2 & M3). subst w1.
  destruct (word_eq_app _ _ _ E1) as (l1 & r1 & -> & W1 & E1'). destruct (word_eq_app _ _ _ E1') as (l2 & l3 & -> & W2 & W3).
  subst. clear E1 E1'. exists l1, (l2 ++ l3). split; [reflexivity|]. split.
  - unfold ROpt, sy in M1. inv_matches; subst; [right|left]; inv_word_auto; eauto.
  - unfold sy in M2. apply inv_sym in M2. inv_word M2. cbn [app].
    apply (inv_star_pairs (RCat re_infix (sy r_term))) in M3.
    + destruct M3 as (ps & E & F). revert k Hk l3 E. induction F as [|[o t] ps Hp F IH]; intros k Hk l3 E.
      * cbn in E. apply word_eq_nil in E. subst. constructor. exact Hk.
      * cbn [flat_map fst snd app] in E. cbn [fst snd] in Hp.
        destruct (word_eq_cons _ _ _ E) as (ko & l' & -> & Ho & E').
        destruct (word_eq_cons _ _ _ E') as (kt & l'' & -> & Ht & E'').
        apply inv_cat in Hp as (a & b & Eab & Ha & Hb). unfold re_infix, sy in Ha, Hb. cbn [alt] in Ha.
        apply inv_sym in Hb. subst b.
        assert (a = [o]) by (inv_matches; subst; cbn in Eab; inversion Eab; reflexivity). subst a.
        cbn in Eab. inversion Eab; subst.
        constructor; auto.
        -- unfold infix_rule. inv_matches; match goal with H : [_] = [_] |- _ => inversion H end; subst; auto.
    + intros u Hu. apply inv_cat in Hu as (a & b & -> & Ha & Hb). unfold re_infix, sy in Ha, Hb. cbn [alt] in Ha.
      apply inv_sym in Hb. subst b. inv_matches; subst; cbn; eexists _, _; (split; [reflexivity|]);
      (change [?x; ?y] with ([x] ++ [y]); constructor; [|constructor]); [apply m_alt_l|apply m_alt_r]; constructor.
Qed.

Lemma alternating_wf l : alternating l -> Syntax.well_formed pratt_table (ptoks l) = true.
Proof.
  unfold Syntax.well_formed. induction 1 as [t Ht|t o l Ht Ho A IH].
  - cbn [ptoks map Syntax.wf fst]. rewrite pratt_table_spec, Ht. reflexivity.
  - cbn [ptoks map Syntax.wf fst]. rewrite (pratt_table_spec (mrule_code (trule t))), Ht.
    cbn [mrule_code Nat.eqb]. rewrite (pratt_table_spec (mrule_code (trule o))). destruct Ho as [-> | ->]; cbn [mrule_code Nat.eqb]; exact IH.
Qed.
Lemma alternating_rules l : alternating l -> Forall (fun k => trule k = r_term \/ infix_rule (trule k)) l.
Proof. induction 1; repeat (constructor; auto). Qed.

Lemma kids_ok_app : forall l1 l2 lo hi, kids_ok text lo hi (l1 ++ l2) ->
  exists mid, kids_ok text lo mid l1 /\ kids_ok text mid hi l2.
Proof.
  induction l1 as [|k l1 IH]; intros l2 lo hi H.
  - exists lo. cbn. split; [lia|exact H].
  - cbn in H. destruct H as (H1 & H2 & H3). destruct (IH _ _ _ H3) as (mid & A & B).
    exists mid. cbn. auto.
Qed.

Lemma code_inj a b : mrule_code a = mrule_code b -> a = b.
Proof. intros H. apply mrule_eqb_eq. unfold mrule_eqb. now rewrite H, Nat.eqb_refl. Qed.

Lemma ev_good rec : rec_good rec -> forall t lo hi,
  kind_ok pratt_table t -> kids_ok text lo hi (map snd (Syntax.yield t)) ->
  Forall (fun a => fst a = mrule_code (trule (snd a)) /\ (trule (snd a) = r_term \/ infix_rule (trule (snd a)))) (Syntax.yield t) ->
  good lo hi (ev fl text rec t).
Proof.
  intros RG. induction t as [a|o t IH|t IH o|l IHl o r IHr]; intros lo hi K Y F; cbn [kind_ok] in K; try contradiction.
  - cbn [Syntax.yield map] in *. inversion F as [|? ? (Fc & Fr) _]; subst.
    destruct Y as (Y1 & Y2 & Y3). cbn [ev].
    assert (R : trule (snd a) = r_term).
    { destruct Fr as [R|R]; [exact R|]. exfalso.
      assert (K' : pratt_table (mrule_code (trule (snd a))) = None).
      { replace (mrule_code (trule (snd a))) with (fst a) by exact Fc. exact K. }
      apply (proj2 (pratt_table_op (snd a))); auto. }
    eapply good_weaken; [| |apply un_term_good; auto]; [lia|cbn in Y3; lia].
  - destruct K as (Kl & Kr & s & p & Ko). cbn [Syntax.yield] in *. rewrite map_app in Y. cbn [map] in Y.
    apply Forall_app in F as [Fl F]. inversion F as [|? ? (Fc & Fr) Fr']; subst.
    destruct (kids_ok_app _ _ _ _ Y) as (mid & Yl & Yr). cbn [kids_ok] in Yr. destruct Yr as (Y1 & Y2 & Y3).
    pose proof (tok_span _ Y2) as So. pose proof (span_ok_le _ _ So).
    specialize (IHl lo mid Kl Yl Fl). specialize (IHr (tend (snd o)) hi Kr Y3 Fr').
    cbn [ev]. destruct (ev fl text rec l) as [nl| | |], (ev fl text rec r) as [nr| | |]; cbn [good] in *; auto; try contradiction.
    destruct IHl as (L1 & L2 & L3), IHr as (R1 & R2 & R3).
    pose proof (node_ok_span _ L1) as Sl. pose proof (node_ok_span _ R1) as Sr.
    pose proof (span_ok_le _ _ Sl). pose proof (span_ok_le _ _ Sr).
    assert (SP : span_ok text (nstart nl) (nend nr)) by (apply span_ok_mk; [eapply span_ok_l; eauto|eapply span_ok_r; eauto|lia]).
    assert (OP : infix_rule (trule (snd o))).
    { apply pratt_table_op. replace (mrule_code (trule (snd o))) with (fst o) by exact Fc.
      intros X. assert (X' : pratt_table (fst o) = None) by exact X. rewrite Ko in X'. discriminate. }
    unfold infix_node. destruct OP as [-> | ->]; cbn; repeat split; auto; lia.
Qed.

Lemma ptoks_snd l : map snd (ptoks l) = l.
Proof. unfold ptoks. rewrite map_map. cbn. apply map_id. Qed.
Lemma alternating_head l : alternating l -> exists t r, l = t :: r /\ trule t = r_term.
Proof. destruct 1; eauto. Qed.

Lemma body_good rec body lo hi : rec_good rec -> alternating body -> kids_ok text lo hi body ->
  good lo hi match Model.pratt_parse pratt_maps pratt_table (ptoks body) with
             | Syntax.Ok t _ => ev fl text rec t
             | Syntax.Panic _ => OPanic
             | Syntax.OutOfFuel => OFuel
             end.
Proof.
  intros RG A K. destruct (pratt_ok (ptoks body) (alternating_wf _ A)) as (t & E & Y & KO).
  rewrite E. apply ev_good; auto.
  - rewrite Y, ptoks_snd. exact K.
  - rewrite Y. unfold ptoks. apply Forall_map. cbn [fst snd]. eapply Forall_impl; [|apply alternating_rules; exact A].
    cbn. intros a Ha. auto.
Qed.

Lemma alternating_star : forall l, alternating l -> forall t rest, l = t :: rest ->
  matches (RStar (RCat re_infix (sy r_term))) (word rest).
Proof.
  induction 1 as [t0 Ht|t0 o l Ht Ho A IH]; intros t rest E; inversion E; subst.
  - constructor.
  - destruct (alternating_head _ A) as (t' & r' & -> & Ht').
    change (word (o :: t' :: r')) with ([trule o; trule t'] ++ word r'). constructor; [|eapply IH; reflexivity].
    change [trule o; trule t'] with ([trule o] ++ [trule t']). constructor.
    + unfold re_infix, sy. cbn [alt]. destruct Ho as [-> | ->]; [apply m_alt_l|apply m_alt_r]; constructor.
    + rewrite Ht'. constructor.
Qed.
Lemma alternating_matches l : alternating l -> matches (rule_re r_expression) (word l).
Proof.
  intros A. destruct (alternating_head _ A) as (t & r & -> & Ht). cbn [rule_re cat].
  change (word (t :: r)) with ([] ++ ([trule t] ++ word r)). constructor; [apply m_alt_r; constructor|].
  constructor; [rewrite Ht; constructor|]. eapply alternating_star; eauto.
Qed.

(* without the repair a leading `|` reaches the Pratt parser, which panics on an infix operator in operand position *)
Lemma expr_leading_op f c (rest : list (Syntax.tok tok)) rbp : infix_rule (trule c) ->
  Model.expr pratt_maps pratt_table (S f) ((mrule_code (trule c), c) :: rest) rbp = Syntax.Panic Syntax.PNud.
Proof.
  intros I. rewrite PV.Pratt.Proofs.expr_S. cbn [Model.nud fst]. rewrite pratt_table_spec. destruct I as [-> | ->]; reflexivity.
Qed.
Lemma pratt_leading_op c rest : infix_rule (trule c) ->
  Model.pratt_parse pratt_maps pratt_table (ptoks (c :: rest)) = Syntax.Panic Syntax.PNud.
Proof.
  intros I. unfold Model.pratt_parse. cbn [ptoks map]. rewrite Nat.add_comm. cbn [Nat.add]. apply expr_leading_op. exact I.
Qed.

Lemma cexpr_body_good rec : rec_good rec -> rec_good (cexpr_body fl text rec).
Proof.
  intros RG kids lo hi K M. unfold cexpr_body.
  destruct (expression_shape _ M) as (lead & body & -> & L & A).
  destruct (alternating_head _ A) as (t & r & Eb & Ht).
  assert (S : exists lo', lo <= lo' /\ kids_ok text lo' hi body /\ skip_choice (lead ++ body) = body).
  { destruct L as [->|(c & -> & Hc)]; cbn [app] in *.
    - exists lo. repeat split; auto. subst body. cbn. rewrite is_rule_false; [reflexivity|]. rewrite Ht. discriminate.
    - destruct K as (K1 & K2 & K3). pose proof (tok_span _ K2) as Sc. pose proof (span_ok_le _ _ Sc).
      exists (tend c). repeat split; auto; [lia|]. cbn. rewrite (proj2 (is_rule_true _ _) Hc). reflexivity. }
  destruct S as (lo' & L1 & K' & SK).
  case_eq (fix_choice fl); intros FC.
  - rewrite SK. eapply good_weaken; [exact L1|apply le_n|]. apply body_good; auto.
  - (* as shipped: no skipping here *)
    assert (NS : strict = false) by (destruct strict; [pose proof (Hcho eq_refl); congruence|reflexivity]).
    destruct L as [->|(c & -> & Hc)]; cbn [app] in *.
    + apply body_good; auto.
    + rewrite pratt_leading_op by (right; exact Hc). exact NS.
Qed.

Theorem cexpr_good : forall d, rec_good (cexpr fl text d).
Proof.
  induction d as [|d IH].
  - intros kids lo hi _ _. exact I.
  - cbn [cexpr]. apply cexpr_body_good. exact IH.
Qed.

(* ---- rules *)
Definition rule_ok (r : prule) : Prop := span_ok text (fst (pspan r)) (snd (pspan r)) /\ node_ok (pbody r).

Lemma grammar_rule_shape kids : matches (rule_re r_grammar_rule) (word kids) ->
  (exists d, kids = [d] /\ trule d = r_line_doc) \/
  (exists nm a m ob x cb, kids = nm :: a :: m ++ [ob; x; cb] /\ trule nm = r_identifier /\ trule ob = r_opening_brace /\
     trule x = r_expression /\
     (m = [] \/ exists k, m = [k] /\ (trule k = r_silent_modifier \/ trule k = r_atomic_modifier \/
                                      trule k = r_compound_atomic_modifier \/ trule k = r_non_atomic_modifier))).
Proof.
  intros M. cbn [rule_re cat] in M. unfold ROpt, re_modifier in M. cbn [alt] in M. unfold sy in M.
  inv_matches; subst; cbn [app] in *; inv_word_auto.
  1-4: right; exists k, k0, [k1], k2, k3, k4; repeat split; auto; right; eexists; split; [reflexivity|]; tauto.
  - right. exists k, k0, [], k1, k2, k3. repeat split; auto.
  - left. eauto.
Qed.

Lemma consume_rule_good d t : tok_okb text t = true -> trule t = r_grammar_rule ->
  (forall k l, tkids t = k :: l -> trule k <> r_line_doc) ->
  out_ok rule_ok (consume_rule fl text d t).
Proof.
  intros H R NL. destruct (tok_kids _ H) as [M K]. rewrite R in M.
  unfold consume_rule. remember (tkids t) as ks eqn:Eks.
  destruct (grammar_rule_shape _ M) as [(dk & -> & Hd)|(nm & a & m & ob & x & cb & -> & Hnm & Hob & Hx & Hm)].
  - exfalso. eapply NL; eauto.
  - clear NL Eks. cbn [kids_ok] in K. destruct K as (A1 & Knm & A2 & Ka & K).
    destruct (tok_as_str _ Knm) as (name & -> & _).
    assert (BODY : forall ty rest lo, rest = [ob; x; cb] -> kids_ok text lo (tend t) rest ->
              out_ok rule_ok (obind (ODone (ty, rest)) (fun tr : rtype * list tok => let '(ty, rest) := tr in
                 match rest with
                 | _ :: x :: _ =>
                     obind (if fix_choice fl then ODone (tkids x)
                            else match tkids x with [] => OPanic | k :: r => if is_rule r_choice_operator k then ODone r else ODone (tkids x) end)
                       (fun ks => obind (cexpr fl text d ks) (fun node => ODone {| pname := name; pspan := tspan nm; pty := ty; pbody := node |}))
                 | _ => OPanic
                 end))).
    { intros ty rest lo -> KK. cbn [obind]. cbn [kids_ok] in KK. destruct KK as (_ & _ & _ & Kx & _).
      destruct (tok_kids _ Kx) as [Mx KKx]. rewrite Hx in Mx.
      assert (FIN : forall ks lo', kids_ok text lo' (tend x) ks -> matches (rule_re r_expression) (word ks) ->
                out_ok rule_ok (obind (cexpr fl text d ks) (fun node => ODone {| pname := name; pspan := tspan nm; pty := ty; pbody := node |}))).
      { intros ks lo' Kk Mk. pose proof (cexpr_good d _ _ _ Kk Mk) as G.
        destruct (cexpr fl text d ks) as [n| | |]; cbn [obind out_ok good] in *; auto.
        split; [cbn; apply tok_span; exact Knm|cbn; tauto]. }
      case_eq (fix_choice fl); intros FC; cbn [obind]; [eapply FIN; eauto|].
      destruct (expression_shape _ Mx) as (lead & body & E & L & A).
      destruct (alternating_head _ A) as (t0 & r0 & Eb & Ht0).
      destruct L as [->|(c & -> & Hc)]; cbn [app] in E; rewrite E in *; subst body.
      - rewrite Eb. rewrite is_rule_false by (rewrite Ht0; discriminate). cbn [obind]. rewrite <- Eb. eapply FIN; eauto.
      - rewrite (proj2 (is_rule_true _ _) Hc). cbn [obind]. cbn [kids_ok] in KKx. destruct KKx as (_ & _ & KKb).
        eapply FIN; [exact KKb|]. apply alternating_matches. exact A. }
    destruct Hm as [->|(k & -> & Hk)]; cbn [app] in *.
    + rewrite (proj2 (is_rule_true _ _) Hob). cbn [negb]. eapply BODY; [reflexivity|exact K].
    + rewrite is_rule_false by (destruct Hk as [E|[E|[E|E]]]; rewrite E; discriminate). cbn [negb].
      cbn [kids_ok] in K. destruct K as (B1 & Kk & K).
      destruct Hk as [E|[E|[E|E]]]; rewrite E; (eapply BODY; [reflexivity|exact K]).
Qed.

Lemma kids_all_ok : forall l lo hi, kids_ok text lo hi l -> Forall (fun k => tok_okb text k = true) l.
Proof. induction l; cbn; intros lo hi H; constructor; [tauto|]. destruct H as (_ & _ & H). eauto. Qed.

Lemma consume_rules_good d : forall f, Forall (fun k => tok_okb text k = true) f ->
  out_ok (Forall rule_ok) (consume_rules_with_spans fl text d f).
Proof.
  induction f as [|t f IH]; intros F; [cbn; constructor|]. inversion F as [|? ? Ft Ff]; subst. specialize (IH Ff).
  cbn [consume_rules_with_spans]. destruct (is_rule r_grammar_rule t) eqn:R; [|exact IH]. apply is_rule_true in R.
  destruct (tok_kids _ Ft) as [M K]. rewrite R in M.
  destruct (tkids t) as [|k l] eqn:Ek.
  - exfalso. destruct (grammar_rule_shape _ M) as [(dk & E & _)|(nm & a & m & ob & x & cb & E & _)]; discriminate.
  - destruct (is_rule r_line_doc k) eqn:D; [exact IH|].
    assert (NL : forall k' l', tkids t = k' :: l' -> trule k' <> r_line_doc).
    { intros k' l' E. rewrite Ek in E. inversion E; subst. intros X. apply is_rule_true in X. congruence. }
    pose proof (consume_rule_good d t Ft R NL) as G.
    destruct (consume_rule fl text d t) as [r| | |]; cbn [obind out_ok] in *; auto.
    destruct (consume_rules_with_spans fl text d f) as [rs| | |]; cbn [obind out_ok] in *; auto.
Qed.
End P.
