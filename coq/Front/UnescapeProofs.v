(* C09: what `unescape` returns on a literal that starts and ends with its quote, and that the slices
   `[1..len-1]` / `[2..len-1]` / `[1..]` taken afterwards are legal; the fuel of `unescape` suffices. *)
From Coq Require Import List Arith NArith Bool Lia.
Import ListNotations.
Require Import PV.Pos.Model PV.Pos.Spec PV.Pos.BasicProofs PV.Front.Shape PV.Front.Consume.
Open Scope list_scope.

Lemma ceq_eq a b : ceq a b = true <-> a = b.
Proof. unfold ceq. apply N.eqb_eq. Qed.
Lemma ceq_neq a b : ceq a b = false <-> a <> b.
Proof. unfold ceq. apply N.eqb_neq. Qed.

(* ---- the fuel: every iteration consumes at least one char *)
Lemma unesc_fuel : forall f cs acc, length cs < f -> unesc f cs acc <> UFuel.
Proof.
  induction f as [|f IH]; intros cs acc L; [lia|].
  cbn [unesc]. destruct cs as [|c cs1]; [discriminate|]. cbn [length] in L.
  destruct (ceq c ch_bslash).
  - destruct cs1 as [|d cs2]; [discriminate|]. cbn [length] in L.
    repeat (match goal with |- (if ?b then _ else _) <> _ => destruct b end; try (apply IH; lia); try discriminate).
    + destruct (from_str_radix16 (firstn 2 cs2)); [|discriminate]. apply IH. rewrite skipn_length. lia.
    + destruct cs2 as [|o cs3]; [discriminate|]. cbn [length] in L.
      repeat (match goal with |- (if ?b then _ else _) <> _ => destruct b end; try discriminate).
      destruct (from_str_radix16 _); [|discriminate]. destruct (char_from_u32 _); [|discriminate].
      apply IH. rewrite skipn_length. lia.
  - apply IH. lia.
Qed.
Lemma unescape_fuel s : unescape s <> UFuel.
Proof. apply unesc_fuel. lia. Qed.

(* ---- the result extends the accumulator *)
Lemma unesc_prefix : forall f cs acc s, unesc f cs acc = UOk s -> exists t, s = rev acc ++ t.
Proof.
  induction f as [|f IH]; intros cs acc s H; [discriminate|].
  cbn [unesc] in H. destruct cs as [|c cs1].
  - inversion H. exists []. now rewrite app_nil_r.
  - assert (P : forall x cs', unesc f cs' (x :: acc) = UOk s -> exists t, s = rev acc ++ t).
    { intros x cs' E. destruct (IH _ _ _ E) as (t & ->). exists (x :: t). cbn [rev]. now rewrite <- app_assoc. }
    destruct (ceq c ch_bslash).
    + destruct cs1 as [|d cs2]; [discriminate|].
      repeat (match type of H with (if ?b then _ else _) = _ => destruct b end; try (eapply P; eassumption); try discriminate).
      * destruct (from_str_radix16 (firstn 2 cs2)); [|discriminate]. eapply P; eassumption.
      * destruct cs2 as [|o cs3]; [discriminate|].
        repeat (match type of H with (if ?b then _ else _) = _ => destruct b end; try discriminate).
        destruct (from_str_radix16 _); [|discriminate]. destruct (char_from_u32 _); [|discriminate]. eapply P; eassumption.
    + eapply P; eassumption.
Qed.

(* ---- hexadecimal strings contain no quote, no brace, no multi-byte char *)
Definition hexish (c : char) : Prop := hex_val c <> None \/ c = ch_plus.
Lemma hex_digits_all : forall s acc v, hex_digits acc s = Some v -> Forall (fun c => hex_val c <> None) s.
Proof.
  induction s as [|c s IH]; intros acc v H; [constructor|].
  cbn in H. destruct (hex_val c) eqn:E; [|discriminate]. constructor; [congruence|eauto].
Qed.
Lemma from_str_radix16_all s v : from_str_radix16 s = Some v -> Forall hexish s.
Proof.
  unfold from_str_radix16. destruct s as [|c r]; [discriminate|].
  destruct (ceq c ch_plus) eqn:E.
  - apply ceq_eq in E. subst. destruct r; [discriminate|]. intros H. apply hex_digits_all in H.
    constructor; [right; reflexivity|]. eapply Forall_impl; [|exact H]. intros a Ha. left. exact Ha.
  - intros H. apply hex_digits_all in H. eapply Forall_impl; [|exact H]. intros a Ha. left. exact Ha.
Qed.
Lemma hexish_ascii c : hexish c -> len_utf8 c = 1 /\ c <> ch_dquote /\ c <> ch_squote /\ c <> 125%N.
Proof.
  intros [H| ->]; [|repeat split; discriminate].
  unfold hex_val in H.
  destruct ((48 <=? c)%N && (c <=? 57)%N) eqn:A; [apply andb_prop in A as [A1 A2]; apply N.leb_le in A1, A2|
  destruct ((97 <=? c)%N && (c <=? 102)%N) eqn:B; [apply andb_prop in B as [B1 B2]; apply N.leb_le in B1, B2|
  destruct ((65 <=? c)%N && (c <=? 70)%N) eqn:C; [apply andb_prop in C as [C1 C2]; apply N.leb_le in C1, C2|congruence]]];
  (split; [unfold len_utf8; destruct (N.ltb_spec c 128); [reflexivity|lia]|]);
  unfold ch_dquote, ch_squote; repeat split; lia.
Qed.
Lemma hexish_blen s : Forall hexish s -> blen s = length s.
Proof. induction 1 as [|c s H _ IH]; [reflexivity|]. cbn [blen length]. destruct (hexish_ascii _ H) as [-> _]. lia. Qed.

Lemma take_while_not_split stop s : exists rest, s = take_while_not stop s ++ rest /\ (rest = [] \/ exists r, rest = stop :: r).
Proof.
  induction s as [|c s (rest & E & Hr)]; cbn.
  - exists []. auto.
  - destruct (ceq c stop) eqn:C.
    + apply ceq_eq in C. subst. exists (stop :: s). split; [reflexivity|right; eauto].
    + exists rest. split; [cbn; congruence|exact Hr].
Qed.

(* ---- the last char: a literal that ends with its quote unescapes to a string that ends with it *)
Definition is_quote (q : char) : Prop := q = ch_dquote \/ q = ch_squote.
Lemma last_app_ne {A} (l : list A) x d : last (l ++ [x]) d = x.
Proof. apply last_last. Qed.
Lemma last_app_r {A} (l1 l2 : list A) d : l2 <> [] -> last (l1 ++ l2) d = last l2 d.
Proof.
  intros H. induction l1 as [|a l1 IH]; [reflexivity|]. cbn [app].
  destruct (l1 ++ l2) eqn:E; [destruct l1; [cbn in E; congruence|discriminate]|]. cbn [last]. exact IH.
Qed.
Lemma last_skipn {A} (l : list A) n d : n < length l -> last (skipn n l) d = last l d.
Proof.
  revert l. induction n as [|n IH]; intros l L; [reflexivity|].
  destruct l as [|a l]; [cbn in L; lia|]. cbn [skipn length] in *. rewrite IH by lia.
  destruct l; [cbn in L; lia|reflexivity].
Qed.
Lemma last_in {A} (l : list A) d : l <> [] -> In (last l d) l.
Proof.
  induction l as [|a l IH]; [congruence|]. intros _. destruct l as [|b l]; [left; reflexivity|].
  right. apply IH. discriminate.
Qed.

Lemma unesc_last q : is_quote q -> forall f cs acc s, cs <> [] -> last cs 0%N = q ->
  unesc f cs acc = UOk s -> exists t, s = t ++ [q].
Proof.
  intros Q. induction f as [|f IH]; intros cs acc s Hne Hl H; [discriminate|].
  cbn [unesc] in H. unfold str, char in *. destruct cs as [|c cs1]; [congruence|].
  (* a step that pushes x and continues with a non-empty tail, or ends *)
  assert (STEP : forall x cs', (cs' = [] -> x = q) -> (cs' <> [] -> last cs' 0%N = q) -> unesc f cs' (x :: acc) = UOk s -> exists t, s = t ++ [q]).
  { intros x cs' E0 E1 E. destruct cs' as [|y cs''].
    - destruct f; [discriminate|]. cbn in E. inversion E. rewrite (E0 eq_refl). cbn [rev]. eauto.
    - eapply IH; [| |exact E]; [discriminate|]. apply E1. discriminate. }
  assert (TL : forall (x : char) l, last (x :: l) 0%N = q -> (l = [] -> x = q) /\ (l <> [] -> last l 0%N = q)).
  { intros x l E. destruct l; [split; [auto|congruence]|split; [discriminate|intros _; exact E]]. }
  destruct (ceq c ch_bslash) eqn:CB.
  - destruct cs1 as [|d cs2]; [discriminate|].
    apply ceq_eq in CB. subst c.
    assert (Hl2 : last (d :: cs2) 0%N = q) by exact Hl.
    destruct (TL _ _ Hl2) as [T0 T1].
    assert (ESC : forall x, (d = q -> x = q) -> unesc f cs2 (x :: acc) = UOk s -> exists t, s = t ++ [q]).
    { intros x Hx E. eapply STEP; [| |exact E]; auto. }
    destruct (ceq d ch_dquote) eqn:D1; [apply ceq_eq in D1; eapply ESC; [|exact H]; congruence|].
    destruct (ceq d ch_bslash) eqn:D2; [apply ceq_eq in D2; eapply ESC; [|exact H]; destruct Q; subst; discriminate|].
    destruct (ceq d 114%N) eqn:D3; [apply ceq_eq in D3; eapply ESC; [|exact H]; destruct Q; subst; discriminate|].
    destruct (ceq d 110%N) eqn:D4; [apply ceq_eq in D4; eapply ESC; [|exact H]; destruct Q; subst; discriminate|].
    destruct (ceq d 116%N) eqn:D5; [apply ceq_eq in D5; eapply ESC; [|exact H]; destruct Q; subst; discriminate|].
    destruct (ceq d 48%N) eqn:D6; [apply ceq_eq in D6; eapply ESC; [|exact H]; destruct Q; subst; discriminate|].
    destruct (ceq d ch_squote) eqn:D7; [apply ceq_eq in D7; eapply ESC; [|exact H]; congruence|].
    assert (Dq : d <> q) by (apply ceq_neq in D1, D7; destruct Q; congruence).
    assert (Hne2 : cs2 <> []) by (intros E; apply Dq; auto).
    specialize (T1 Hne2).
    destruct (ceq d 120%N) eqn:D8.
    + match type of H with (if ?b then _ else _) = _ => destruct b end; [discriminate|].
      match type of H with (if ?b then _ else _) = _ => destruct b eqn:L2 end; [discriminate|]. apply Nat.ltb_ge in L2.
      match type of H with context [from_str_radix16 ?x] => set (fs := x) in *; destruct (from_str_radix16 fs) as [v|] eqn:R end; [|discriminate].
      apply from_str_radix16_all in R.
      assert (NQ : ~ In q fs).
      { intros I. rewrite Forall_forall in R. destruct (hexish_ascii _ (R _ I)) as (_ & A & B & _). destruct Q; congruence. }
      destruct (Nat.eq_dec (length cs2) 2) as [E2|N2].
      * exfalso. apply NQ. unfold fs. rewrite firstn_all2 by lia. rewrite <- T1. apply last_in. exact Hne2.
      * eapply STEP; [| |exact H].
        -- intros E. exfalso. apply (f_equal (@length _)) in E. rewrite skipn_length in E. cbn in E. lia.
        -- intros _. rewrite last_skipn by lia. exact T1.
    + destruct (ceq d 117%N) eqn:D9; [|discriminate].
      destruct cs2 as [|o cs3]; [discriminate|].
      match type of H with (if ?b then _ else _) = _ => destruct b eqn:O end; [discriminate|]. apply negb_false_iff, ceq_eq in O. subst o.
      destruct (TL _ _ T1) as [U0 U1].
      assert (Hne3 : cs3 <> []) by (intros E; specialize (U0 E); destruct Q; subst; discriminate).
      specialize (U1 Hne3).
      set (str_ := take_while_not 125%N cs3) in *.
      match type of H with (if ?b then _ else _) = _ => destruct b end; [discriminate|].
      match type of H with (if ?b then _ else _) = _ => destruct b eqn:L3 end; [discriminate|]. apply Nat.ltb_ge in L3.
      destruct (from_str_radix16 str_) as [v|] eqn:R; [|discriminate].
      destruct (char_from_u32 v) as [ch|]; [|discriminate].
      apply from_str_radix16_all in R. pose proof (hexish_blen _ R) as BL.
      destruct (take_while_not_split 125%N cs3) as (rest & E3 & Hr). fold str_ in E3.
      assert (LR : length cs3 = length str_ + length rest) by (rewrite E3 at 1; apply app_length).
      destruct Hr as [->|(r & ->)]; [cbn in LR; lia|].
      assert (SK : skipn (blen str_ + 1) cs3 = r).
      { rewrite E3, BL. replace (length str_ + 1) with (length str_ + 1) by lia.
        rewrite skipn_app. rewrite skipn_all2 by lia. replace (length str_ + 1 - length str_) with 1 by lia. reflexivity. }
      rewrite SK in H.
      assert (LQ : last cs3 0%N = q) by exact U1.
      rewrite E3 in LQ.
      assert (Rne : r <> []).
      { intros ->. rewrite last_app_ne in LQ. destruct Q as [Q|Q]; rewrite Q in LQ; discriminate. }
      apply (STEP ch r); [intros E; contradiction| |exact H]. intros _.
      rewrite (last_app_r str_ (125%N :: r)) in LQ by discriminate.
      destruct r; [congruence|exact LQ].
  - destruct (TL _ _ Hl) as [T0 T1]. eapply STEP; [| |exact H]; auto.
Qed.

(* ---- the accumulator is only a prefix of the result *)
Lemma unesc_acc : forall f cs acc,
  unesc f cs acc = match unesc f cs [] with UOk u => UOk (rev acc ++ u) | r => r end.
Proof.
  induction f as [|f IH]; intros cs acc; [reflexivity|].
  cbn [unesc]. unfold str, char in *. destruct cs as [|c cs1].
  - cbn [rev]. now rewrite app_nil_r.
  - assert (P : forall x cs', unesc f cs' (x :: acc) = match unesc f cs' [x] with UOk u => UOk (rev acc ++ u) | r => r end).
    { intros x cs'. rewrite (IH cs' (x :: acc)), (IH cs' [x]).
      match goal with |- context [unesc f cs' ?n] => destruct (unesc f cs' n) end; auto.
      cbn [rev app]. rewrite <- ?app_assoc. reflexivity. }
    destruct (ceq c ch_bslash); [|apply P].
    destruct cs1 as [|d cs2]; [reflexivity|].
    repeat (match goal with |- (if ?b then _ else _) = _ => destruct b end; try apply P; try reflexivity).
    + match goal with |- context [from_str_radix16 ?x] => destruct (from_str_radix16 x) end; [apply P|reflexivity].
    + destruct cs2 as [|o cs3]; [reflexivity|].
      repeat (match goal with |- (if ?b then _ else _) = _ => destruct b end; try reflexivity).
      match goal with |- context [from_str_radix16 ?x] => destruct (from_str_radix16 x) end; [|reflexivity].
      match goal with |- context [char_from_u32 ?x] => destruct (char_from_u32 x) end; [apply P|reflexivity].
Qed.

Lemma unesc_plain f c cs acc : ceq c ch_bslash = false -> unesc (S f) (c :: cs) acc = unesc f cs (c :: acc).
Proof. intros H. cbn [unesc]. now rewrite H. Qed.

(* quoted literals: unescape keeps the first char and ends with the quote *)
Lemma unescape_quoted q rest s : is_quote q -> rest <> [] -> last rest 0%N = q ->
  unescape (q :: rest) = UOk s -> exists mid, s = q :: mid ++ [q].
Proof.
  intros Q Hne Hl H. unfold unescape in H. cbn [length] in H.
  assert (NB : ceq q ch_bslash = false) by (destruct Q; subst; reflexivity).
  rewrite unesc_plain in H by exact NB. rewrite unesc_acc in H.
  match type of H with context [unesc ?a ?b ?c] => destruct (unesc a b c) as [u| |] eqn:E end; try discriminate.
  injection H as <-. destruct (unesc_last q Q _ _ _ _ Hne Hl E) as (t & ->). exists t. reflexivity.
Qed.
(* caret, an ASCII char, ..., double quote *)
Lemma unescape_insens d rest s : (d <? 128)%N = true -> ceq d ch_bslash = false -> rest <> [] -> last rest 0%N = ch_dquote ->
  unescape (ch_caret :: d :: rest) = UOk s -> exists mid, s = ch_caret :: d :: mid ++ [ch_dquote].
Proof.
  intros D1 D2 Hne Hl H. unfold unescape in H. cbn [length] in H.
  rewrite unesc_plain in H by reflexivity. rewrite unesc_plain in H by exact D2. rewrite unesc_acc in H.
  match type of H with context [unesc ?a ?b ?c] => destruct (unesc a b c) as [u| |] eqn:E end; try discriminate.
  injection H as <-. destruct (unesc_last ch_dquote (or_introl eq_refl) _ _ _ _ Hne Hl E) as (t & ->). exists t. reflexivity.
Qed.

(* ---- the slices *)
Lemma len1_quote q : is_quote q -> len_utf8 q = 1.
Proof. intros [->| ->]; reflexivity. Qed.
Lemma strip1_ok q mid : len_utf8 q = 1 -> strip 1 (q :: mid ++ [q]) = Some mid.
Proof.
  intros L. unfold strip. change (q :: mid ++ [q]) with ([q] ++ mid ++ [q]).
  rewrite !blen_app. cbn [blen]. rewrite L. rewrite csub_some by lia.
  replace (1 + 0 + (blen mid + (1 + 0)) - 1) with (blen [q] + blen mid) by (cbn [blen]; lia).
  replace 1 with (blen [q]) at 1 by (cbn [blen]; lia). apply slice_app3.
Qed.
Lemma strip2_ok c d q mid : len_utf8 c = 1 -> len_utf8 d = 1 -> len_utf8 q = 1 -> strip 2 (c :: d :: mid ++ [q]) = Some mid.
Proof.
  intros L1 L2 L3. unfold strip. change (c :: d :: mid ++ [q]) with ([c; d] ++ mid ++ [q]).
  rewrite !blen_app. cbn [blen]. rewrite L1, L2, L3. rewrite csub_some by lia.
  replace (1 + (1 + 0) + (blen mid + (1 + 0)) - 1) with (blen [c; d] + blen mid) by (cbn [blen]; lia).
  replace 2 with (blen [c; d]) at 1 by (cbn [blen]; lia). apply slice_app3.
Qed.
Lemma tail1_ok c r : len_utf8 c = 1 -> slice (c :: r) 1 (blen (c :: r)) = Some r.
Proof.
  intros L. cbn [blen]. rewrite L. change (c :: r) with ([c] ++ r). rewrite <- (app_nil_r r) at 1.
  replace 1 with (blen [c]) at 1 by (cbn [blen]; lia). replace (1 + blen r) with (blen [c] + blen r) by (cbn [blen]; lia).
  apply slice_app3.
Qed.

(* what lex_okb says, in the form the lemmas above need *)
Lemma last_is_spec c s : last_is c s = true -> s <> [] /\ last s 0%N = c.
Proof.
  unfold last_is. destruct (rev s) as [|x r] eqn:E; [discriminate|]. intros H. apply ceq_eq in H. subst x.
  assert (S1 : s = rev r ++ [c]) by (rewrite <- (rev_involutive s), E; reflexivity).
  split; [rewrite S1; destruct (rev r); discriminate|]. rewrite S1. apply last_last.
Qed.
