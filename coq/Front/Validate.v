(* C09, part 3: executable model of meta/src/validator.rs: validate_pairs (over the token forest) and
   validate_ast (over the ParserRules), with an explicit STEP COUNT for the recursive predicates
   is_non_failing / is_non_progressing / left_recursion::check_expr (one step per visited expression node).
   VPanic = a Rust panic site (`trace[0]`, `trace.last().unwrap()`, `unreachable!()` in the sort key),
   VFuel  = model artefact: the fuel bounds the length of `trace` (one unit per rule entered); the number of
            rules + 1 always suffices because a rule already on the trace is never entered again.          *)
From Coq Require Import List Arith NArith ZArith Bool String Ascii.
Import ListNotations.
Require Import PV.Pos.Model PV.Front.Shape PV.Front.Consume.
Open Scope list_scope.

Fixpoint str_eqb (a b : str) : bool :=
  match a, b with
  | [], [] => true
  | x :: a', y :: b' => N.eqb x y && str_eqb a' b'
  | _, _ => false
  end.
Definition mem (x : str) (l : list str) : bool := existsb (str_eqb x) l.
Fixpoint lit (s : string) : str := match s with EmptyString => [] | String c r => N_of_ascii c :: lit r end.

Definition PEST_KEYWORDS : list str :=
  [lit "_"; lit "ANY"; lit "DROP"; lit "EOI"; lit "PEEK"; lit "PEEK_ALL"; lit "POP"; lit "POP_ALL"; lit "PUSH"; lit "SOI"].

(* ------------------------------------------------------------------ validate_pairs *)
(* Pairs::flatten: every token of the forest in pre-order *)
Fixpoint flatten_tok (t : tok) : list tok :=
  match t with Tok _ _ _ kids => t :: (fix go (l : list tok) : list tok := match l with [] => [] | k :: l' => flatten_tok k ++ go l' end) kids end.
Fixpoint flatten (l : list tok) : list tok := match l with [] => [] | k :: l' => flatten_tok k ++ flatten l' end.

Section Pairs.
Variable text : str.
Variable builtins : list str.     (* BUILTINS: the fixed names plus pest::unicode::unicode_property_names() *)

(* definitions: the first child of every grammar_rule pair, unless it is a line_doc *)
Fixpoint definitions (f : list tok) : out (list tok) :=
  match f with
  | [] => ODone []
  | t :: f' =>
      if is_rule r_grammar_rule t then
        match tkids t with
        | [] => OPanic                                            (* pair.into_inner().next().unwrap() *)
        | k :: _ => obind (definitions f') (fun ds => ODone (if is_rule r_line_doc k then ds else k :: ds))
        end
      else definitions f'
  end.
Fixpoint called_rules (f : list tok) : list tok :=
  match f with
  | [] => []
  | t :: f' =>
      if is_rule r_grammar_rule t
      then filter (is_rule r_identifier) (skipn 1 (flatten (tkids t))) ++ called_rules f'
      else called_rules f'
  end.
(* span.as_str() of each *)
Fixpoint names_of (l : list tok) : out (list (str * tok)) :=
  match l with
  | [] => ODone []
  | t :: l' => match as_str text t with
               | Some w => obind (names_of l') (fun r => ODone ((w, t) :: r))
               | None => OPanic
               end
  end.
Definition err_at (k : ekind) (t : tok) : err := (k, LSpan (tstart t) (tend t)).

Definition validate_pest_keywords (defs : list (str * tok)) : list err :=
  flat_map (fun d => if mem (fst d) PEST_KEYWORDS then [err_at KKeyword (snd d)] else []) defs.
Fixpoint validate_already_defined (defined : list str) (defs : list (str * tok)) : list err :=
  match defs with
  | [] => []
  | d :: r => if mem (fst d) defined then err_at KAlreadyDefined (snd d) :: validate_already_defined defined r
              else validate_already_defined (fst d :: defined) r
  end.
Definition validate_undefined (defs called : list (str * tok)) : list err :=
  flat_map (fun c => if negb (mem (fst c) (map fst defs)) && negb (mem (fst c) builtins) then [err_at KUndefined (snd c)] else []) called.

(* Ok(defaults) is not observed by the property: unit *)
Definition validate_pairs (f : list tok) : out unit :=
  obind (definitions f) (fun dts =>
  obind (names_of dts) (fun defs =>
  obind (names_of (called_rules f)) (fun called =>
    match validate_pest_keywords defs ++ validate_already_defined [] defs ++ validate_undefined defs called with
    | [] => ODone tt
    | errs => OErrs errs
    end))).
End Pairs.

(* ------------------------------------------------------------------ validate_ast *)
Inductive vres (A : Type) := VOk (a : A) (steps : nat) | VPanic | VFuel.
Arguments VOk {A} a steps. Arguments VPanic {A}. Arguments VFuel {A}.
Definition vbind {A B} (v : vres A) (f : A -> vres B) : vres B :=
  match v with
  | VOk a n => match f a with VOk b m => VOk b (n + m) | VPanic => VPanic | VFuel => VFuel end
  | VPanic => VPanic | VFuel => VFuel
  end.
Definition vtick {A} (v : vres A) : vres A := match v with VOk a n => VOk a (S n) | x => x end.

(* to_hash_map: rules.iter().map(|r| (r.name.clone(), &r.node)).collect(): a later rule replaces an earlier one *)
Fixpoint lookup (rules : list prule) (n : str) : option prule :=
  match rules with
  | [] => None
  | r :: rs => match lookup rs n with Some x => Some x | None => if str_eqb (pname r) n then Some r else None end
  end.
Definition is_empty (s : str) : bool := match s with [] => true | _ => false end.

Section Ast.
Variable rules : list prule.
Variable fuel0 : nat.            (* the fuel of every traversal that starts with a fresh trace *)
Variable lrf : bool.             (* check_expr as repaired for C06 (true) or as shipped (false) *)
Variable tgf : bool.             (* filter_map_top_down descends into NodeTag (true) or not (false, as shipped) *)

(* is_non_progressing(expr, rules, trace) *)
Fixpoint nprog (fuel : nat) (trace : list str) (e : pnode) {struct fuel} : vres bool :=
  match fuel with
  | 0 => VFuel
  | S f =>
    (fix go (e : pnode) : vres bool :=
       match e with
       | PStr _ s | PInsens _ s => VOk (is_empty s) 1
       | PIdent _ id =>
           if str_eqb id (lit "SOI") || str_eqb id (lit "EOI") then VOk true 1
           else if negb (mem id trace) then
             match lookup rules id with
             | Some r => vtick (nprog f (trace ++ [id]) (pbody r))         (* push; recurse; pop().unwrap() *)
             | None => VOk false 1
             end
           else VOk false 1
       | PSeq _ l r => vtick (vbind (go l) (fun b => if b then go r else VOk false 0))
       | PChoice _ l r => vtick (vbind (go l) (fun b => if b then VOk true 0 else go r))
       | PPosPred _ _ | PNegPred _ _ => VOk true 1
       | PRep _ _ | POpt _ _ | PRepMax _ _ _ => VOk true 1
       | PRange _ _ _ => VOk false 1
       | PPeekSlice _ _ _ => VOk false 1
       | PRepExact _ inner mn | PRepMin _ inner mn | PRepMinMax _ inner mn _ =>
           if (mn =? 0)%N then VOk true 1 else vtick (go inner)
       | PPush _ inner => vtick (go inner)
       | PPushLiteral _ _ => VOk true 1
       | PRepOnce _ inner => vtick (go inner)
       | PNodeTag _ inner _ => vtick (go inner)
       end) e
  end.

(* is_non_failing(expr, rules, trace) *)
Fixpoint nfail (fuel : nat) (trace : list str) (e : pnode) {struct fuel} : vres bool :=
  match fuel with
  | 0 => VFuel
  | S f =>
    (fix go (e : pnode) : vres bool :=
       match e with
       | PStr _ s | PInsens _ s => VOk (is_empty s) 1
       | PIdent _ id =>
           if negb (mem id trace) then
             match lookup rules id with
             | Some r => vtick (nfail f (trace ++ [id]) (pbody r))
             | None => VOk false 1
             end
           else VOk false 1
       | POpt _ _ | PRep _ _ | PRepMax _ _ _ => VOk true 1
       | PSeq _ l r => vtick (vbind (go l) (fun b => if b then go r else VOk false 0))
       | PChoice _ l r => vtick (vbind (go l) (fun b => if b then VOk true 0 else go r))
       | PRange _ _ _ => VOk false 1
       | PPeekSlice _ _ _ => VOk false 1
       | PRepExact _ inner mn | PRepMin _ inner mn | PRepMinMax _ inner mn _ =>
           if (mn =? 0)%N then VOk true 1 else vtick (go inner)
       | PNegPred _ _ => VOk false 1
       | PRepOnce _ inner => vtick (go inner)
       | PPush _ inner | PPosPred _ inner => vtick (go inner)
       | PPushLiteral _ _ => VOk true 1
       | PNodeTag _ inner _ => vtick (go inner)
       end) e
  end.

Definition span_err (k : ekind) (n : pnode) : err := (k, LSpan (nstart n) (nend n)).

(* left_recursion::check_expr(node, rules, trace); the trace is never empty when it is called *)
Fixpoint check_expr (fuel : nat) (trace : list str) (e : pnode) {struct fuel} : vres (option err) :=
  match fuel with
  | 0 => VFuel
  | S f =>
    (fix go (e : pnode) : vres (option err) :=
       match e with
       | PIdent _ other =>
           match trace with
           | [] => VPanic                                                     (* trace[0] *)
           | t0 :: _ =>
               if str_eqb t0 other then VOk (Some (span_err KLeftRecursion e)) 1
               else if negb (mem other trace) then
                 match lookup rules other with
                 | Some r => vtick (check_expr f (trace ++ [other]) (pbody r))
                 | None => VOk None 1
                 end
               else VOk None 1
           end
       | PSeq _ l r =>
           match rev trace with
           | [] => VPanic                                                     (* trace.last().unwrap() *)
           | lst :: _ =>
               if lrf then
                 (* check_expr(lhs).or_else(|| if is_non_failing(lhs) || is_non_progressing(lhs) { check_expr(rhs) } else { None }) *)
                 vtick (vbind (go l) (fun x =>
                        match x with
                        | Some er => VOk (Some er) 0
                        | None => vbind (nfail fuel0 [lst] l) (fun b1 =>
                                  vbind (if b1 then VOk true 0 else nprog fuel0 [lst] l) (fun b2 =>
                                    if b2 then go r else VOk None 0))
                        end))
               else
                 vtick (vbind (nfail fuel0 [lst] l) (fun b1 =>
                        vbind (if b1 then VOk true 0 else nprog fuel0 [lst] l) (fun b2 =>
                          if b2 then go r else go l)))
           end
       | PChoice _ l r => vtick (vbind (go l) (fun x => match x with Some er => VOk (Some er) 0 | None => go r end))
       | PRep _ n | PRepOnce _ n | POpt _ n | PPosPred _ n | PNegPred _ n | PPush _ n => vtick (go n)
       | PRepExact _ n _ | PRepMin _ n _ | PRepMax _ n _ | PRepMinMax _ n _ _ | PNodeTag _ n _ => if lrf then vtick (go n) else VOk None 1
       | _ => VOk None 1
       end) e
  end.

(* ParserNode::filter_map_top_down: f on the node, then on the children it descends into (into NodeTag only since the repair) *)
Fixpoint top_down (e : pnode) : list pnode :=
  e :: match e with
       | PPosPred _ n | PNegPred _ n | PRep _ n | PRepOnce _ n | PRepExact _ n _ | PRepMin _ n _ | PRepMax _ n _
       | PRepMinMax _ n _ _ | POpt _ n | PPush _ n => top_down n
       | PNodeTag _ n _ => if tgf then top_down n else []
       | PSeq _ l r | PChoice _ l r => top_down l ++ top_down r
       | _ => []
       end.

(* collect the Some(..) results of a checker over a node list, adding up the steps *)
Fixpoint collect (chk : pnode -> vres (option err)) (l : list pnode) : vres (list err) :=
  match l with
  | [] => VOk [] 0
  | n :: l' => vbind (chk n) (fun x => vbind (collect chk l') (fun r => VOk (match x with Some e => e :: r | None => r end) 0))
  end.

Section Fuelled.
Notation fuel := fuel0.

Definition rep_check (n : pnode) : vres (option err) :=
  match n with
  | PRep _ other | PRepOnce _ other | PRepMin _ other _ =>
      vbind (nfail fuel [] other) (fun b1 =>
        if b1 then VOk (Some (span_err KRepNonFailing n)) 0
        else vbind (nprog fuel [] other) (fun b2 => VOk (if b2 then Some (span_err KRepNonProgressing n) else None) 0))
  | _ => VOk None 0
  end.
Definition choice_check (n : pnode) : vres (option err) :=
  match n with
  | PChoice _ lhs _ =>
      let node := match lhs with PChoice _ _ rhs => rhs | _ => lhs end in
      vbind (nfail fuel [] node) (fun b => VOk (if b then Some (span_err KChoiceUnreachable node) else None) 0)
  | _ => VOk None 0
  end.
Definition ws_check (r : prule) : vres (option err) :=
  if str_eqb (pname r) (lit "WHITESPACE") || str_eqb (pname r) (lit "COMMENT") then
    vbind (nfail fuel [] (pbody r)) (fun b1 =>
      if b1 then VOk (Some (span_err KWsNonFailing (pbody r))) 0
      else vbind (nprog fuel [] (pbody r)) (fun b2 => VOk (if b2 then Some (span_err KWsNonProgressing (pbody r)) else None) 0))
  else VOk None 0.

Fixpoint over_rules (chk : pnode -> vres (option err)) (rs : list prule) : vres (list err) :=
  match rs with
  | [] => VOk [] 0
  | r :: rs' => vbind (collect chk (top_down (pbody r))) (fun a => vbind (over_rules chk rs') (fun b => VOk (a ++ b) 0))
  end.
Fixpoint ws_rules (rs : list prule) : vres (list err) :=
  match rs with
  | [] => VOk [] 0
  | r :: rs' => vbind (ws_check r) (fun x => vbind (ws_rules rs') (fun b => VOk (match x with Some e => e :: b | None => b end) 0))
  end.
(* `for (name, node) in &rules` over the HashMap: one entry per distinct name (the model walks them in list order;
   the errors are sorted afterwards and compared as multisets) *)
Fixpoint lr_rules (seen : list str) (rs : list prule) : vres (list err) :=
  match rs with
  | [] => VOk [] 0
  | r :: rs' =>
      if mem (pname r) seen then lr_rules seen rs'
      else match lookup rules (pname r) with
           | None => lr_rules seen rs'                                        (* not reachable: r is in rules *)
           | Some r' => vbind (check_expr fuel [pname r] (pbody r')) (fun x =>
                        vbind (lr_rules (pname r :: seen) rs') (fun b => VOk (match x with Some e => e :: b | None => b end) 0))
           end
  end.

(* validate_tag_silent_rules (grammar-extras): check_silent_builtin(expr, rules_ref, span) *)
Variable builtins : list str.
Fixpoint check_silent_builtin (e : pnode) (sp : span) : option err :=
  match e with
  | PIdent _ name =>
      match lookup rules name with
      | Some r => match pty r with
                  | TSilent => Some (KTagSilent, LSpan (fst sp) (snd sp))
                  | _ => if mem name builtins then Some (KTagBuiltin, LSpan (fst sp) (snd sp)) else None
                  end
      | None => if mem name builtins then Some (KTagBuiltin, LSpan (fst sp) (snd sp)) else None
      end
  | PRep _ n | PRepMinMax _ n _ _ | PRepMax _ n _ | PRepMin _ n _ | PRepOnce _ n | PRepExact _ n _ | POpt _ n | PPush _ n
  | PPosPred _ n | PNegPred _ n => check_silent_builtin n sp
  | _ => None
  end.
Definition tag_check (n : pnode) : vres (option err) :=
  match n with PNodeTag sp n2 _ => VOk (check_silent_builtin n2 sp) 0 | _ => VOk None 0 end.

(* errors.sort_by_key(|error| match error.location { Span(span) => span, _ => unreachable!() }): stable, by (start, end) *)
Definition span_leb (a b : nat * nat) : bool :=
  Nat.ltb (fst a) (fst b) || (Nat.eqb (fst a) (fst b) && Nat.leb (snd a) (snd b)).
Definition err_key (e : err) : option (nat * nat) := match snd e with LSpan a b => Some (a, b) | LPos _ => None end.
Fixpoint insert_sorted (e : err) (k : nat * nat) (l : list err) : list err :=
  match l with
  | [] => [e]
  | x :: l' => match err_key x with
               | Some kx => if span_leb k kx then e :: l else x :: insert_sorted e k l'
               | None => e :: l
               end
  end.
Fixpoint sort_errors (l : list err) : option (list err) :=
  match l with
  | [] => Some []
  | e :: l' => match err_key e, sort_errors l' with
               | Some k, Some s => Some (insert_sorted e k s)
               | _, _ => None                                                 (* unreachable!() *)
               end
  end.

Variable with_extras : bool.
Definition validate_ast : vres (list err) :=
  vbind (over_rules rep_check rules) (fun e1 =>
  vbind (over_rules choice_check rules) (fun e2 =>
  vbind (ws_rules rules) (fun e3 =>
  vbind (lr_rules [] rules) (fun e4 =>
  vbind (if with_extras then over_rules tag_check rules else VOk [] 0) (fun e5 =>
    match sort_errors (e1 ++ e2 ++ e3 ++ e4 ++ e5) with
    | Some s => VOk s 0
    | None => VPanic
    end))))).
End Fuelled.
End Ast.
