(* C09, part 4: executable model of convert_rule (meta/src/parser.rs) and of meta/src/optimizer:
   rotate, skip, unroll, concatenate, factor, list (AST passes) and rule_to_optimized_rule.
   Panic sites: the u32 arithmetic of the unroller (`1..num + 1`, `1..min + 2`: overflow panics with overflow checks
   and wraps to an empty range otherwise, whose fold is `.unwrap()`ed: a panic either way), the `.unwrap()` of an
   empty fold (count 0), and `unreachable!("No valid transformation to OptimizedRule")`.
   None = out of fuel (model artefact) for the top-down maps, whose termination depends on the mapped function.
   restore_on_err has no panic site (HashMap get/insert and an iterator) and is not modelled.              *)
From Coq Require Import List Arith NArith ZArith Bool String.
Import ListNotations.
Require Import PV.Pos.Model PV.Front.Shape PV.Front.Consume PV.Front.Validate.
Open Scope list_scope.

Inductive aexpr :=
| AStr (s : str) | AInsens (s : str) | ARange (a b : str) | AIdent (n : str) | APeekSlice (i : Z) (j : option Z)
| APosPred (e : aexpr) | ANegPred (e : aexpr) | ASeq (l r : aexpr) | AChoice (l r : aexpr) | AOpt (e : aexpr) | ARep (e : aexpr)
| ARepOnce (e : aexpr) | ARepExact (e : aexpr) (n : N) | ARepMin (e : aexpr) (n : N) | ARepMax (e : aexpr) (n : N)
| ARepMinMax (e : aexpr) (m n : N) | ASkip (ss : list str) | APush (e : aexpr) | APushLiteral (s : str) | ANodeTag (e : aexpr) (t : str).
Record arule := { aname : str; aty : rtype; abody : aexpr }.

(* convert_node *)
Fixpoint convert_node (n : pnode) : aexpr :=
  match n with
  | PStr _ s => AStr s | PInsens _ s => AInsens s | PRange _ a b => ARange a b | PIdent _ x => AIdent x
  | PPeekSlice _ i j => APeekSlice i j | PPosPred _ x => APosPred (convert_node x) | PNegPred _ x => ANegPred (convert_node x)
  | PSeq _ l r => ASeq (convert_node l) (convert_node r) | PChoice _ l r => AChoice (convert_node l) (convert_node r)
  | POpt _ x => AOpt (convert_node x) | PRep _ x => ARep (convert_node x) | PRepOnce _ x => ARepOnce (convert_node x)
  | PRepExact _ x k => ARepExact (convert_node x) k | PRepMin _ x k => ARepMin (convert_node x) k
  | PRepMax _ x k => ARepMax (convert_node x) k | PRepMinMax _ x a b => ARepMinMax (convert_node x) a b
  | PPush _ x => APush (convert_node x) | PPushLiteral _ s => APushLiteral s | PNodeTag _ x t => ANodeTag (convert_node x) t
  end.
Definition convert_rule (r : prule) : arule := {| aname := pname r; aty := pty r; abody := convert_node (pbody r) |}.

(* #[derive(PartialEq)] *)
Fixpoint strs_eqb (a b : list str) : bool :=
  match a, b with [], [] => true | x :: a', y :: b' => str_eqb x y && strs_eqb a' b' | _, _ => false end.
Definition optz_eqb (a b : option Z) : bool := match a, b with None, None => true | Some x, Some y => Z.eqb x y | _, _ => false end.
Fixpoint aeqb (a b : aexpr) : bool :=
  match a, b with
  | AStr s, AStr t | AInsens s, AInsens t | AIdent s, AIdent t | APushLiteral s, APushLiteral t => str_eqb s t
  | ARange l h, ARange l' h' => str_eqb l l' && str_eqb h h'
  | APeekSlice i j, APeekSlice i' j' => Z.eqb i i' && optz_eqb j j'
  | APosPred x, APosPred y | ANegPred x, ANegPred y | AOpt x, AOpt y | ARep x, ARep y | ARepOnce x, ARepOnce y | APush x, APush y => aeqb x y
  | ASeq x1 x2, ASeq y1 y2 | AChoice x1 x2, AChoice y1 y2 => aeqb x1 y1 && aeqb x2 y2
  | ARepExact x n, ARepExact y m | ARepMin x n, ARepMin y m | ARepMax x n, ARepMax y m => aeqb x y && N.eqb n m
  | ARepMinMax x n1 n2, ARepMinMax y m1 m2 => aeqb x y && N.eqb n1 m1 && N.eqb n2 m2
  | ASkip ss, ASkip ts => strs_eqb ss ts
  | ANodeTag x t, ANodeTag y u => aeqb x y && str_eqb t u
  | _, _ => false
  end.

Fixpoint asize (e : aexpr) : nat :=
  match e with
  | APosPred x | ANegPred x | AOpt x | ARep x | ARepOnce x | ARepExact x _ | ARepMin x _ | ARepMax x _ | ARepMinMax x _ _
  | APush x | ANodeTag x _ => S (asize x)
  | ASeq a b | AChoice a b => S (asize a + asize b)
  | _ => 1
  end.

Definition omap {A B} (f : A -> B) (o : option A) : option B := match o with Some x => Some (f x) | None => None end.
Definition obnd {A B} (o : option A) (f : A -> option B) : option B := match o with Some x => f x | None => None end.

Section Maps.
Variable extras : bool.
(* Expr::map_bottom_up; f may panic (None); NodeTag is descended into only with grammar-extras (the variant does not exist without) *)
Fixpoint map_bu (f : aexpr -> option aexpr) (e : aexpr) : option aexpr :=
  match e with
  | APosPred x => obnd (map_bu f x) (fun y => f (APosPred y))
  | ANegPred x => obnd (map_bu f x) (fun y => f (ANegPred y))
  | ASeq a b => obnd (map_bu f a) (fun a' => obnd (map_bu f b) (fun b' => f (ASeq a' b')))
  | AChoice a b => obnd (map_bu f a) (fun a' => obnd (map_bu f b) (fun b' => f (AChoice a' b')))
  | ARep x => obnd (map_bu f x) (fun y => f (ARep y))
  | ARepOnce x => obnd (map_bu f x) (fun y => f (ARepOnce y))
  | ARepExact x n => obnd (map_bu f x) (fun y => f (ARepExact y n))
  | ARepMin x n => obnd (map_bu f x) (fun y => f (ARepMin y n))
  | ARepMax x n => obnd (map_bu f x) (fun y => f (ARepMax y n))
  | ARepMinMax x m n => obnd (map_bu f x) (fun y => f (ARepMinMax y m n))
  | AOpt x => obnd (map_bu f x) (fun y => f (AOpt y))
  | APush x => obnd (map_bu f x) (fun y => f (APush y))
  | ANodeTag x t => obnd (map_bu f x) (fun y => f (ANodeTag y t))
  | _ => f e
  end.
(* Expr::map_top_down: f on the node, then the children OF THE RESULT; None = out of fuel *)
Fixpoint map_td (fuel : nat) (f : aexpr -> option aexpr) (e : aexpr) : option aexpr :=
  match fuel with
  | 0 => None
  | S k =>
    obnd (f e) (fun e' =>
      match e' with
      | APosPred x => omap APosPred (map_td k f x)
      | ANegPred x => omap ANegPred (map_td k f x)
      | ASeq a b => obnd (map_td k f a) (fun a' => omap (ASeq a') (map_td k f b))
      | AChoice a b => obnd (map_td k f a) (fun a' => omap (AChoice a') (map_td k f b))
      | ARep x => omap ARep (map_td k f x)
      | ARepOnce x => omap ARepOnce (map_td k f x)
      | ARepExact x n => omap (fun y => ARepExact y n) (map_td k f x)
      | ARepMin x n => omap (fun y => ARepMin y n) (map_td k f x)
      | ARepMax x n => omap (fun y => ARepMax y n) (map_td k f x)
      | ARepMinMax x m n => omap (fun y => ARepMinMax y m n) (map_td k f x)
      | AOpt x => omap AOpt (map_td k f x)
      | APush x => omap APush (map_td k f x)
      | ANodeTag x t => omap (fun y => ANodeTag y t) (map_td k f x)
      | x => Some x
      end)
  end.
End Maps.

(* rotator.rs: rotate_internal *)
Fixpoint rotate_internal (fuel : nat) (e : aexpr) : option aexpr :=
  match fuel with
  | 0 => None
  | S k =>
    match e with
    | ASeq (ASeq ll lr) rhs => rotate_internal k (ASeq ll (ASeq lr rhs))
    | AChoice (AChoice ll lr) rhs => rotate_internal k (AChoice ll (AChoice lr rhs))
    | x => Some x
    end
  end.

(* skipper.rs: populate_choices(expr, map, choices) *)
Fixpoint alookup (rules : list arule) (n : str) : option aexpr :=
  match rules with
  | [] => None
  | r :: rs => match alookup rs n with Some x => Some x | None => if str_eqb (aname r) n then Some (abody r) else None end
  end.
(* outer None = out of fuel, inner None = the Rust function returns None *)
Fixpoint populate_choices (fuel : nat) (map : list arule) (e : aexpr) (choices : list str) : option (option aexpr) :=
  match fuel with
  | 0 => None
  | S k =>
    match e with
    | AChoice (AStr s) rhs => populate_choices k map rhs (choices ++ [s])
    | AChoice (AIdent name) rhs =>
        match alookup map name with
        | Some body => obnd (populate_choices k map body []) (fun r =>
                         match r with
                         | Some (ASkip ics) => populate_choices k map rhs (choices ++ ics)
                         | _ => Some None
                         end)
        | None => Some None
        end
    | AChoice _ _ => Some None
    | AStr s => Some (Some (ASkip (choices ++ [s])))
    | AIdent name => match alookup map name with Some body => populate_choices k map body choices | None => Some None end
    | _ => Some None
    end
  end.
Definition skip_fn (fuel : nat) (map : list arule) (e : aexpr) : option aexpr :=
  match e with
  | ARep (ASeq (ANegPred x) (AIdent id)) =>
      if str_eqb id (lit "ANY") then obnd (populate_choices fuel map x []) (fun r => match r with Some y => Some y | None => Some e end)
      else Some e
  | _ => Some e
  end.

(* unroller.rs *)
Definition u32_fits (n : N) : bool := (n <=? u32_max)%N.
Fixpoint seq_of (l : list aexpr) : option aexpr :=
  match l with
  | [] => None                                                    (* .unwrap() of the empty fold *)
  | [e] => Some e
  | e :: r => match seq_of r with Some x => Some (ASeq e x) | None => Some e end
  end.
Definition unroll_fn (extras fixed : bool) (e : aexpr) : option aexpr :=
  match e with
  | ARepOnce x => if extras then Some e else Some (ASeq x (ARep x))
  | ARepExact x n => if fixed || u32_fits (n + 1) then seq_of (repeat x (N.to_nat n)) else None
  | ARepMin x n => if fixed || u32_fits (n + 2) then seq_of (repeat x (N.to_nat n) ++ [ARep x]) else None
  | ARepMax x n => if fixed || u32_fits (n + 1) then seq_of (repeat (AOpt x) (N.to_nat n)) else None
  | ARepMinMax x m n =>
      if fixed || u32_fits (n + 1)
      then seq_of (repeat x (Nat.min (N.to_nat m) (N.to_nat n)) ++ repeat (AOpt x) (N.to_nat n - N.to_nat m))
      else None
  | _ => Some e
  end.

(* concatenator.rs *)
Definition concat_fn (ty : rtype) (e : aexpr) : option aexpr :=
  match ty with
  | TAtomic => match e with
               | ASeq (AStr a) (AStr b) => Some (AStr (a ++ b))
               | ASeq (AInsens a) (AInsens b) => Some (AInsens (a ++ b))
               | _ => Some e
               end
  | _ => Some e
  end.
(* factorizer.rs *)
Definition factor_fn (ty : rtype) (e : aexpr) : option aexpr :=
  match e with
  | AChoice (ASeq l1 r1) (ASeq l2 r2) => if aeqb l1 l2 then Some (ASeq l1 (AChoice r1 r2)) else Some e
  | AChoice (ASeq l1 l2) r =>
      match ty with
      | TAtomic | TCompound => if aeqb l1 r then Some (ASeq l1 (AOpt l2)) else Some e
      | _ => Some e                                               (* r is not a Seq here: the last two arms leave it as it is *)
      end
  | AChoice l (ASeq r1 r2) => if aeqb l r1 then Some l else Some e
  | _ => Some e
  end.
(* lister.rs *)
Definition list_fn (e : aexpr) : option aexpr :=
  match e with
  | ASeq (ARep (ASeq l1 l2)) r => if aeqb l1 r then Some (ASeq l1 (ARep (ASeq l2 r))) else Some e
  | _ => Some e
  end.

(* rule_to_optimized_rule: false = unreachable!("No valid transformation to OptimizedRule") *)
Fixpoint optimizable (extras : bool) (e : aexpr) : bool :=
  match e with
  | ARepOnce x => extras && optimizable extras x
  | ARepExact _ _ | ARepMin _ _ | ARepMax _ _ | ARepMinMax _ _ _ => false
  | APosPred x | ANegPred x | AOpt x | ARep x | APush x | ANodeTag x _ => optimizable extras x
  | ASeq a b | AChoice a b => optimizable extras a && optimizable extras b
  | _ => true
  end.

Inductive ores := OptOk | OptPanic | OptFuel.
(* one rule through  rotate . skip . unroll . concatenate . factor . list . rule_to_optimized_rule *)
Definition optimize_rule (extras fixed : bool) (fuel : nat) (map : list arule) (r : arule) : ores :=
  let ty := aty r in
  match map_td fuel (rotate_internal fuel) (abody r) with
  | None => OptFuel
  | Some e1 =>
    match (match ty with TAtomic => map_td fuel (skip_fn fuel map) e1 | _ => Some e1 end) with
    | None => OptFuel
    | Some e2 =>
      match map_bu (unroll_fn extras fixed) e2 with
      | None => OptPanic
      | Some e3 =>
        match map_bu (concat_fn ty) e3 with
        | None => OptPanic
        | Some e4 =>
          match map_td (asize e4) (factor_fn ty) e4 with
          | None => OptFuel
          | Some e5 =>
            match map_bu list_fn e5 with
            | None => OptPanic
            | Some e6 => if optimizable extras e6 then OptOk else OptPanic
            end
          end
        end
      end
    end
  end.
Fixpoint optimize (extras fixed : bool) (fuel : nat) (map rs : list arule) : ores :=
  match rs with
  | [] => OptOk
  | r :: rs' => match optimize_rule extras fixed fuel map r with OptOk => optimize extras fixed fuel map rs' | x => x end
  end.
