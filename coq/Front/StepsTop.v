(* C09: the validator's step count is not bounded by any polynomial in the size of the rules (hence of the text). *)
From Coq Require Import List Arith NArith ZArith Bool Lia.
Import ListNotations.
Require Import PV.Pos.Model PV.Pos.Spec PV.Pos.BasicProofs.
Require Import PV.Front.Shape PV.Front.ShapeFacts PV.Front.Consume PV.Front.Validate PV.Front.ConsumeProofs PV.Front.ValidateProofs
               PV.Front.FuelProofs PV.Front.Steps.
Open Scope list_scope.

Lemma span00 : span_ok [] 0 0.
Proof. unfold span_ok. cbn. discriminate. Qed.
Lemma fam_rule_ok n i : rule_ok [] (rule_i n i).
Proof.
  unfold rule_ok, rule_i. cbn [pspan pbody fst snd]. split; [exact span00|]. unfold body.
  destruct (Nat.ltb i n); cbn; repeat split; exact span00.
Qed.
Lemma fam_ok n : Forall (rule_ok []) (fam n).
Proof. unfold fam, rules_upto. apply Forall_map. apply Forall_forall. intros i _. apply fam_rule_ok. Qed.

Theorem validator_not_polynomial : forall c k, exists rules, forall lrf tgf builtins ex,
  exists errs s, validate_ast rules (length rules + 3) lrf tgf builtins ex = VOk errs s /\ c * (rules_size rules) ^ k < s.
Proof.
  intros c k. destruct (exp_beats_poly c k) as (n & Hn). exists (fam n). intros lrf tgf builtins ex.
  assert (L : length (fam n) = n + 2) by (unfold fam, rules_upto; rewrite map_length, seq_length; reflexivity).
  pose proof (validate_ast_ok [] (fam n) (length (fam n) + 3) lrf tgf (fam_ok n) builtins ex) as OK.
  pose proof (validate_ast_nf (fam n) (length (fam n) + 3) lrf tgf ltac:(rewrite map_length; lia) builtins ex) as NF.
  destruct (validate_ast (fam n) (length (fam n) + 3) lrf tgf builtins ex) as [errs s| |] eqn:E; try contradiction.
  exists errs, s. split; [reflexivity|].
  assert (S2 : 2 ^ n <= s) by (eapply validator_steps_exponential; [|exact E]; lia).
  eapply Nat.le_lt_trans; [|eapply Nat.lt_le_trans; [exact Hn|exact S2]].
  apply Nat.mul_le_mono_l. apply Nat.pow_le_mono_l. apply fam_size.
Qed.
