(* C09: validate_pairs and validate_ast never panic on what the earlier steps deliver, and every error they
   report is located in the text. *)
From Coq Require Import List Arith NArith ZArith Bool Lia.
Import ListNotations.
Require Import PV.Pos.Model PV.Pos.Spec PV.Pos.BasicProofs.
Require Import PV.Front.Shape PV.Front.ShapeFacts PV.Front.Consume PV.Front.Validate PV.Front.ConsumeProofs.
Open Scope list_scope.

Section V.
Variable text : str.
Notation tok_good := (fun k => tok_okb text k = true).

(* ------------------------------------------------------------------ validate_pairs *)
Lemma flatten_tok_ok : forall t, tok_okb text t = true -> Forall tok_good (flatten_tok t).
Proof.
  fix IH 1. intros [r s e kids] H. cbn [flatten_tok]. constructor; [exact H|].
  apply tok_okb_unfold in H. destruct H as (_ & _ & _ & K). revert K. generalize s.
  induction kids as [|k kids IHk]; intros lo K; [constructor|].
  cbn in K. destruct K as (_ & K1 & K2). apply Forall_app. split; [apply IH; exact K1|eapply IHk; exact K2].
Qed.
Lemma flatten_ok : forall l, Forall tok_good l -> Forall tok_good (flatten l).
Proof.
  induction l as [|k l IH]; intros F; [constructor|]. inversion F; subst. cbn. apply Forall_app. split; [apply flatten_tok_ok; auto|auto].
Qed.
Lemma skipn_forall {A} (P : A -> Prop) n l : Forall P l -> Forall P (skipn n l).
Proof. revert l. induction n; intros l F; [exact F|]. destruct l; [constructor|]. inversion F; subst. cbn. auto. Qed.
Lemma filter_forall {A} (P : A -> Prop) f l : Forall P l -> Forall P (filter f l).
Proof. induction 1; cbn; [constructor|]. destruct (f x); auto. Qed.

Lemma definitions_ok : forall f, Forall tok_good f ->
  match definitions f with ODone ds => Forall tok_good ds | OErrs _ => False | OPanic => False | OFuel => False end.
Proof.
  induction f as [|t f IH]; intros F; [constructor|]. inversion F as [|? ? Ft Ff]; subst. specialize (IH Ff).
  cbn [definitions]. destruct (is_rule r_grammar_rule t) eqn:R; [|exact IH]. apply is_rule_true in R.
  destruct (tok_kids text _ Ft) as [M K]. rewrite R in M.
  destruct (tkids t) as [|k l] eqn:Ek.
  - destruct (grammar_rule_shape _ M) as [(dk & E & _)|(nm & a & m & ob & x & cb & E & _)]; discriminate.
  - cbn in K. destruct K as (_ & Kk & _).
    destruct (definitions f); try contradiction. cbn [obind]. destruct (is_rule r_line_doc k); auto.
Qed.
Lemma called_rules_ok : forall f, Forall tok_good f -> Forall tok_good (called_rules f).
Proof.
  induction f as [|t f IH]; intros F; [constructor|]. inversion F as [|? ? Ft Ff]; subst. cbn [called_rules].
  destruct (is_rule r_grammar_rule t); auto. apply Forall_app. split; auto.
  apply filter_forall, skipn_forall, flatten_ok.
  destruct (tok_kids text _ Ft) as [_ K]. eapply kids_all_ok; eauto.
Qed.
Lemma names_of_ok : forall l, Forall tok_good l ->
  match names_of text l with ODone ns => Forall (fun p => tok_okb text (snd p) = true) ns | _ => False end.
Proof.
  induction l as [|t l IH]; intros F; [constructor|]. inversion F as [|? ? Ft Fl]; subst. specialize (IH Fl).
  cbn [names_of]. destruct (tok_as_str text _ Ft) as (w & -> & _).
  destruct (names_of text l); try contradiction. cbn. constructor; auto.
Qed.

Lemma err_at_ok k t : tok_okb text t = true -> loc_ok text (snd (err_at k t)).
Proof. intros H. cbn. apply tok_span. exact H. Qed.
Lemma flat_map_errs {A} (f : A -> list err) l : (forall a, In a l -> errs_ok text (f a)) -> errs_ok text (flat_map f l).
Proof. induction l; cbn; intros H; [constructor|]. apply Forall_app. split; [apply H; auto|apply IHl; auto]. Qed.

Lemma validate_pairs_ok builtins f : Forall tok_good f -> out_ok text true (fun _ => True) (validate_pairs text builtins f).
Proof.
  intros F. unfold validate_pairs.
  pose proof (definitions_ok f F) as D. destruct (definitions f) as [dts| | |]; try contradiction. cbn [obind].
  pose proof (names_of_ok dts D) as N1. destruct (names_of text dts) as [defs| | |]; try contradiction. cbn [obind].
  pose proof (names_of_ok _ (called_rules_ok f F)) as N2. destruct (names_of text (called_rules f)) as [called| | |]; try contradiction. cbn [obind].
  assert (E : errs_ok text (validate_pest_keywords defs ++ validate_already_defined [] defs ++ validate_undefined builtins defs called)).
  { rewrite Forall_forall in N1, N2. apply Forall_app. split; [|apply Forall_app; split].
    - apply flat_map_errs. intros d Hd. destruct (mem (fst d) PEST_KEYWORDS); [|constructor]. constructor; [|constructor]. apply err_at_ok. auto.
    - assert (G : forall ds seen, (forall d, In d ds -> tok_okb text (snd d) = true) -> errs_ok text (validate_already_defined seen ds)).
      { induction ds as [|d ds IHd]; intros seen Hd; cbn; [constructor|].
        destruct (mem (fst d) seen); [constructor; [apply err_at_ok; apply Hd; left; auto|]|]; apply IHd; intros; apply Hd; right; auto. }
      apply G. exact N1.
    - apply flat_map_errs. intros c Hc. destruct (negb _ && negb _); [|constructor]. constructor; [|constructor]. apply err_at_ok. auto. }
  destruct (validate_pest_keywords defs ++ _); cbn; auto.
Qed.

(* ------------------------------------------------------------------ validate_ast *)
Variable rules : list prule.
Variable fuel0 : nat.
Variables lrf tgf : bool.
Hypothesis RO : Forall (rule_ok text) rules.

Lemma lookup_in : forall rs n r, lookup rs n = Some r -> In r rs.
Proof.
  induction rs as [|x rs IH]; intros n r H; [discriminate|]. cbn in H.
  destruct (lookup rs n) eqn:E; [inversion H; subst; right; eauto|].
  destruct (str_eqb (pname x) n); inversion H; subst. left. reflexivity.
Qed.
Lemma lookup_ok n r : lookup rules n = Some r -> node_ok text (pbody r).
Proof. intros H. apply lookup_in in H. rewrite Forall_forall in RO. apply RO in H. apply H. Qed.

Definition no_panic {A} (v : vres A) : Prop := match v with VPanic => False | _ => True end.
Lemma vtick_np {A} (v : vres A) : no_panic v -> no_panic (vtick v).
Proof. destruct v; auto. Qed.
Lemma vbind_np {A B} (v : vres A) (f : A -> vres B) : no_panic v -> (forall a, no_panic (f a)) -> no_panic (vbind v f).
Proof. destruct v; cbn; auto. intros _ H. specialize (H a). destruct (f a); auto. Qed.

Lemma nfail_np : forall fuel trace e, no_panic (nfail rules fuel trace e).
Proof.
  induction fuel as [|f IH]; intros trace e; [exact I|]. cbn [nfail].
  induction e; cbn; auto; repeat (first [apply vtick_np | apply vbind_np | intros [] | exact I | apply IH | assumption
    | match goal with |- no_panic (if ?b then _ else _) => destruct b end
    | match goal with |- no_panic (match ?o with Some _ => _ | None => _ end) => destruct o end ]).
Qed.
Lemma nprog_np : forall fuel trace e, no_panic (nprog rules fuel trace e).
Proof.
  induction fuel as [|f IH]; intros trace e; [exact I|]. cbn [nprog].
  induction e; cbn; auto; repeat (first [apply vtick_np | apply vbind_np | intros [] | exact I | apply IH | assumption
    | match goal with |- no_panic (if ?b then _ else _) => destruct b end
    | match goal with |- no_panic (match ?o with Some _ => _ | None => _ end) => destruct o end ]).
Qed.

(* the result of a checker: an error located by a SPAN of the text, or nothing; never a panic *)
Definition sloc_ok (l : loc) : Prop := match l with LSpan a b => span_ok text a b | LPos _ => False end.
Definition serrs_ok (l : list err) : Prop := Forall (fun e => sloc_ok (snd e)) l.
Lemma sloc_loc l : sloc_ok l -> loc_ok text l.
Proof. destruct l; cbn; tauto. Qed.
Lemma serrs_errs l : serrs_ok l -> errs_ok text l.
Proof. intros H. eapply Forall_impl; [|exact H]. intros e. apply sloc_loc. Qed.
Definition chk_ok (v : vres (option err)) : Prop :=
  match v with VOk (Some e) _ => sloc_ok (snd e) | VOk None _ => True | VPanic => False | VFuel => True end.
Lemma chk_tick v : chk_ok v -> chk_ok (vtick v).
Proof. destruct v; auto. Qed.
Lemma chk_bind {A} (v : vres A) f : no_panic v -> (forall a, chk_ok (f a)) -> chk_ok (vbind v f).
Proof. destruct v; cbn; auto; try contradiction. intros _ H. specialize (H a). destruct (f a) as [[e|] n| |]; auto. Qed.
Lemma span_err_ok k n : node_ok text n -> sloc_ok (snd (span_err k n)).
Proof. intros H. cbn. apply node_ok_span. exact H. Qed.

Lemma check_expr_ok : forall fuel trace e, trace <> [] -> node_ok text e -> chk_ok (check_expr rules fuel0 lrf fuel trace e).
Proof.
  induction fuel as [|f IH]; intros trace e T N; [exact I|]. cbn [check_expr].
  assert (OR : forall (v : vres (option err)) (g : vres (option err)), chk_ok v -> chk_ok g ->
            chk_ok (vbind v (fun x => match x with Some er => VOk (Some er) 0 | None => g end))).
  { intros v g Hv Hg. destruct v as [[er|] n| |]; cbn; auto. destruct g as [[e2|] m| |]; cbn; auto. }
  induction e; cbn [node_ok] in N; try exact I.
  - (* Ident *)
    destruct trace as [|t0 tr]; [congruence|].
    destruct (str_eqb t0 n); [cbn; apply node_ok_span; cbn; tauto|].
    destruct (negb (mem n (t0 :: tr))); [|exact I].
    destruct (lookup rules n) eqn:L; [|exact I]. apply chk_tick. apply IH; [destruct tr; discriminate|eapply lookup_ok; eauto].
  - apply chk_tick. apply IHe. tauto.
  - apply chk_tick. apply IHe. tauto.
  - (* Seq *)
    destruct (rev trace) as [|lst r0] eqn:R; [apply (f_equal (@rev _)) in R; rewrite rev_involutive in R; cbn in R; congruence|].
    destruct lrf.
    + apply chk_tick. apply OR; [apply IHe1; tauto|].
      apply chk_bind; [apply nfail_np|]. intros b1. apply chk_bind; [destruct b1; [exact I|apply nprog_np]|].
      intros b2. destruct b2; [apply IHe2; tauto|exact I].
    + apply chk_tick. apply chk_bind; [apply nfail_np|]. intros b1. apply chk_bind; [destruct b1; [exact I|apply nprog_np]|].
      intros b2. destruct b2; [apply IHe2|apply IHe1]; tauto.
  - (* Choice *)
    apply chk_tick. apply OR; [apply IHe1|apply IHe2]; tauto.
  - apply chk_tick. apply IHe. tauto.
  - apply chk_tick. apply IHe. tauto.
  - apply chk_tick. apply IHe. tauto.
  - destruct lrf; [apply chk_tick; apply IHe; tauto|exact I].
  - destruct lrf; [apply chk_tick; apply IHe; tauto|exact I].
  - destruct lrf; [apply chk_tick; apply IHe; tauto|exact I].
  - destruct lrf; [apply chk_tick; apply IHe; tauto|exact I].
  - apply chk_tick. apply IHe. tauto.
  - destruct lrf; [apply chk_tick; apply IHe; tauto|exact I].
Qed.

Lemma top_down_ok : forall e, node_ok text e -> Forall (node_ok text) (top_down tgf e).
Proof.
  induction e; cbn [top_down node_ok]; intros N; constructor; try (cbn [node_ok]; exact N); try constructor;
    try (apply IHe; tauto); try (apply Forall_app; split; [apply IHe1|apply IHe2]; tauto).
  destruct tgf; [apply IHe; tauto|constructor].
Qed.

Definition errs_v (v : vres (list err)) : Prop := match v with VOk l _ => serrs_ok l | VPanic => False | VFuel => True end.
Lemma errs_bind {A} (v : vres A) f : no_panic v -> (forall a, errs_v (f a)) -> errs_v (vbind v f).
Proof. destruct v; cbn; auto; try contradiction. intros _ H. specialize (H a). destruct (f a); auto. Qed.
Lemma errs_bind2 (v : vres (list err)) f : errs_v v -> (forall a, serrs_ok a -> errs_v (f a)) -> errs_v (vbind v f).
Proof. destruct v; cbn; auto; try contradiction. intros H1 H. specialize (H a H1). destruct (f a); auto. Qed.
Lemma chk_bind2 (v : vres (option err)) f : chk_ok v -> (forall x, (match x with Some e => sloc_ok (snd e) | None => True end) -> errs_v (f x)) -> errs_v (vbind v f).
Proof. destruct v as [x n| |]; cbn; auto; try contradiction. intros H1 H. specialize (H x). destruct x; specialize (H H1); destruct (f _); auto. Qed.

Lemma collect_ok chk l : (forall n, In n l -> chk_ok (chk n)) -> errs_v (collect chk l).
Proof.
  induction l as [|n l IH]; intros H; cbn [collect]; [constructor|].
  apply chk_bind2; [apply H; left; reflexivity|]. intros x Hx. apply errs_bind2; [apply IH; intros; apply H; right; assumption|].
  intros r Hr. cbn. destruct x; [constructor|]; auto.
Qed.
Lemma over_rules_ok chk : (forall n, node_ok text n -> chk_ok (chk n)) -> forall rs, Forall (rule_ok text) rs -> errs_v (over_rules tgf chk rs).
Proof.
  intros H. induction rs as [|r rs IH]; intros F; cbn [over_rules]; [constructor|]. inversion F as [|? ? Fr Frs]; subst.
  apply errs_bind2.
  - apply collect_ok. intros n Hn. apply H. pose proof (top_down_ok (pbody r) (proj2 Fr)) as T. rewrite Forall_forall in T. auto.
  - intros a Ha. apply errs_bind2; [apply IH; auto|]. intros b Hb. cbn. apply Forall_app. auto.
Qed.

Lemma rep_check_ok n : node_ok text n -> chk_ok (rep_check rules fuel0 n).
Proof.
  intros N. unfold rep_check.
  assert (G : forall other, chk_ok (vbind (nfail rules fuel0 [] other) (fun b1 =>
        if b1 then VOk (Some (span_err KRepNonFailing n)) 0
        else vbind (nprog rules fuel0 [] other) (fun b2 => VOk (if b2 then Some (span_err KRepNonProgressing n) else None) 0)))).
  { intros other. apply chk_bind; [apply nfail_np|]. intros [|]; [cbn; apply node_ok_span; exact N|].
    apply chk_bind; [apply nprog_np|]. intros [|]; cbn; auto. apply node_ok_span; exact N. }
  destruct n; try exact I; apply G.
Qed.
Lemma choice_check_ok n : node_ok text n -> chk_ok (choice_check rules fuel0 n).
Proof.
  intros N. unfold choice_check. destruct n; try exact I. cbn [node_ok] in N. destruct N as (_ & N1 & _).
  set (node := match n1 with PChoice _ _ rhs => rhs | _ => n1 end).
  assert (NN : node_ok text node) by (subst node; destruct n1; auto; cbn [node_ok] in N1; tauto).
  apply chk_bind; [apply nfail_np|]. intros [|]; cbn; auto. apply node_ok_span; exact NN.
Qed.
Lemma ws_rules_ok : forall rs, Forall (rule_ok text) rs -> errs_v (ws_rules rules fuel0 rs).
Proof.
  induction rs as [|r rs IH]; intros F; cbn [ws_rules]; [constructor|]. inversion F as [|? ? Fr Frs]; subst.
  apply chk_bind2.
  - unfold ws_check. destruct (_ || _); [|exact I]. destruct Fr as [_ N].
    apply chk_bind; [apply nfail_np|]. intros [|]; [cbn; apply node_ok_span; exact N|].
    apply chk_bind; [apply nprog_np|]. intros [|]; cbn; auto. apply node_ok_span; exact N.
  - intros x Hx. apply errs_bind2; [apply IH; auto|]. intros b Hb. cbn. destruct x; [constructor|]; auto.
Qed.
Lemma lr_rules_ok : forall rs seen, errs_v (lr_rules rules fuel0 lrf seen rs).
Proof.
  induction rs as [|r rs IH]; intros seen; cbn [lr_rules]; [constructor|].
  destruct (mem (pname r) seen); [apply IH|].
  destruct (lookup rules (pname r)) as [r'|] eqn:L; [|apply IH].
  apply chk_bind2; [apply check_expr_ok; [discriminate|eapply lookup_ok; eauto]|].
  intros x Hx. apply errs_bind2; [apply IH|]. intros b Hb. cbn. destruct x; [constructor|]; auto.
Qed.
Lemma tag_check_ok builtins n : node_ok text n -> chk_ok (tag_check rules builtins n).
Proof.
  intros N. unfold tag_check. destruct n; try exact I. cbn [chk_ok].
  assert (S : span_ok text (fst sp) (snd sp)) by (apply (node_ok_span text _ N)).
  clear N. induction n; cbn [check_silent_builtin]; auto.
  destruct (lookup rules n) as [r|]; [destruct (pty r)|]; try (destruct (mem n builtins)); cbn; auto.
Qed.

(* the sort keeps the errors (it is a permutation) and never meets a Pos location *)
Lemma insert_sorted_ok e k l : sloc_ok (snd e) -> serrs_ok l -> serrs_ok (insert_sorted e k l).
Proof.
  intros He. induction 1 as [|x l Hx Hl IH]; cbn; [repeat constructor; auto|].
  destruct (err_key x); [destruct (span_leb k p)|]; repeat constructor; auto.
Qed.
Lemma sort_errors_ok l : serrs_ok l -> exists s, sort_errors l = Some s /\ serrs_ok s.
Proof.
  induction 1 as [|e l He Hl (s & Es & Hs)]; [exists []; split; [reflexivity|constructor]|].
  cbn [sort_errors]. destruct e as [k [p|a b]]; [contradiction|]. cbn [err_key snd]. rewrite Es.
  eexists; split; [reflexivity|]. apply insert_sorted_ok; auto.
Qed.

Theorem validate_ast_ok builtins ex : errs_v (validate_ast rules fuel0 lrf tgf builtins ex).
Proof.
  unfold validate_ast.
  apply errs_bind2; [apply over_rules_ok; [apply rep_check_ok|exact RO]|]. intros e1 H1.
  apply errs_bind2; [apply over_rules_ok; [apply choice_check_ok|exact RO]|]. intros e2 H2.
  apply errs_bind2; [apply ws_rules_ok; exact RO|]. intros e3 H3.
  apply errs_bind2; [apply lr_rules_ok|]. intros e4 H4.
  apply errs_bind2; [destruct ex; [apply over_rules_ok; [apply tag_check_ok|exact RO]|constructor]|]. intros e5 H5.
  destruct (sort_errors_ok (e1 ++ e2 ++ e3 ++ e4 ++ e5)) as (s & -> & Hs); [|exact Hs].
  repeat (apply Forall_app; split); auto.
Qed.
End V.
