(* C09: the optimizer step.  With the unroller ranges repaired (fixes/C09-4) the passes never panic on what the
   reader delivers (it refuses the counts 0 of e{0}, e{,0}, e{m,0}); with the ranges as shipped the same holds when
   every count is at most 2^32 - 3 (unroll_shipped_bounded), and fails at 2^32 - 2 (see props/C09.v). *)
From Coq Require Import List Arith NArith ZArith Bool Lia String.
Import ListNotations.
Require Import PV.Pos.Model PV.Front.Shape PV.Front.Consume PV.Front.Validate PV.Front.Optimize PV.Front.ConsumeProofs.
Open Scope list_scope.

(* no count that the unroller cannot handle: nonzero where the fold would be empty, and (B given) bounded *)
Fixpoint nzb (B : option N) (e : aexpr) : bool :=
  let le k := match B with Some b => (k <=? b)%N | None => true end in
  match e with
  | APosPred x | ANegPred x | AOpt x | ARep x | ARepOnce x | APush x | ANodeTag x _ => nzb B x
  | ARepMin x k => nzb B x && le k
  | ARepExact x k | ARepMax x k => nzb B x && negb (k =? 0)%N && le k
  | ARepMinMax x _ k => nzb B x && negb (k =? 0)%N && le k
  | ASeq a b | AChoice a b => nzb B a && nzb B b
  | _ => true
  end.

Lemma convert_nz text n : node_ok text n -> nzb None (convert_node n) = true.
Proof.
  induction n; cbn [node_ok convert_node nzb]; intros H; auto; try (apply IHn; tauto);
    try (rewrite IHn1, IHn2 by tauto; reflexivity);
    try (destruct H as (_ & H1 & H2); rewrite IHn by exact H1; apply N.eqb_neq in H2; rewrite H2; reflexivity).
  rewrite IHn by tauto. reflexivity.
Qed.

Ltac bool_tac := repeat (rewrite ?andb_true_iff in *; cbn [nzb optimizable] in * ); intuition auto.

(* ---- top-down maps keep nzb when the mapped function does *)
Section TD.
Variable B : option N.
Variable ex : bool.
Variable f : aexpr -> option aexpr.
Lemma map_td_nz : (forall x y, nzb B x = true -> f x = Some y -> nzb B y = true) ->
  forall fuel e e', nzb B e = true -> map_td fuel f e = Some e' -> nzb B e' = true.
Proof.
  intros Hf. induction fuel as [|k IH]; intros e e' N H; [discriminate|].
  cbn [map_td] in H. destruct (f e) as [y|] eqn:E; [|discriminate]. cbn [obnd] in H.
  pose proof (Hf _ _ N E) as Ny.
  destruct y; cbn [nzb] in Ny;
    repeat match type of H with
    | omap _ ?o = Some _ => let E := fresh "E" in destruct o eqn:E; cbn [omap] in H; [|discriminate]
    | obnd ?o _ = Some _ => let E := fresh "E" in destruct o eqn:E; cbn [obnd] in H; [|discriminate]
    end; inversion H; subst; cbn [nzb];
    repeat rewrite andb_true_iff in *; intuition eauto.
Qed.
Lemma map_td_opt : (forall x y, optimizable ex x = true -> f x = Some y -> optimizable ex y = true) ->
  forall fuel e e', optimizable ex e = true -> map_td fuel f e = Some e' -> optimizable ex e' = true.
Proof.
  intros Hf. induction fuel as [|k IH]; intros e e' N H; [discriminate|].
  cbn [map_td] in H. destruct (f e) as [y|] eqn:E; [|discriminate]. cbn [obnd] in H.
  pose proof (Hf _ _ N E) as Ny.
  destruct y; cbn [optimizable] in Ny; try discriminate;
    repeat match type of H with
    | omap _ ?o = Some _ => let E := fresh "E" in destruct o eqn:E; cbn [omap] in H; [|discriminate]
    | obnd ?o _ = Some _ => let E := fresh "E" in destruct o eqn:E; cbn [obnd] in H; [|discriminate]
    end; inversion H; subst; cbn [optimizable];
    repeat rewrite andb_true_iff in *; intuition eauto.
Qed.
(* bottom-up maps with a total function that keeps `optimizable` *)
Lemma map_bu_opt : (forall x, optimizable ex x = true -> exists y, f x = Some y /\ optimizable ex y = true) ->
  forall e, optimizable ex e = true -> exists e', map_bu f e = Some e' /\ optimizable ex e' = true.
Proof.
  intros Hf. induction e; intros N; cbn [map_bu]; try (apply Hf; exact N); cbn [optimizable] in N; try discriminate;
    repeat rewrite andb_true_iff in N;
    repeat match goal with
    | IH : optimizable ex ?x = true -> exists _, map_bu f ?x = Some _ /\ _ |- _ =>
        let y := fresh "y" in let E := fresh "E" in let O := fresh "O" in
        destruct IH as (y & E & O); [intuition auto|]; rewrite E; cbn [obnd]
    end; apply Hf; cbn [optimizable]; repeat rewrite andb_true_iff; intuition auto.
Qed.
End TD.

(* ---- rotate, skip *)
Lemma rotate_internal_nz B : forall fuel e y, nzb B e = true -> rotate_internal fuel e = Some y -> nzb B y = true.
Proof.
  induction fuel as [|k IH]; intros e y N H; [discriminate|]. cbn [rotate_internal] in H.
  destruct e; try (inversion H; subst; exact N).
  - destruct e1; try (inversion H; subst; exact N). apply IH in H; [exact H|]. bool_tac.
  - destruct e1; try (inversion H; subst; exact N). apply IH in H; [exact H|]. bool_tac.
Qed.
Lemma populate_choices_skip : forall fuel map e c y, populate_choices fuel map e c = Some (Some y) -> exists ss, y = ASkip ss.
Proof.
  induction fuel as [|k IH]; intros map e c y H; [discriminate|]. cbn [populate_choices] in H.
  destruct e; try discriminate.
  - inversion H. eauto.
  - destruct (alookup map n); [eauto|discriminate].
  - destruct e1; try discriminate; [eauto|].
    destruct (alookup map n); [|discriminate].
    destruct (populate_choices k map a []) as [[[]|]|]; cbn [obnd] in H; try discriminate. eauto.
Qed.
Lemma skip_fn_nz B fuel map x y : nzb B x = true -> skip_fn fuel map x = Some y -> nzb B y = true.
Proof.
  intros N H. unfold skip_fn in H.
  destruct x; try (inversion H; subst; exact N).
  destruct x; try (inversion H; subst; exact N).
  destruct x1; try (inversion H; subst; exact N).
  destruct x2; try (inversion H; subst; exact N).
  destruct (str_eqb n (lit "ANY")); [|inversion H; subst; exact N].
  destruct (populate_choices fuel map x1 []) as [[z|]|] eqn:E; cbn [obnd] in H; try discriminate; inversion H; subst; [|exact N].
  destruct (populate_choices_skip _ _ _ _ _ E) as (ss & ->). reflexivity.
Qed.

(* ---- unroll *)
Lemma seq_of_opt ex : forall l, l <> [] -> Forall (fun x => optimizable ex x = true) l ->
  exists y, seq_of l = Some y /\ optimizable ex y = true.
Proof.
  induction l as [|e l IH]; intros Hne F; [congruence|]. inversion F as [|? ? Fe Fl]; subst.
  destruct l as [|e2 l2]; [exists e; auto|].
  destruct IH as (y & E & O); [discriminate|exact Fl|].
  cbn [seq_of] in *. rewrite E. exists (ASeq e y). cbn. rewrite Fe, O. auto.
Qed.
Lemma repeat_forall {A} (P : A -> Prop) x n : P x -> Forall P (repeat x n).
Proof. intros H. induction n; cbn; constructor; auto. Qed.
Lemma repeat_ne {A} (x : A) n : n <> 0 -> repeat x n <> [].
Proof. destruct n; [congruence|discriminate]. Qed.

Definition bound_ok (fixed : bool) (B : option N) : Prop :=
  fixed = true \/ exists b, B = Some b /\ (b + 2 <= u32_max)%N.

Lemma unroll_fn_ok ex fixed B x : bound_ok fixed B ->
  (* the children are already unrolled *)
  (match x with
   | APosPred c | ANegPred c | AOpt c | ARep c | ARepOnce c | ARepExact c _ | ARepMin c _ | ARepMax c _ | ARepMinMax c _ _ | APush c | ANodeTag c _ => optimizable ex c = true
   | ASeq a b | AChoice a b => optimizable ex a = true /\ optimizable ex b = true
   | _ => True end) ->
  (match x with
   | ARepMin _ k => match B with Some b => (k <= b)%N | None => True end
   | ARepExact _ k | ARepMax _ k | ARepMinMax _ _ k => k <> 0%N /\ match B with Some b => (k <= b)%N | None => True end
   | _ => True end) ->
  exists y, unroll_fn ex fixed x = Some y /\ optimizable ex y = true.
Proof.
  intros BO K C.
  assert (FIT : forall k d, (d <= 2)%N -> match B with Some b => (k <= b)%N | None => True end -> fixed || u32_fits (k + d) = true).
  { intros k d Hd Hk. destruct BO as [->|(b & -> & Hb)]; [reflexivity|]. apply orb_true_iff. right. unfold u32_fits. apply N.leb_le. lia. }
  destruct x; cbn [unroll_fn]; try (eexists; split; [reflexivity|]; cbn [optimizable]; try destruct K; auto; bool_tac; fail).
  - destruct ex; eexists; (split; [reflexivity|]); cbn; rewrite ?K; auto.
  - destruct C as (Cz & Cb). rewrite (FIT n 1%N) by (auto; lia).
    apply seq_of_opt; [apply repeat_ne; lia|apply repeat_forall; exact K].
  - rewrite (FIT n 2%N) by (auto; lia).
    apply seq_of_opt; [destruct (repeat x (N.to_nat n)); discriminate|]. apply Forall_app. split; [apply repeat_forall; exact K|]. constructor; [cbn; exact K|constructor].
  - destruct C as (Cz & Cb). rewrite (FIT n 1%N) by (auto; lia).
    apply seq_of_opt; [apply repeat_ne; lia|apply repeat_forall; cbn; exact K].
  - destruct C as (Cz & Cb). rewrite (FIT n 1%N) by (auto; lia).
    apply seq_of_opt.
    + intros E. apply (f_equal (@List.length _)) in E. rewrite app_length, !repeat_length in E. cbn in E. lia.
    + apply Forall_app. split; apply repeat_forall; cbn; exact K.
Qed.

Lemma unroll_ok ex fixed B : bound_ok fixed B -> forall e, nzb B e = true ->
  exists e', map_bu (unroll_fn ex fixed) e = Some e' /\ optimizable ex e' = true.
Proof.
  intros BO. induction e; intros N; cbn [map_bu]; cbn [nzb] in N; repeat rewrite andb_true_iff in N;
    repeat match goal with
    | IH : nzb B ?x = true -> exists _, map_bu _ ?x = Some _ /\ _ |- _ =>
        let y := fresh "y" in let E := fresh "E" in let O := fresh "O" in
        destruct IH as (y & E & O); [intuition auto|]; rewrite E; cbn [obnd]
    end; apply (unroll_fn_ok ex fixed B); auto; cbn; auto;
    repeat match goal with
    | H : _ /\ _ |- _ => destruct H
    | H : negb (_ =? 0)%N = true |- _ => apply negb_true_iff, N.eqb_neq in H
    end; repeat split; auto; destruct B; auto; apply N.leb_le; auto.
Qed.

(* ---- concatenate, factor, list keep `optimizable` (they only rearrange Seq / Choice / Opt / Rep / Str nodes) *)
Lemma concat_fn_ok ex ty x : optimizable ex x = true -> exists y, concat_fn ty x = Some y /\ optimizable ex y = true.
Proof.
  intros O. unfold concat_fn. destruct ty; try (eexists; split; [reflexivity|exact O]).
  destruct x; try (eexists; split; [reflexivity|exact O]).
  destruct x1; try (eexists; split; [reflexivity|exact O]); destruct x2; try (eexists; split; [reflexivity|exact O]); eexists; split; reflexivity.
Qed.
Lemma list_fn_ok ex x : optimizable ex x = true -> exists y, list_fn x = Some y /\ optimizable ex y = true.
Proof.
  intros O. unfold list_fn. destruct x; try (eexists; split; [reflexivity|exact O]).
  destruct x1; try (eexists; split; [reflexivity|exact O]). destruct x1; try (eexists; split; [reflexivity|exact O]).
  destruct (aeqb x1_1 x2); (eexists; split; [reflexivity|]); [|exact O]. bool_tac.
Qed.
Lemma factor_fn_opt ex ty x y : optimizable ex x = true -> factor_fn ty x = Some y -> optimizable ex y = true.
Proof.
  intros O H. unfold factor_fn in H. destruct x; try (inversion H; subst; exact O).
  destruct x1, x2; try (inversion H; subst; exact O);
    repeat match type of H with
    | (if ?b then _ else _) = _ => destruct b
    | match ty with _ => _ end = _ => destruct ty
    end; inversion H; subst; try exact O; bool_tac.
Qed.

Theorem optimize_rule_no_panic ex fixed B fuel map r : bound_ok fixed B -> nzb B (abody r) = true ->
  optimize_rule ex fixed fuel map r <> OptPanic.
Proof.
  intros BO N. unfold optimize_rule.
  destruct (map_td fuel (rotate_internal fuel) (abody r)) as [e1|] eqn:E1; [|discriminate].
  assert (N1 : nzb B e1 = true) by (eapply map_td_nz; [|exact N|exact E1]; intros; eapply rotate_internal_nz; eauto).
  destruct (match aty r with TAtomic => map_td fuel (skip_fn fuel map) e1 | _ => Some e1 end) as [e2|] eqn:E2; [|discriminate].
  assert (N2 : nzb B e2 = true).
  { destruct (aty r); try (inversion E2; subst; exact N1). eapply map_td_nz; [|exact N1|exact E2]. intros; eapply skip_fn_nz; eauto. }
  destruct (unroll_ok ex fixed B BO e2 N2) as (e3 & -> & O3).
  destruct (map_bu_opt ex (concat_fn (aty r)) (concat_fn_ok ex (aty r)) e3 O3) as (e4 & -> & O4).
  destruct (map_td (asize e4) (factor_fn (aty r)) e4) as [e5|] eqn:E5; [|discriminate].
  assert (O5 : optimizable ex e5 = true) by (eapply map_td_opt; [|exact O4|exact E5]; intros; eapply factor_fn_opt; eauto).
  destruct (map_bu_opt ex list_fn (list_fn_ok ex) e5 O5) as (e6 & -> & O6). rewrite O6. discriminate.
Qed.
Theorem optimize_no_panic ex fixed B fuel map : bound_ok fixed B -> forall rs,
  Forall (fun r => nzb B (abody r) = true) rs -> optimize ex fixed fuel map rs <> OptPanic.
Proof.
  intros BO. induction rs as [|r rs IH]; intros F; [discriminate|]. inversion F; subst. cbn [optimize].
  pose proof (optimize_rule_no_panic ex fixed B fuel map r BO H1) as P.
  destruct (optimize_rule ex fixed fuel map r); auto; congruence.
Qed.
