(* C09: facts about the shape invariant.
   1. the derivative matcher decides the declarative regular-language semantics (re_matchb_iff);
   2. inversion of `matches` for the concatenations / alternations / stars that occur in rule_re;
   3. what tok_okb / forest_okb give for a token and its children.                                  *)
From Coq Require Import List Arith NArith Bool Lia.
Import ListNotations.
Require Import PV.Pos.Model PV.Pos.Spec PV.Pos.BasicProofs PV.Front.Shape.

(* ------------------------------------------------------------------ 1. matcher = semantics *)
Lemma inv_eps w : matches REps w -> w = [].
Proof. inversion 1; auto. Qed.
Lemma inv_sym r w : matches (RSym r) w -> w = [r].
Proof. inversion 1; auto. Qed.
Lemma inv_cat a b w : matches (RCat a b) w -> exists u v, w = u ++ v /\ matches a u /\ matches b v.
Proof. inversion 1; subst; eauto. Qed.
Lemma inv_alt a b w : matches (RAlt a b) w -> matches a w \/ matches b w.
Proof. inversion 1; subst; auto. Qed.
Lemma inv_empty w : matches REmpty w -> False.
Proof. inversion 1. Qed.
Lemma nullable_matches a : nullable a = true -> matches a [].
Proof.
  induction a; cbn; intros H; try discriminate.
  - constructor.
  - apply andb_prop in H as [H1 H2]. change (@nil mrule) with (@nil mrule ++ []). constructor; auto.
  - apply orb_prop in H as [H|H]; [apply m_alt_l|apply m_alt_r]; auto.
  - constructor.
Qed.
Lemma matches_nil_nullable a : matches a [] -> nullable a = true.
Proof.
  intros H. remember [] as w eqn:E. induction H; cbn; try reflexivity; try discriminate.
  - apply app_eq_nil in E as [-> ->]. rewrite IHmatches1, IHmatches2; auto.
  - rewrite IHmatches; auto.
  - rewrite IHmatches; auto. apply orb_true_r.
Qed.
Lemma deriv_sound c a : forall w, matches (deriv c a) w -> matches a (c :: w).
Proof.
  induction a; cbn; intros w H.
  - destruct (inv_empty _ H).
  - destruct (inv_empty _ H).
  - destruct (mrule_eqb r c) eqn:E; [|destruct (inv_empty _ H)]. apply mrule_eqb_eq in E. subst.
    apply inv_eps in H. subst. constructor.
  - destruct (nullable a1) eqn:N.
    + apply inv_alt in H as [H|H].
      * apply inv_cat in H as (u & v & -> & Hu & Hv). change (c :: u ++ v) with ((c :: u) ++ v). constructor; auto.
      * change (c :: w) with ([] ++ c :: w). constructor; auto. apply nullable_matches; auto.
    + apply inv_cat in H as (u & v & -> & Hu & Hv). change (c :: u ++ v) with ((c :: u) ++ v). constructor; auto.
  - apply inv_alt in H as [H|H]; [apply m_alt_l|apply m_alt_r]; auto.
  - apply inv_cat in H as (u & v & -> & Hu & Hv). change (c :: u ++ v) with ((c :: u) ++ v). constructor; auto.
Qed.
Lemma deriv_complete a w : matches a w -> forall c w', w = c :: w' -> matches (deriv c a) w'.
Proof.
  induction 1; intros c w' E; cbn.
  - discriminate.
  - inversion E; subst. rewrite mrule_eqb_refl. constructor.
  - destruct u as [|x u'].
    + cbn in E. subst. rewrite (matches_nil_nullable _ H). apply m_alt_r. eapply IHmatches2; eauto.
    + cbn in E. inversion E; subst. destruct (nullable a).
      * apply m_alt_l. constructor; eauto.
      * constructor; eauto.
  - apply m_alt_l. eapply IHmatches; eauto.
  - apply m_alt_r. eapply IHmatches; eauto.
  - discriminate.
  - destruct u as [|x u'].
    + cbn in E. eapply IHmatches2; eauto.
    + cbn in E. inversion E; subst. constructor; eauto.
Qed.
Theorem re_matchb_iff a w : re_matchb a w = true <-> matches a w.
Proof.
  revert a. induction w as [|c w IH]; intros a; cbn.
  - split; [apply nullable_matches|apply matches_nil_nullable].
  - rewrite IH. split; [apply deriv_sound|]. intros H. eapply deriv_complete; eauto.
Qed.

(* ------------------------------------------------------------------ 2. inversion *)
(* a star of single symbols: every letter is one of them *)
Lemma inv_star_syms a w : (forall u, matches a u -> exists r, u = [r] /\ matches a [r]) ->
  matches (RStar a) w -> Forall (fun r => matches a [r]) w.
Proof.
  intros Ha H. remember (RStar a) as s eqn:E. induction H; inversion E; subst; auto.
  destruct (Ha _ H) as (r & -> & Hr). cbn. constructor; auto.
Qed.
(* a star of two-letter words *)
Lemma inv_star_pairs a w : (forall u, matches a u -> exists r1 r2, u = [r1; r2] /\ matches a [r1; r2]) ->
  matches (RStar a) w -> exists ps, w = flat_map (fun p => [fst p; snd p]) ps /\ Forall (fun p => matches a [fst p; snd p]) ps.
Proof.
  intros Ha H. remember (RStar a) as s eqn:E. induction H; inversion E; subst.
  - exists []. split; auto.
  - destruct (Ha _ H) as (r1 & r2 & -> & Hr). destruct (IHmatches2 eq_refl) as (ps & -> & Hp).
    exists ((r1, r2) :: ps). split; auto.
Qed.

(* the word of a token list *)
Lemma word_app l1 l2 : word (l1 ++ l2) = word l1 ++ word l2.
Proof. apply map_app. Qed.
Lemma word_eq_nil l : word l = [] -> l = [].
Proof. destruct l; [auto|discriminate]. Qed.
Lemma word_eq_cons l r w : word l = r :: w -> exists k l', l = k :: l' /\ trule k = r /\ word l' = w.
Proof. destruct l as [|k l']; [discriminate|]. cbn. intros H. inversion H. eauto. Qed.
Lemma word_eq_app l u v : word l = u ++ v -> exists l1 l2, l = l1 ++ l2 /\ word l1 = u /\ word l2 = v.
Proof.
  revert l. induction u as [|r u IH]; intros l H.
  - exists [], l. auto.
  - cbn in H. destruct (word_eq_cons _ _ _ H) as (k & l' & -> & Hk & Hw).
    destruct (IH _ Hw) as (l1 & l2 & -> & H1 & H2). exists (k :: l1), l2. cbn. subst. auto.
Qed.

(* ------------------------------------------------------------------ 3. tok_okb unfolded *)
Definition span_ok (text : str) (a b : nat) : Prop := slice text a b <> None.
Lemma span_okb_iff text a b : span_okb text a b = true <-> span_ok text a b.
Proof. unfold span_okb, span_ok. destruct (slice text a b); split; intros; try discriminate; auto; congruence. Qed.
Lemma span_ok_facts text a b : span_ok text a b <-> a <= b /\ boundary text a /\ boundary text b.
Proof. apply slice_iff. Qed.

(* children: ordered from lo, each well-shaped, the last ends before hi *)
Fixpoint kids_ok (text : str) (lo hi : nat) (l : list tok) : Prop :=
  match l with
  | [] => lo <= hi
  | k :: l' => lo <= tstart k /\ tok_okb text k = true /\ kids_ok text (tend k) hi l'
  end.
Lemma forest_okb_kids text : forall l lo hi, forest_okb text lo hi l = true <-> kids_ok text lo hi l.
Proof.
  induction l as [|k l IH]; intros lo hi; cbn.
  - apply Nat.leb_le.
  - rewrite !andb_true_iff, Nat.leb_le, IH. tauto.
Qed.
Lemma tok_okb_unfold text r s e kids :
  tok_okb text (Tok r s e kids) = true <->
  span_ok text s e /\ matches (rule_re r) (word kids) /\ (exists w, slice text s e = Some w /\ lex_okb r w = true) /\ kids_ok text s e kids.
Proof.
  cbn [tok_okb]. rewrite !andb_true_iff, span_okb_iff, re_matchb_iff.
  assert (K : forall l lo, (fix go (lo : nat) (l : list tok) {struct l} : bool :=
            match l with
            | [] => Nat.leb lo e
            | k :: l' => Nat.leb lo (tstart k) && tok_okb text k && go (tend k) l'
            end) lo l = true <-> kids_ok text lo e l).
  { induction l as [|k l IH]; intros lo; cbn.
    - apply Nat.leb_le.
    - rewrite !andb_true_iff, Nat.leb_le, IH. tauto. }
  rewrite K. split.
  - intros (((H1 & H2) & H3) & H4). repeat split; auto. destruct (slice text s e) as [w|]; [eauto|discriminate].
  - intros (H1 & H2 & (w & Hw & H3) & H4). rewrite Hw. auto.
Qed.

