(* C09: the use of PrattParser in consume_expr.  The table declares two left-associative infix operators and
   nothing else; on such a table the prefix / postfix closures are never consulted (maps_irrelevant), so the
   theorem of C13 (PV.Pratt.Proofs.pratt_correct, stated for all three closures present) applies; and every
   tree returned has primaries at the leaves and declared infix operators at the inner nodes (kind_ok). *)
From Coq Require Import List Arith Bool Lia.
Import ListNotations.
Require Import PV.Front.Shape PV.Front.Consume.
Require Import PV.Pratt.Syntax PV.Pratt.Model PV.Pratt.Proofs.

Lemma pratt_table_spec r :
  pratt_table r = if Nat.eqb (mrule_code r_sequence_operator) r then Some (Infix ALeft, 30)
                  else if Nat.eqb (mrule_code r_choice_operator) r then Some (Infix ALeft, 20) else None.
Proof. reflexivity. Qed.
Lemma pratt_table_infix_only : infix_only pratt_table.
Proof.
  intros r af p. rewrite pratt_table_spec. repeat destruct (Nat.eqb _ r); intros H; inversion H; eauto.
Qed.
Lemma pratt_table_pos : table_pos pratt_table.
Proof.
  intros r af p. rewrite pratt_table_spec. repeat destruct (Nat.eqb _ r); intros H; inversion H; lia.
Qed.
Lemma pratt_table_op k : pratt_table (mrule_code (trule k)) <> None <->
  (trule k = r_sequence_operator \/ trule k = r_choice_operator).
Proof.
  rewrite pratt_table_spec. split.
  - destruct (trule k); cbn; intros H; try congruence; auto.
  - intros [-> | ->]; cbn; discriminate.
Qed.

Section Irrel.
Variable A : Type.
Variable get : table.
Hypothesis IO : infix_only get.
Variables m1 m2 : maps.
Hypothesis MI : m_infix m1 = m_infix m2.

Lemma nud_irrel (r1 r2 : list (tok A) -> prec -> res A) ts : (forall t p, r1 t p = r2 t p) -> nud m1 get r1 ts = nud m2 get r2 ts.
Proof.
  intros E. unfold nud. destruct ts as [|a ts']; [reflexivity|].
  destruct (get (fst a)) as [[af p]|] eqn:G; [|reflexivity].
  destruct (IO _ _ _ G) as [s ->]. reflexivity.
Qed.
Lemma led_irrel (r1 r2 : list (tok A) -> prec -> res A) ts lhs : (forall t p, r1 t p = r2 t p) -> led m1 get r1 ts lhs = led m2 get r2 ts lhs.
Proof.
  intros E. unfold led. destruct ts as [|a ts']; [reflexivity|].
  destruct (get (fst a)) as [[af p]|] eqn:G; [|reflexivity].
  destruct (IO _ _ _ G) as [s ->]. destruct (match s with ALeft => Some p | ARight => pred_checked p end); [|reflexivity].
  rewrite E, MI. reflexivity.
Qed.
Lemma maps_irrelevant : forall f,
  (forall (ts : list (tok A)) rbp, expr m1 get f ts rbp = expr m2 get f ts rbp) /\
  (forall lhs (ts : list (tok A)) rbp, loop m1 get f lhs ts rbp = loop m2 get f lhs ts rbp).
Proof.
  induction f as [|f [IHe IHl]]; [split; reflexivity|]. split.
  - intros ts rbp. rewrite !expr_S. rewrite (nud_irrel _ _ ts IHe). destruct (nud m2 get (expr m2 get f) ts); auto.
  - intros lhs ts rbp. rewrite !loop_S. destruct (lbp get ts); [|reflexivity]. destruct (Nat.ltb rbp p); [|reflexivity].
    rewrite (led_irrel _ _ ts lhs IHe). destruct (led m2 get (expr m2 get f) ts lhs); auto.
Qed.
End Irrel.

(* the kinds of the nodes of a tree returned by the parser when only map_primary and map_infix are given *)
Section Kind.
Variable A : Type.
Variable get : table.
Let m := pratt_maps.
Fixpoint kind_ok (t : tree A) : Prop :=
  match t with
  | Leaf a => get (fst a) = None
  | Bin l o r => kind_ok l /\ kind_ok r /\ exists s p, get (fst o) = Some (Infix s, p)
  | _ => False
  end.
Lemma kind_all : forall f,
  (forall (ts : list (tok A)) rbp t rest, expr m get f ts rbp = Ok t rest -> kind_ok t) /\
  (forall lhs (ts : list (tok A)) rbp t rest, kind_ok lhs -> loop m get f lhs ts rbp = Ok t rest -> kind_ok t).
Proof.
  induction f as [|f [IHe IHl]]; [split; intros; discriminate|]. split.
  - intros ts rbp t rest H. rewrite expr_S in H.
    destruct (nud m get (expr m get f) ts) as [lhs ts1| |] eqn:N; try discriminate.
    eapply IHl; [|exact H].
    unfold nud in N. destruct ts as [|a ts']; [discriminate|].
    destruct (get (fst a)) as [[[| |s] p]|] eqn:G; try discriminate.
    + destruct (pred_checked p); [|discriminate]. destruct (expr m get f ts' p0); discriminate.
    + inversion N; subst. exact G.
  - intros lhs ts rbp t rest K H. rewrite loop_S in H.
    destruct (lbp get ts); [|discriminate]. destruct (Nat.ltb rbp p); [|inversion H; subst; exact K].
    destruct (led m get (expr m get f) ts lhs) as [lhs' ts'| |] eqn:L; try discriminate.
    eapply IHl; [|exact H].
    unfold led in L. destruct ts as [|a ts1]; [discriminate|].
    destruct (get (fst a)) as [[[| |s] q]|] eqn:G; try discriminate.
    destruct (match s with ALeft => Some q | ARight => pred_checked q end); [|discriminate].
    destruct (expr m get f ts1 p0) as [rhs rest1| |] eqn:E; try discriminate.
    cbn in L. inversion L; subst. cbn. repeat split; eauto.
Qed.
End Kind.
Arguments kind_ok {A} get t.

(* PrattParser on a well-formed operand / operator sequence of consume_expr *)
Lemma pratt_ok (ts : list (tok Shape.tok)) : well_formed pratt_table ts = true ->
  exists t, pratt_parse pratt_maps pratt_table ts = Ok t [] /\ yield t = ts /\ kind_ok pratt_table t.
Proof.
  intros W.
  destruct (@pratt_correct _ all_maps pratt_table pratt_table_pos eq_refl ts W) as (t & E & Y & _).
  assert (E' : pratt_parse pratt_maps pratt_table ts = Ok t []).
  { unfold pratt_parse in *. destruct (maps_irrelevant Shape.tok pratt_table pratt_table_infix_only pratt_maps all_maps eq_refl (2 * length ts + 2)) as [He _].
    rewrite He. exact E. }
  exists t. repeat split; auto.
  unfold pratt_parse in E'. destruct (kind_all Shape.tok pratt_table (2 * length ts + 2)) as [Ke _]. eapply Ke; eauto.
Qed.
