(* C09: the front end with the repairs C09-1..4 is total on well-shaped forests and everything it reports is
   located in the text. *)
From Coq Require Import List Arith NArith ZArith Bool Lia.
Import ListNotations.
Require Import PV.Pos.Model PV.Pos.Spec PV.Pos.BasicProofs.
Require Import PV.Front.Shape PV.Front.ShapeFacts PV.Front.Consume PV.Front.Validate PV.Front.Optimize PV.Front.Frontend.
Require Import PV.Front.ConsumeProofs PV.Front.ValidateProofs PV.Front.OptimizeProofs.
Open Scope list_scope.

Lemma shape_ok_forest text f : shape_ok text f = true ->
  matches top_re (word f) /\ Forall (fun k => tok_okb text k = true) f.
Proof.
  unfold shape_ok. rewrite andb_true_iff, re_matchb_iff, forest_okb_kids. intros [M K]. split; [exact M|].
  eapply kids_all_ok; eauto.
Qed.

(* what the front end may return; strict = a panic is excluded *)
Definition fres_ok (strict : bool) (text : str) (r : fres) : Prop :=
  match r with FRules _ => True | FErrors l => errs_ok text l | FPanic => strict = false | FFuel => True end.

(* the four C09 repairs *)
Definition is_repaired (fl : flags) : Prop :=
  fix_escape fl = true /\ fix_peek fl = true /\ fix_choice fl = true /\ fix_unroll fl = true.

(* for ANY configuration: whatever is reported is located; with the repairs: no panic *)
Theorem frontend_total_gen (strict : bool) fl builtins fuel text forest :
  (strict = true -> is_repaired fl) ->
  shape_ok text forest = true -> fres_ok strict text (frontend fl builtins fuel text forest).
Proof.
  intros R SH. destruct (shape_ok_forest _ _ SH) as [M F]. unfold frontend.
  pose proof (validate_pairs_ok text builtins forest F) as V1.
  destruct (validate_pairs text builtins forest) as [u| | |]; cbn [out_ok fres_ok] in *; auto; [|discriminate].
  pose proof (consume_rules_good fl text strict (fun H => proj1 (R H)) (fun H => proj1 (proj2 (R H))) (fun H => proj1 (proj2 (proj2 (R H)))) fuel forest F) as C.
  destruct (consume_rules_with_spans fl text fuel forest) as [rules| | |]; cbn [out_ok fres_ok] in *; auto.
  pose proof (validate_ast_ok text rules fuel (fix_lr fl) (fix_tag fl) C builtins (extras fl)) as V2.
  destruct (validate_ast rules fuel (fix_lr fl) (fix_tag fl) builtins (extras fl)) as [errs n| |]; cbn [errs_v fres_ok] in *; auto; [|contradiction].
  destruct errs as [|e errs]; [|apply serrs_errs; exact V2].
  destruct (optimize (extras fl) (fix_unroll fl) fuel (map convert_rule rules) (map convert_rule rules)) eqn:O; cbn; auto.
  destruct strict; [|reflexivity]. exfalso. destruct (R eq_refl) as (_ & _ & _ & RU).
  eapply (optimize_no_panic (extras fl) (fix_unroll fl) None fuel (map convert_rule rules) (or_introl RU) (map convert_rule rules)); [|exact O].
  apply Forall_map. eapply Forall_impl; [|exact C]. intros r [_ Hr]. cbn. eapply convert_nz; eauto.
Qed.

Lemma repaired_is_repaired st : is_repaired (repaired st).
Proof. repeat split. Qed.

Theorem frontend_total st builtins fuel text forest :
  shape_ok text forest = true -> fres_ok true text (frontend (repaired st) builtins fuel text forest).
Proof. apply frontend_total_gen. intros _. apply repaired_is_repaired. Qed.

Corollary frontend_no_panic st builtins fuel text forest :
  shape_ok text forest = true -> frontend (repaired st) builtins fuel text forest <> FPanic.
Proof. intros SH E. pose proof (frontend_total st builtins fuel text forest SH) as T. rewrite E in T. discriminate T. Qed.

(* every error that ANY configuration reports is located in the text *)
Corollary frontend_located fl builtins fuel text forest l :
  shape_ok text forest = true -> frontend fl builtins fuel text forest = FErrors l ->
  forall e, In e l -> match snd e with
                      | LPos p => boundary text p
                      | LSpan a b => a <= b /\ boundary text a /\ boundary text b
                      end.
Proof.
  intros SH E e He. pose proof (frontend_total_gen false fl builtins fuel text forest ltac:(discriminate) SH) as T. rewrite E in T. cbn in T.
  unfold errs_ok in T. rewrite Forall_forall in T. specialize (T e He). unfold loc_ok in T.
  destruct (snd e); [exact T|apply span_ok_facts; exact T].
Qed.

(* the unroller as shipped is safe below 2^32 - 2: the consumed rules carry the counts *)
Fixpoint counts_le (b : N) (n : pnode) : Prop :=
  match n with
  | PPosPred _ x | PNegPred _ x | POpt _ x | PRep _ x | PRepOnce _ x | PPush _ x | PNodeTag _ x _ => counts_le b x
  | PRepExact _ x k | PRepMin _ x k | PRepMax _ x k => counts_le b x /\ (k <= b)%N
  | PRepMinMax _ x k1 k2 => counts_le b x /\ (k2 <= b)%N
  | PSeq _ l r | PChoice _ l r => counts_le b l /\ counts_le b r
  | _ => True
  end.
Lemma convert_nz_bounded text b n : node_ok text n -> counts_le b n -> nzb (Some b) (convert_node n) = true.
Proof.
  induction n; cbn [node_ok counts_le convert_node nzb]; intros H C; auto; try (apply IHn; tauto);
    try (rewrite IHn1, IHn2 by tauto; reflexivity);
    try (destruct H as (_ & H1 & H2); destruct C as (C1 & C2); rewrite IHn by assumption; apply N.eqb_neq in H2; rewrite H2;
         apply N.leb_le in C2; rewrite C2; reflexivity).
  destruct H as (_ & H1); destruct C as (C1 & C2); rewrite IHn by assumption. apply N.leb_le in C2; rewrite C2; reflexivity.
Qed.

(* docs::consume *)
Lemma docs_consume_ok text f : Forall (fun k => tok_okb text k = true) f -> docs_consume f = true.
Proof.
  induction 1 as [|t f Ft Ff IH]; [reflexivity|]. cbn [docs_consume].
  destruct (is_rule r_grammar_doc t) eqn:R; [|exact IH]. apply is_rule_true in R.
  destruct (tok_kids text _ Ft) as [M _]. rewrite R in M. cbn [rule_re] in M. unfold sy in M. apply inv_sym in M.
  destruct (tkids t); [discriminate|exact IH].
Qed.

Definition repaired_reader_only (st : tree_state) : flags :=
  {| extras := st_extras st; fix_escape := true; fix_peek := true; fix_choice := true; fix_unroll := false;
     fix_lr := st_lr st; fix_tag := st_tag st; fix_insens := st_insens st |}.

Theorem frontend_no_panic_bounded_counts st builtins fuel text forest :
  shape_ok text forest = true ->
  (forall rules, consume_rules_with_spans (repaired_reader_only st) text fuel forest = ODone rules ->
                 Forall (fun r => counts_le 4294967293 (pbody r)) rules) ->
  frontend (repaired_reader_only st) builtins fuel text forest <> FPanic.
Proof.
  intros SH CB. destruct (shape_ok_forest _ _ SH) as [M F]. unfold frontend.
  set (lr := fix_lr (repaired_reader_only st)). set (tg := fix_tag (repaired_reader_only st)).
  pose proof (validate_pairs_ok text builtins forest F) as V1.
  destruct (validate_pairs text builtins forest) as [u| | |]; cbn [out_ok] in *; try discriminate; auto.
  pose proof (consume_rules_good (repaired_reader_only st) text true (fun _ => eq_refl) (fun _ => eq_refl) (fun _ => eq_refl) fuel forest F) as C.
  destruct (consume_rules_with_spans (repaired_reader_only st) text fuel forest) as [rules| | |]; cbn [out_ok] in *; try discriminate; auto.
  specialize (CB rules eq_refl).
  pose proof (validate_ast_ok text rules fuel lr tg C builtins (extras (repaired_reader_only st))) as V2.
  destruct (validate_ast rules fuel lr tg builtins (extras (repaired_reader_only st))) as [errs n| |]; cbn [errs_v] in *; try discriminate; auto.
  destruct errs as [|e errs]; [|discriminate].
  assert (BO : bound_ok (fix_unroll (repaired_reader_only st)) (Some 4294967293%N)).
  { right. exists 4294967293%N. split; [reflexivity|]. unfold u32_max. lia. }
  pose proof (optimize_no_panic (extras (repaired_reader_only st)) _ _ fuel (map convert_rule rules) BO (map convert_rule rules)) as O.
  destruct (optimize _ _ fuel _ _); try discriminate. exfalso. apply O; [|reflexivity].
  apply Forall_map. rewrite Forall_forall in C, CB. apply Forall_forall. intros r Hr. cbn.
  eapply convert_nz_bounded; [apply (C r Hr)|apply (CB r Hr)].
Qed.
