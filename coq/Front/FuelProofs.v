(* C09: the fuel of the model is an artefact.
   - validate_ast: more fuel than there are rules always suffices (a rule on the trace is never entered again);
   - consume_rules_with_spans: more fuel than the nesting depth of the token forest always suffices. *)
From Coq Require Import List Arith NArith ZArith Bool Lia.
Import ListNotations.
Require Import PV.Pos.Model PV.Front.Shape PV.Front.Consume PV.Front.Validate PV.Front.UnescapeProofs.
Require PV.Pratt.Syntax PV.Pratt.Model PV.Pratt.Proofs.
Open Scope list_scope.

Lemma str_eqb_true a : forall b, str_eqb a b = true -> a = b.
Proof. induction a; destruct b; cbn; intros H; try discriminate; auto. apply andb_prop in H as [H1 H2]. apply N.eqb_eq in H1. f_equal; auto. Qed.
Lemma str_eqb_same s : str_eqb s s = true.
Proof. induction s; cbn; auto. rewrite N.eqb_refl. exact IHs. Qed.
Lemma mem_false x l : mem x l = false -> ~ In x l.
Proof.
  unfold mem. intros H I. assert (X : existsb (str_eqb x) l = true) by (apply existsb_exists; exists x; split; [exact I|apply str_eqb_same]). congruence.
Qed.

Section VF.
Variable rules : list prule.
Let names := map pname rules.

Lemma lookup_name : forall rs n r, lookup rs n = Some r -> In n (map pname rs).
Proof.
  induction rs as [|x rs IH]; intros n r H; [discriminate|]. cbn in H |- *.
  destruct (lookup rs n) eqn:E; [right; eapply IH; eauto|].
  destruct (str_eqb (pname x) n) eqn:S; [|discriminate]. left. apply str_eqb_true. exact S.
Qed.

Definition no_fuel {A} (v : vres A) : Prop := match v with VFuel => False | _ => True end.
Lemma vtick_nf {A} (v : vres A) : no_fuel v -> no_fuel (vtick v).
Proof. destruct v; auto. Qed.
Lemma vbind_nf {A B} (v : vres A) (f : A -> vres B) : no_fuel v -> (forall a, no_fuel (f a)) -> no_fuel (vbind v f).
Proof. destruct v; cbn; auto. intros _ H. specialize (H a). destruct (f a); auto. Qed.

(* entering rule id extends the pushed part of the trace (Q, newest first) by a new name *)
Lemma push_ok T0 Q id r : NoDup Q -> incl Q names -> mem id (T0 ++ rev Q) = false -> lookup rules id = Some r ->
  NoDup (id :: Q) /\ incl (id :: Q) names /\ length Q < length names.
Proof.
  intros ND IN M L. apply mem_false in M.
  assert (NI : ~ In id Q) by (intros X; apply M, in_or_app; right; apply in_rev in X; exact X).
  assert (I : In id names) by (eapply lookup_name; eauto).
  assert (ND' : NoDup (id :: Q)) by (constructor; auto).
  assert (IN' : incl (id :: Q) names) by (intros x [<-|X]; auto).
  repeat split; auto. pose proof (NoDup_incl_length ND' IN') as Le. cbn in Le. lia.
Qed.

Lemma nfail_nf : forall fuel T0 Q e, NoDup Q -> incl Q names -> length names - length Q < fuel ->
  no_fuel (nfail rules fuel (T0 ++ rev Q) e).
Proof.
  induction fuel as [|f IH]; intros T0 Q e ND IN Lf; [lia|]. cbn [nfail].
  induction e; cbn; auto;
    repeat (first [apply vtick_nf | apply vbind_nf | intros [] | exact I | assumption
      | match goal with |- no_fuel (if ?b then _ else _) => destruct b eqn:? end
      | match goal with |- no_fuel (match ?o with Some _ => _ | None => _ end) => destruct o eqn:? end ]).
  (* the rule is entered *)
  match goal with H : negb (mem ?id _) = true |- _ => apply negb_true_iff in H; destruct (push_ok T0 Q id _ ND IN H ltac:(eassumption)) as (A1 & A2 & A3) end.
  rewrite <- app_assoc. change (rev Q ++ [n]) with (rev (n :: Q)). apply IH; auto. cbn [length]. lia.
Qed.
Lemma nprog_nf : forall fuel T0 Q e, NoDup Q -> incl Q names -> length names - length Q < fuel ->
  no_fuel (nprog rules fuel (T0 ++ rev Q) e).
Proof.
  induction fuel as [|f IH]; intros T0 Q e ND IN Lf; [lia|]. cbn [nprog].
  induction e; cbn; auto;
    repeat (first [apply vtick_nf | apply vbind_nf | intros [] | exact I | assumption
      | match goal with |- no_fuel (if ?b then _ else _) => destruct b eqn:? end
      | match goal with |- no_fuel (match ?o with Some _ => _ | None => _ end) => destruct o eqn:? end ]).
  match goal with H : negb (mem ?id _) = true |- _ => apply negb_true_iff in H; destruct (push_ok T0 Q id _ ND IN H ltac:(eassumption)) as (A1 & A2 & A3) end.
  rewrite <- app_assoc. change (rev Q ++ [n]) with (rev (n :: Q)). apply IH; auto. cbn [length]. lia.
Qed.

Variable fuel0 : nat.
Variables lrf tgf : bool.
Hypothesis F0 : length names < fuel0.

Lemma nfail0_nf T e : no_fuel (nfail rules fuel0 T e).
Proof. rewrite <- (app_nil_r T). change (@nil str) with (rev (@nil str)). apply nfail_nf; [constructor|intros x []|cbn; lia]. Qed.
Lemma nprog0_nf T e : no_fuel (nprog rules fuel0 T e).
Proof. rewrite <- (app_nil_r T). change (@nil str) with (rev (@nil str)). apply nprog_nf; [constructor|intros x []|cbn; lia]. Qed.

Lemma check_expr_nf : forall fuel Q e, NoDup Q -> incl Q names -> length names - length Q < fuel ->
  no_fuel (check_expr rules fuel0 lrf fuel (rev Q) e).
Proof.
  induction fuel as [|f IH]; intros Q e ND IN Lf; [lia|]. cbn [check_expr].
  assert (OR : forall (v : vres (option err)) (g : vres (option err)), no_fuel v -> no_fuel g ->
            no_fuel (vbind v (fun x => match x with Some er => VOk (Some er) 0 | None => g end))).
  { intros v g Hv Hg. destruct v as [[er|] n| |]; cbn; auto. destruct g; cbn; auto. }
  induction e; try exact I.
  - (* Ident *)
    destruct (rev Q) as [|t0 tr] eqn:R; [exact I|].
    destruct (str_eqb t0 n); [exact I|]. destruct (negb (mem n (t0 :: tr))) eqn:M; [|exact I].
    destruct (lookup rules n) eqn:L; [|exact I]. apply vtick_nf.
    apply negb_true_iff in M. rewrite <- R in M |- *.
    destruct (push_ok [] Q n _ ND IN M L) as (A1 & A2 & A3).
    change (rev Q ++ [n]) with (rev (n :: Q)). apply IH; auto. cbn [length]. lia.
  - apply vtick_nf. exact IHe.
  - apply vtick_nf. exact IHe.
  - destruct (rev (rev Q)); [exact I|]. destruct lrf.
    + apply vtick_nf. apply OR; [exact IHe1|]. apply vbind_nf; [apply nfail0_nf|]. intros b1.
      apply vbind_nf; [destruct b1; [exact I|apply nprog0_nf]|]. intros [|]; [assumption|exact I].
    + apply vtick_nf. apply vbind_nf; [apply nfail0_nf|]. intros b1.
      apply vbind_nf; [destruct b1; [exact I|apply nprog0_nf]|]. intros [|]; assumption.
  - apply vtick_nf. apply OR; assumption.
  - apply vtick_nf. exact IHe.
  - apply vtick_nf. exact IHe.
  - apply vtick_nf. exact IHe.
  - destruct lrf; [apply vtick_nf; exact IHe|exact I].
  - destruct lrf; [apply vtick_nf; exact IHe|exact I].
  - destruct lrf; [apply vtick_nf; exact IHe|exact I].
  - destruct lrf; [apply vtick_nf; exact IHe|exact I].
  - apply vtick_nf. exact IHe.
  - destruct lrf; [apply vtick_nf; exact IHe|exact I].
Qed.

Lemma collect_nf chk l : (forall n, no_fuel (chk n)) -> no_fuel (collect chk l).
Proof. intros H. induction l; cbn [collect]; [exact I|]. apply vbind_nf; [apply H|]. intros x. apply vbind_nf; [exact IHl|]. intros; exact I. Qed.
Lemma over_rules_nf chk rs : (forall n, no_fuel (chk n)) -> no_fuel (over_rules tgf chk rs).
Proof. intros H. induction rs; cbn [over_rules]; [exact I|]. apply vbind_nf; [apply collect_nf; exact H|]. intros a0. apply vbind_nf; [exact IHrs|]. intros; exact I. Qed.

Lemma ws_rules_nf : forall rs, no_fuel (ws_rules rules fuel0 rs).
Proof.
  induction rs as [|r rs IHr]; cbn [ws_rules]; [exact I|]. apply vbind_nf.
  - unfold ws_check. destruct (_ || _); [|exact I]. apply vbind_nf; [apply nfail0_nf|]. intros [|]; [exact I|]. apply vbind_nf; [apply nprog0_nf|]. intros; exact I.
  - intros x. apply vbind_nf; [exact IHr|]. intros; exact I.
Qed.
Lemma lr_rules_nf : forall rs seen, no_fuel (lr_rules rules fuel0 lrf seen rs).
Proof.
  induction rs as [|r rs IHr]; intros seen; cbn [lr_rules]; [exact I|].
  destruct (mem (pname r) seen); [apply IHr|]. destruct (lookup rules (pname r)) as [r'|] eqn:L; [|apply IHr].
  apply vbind_nf; [|intros x; apply vbind_nf; [apply IHr|intros; exact I]].
  change [pname r] with (rev [pname r]). apply check_expr_nf; [repeat constructor; intros []|intros x [<-|[]]; eapply lookup_name; eauto|cbn [length]; lia].
Qed.

Theorem validate_ast_nf builtins ex : no_fuel (validate_ast rules fuel0 lrf tgf builtins ex).
Proof.
  unfold validate_ast.
  apply vbind_nf; [apply over_rules_nf|]. { intros n. unfold rep_check. destruct n; try exact I; (apply vbind_nf; [apply nfail0_nf|]; intros [|]; [exact I|]; apply vbind_nf; [apply nprog0_nf|]; intros; exact I). }
  intros e1. apply vbind_nf; [apply over_rules_nf|]. { intros n. unfold choice_check. destruct n; try exact I. apply vbind_nf; [apply nfail0_nf|]. intros; exact I. }
  intros e2. apply vbind_nf; [apply ws_rules_nf|].
  intros e3. apply vbind_nf; [apply lr_rules_nf|].
  intros e4. apply vbind_nf; [destruct ex; [apply over_rules_nf; intros n; unfold tag_check; destruct n; exact I|exact I]|].
  intros e5. destruct (sort_errors _); exact I.
Qed.
End VF.

(* ------------------------------------------------------------------ consume_rules_with_spans *)
Import PV.Pratt.Syntax PV.Pratt.Model PV.Pratt.Proofs.

(* every token of the tree the Pratt parser returns is one of its input tokens *)
Section PrattIncl.
Variable A : Type.
Variable m : maps.
Variable get : table.
Lemma pratt_incl : forall f,
  (forall (S0 ts : list (Syntax.tok A)) rbp t rest, incl ts S0 -> expr m get f ts rbp = Syntax.Ok t rest -> incl (yield t) S0 /\ incl rest S0) /\
  (forall (S0 : list (Syntax.tok A)) lhs ts rbp t rest, incl ts S0 -> incl (yield lhs) S0 -> loop m get f lhs ts rbp = Syntax.Ok t rest -> incl (yield t) S0 /\ incl rest S0).
Proof.
  induction f as [|f [IHe IHl]]; [split; intros; discriminate|]. split.
  - intros S0 ts rbp t rest I H. rewrite expr_S in H.
    destruct (nud m get (expr m get f) ts) as [lhs ts1| |] eqn:N; try discriminate.
    assert (X : incl (yield lhs) S0 /\ incl ts1 S0).
    { unfold nud in N. destruct ts as [|a ts']; [discriminate|].
      assert (Ia : In a S0) by (apply I; left; reflexivity). assert (I' : incl ts' S0) by (intros x Hx; apply I; right; exact Hx).
      destruct (get (fst a)) as [[[| |s] p]|]; try discriminate.
      - destruct (pred_checked p); [|discriminate]. destruct (expr m get f ts' p0) as [rhs r1| |] eqn:E; try discriminate.
        destruct (m_prefix m); [|discriminate]. inversion N; subst. destruct (IHe _ _ _ _ _ I' E) as [Y1 Y2]. split; [|exact Y2].
        cbn. intros x [<-|Hx]; auto.
      - inversion N; subst. split; [|exact I']. cbn. intros x [<-|[]]. exact Ia. }
    destruct X as [X1 X2]. eapply IHl; eauto.
  - intros S0 lhs ts rbp t rest I Il H. rewrite loop_S in H.
    destruct (lbp get ts); [|discriminate]. destruct (Nat.ltb rbp p); [|inversion H; subst; auto].
    destruct (led m get (expr m get f) ts lhs) as [lhs' ts'| |] eqn:L; try discriminate.
    assert (X : incl (yield lhs') S0 /\ incl ts' S0).
    { unfold led in L. destruct ts as [|a ts1]; [discriminate|].
      assert (Ia : In a S0) by (apply I; left; reflexivity). assert (I' : incl ts1 S0) by (intros x Hx; apply I; right; exact Hx).
      destruct (get (fst a)) as [[[| |s] q]|]; try discriminate.
      - destruct (m_postfix m); [|discriminate]. inversion L; subst. split; [|exact I']. cbn. intros x Hx. apply in_app_or in Hx as [Hx|[<-|[]]]; auto.
      - destruct (match s with ALeft => Some q | ARight => pred_checked q end); [|discriminate].
        destruct (expr m get f ts1 p0) as [rhs r1| |] eqn:E; try discriminate.
        destruct (m_infix m); [|discriminate]. inversion L; subst. destruct (IHe _ _ _ _ _ I' E) as [Y1 Y2]. split; [|exact Y2].
        cbn. intros x Hx. apply in_app_or in Hx as [Hx|[<-|Hx]]; auto. }
    destruct X as [X1 X2]. eapply IHl; eauto.
Qed.
End PrattIncl.

Lemma tdepth_kids t : tdepth t = S (fdepth (tkids t)).
Proof. destruct t as [r s e kids]. reflexivity. Qed.
Lemma fdepth_in : forall l x, In x l -> tdepth x <= fdepth l.
Proof. induction l; intros x []; cbn [fdepth]; [subst; lia|]. specialize (IHl _ H). lia. Qed.

Definition nofuel {A} (o : out A) : Prop := match o with OFuel => False | _ => True end.
Lemma obind_nofuel {A B} (o : out A) (f : A -> out B) : nofuel o -> (forall a, nofuel (f a)) -> nofuel (obind o f).
Proof. destruct o; cbn; auto. Qed.

Section CF.
Variable fl : flags.
Variable text : str.

Lemma number_of_nofuel t : nofuel (number_of text t).
Proof. unfold number_of. destruct (as_str text t); [destruct (parse_u32 s)|]; exact I. Qed.
Lemma nonzero_nofuel t n : nofuel (nonzero t n).
Proof. unfold nonzero. destruct (n =? 0)%N; exact I. Qed.
Lemma post_step_nofuel node p : nofuel (post_step text node p).
Proof.
  unfold post_step. destruct (trule p); try exact I;
    repeat (first [exact I | apply obind_nofuel | apply number_of_nofuel | apply nonzero_nofuel | intros ?
                  | match goal with |- nofuel (match ?l with [] => _ | _ :: _ => _ end) => destruct l end]).
Qed.
Lemma fold_post_nofuel : forall l node, nofuel (fold_post text node l).
Proof. induction l; intros node; cbn [fold_post]; [exact I|]. apply obind_nofuel; [apply post_step_nofuel|auto]. Qed.
Lemma unescaped_nofuel t : nofuel (unescaped fl text t).
Proof. unfold unescaped. destruct (as_str text t); [|exact I]. pose proof (unescape_fuel s) as U. destruct (unescape s); [exact I|destruct (fix_escape fl); exact I|congruence]. Qed.
Lemma stripped_nofuel a s : nofuel (stripped a s).
Proof. unfold stripped. destruct (strip a s); exact I. Qed.
Lemma peek_index_nofuel t : nofuel (peek_index fl text t).
Proof. unfold peek_index. destruct (as_str text t); [destruct (parse_i32 s); [|destruct (fix_peek fl)]|]; exact I. Qed.

Ltac nf_tac :=
  repeat (first [exact I | apply obind_nofuel | apply unescaped_nofuel | apply stripped_nofuel | apply peek_index_nofuel | intros ?
                | match goal with |- nofuel (match ?l with [] => _ | _ :: _ => _ end) => destruct l end
                | match goal with |- nofuel (match trule ?t with _ => _ end) => destruct (trule t) end
                | match goal with |- nofuel (let '(_, _) := ?p in _) => destruct p end ]).
Lemma peek_slice_nofuel p : nofuel (peek_slice_node fl text p).
Proof. unfold peek_slice_node. nf_tac. Qed.
Lemma range_nofuel p : nofuel (range_node fl text p).
Proof. unfold range_node. nf_tac. Qed.

Section Rec.
Variable rec : list Shape.tok -> out pnode.
Variable d : nat.
Hypothesis RN : forall ks, fdepth ks < d -> nofuel (rec ks).

Lemma atom_nofuel p : tdepth p <= d -> nofuel (atom fl text rec p).
Proof.
  intros D. rewrite tdepth_kids in D. unfold atom. destruct (trule p); try exact I.
  - apply RN. lia.
  - pose proof (fdepth_in (tkids p)) as IN. destruct (tkids p) as [|a [|x l]]; try exact I. apply obind_nofuel; [|intros; exact I]. apply RN.
    specialize (IN x (or_intror (or_introl eq_refl))). rewrite tdepth_kids in IN. lia.
  - destruct (extras fl); [|exact I]. nf_tac.
  - apply peek_slice_nofuel.
  - destruct (as_str text p); exact I.
  - nf_tac.
  - destruct (fix_insens fl); nf_tac.
  - apply range_nofuel.
Qed.
Lemma core_nofuel p rest r tag : tdepth p <= d -> nofuel r -> nofuel (core fl text rec p rest r tag).
Proof.
  intros D R. unfold core. apply obind_nofuel.
  - destruct (trule p); try (apply obind_nofuel; [apply atom_nofuel; exact D|intros; apply fold_post_nofuel]);
      (apply obind_nofuel; [exact R|intros; exact I]).
  - intros n. unfold add_tag. destruct tag as [[t st]|]; [destruct (extras fl)|]; exact I.
Qed.
Lemma un_nofuel_len : forall n l, length l <= n -> Forall (fun p => tdepth p <= d) l -> nofuel (un fl text rec l).
Proof.
  induction n as [|n IH]; intros l L F.
  - destruct l; [exact I|cbn in L; lia].
  - destruct l as [|pt l1]; [exact I|]. cbn [un]. cbn [length] in L.
    inversion F as [|? ? Fp F1]; subst.
    destruct l1 as [|nx l2]; [apply core_nofuel; [exact Fp|exact I]|].
    inversion F1 as [|? ? Fn F2]; subst. cbn [length] in L.
    destruct (is_rule r_assignment_operator nx).
    + destruct l2 as [|pr l3]; [exact I|]. inversion F2 as [|? ? Fr F3]; subst. cbn [length] in L.
      destruct (as_str text pt); [|exact I]. destruct (slice s 1 (blen s)); [|exact I].
      apply core_nofuel; [exact Fr|]. apply IH; [lia|exact F3].
    + apply core_nofuel; [exact Fp|]. apply IH; [cbn [length]; lia|exact F1].
Qed.
Lemma un_nofuel l : Forall (fun p => tdepth p <= d) l -> nofuel (un fl text rec l).
Proof. apply (un_nofuel_len (length l)). apply le_n. Qed.
Lemma ev_nofuel : forall t, Forall (fun a => tdepth (snd a) <= S d) (yield t) -> nofuel (ev fl text rec t).
Proof.
  induction t as [a|o t IH|t IH o|l IHl o r IHr]; intros F; cbn [ev]; try exact I.
  - cbn in F. inversion F as [|? ? Fa _]; subst. apply un_nofuel. rewrite tdepth_kids in Fa.
    apply Forall_forall. intros p Hp. pose proof (fdepth_in _ _ Hp). lia.
  - cbn [yield] in F. apply Forall_app in F as [Fl F]. inversion F as [|? ? _ Fr]; subst.
    specialize (IHl Fl). specialize (IHr Fr).
    destruct (ev fl text rec l), (ev fl text rec r); try exact I; try contradiction.
    unfold infix_node. destruct (trule (snd o)); exact I.
Qed.
End Rec.

Theorem cexpr_nofuel : forall d kids, fdepth kids < d -> nofuel (cexpr fl text d kids).
Proof.
  induction d as [|d IH]; intros kids D; [lia|]. cbn [cexpr]. unfold cexpr_body.
  set (kids' := if fix_choice fl then skip_choice kids else kids).
  assert (INC : incl kids' kids).
  { subst kids'. destruct (fix_choice fl); [|apply incl_refl]. unfold skip_choice. destruct kids as [|k r]; [apply incl_refl|].
    destruct (is_rule r_choice_operator k); [apply incl_tl|]; apply incl_refl. }
  pose proof (pratt_parse_fuel pratt_maps pratt_table (ptoks kids')) as PF.
  unfold pratt_parse in *.
  destruct (expr pratt_maps pratt_table (2 * length (ptoks kids') + 2) (ptoks kids') 0) as [t rest| |] eqn:E; [|exact I|congruence].
  destruct (pratt_incl Shape.tok pratt_maps pratt_table (2 * length (ptoks kids') + 2)) as [Pe _].
  destruct (Pe (ptoks kids') _ _ _ _ (incl_refl _) E) as [Y _].
  apply (ev_nofuel _ d IH). apply Forall_forall. intros a Ha. apply Y in Ha. unfold ptoks in Ha. apply in_map_iff in Ha as (k & <- & Hk).
  cbn [snd]. apply INC in Hk. pose proof (fdepth_in _ _ Hk). lia.
Qed.

Lemma consume_rule_nofuel d t : tdepth t <= d -> nofuel (consume_rule fl text d t).
Proof.
  intros D. rewrite tdepth_kids in D. unfold consume_rule.
  remember (fdepth (tkids t)) as ft eqn:Eft. pose proof (fdepth_in (tkids t)) as IN0. rewrite <- Eft in IN0. clear Eft.
  destruct (tkids t) as [|nm l1]; [exact I|]. destruct (as_str text nm); [|exact I].
  destruct l1 as [|a l2]; [exact I|]. destruct l2 as [|m l3]; [exact I|].
  assert (IN : forall x, In x (m :: l3) -> tdepth x <= ft) by (intros x Hx; apply IN0; right; right; exact Hx).
  assert (G : forall ty rest, incl rest (m :: l3) -> nofuel (obind (ODone (ty, rest)) (fun tr : rtype * list Shape.tok => let '(ty, rest) := tr in
             match rest with
             | _ :: x :: _ =>
                 obind (if fix_choice fl then ODone (tkids x)
                        else match tkids x with [] => OPanic | k :: r => if is_rule r_choice_operator k then ODone r else ODone (tkids x) end)
                   (fun ks => obind (cexpr fl text d ks) (fun node => ODone {| pname := s; pspan := tspan nm; pty := ty; pbody := node |}))
             | _ => OPanic
             end))).
  { intros ty rest INC. cbn [obind]. destruct rest as [|o [|x l]]; try exact I.
    assert (Dx : tdepth x <= ft) by (apply IN, INC; right; left; reflexivity). rewrite tdepth_kids in Dx.
    assert (C : forall ks, fdepth ks <= fdepth (tkids x) -> nofuel (obind (cexpr fl text d ks) (fun node => ODone {| pname := s; pspan := tspan nm; pty := ty; pbody := node |}))).
    { intros ks Hk. apply obind_nofuel; [apply cexpr_nofuel; lia|intros; exact I]. }
    destruct (fix_choice fl); cbn [obind]; [apply C; lia|].
    destruct (tkids x) as [|k r] eqn:Ex; [exact I|]. destruct (is_rule r_choice_operator k); cbn [obind]; apply C; cbn [fdepth]; lia. }
  destruct (negb (is_rule r_opening_brace m)).
  - destruct (trule m); try exact I; apply G; apply incl_tl, incl_refl.
  - apply G. apply incl_refl.
Qed.
Theorem consume_rules_nofuel d : forall f, fdepth f <= d -> nofuel (consume_rules_with_spans fl text d f).
Proof.
  induction f as [|t f IH]; intros D; [exact I|]. cbn [fdepth] in D. cbn [consume_rules_with_spans].
  destruct (is_rule r_grammar_rule t); [|apply IH; lia]. destruct (tkids t) as [|k l]; [exact I|].
  destruct (is_rule r_line_doc k); [apply IH; lia|].
  apply obind_nofuel; [apply consume_rule_nofuel; lia|]. intros r. apply obind_nofuel; [apply IH; lia|intros; exact I].
Qed.
End CF.
