(* Pos/ErrorProofs.v - Error::new_from_pos + format: never panics and produces exactly the expected
   layout (line number, line text, marker under the column), outside the known class K1. *)
From Coq Require Import String.
From Coq Require Import List Arith NArith Bool Lia.
Import ListNotations.
Require Import PV.Pos.Model PV.Pos.ErrorFmt PV.Pos.Spec PV.Pos.BasicProofs PV.Pos.LineColProofs.
Open Scope list_scope.

Arguments Nat.sub : simpl never.
Arguments Nat.leb : simpl never.
Arguments Nat.ltb : simpl never.
Arguments Nat.eqb : simpl never.
Arguments len_utf8 : simpl never.
Arguments lit : simpl never.
Arguments dec : simpl never.

Lemma match_char_app p q c :
  match_char (p ++ q) (blen p) c = Ok (match q with c' :: _ => ceq c c' | [] => false end).
Proof. unfold match_char. now rewrite split_at_app. Qed.

Lemma pos_vis_match q :
  (match q with c' :: _ => ceq LF c' | [] => false end) || (match q with c' :: _ => ceq CR c' | [] => false end) = pos_vis q.
Proof. destruct q as [|c q]; [reflexivity|]. cbn [pos_vis]. unfold is_crlf. now rewrite (ceq_sym LF), (ceq_sym CR). Qed.

Lemma display_app vis x y : display vis (x ++ y) = display vis x ++ display vis y.
Proof. destruct vis; cbn [display]; unfold visualize_whitespace, strip_crlf; [now rewrite !map_app|apply filter_app]. Qed.

Lemma visualize_length x : length (visualize_whitespace x) = length x.
Proof. unfold visualize_whitespace. now rewrite !map_length. Qed.

Lemma tabkeep_visualize x : map tabkeep (visualize_whitespace x) = map tabkeep x.
Proof.
  unfold visualize_whitespace. rewrite !map_map. apply map_ext. intros c. unfold tabkeep.
  destruct (ceq c CR) eqn:E1.
  - apply ceq_eq in E1. subst c. reflexivity.
  - destruct (ceq c LF) eqn:E2; [|reflexivity]. apply ceq_eq in E2. subst c. reflexivity.
Qed.

Lemma strip_id x : existsb (fun c => ceq c CR) x = false -> existsb is_lf x = false -> strip_crlf x = x.
Proof.
  induction x as [|c x IH]; [reflexivity|]. cbn [existsb]. intros H1 H2.
  apply orb_false_iff in H1 as [H1 H1']. apply orb_false_iff in H2 as [H2 H2']. unfold is_lf in H2.
  unfold strip_crlf. cbn [filter]. rewrite H1, H2. cbn [orb negb]. f_equal. now apply IH.
Qed.

(* outside K1 the shown prefix of the line is the prefix itself, char for char *)
Lemma aligned_prefix vis p :
  negb vis && existsb (fun c => ceq c CR) (after_last_nl p) = false ->
  length (display vis (after_last_nl p)) = length (after_last_nl p) /\
  map tabkeep (display vis (after_last_nl p)) = map tabkeep (after_last_nl p).
Proof.
  intros H. destruct vis; cbn [display].
  - split; [apply visualize_length|apply tabkeep_visualize].
  - cbn [negb andb] in H. rewrite strip_id; [auto|exact H|apply after_last_nl_has_no_lf].
Qed.

Lemma new_from_pos_correct p q msg :
  new_from_pos (p ++ q) (blen p) msg =
  Ok {| e_location := IPos (blen p); e_line_col := LPos (spec_line_col p); e_path := None;
        e_line := display (pos_vis q) (the_line p q); e_continued := None; e_message := msg |}.
Proof.
  unfold new_from_pos. rewrite !match_char_app. cbn [bind]. rewrite pos_vis_match.
  rewrite line_of_correct. cbn [bind]. rewrite line_col_correct. cbn [bind]. reflexivity.
Qed.

(* format of a position error whose line starts with the k chars before the column *)
Lemma format_pos loc path L pre rest msg :
  format {| e_location := loc; e_line_col := LPos (L, 1 + length pre); e_path := path;
            e_line := pre ++ rest; e_continued := None; e_message := msg |} =
  Ok (let sp := repeat SP (length (dec L)) in
      let pa := match path with Some x => x ++ lit ":" | None => [] end in
      sp ++ lit "--> " ++ pa ++ dec L ++ lit ":" ++ dec (1 + length pre) ++ NL ++
      sp ++ lit " |" ++ NL ++
      dec L ++ lit " | " ++ (pre ++ rest) ++ NL ++
      sp ++ lit " | " ++ map tabkeep pre ++ lit "^---" ++ NL ++
      sp ++ lit " |" ++ NL ++
      sp ++ lit " = " ++ msg).
Proof.
  unfold format, underline, e_start, spacing. cbn [e_line_col e_continued e_path e_line e_message fst snd bind].
  rewrite rsub_ok by lia. cbn [bind]. replace (1 + length pre - 1) with (length pre) by lia.
  rewrite firstn_app, Nat.sub_diag, firstn_all. cbn [firstn]. rewrite app_nil_r.
  cbn [bind]. rewrite <- !app_assoc. reflexivity.
Qed.

Theorem render_pos_path_correct path p q msg : KnownClass_pos p q = false ->
  (e <- new_from_pos (p ++ q) (blen p) msg ;;
   format (match path with Some x => with_path e x | None => e end)) = Ok (spec_pos_layout (pos_vis q) path p q msg)
  /\ text_aligned (pos_vis q) p = true.
Proof.
  intros HK. unfold KnownClass_pos in HK. destruct (aligned_prefix _ _ HK) as [Hlen Htab].
  split; [|unfold text_aligned; now apply Nat.eqb_eq].
  rewrite new_from_pos_correct. cbn [bind].
  assert (E : forall pa, format {| e_location := IPos (blen p); e_line_col := LPos (spec_line_col p); e_path := pa;
        e_line := display (pos_vis q) (the_line p q); e_continued := None; e_message := msg |}
        = Ok (spec_pos_layout (pos_vis q) pa p q msg)).
  { intros pa. unfold the_line. rewrite display_app. unfold spec_line_col. rewrite <- Hlen.
    rewrite format_pos. unfold spec_pos_layout, spec_line_col, the_line. cbn [fst snd]. rewrite Htab, display_app, Hlen.
    reflexivity. }
  destruct path as [x|]; [unfold with_path; cbn [e_location e_line_col e_line e_continued e_message]|]; apply E.
Qed.

Theorem render_pos_correct p q msg : KnownClass_pos p q = false ->
  render_pos (p ++ q) (blen p) msg = Ok (spec_pos_layout (pos_vis q) None p q msg) /\ text_aligned (pos_vis q) p = true.
Proof. intros H. exact (render_pos_path_correct None p q msg H). Qed.

(* rendering from a position never panics, known class or not *)
Theorem render_pos_no_panic p q msg : exists out, render_pos (p ++ q) (blen p) msg = Ok out.
Proof.
  unfold render_pos. rewrite new_from_pos_correct. cbn [bind].
  unfold format, underline, e_start, spacing. cbn [e_line_col e_continued e_path e_line e_message fst snd bind spec_line_col].
  rewrite rsub_ok by lia. cbn [bind]. eexists. reflexivity.
Qed.
