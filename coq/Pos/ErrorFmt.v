(* Pos/ErrorFmt.v - model of pest/src/error.rs: Error::new_from_pos, Error::new_from_span,
   start, spacing, underline, format (= Display), visualize_whitespace.
   The variant is a CustomError whose message is a parameter; `path` is the optional with_path. *)
From Coq Require Import String Ascii.
From Coq Require Import List Arith NArith Bool.
Import ListNotations.
Require Import PV.Pos.Model.
Open Scope list_scope.

Definition lit (x : string) : str := map N_of_ascii (list_ascii_of_string x).
Arguments lit x%string.

Definition VCR : char := 9229%N.   (* U+240D SYMBOL FOR CARRIAGE RETURN *)
Definition VLF : char := 9226%N.   (* U+240A SYMBOL FOR LINE FEED *)

(* input.replace('\r', "\u{240d}").replace('\n', "\u{240a}") *)
Definition visualize_whitespace (l : str) : str :=
  map (fun c => if ceq c LF then VLF else c) (map (fun c => if ceq c CR then VCR else c) l).
(* line.replace(&['\r', '\n'][..], "") *)
Definition strip_crlf (l : str) : str := filter (fun c => negb (ceq c CR || ceq c LF)) l.

(* format!("{n}") for usize *)
Fixpoint dec_aux (fuel n : nat) (acc : str) : str :=
  match fuel with
  | 0 => acc
  | S f => let acc' := (48 + N.of_nat (Nat.modulo n 10))%N :: acc in
           if Nat.eqb (Nat.div n 10) 0 then acc' else dec_aux f (Nat.div n 10) acc'
  end.
Definition dec (n : nat) : str := dec_aux (S n) n [].

(* format!("{t:w$}") for a number: right-aligned, never truncated *)
Definition pad_left (w : nat) (t : str) : str := repeat SP (w - length t) ++ t.

Inductive lcl := LPos (lc : nat * nat) | LSpan (s e : nat * nat).
Inductive iloc := IPos (p : nat) | ISpan (p : nat * nat).

Record error := {
  e_location : iloc;
  e_line_col : lcl;
  e_path : option str;
  e_line : str;
  e_continued : option str;
  e_message : str }.

Definition is_crlf (c : char) : bool := ceq c LF || ceq c CR.

Definition new_from_pos (s : str) (pos : nat) (msg : str) : res error :=
  v1 <- match_char s pos LF ;;
  v2 <- match_char s pos CR ;;
  let visualize_ws := v1 || v2 in
  lo <- line_of s pos ;;
  let line := if visualize_ws then visualize_whitespace lo else strip_crlf lo in
  lc <- line_col s pos ;;
  Ok {| e_location := IPos pos; e_line_col := LPos lc; e_path := None; e_line := line;
        e_continued := None; e_message := msg |}.

(* Which repairs of Error::new_from_span the tree carries (the driver probes the tree):
   fix_continued  fixes/C10-1-continued-line-visualize.patch: the continued line is always passed
                  through visualize_whitespace (as shipped: emitted raw when the span starts/ends with CR/LF);
   fix_eoi_line   fixes/C10-2-empty-span-at-end-line.patch: when no line meets the span (empty span at
                  the end of the input) the shown line is start_pos().line_of() (as shipped: ""). *)
Record fixes := { fix_continued : bool; fix_eoi_line : bool }.
Definition fixes_none : fixes := {| fix_continued := false; fix_eoi_line := false |}.
Definition fixes_all : fixes := {| fix_continued := true; fix_eoi_line := true |}.

Definition new_from_span (fx : fixes) (s : str) (sp : nat * nat) (msg : str) : res error :=
  let e := snd sp in
  elc <- line_col s e ;;
  elc' <- (if Nat.eqb (snd elc) 1 then
             vb <- skip_back s e 1 ;;
             lc <- line_col s (snd vb) ;;
             Ok (fst lc, snd lc + 1)
           else Ok elc) ;;
  ls <- lines s sp ;;
  sl <- (match ls with
         | x :: _ => Ok x
         | [] => if fix_eoi_line fx then line_of s (fst sp)   (* .unwrap_or_else(|| span.start_pos().line_of()) *)
                 else Ok []                                    (* .unwrap_or("") *)
         end) ;;
  txt <- span_as_str s sp ;;
  let visualize_ws :=
      match txt with
      | [] => false
      | c :: r => is_crlf c || match r with [] => false | _ => is_crlf (last r c) end
      end in
  let start_line := if visualize_ws then visualize_whitespace sl else strip_crlf sl in
  let ll := match tl ls with [] => None | x :: r => Some (last r x) end in   (* line_iter.last() *)
  let continued := if fix_continued fx then option_map visualize_whitespace ll
                   else if visualize_ws then ll else option_map visualize_whitespace ll in
  slc <- line_col s (fst sp) ;;
  Ok {| e_location := ISpan (fst sp, e); e_line_col := LSpan slc elc'; e_path := None;
        e_line := start_line; e_continued := continued; e_message := msg |}.

Definition with_path (e : error) (p : str) : error :=
  {| e_location := e_location e; e_line_col := e_line_col e; e_path := Some p; e_line := e_line e;
     e_continued := e_continued e; e_message := e_message e |}.

Definition e_start (e : error) : nat * nat :=
  match e_line_col e with LPos lc => lc | LSpan s _ => s end.

Definition spacing (e : error) : str :=
  let line := match e_line_col e with
              | LPos (l, _) => l
              | LSpan (sl, _) (el, _) => Nat.max sl el
              end in
  repeat SP (length (dec line)).

Definition CARET : char := 94%N.
Definition DASH : char := 45%N.

Definition underline (e : error) : res str :=
  let start := snd (e_start e) in
  se <- match e_line_col e with
        | LSpan _ (_, en) =>
          if Nat.ltb en start                               (* inverted_cols *)
          then st' <- rsub en 1 ;; Ok (st', Some (start + 1))   (* swap; start -= 1; end += 1 *)
          else Ok (start, Some en)
        | LPos _ => Ok (start, None)
        end ;;
  let start := fst se in
  offset <- rsub start 1 ;;
  let pad := map (fun c => if ceq c TAB then TAB else SP) (firstn offset (e_line e)) in
  match snd se with
  | Some en =>
    d <- rsub en start ;;
    Ok (pad ++ CARET :: (if Nat.ltb 1 d then repeat DASH (d - 2) ++ [CARET] else []))
  | None => Ok (pad ++ lit "^---")
  end.

Definition NL : str := [LF].

Definition format (e : error) : res str :=
  let s := spacing e in
  let w := length s in
  let p := match e_path e with Some p => p ++ lit ":" | None => [] end in
  let ls := fst (e_start e) in
  let c := snd (e_start e) in
  match e_line_col e, e_continued e with
  | LSpan _ en, Some continued_line =>
    gap <- rsub (fst en) ls ;;                               (* end.0 - self.start().0 *)
    u <- underline e ;;
    if Nat.ltb 1 gap then
      Ok (s ++ lit "--> " ++ p ++ dec ls ++ lit ":" ++ dec c ++ NL ++
          s ++ lit " |" ++ NL ++
          pad_left w (dec ls) ++ lit " | " ++ e_line e ++ NL ++
          s ++ lit " | ..." ++ NL ++
          pad_left w (dec (fst en)) ++ lit " | " ++ continued_line ++ NL ++
          s ++ lit " | " ++ u ++ NL ++
          s ++ lit " |" ++ NL ++
          s ++ lit " = " ++ e_message e)
    else
      Ok (s ++ lit "--> " ++ p ++ dec ls ++ lit ":" ++ dec c ++ NL ++
          s ++ lit " |" ++ NL ++
          pad_left w (dec ls) ++ lit " | " ++ e_line e ++ NL ++
          pad_left w (dec (fst en)) ++ lit " | " ++ continued_line ++ NL ++
          s ++ lit " | " ++ u ++ NL ++
          s ++ lit " |" ++ NL ++
          s ++ lit " = " ++ e_message e)
  | _, _ =>
    u <- underline e ;;
    Ok (s ++ lit "--> " ++ p ++ dec ls ++ lit ":" ++ dec c ++ NL ++
        s ++ lit " |" ++ NL ++
        dec ls ++ lit " | " ++ e_line e ++ NL ++
        s ++ lit " | " ++ u ++ NL ++
        s ++ lit " |" ++ NL ++
        s ++ lit " = " ++ e_message e)
  end.

(* format!("{}", Error::new_from_pos(CustomError{msg}, Position::new(s, pos).unwrap())) *)
Definition render_pos (s : str) (pos : nat) (msg : str) : res str :=
  e <- new_from_pos s pos msg ;; format e.
Definition render_span (fx : fixes) (s : str) (sp : nat * nat) (msg : str) : res str :=
  e <- new_from_span fx s sp msg ;; format e.
