(* Pos/BasicProofs.v - byte offsets, boundaries, slicing; facts on the counting specification. *)
From Coq Require Import List Arith NArith Bool Lia.
Import ListNotations.
Require Import PV.Pos.Model PV.Pos.ErrorFmt PV.Pos.Spec.
Open Scope list_scope.

Arguments Nat.sub : simpl never.
Arguments Nat.leb : simpl never.
Arguments Nat.ltb : simpl never.
Arguments Nat.eqb : simpl never.
Arguments len_utf8 : simpl never.

Lemma len_utf8_pos c : 1 <= len_utf8 c.
Proof. unfold len_utf8. repeat destruct (_ <? _)%N; lia. Qed.

Lemma blen_app p q : blen (p ++ q) = blen p + blen q.
Proof. induction p as [|c p IH]; cbn [blen app]; lia. Qed.

Lemma blen_ge_length p : length p <= blen p.
Proof. induction p as [|c p IH]; cbn [blen length]; [lia|]. pose proof (len_utf8_pos c). lia. Qed.

Lemma blen_zero p : blen p = 0 -> p = [].
Proof. destruct p as [|c p]; [reflexivity|]. cbn [blen]. pose proof (len_utf8_pos c). lia. Qed.

Lemma csub_some a b : b <= a -> csub a b = Some (a - b).
Proof. intros H. unfold csub. destruct (Nat.leb_spec b a); [reflexivity|lia]. Qed.
Lemma csub_none a b : a < b -> csub a b = None.
Proof. intros H. unfold csub. destruct (Nat.leb_spec b a); [lia|reflexivity]. Qed.
Lemma rsub_ok a b : b <= a -> rsub a b = Ok (a - b).
Proof. intros H. unfold rsub. now rewrite csub_some. Qed.

Lemma split_at_zero s : split_at s 0 = Some ([], s).
Proof. destruct s; reflexivity. Qed.

Lemma split_at_cons c r off : off <> 0 ->
  split_at (c :: r) off =
  match csub off (len_utf8 c) with
  | None => None
  | Some off' => match split_at r off' with Some (p, q) => Some (c :: p, q) | None => None end
  end.
Proof. destruct off; [congruence|reflexivity]. Qed.

Lemma split_at_app p q : split_at (p ++ q) (blen p) = Some (p, q).
Proof.
  induction p as [|c p IH]; cbn [blen app].
  - apply split_at_zero.
  - pose proof (len_utf8_pos c). rewrite split_at_cons by lia.
    rewrite csub_some by lia. replace (len_utf8 c + blen p - len_utf8 c) with (blen p) by lia.
    now rewrite IH.
Qed.

Lemma split_at_some s : forall off p q, split_at s off = Some (p, q) -> s = p ++ q /\ blen p = off.
Proof.
  induction s as [|c r IH]; intros off p q H.
  - destruct off; cbn in H; [|discriminate]. inversion H; subst. auto.
  - destruct (Nat.eq_dec off 0) as [->|Hne].
    + rewrite split_at_zero in H. inversion H; subst. auto.
    + rewrite split_at_cons in H by exact Hne. unfold csub in H.
      destruct (Nat.leb_spec (len_utf8 c) off) as [Hle|]; [|discriminate].
      destruct (split_at r (off - len_utf8 c)) as [[p' q']|] eqn:E; [|discriminate].
      inversion H; subst. destruct (IH _ _ _ E) as [-> Hb]. cbn [blen app]. split; [reflexivity|lia].
Qed.

Lemma boundary_iff s off : boundary s off <-> split_at s off <> None.
Proof.
  split.
  - intros (p & q & -> & <-). rewrite split_at_app. discriminate.
  - destruct (split_at s off) as [[p q]|] eqn:E; [|congruence]. intros _.
    destruct (split_at_some _ _ _ _ E) as [-> <-]. now exists p, q.
Qed.

Lemma boundary_le s off : boundary s off -> off <= blen s.
Proof. intros (p & q & -> & <-). rewrite blen_app. lia. Qed.

Lemma before_app p q : before (p ++ q) (blen p) = p.
Proof. unfold before. now rewrite split_at_app. Qed.
Lemma after_app p q : after (p ++ q) (blen p) = q.
Proof. unfold after. now rewrite split_at_app. Qed.

(* two decompositions of the same string *)
Lemma app_eq_blen_le : forall p1 q1 p2 q2, p1 ++ q1 = p2 ++ q2 -> blen p1 <= blen p2 ->
  exists m, p2 = p1 ++ m /\ q1 = m ++ q2.
Proof.
  induction p1 as [|c p1 IH]; intros q1 p2 q2 E L.
  - exists p2. auto.
  - destruct p2 as [|c2 p2].
    + cbn [blen] in L. pose proof (len_utf8_pos c). lia.
    + cbn [app] in E. inversion E; subst. cbn [blen] in L.
      destruct (IH q1 p2 q2 H1) as (m & -> & ->); [lia|]. exists m. auto.
Qed.

Lemma app_eq_blen_eq p1 q1 p2 q2 : p1 ++ q1 = p2 ++ q2 -> blen p1 = blen p2 -> p1 = p2 /\ q1 = q2.
Proof.
  intros E L. destruct (app_eq_blen_le p1 q1 p2 q2 E) as (m & -> & ->); [lia|].
  rewrite blen_app in L. assert (m = []) by (apply blen_zero; lia). subst. rewrite app_nil_r. auto.
Qed.

Lemma slice_app3 p m q : slice (p ++ m ++ q) (blen p) (blen p + blen m) = Some m.
Proof.
  unfold slice. rewrite split_at_app. rewrite csub_some by lia.
  replace (blen p + blen m - blen p) with (blen m) by lia. now rewrite split_at_app.
Qed.

Lemma slice_some s a b m : slice s a b = Some m ->
  exists p q, s = p ++ m ++ q /\ a = blen p /\ b = blen p + blen m.
Proof.
  unfold slice. destruct (split_at s a) as [[p r]|] eqn:E1; [|discriminate].
  unfold csub. destruct (Nat.leb_spec a b) as [Hle|]; [|discriminate].
  destruct (split_at r (b - a)) as [[m' q]|] eqn:E2; [|discriminate].
  intros H; inversion H; subst m'.
  destruct (split_at_some _ _ _ _ E1) as [-> <-]. destruct (split_at_some _ _ _ _ E2) as [-> Hb].
  exists p, q. repeat split; lia.
Qed.

Lemma slice_iff s a b : slice s a b <> None <-> a <= b /\ boundary s a /\ boundary s b.
Proof.
  split.
  - destruct (slice s a b) as [m|] eqn:E; [|congruence]. intros _.
    destruct (slice_some _ _ _ _ E) as (p & q & -> & -> & ->). split; [lia|]. split.
    + now exists p, (m ++ q).
    + exists (p ++ m), q. rewrite blen_app, <- app_assoc. auto.
  - intros (L & (p1 & q1 & -> & <-) & (p2 & q2 & E & <-)).
    destruct (app_eq_blen_le _ _ _ _ E L) as (m & -> & ->).
    rewrite blen_app, slice_app3. discriminate.
Qed.

(* ---------------------------------------------------------------- counting specification *)

Lemma is_lf_LF : is_lf LF = true. Proof. reflexivity. Qed.

Lemma count_nl_cons c p : count_nl (c :: p) = (if is_lf c then 1 else 0) + count_nl p.
Proof. unfold count_nl. cbn [filter]. destruct (is_lf c); reflexivity. Qed.
Lemma count_nl_app p q : count_nl (p ++ q) = count_nl p + count_nl q.
Proof. unfold count_nl. now rewrite filter_app, app_length. Qed.

Lemma after_last_nl_nolf p : existsb is_lf p = false -> after_last_nl p = p.
Proof. destruct p as [|c p]; [reflexivity|]. intros H. cbn [after_last_nl]. now rewrite H. Qed.

Lemma after_last_nl_cons c p :
  after_last_nl (c :: p) = if existsb is_lf (c :: p) then after_last_nl p else c :: p.
Proof. reflexivity. Qed.

Lemma after_last_nl_has_no_lf p : existsb is_lf (after_last_nl p) = false.
Proof.
  induction p as [|c p IH]; [reflexivity|]. rewrite after_last_nl_cons.
  destruct (existsb is_lf (c :: p)) eqn:E; [exact IH|exact E].
Qed.

(* p = (everything through the last LF) ++ after_last_nl p *)
Lemma after_last_nl_suffix p : exists p1, p = p1 ++ after_last_nl p /\
  (existsb is_lf p = true -> exists p0, p1 = p0 ++ [LF]) /\ (existsb is_lf p = false -> p1 = []).
Proof.
  induction p as [|c p IH].
  - exists []. split; [reflexivity|]. split; [discriminate|reflexivity].
  - rewrite after_last_nl_cons. destruct (existsb is_lf (c :: p)) eqn:E.
    + destruct IH as (p1 & Hp & Hy & Hn). exists (c :: p1). split; [cbn [app]; congruence|]. split; [|discriminate].
      intros _. destruct (existsb is_lf p) eqn:E2.
      * destruct (Hy eq_refl) as (p0 & ->). now exists (c :: p0).
      * rewrite (Hn eq_refl). cbn [existsb] in E. rewrite E2, orb_false_r in E.
        exists []. cbn [app]. f_equal. unfold is_lf, ceq in E. now apply N.eqb_eq in E.
    + exists []. split; [reflexivity|]. split; [discriminate|reflexivity].
Qed.

Lemma after_last_nl_app_lf p : after_last_nl (p ++ [LF]) = [].
Proof.
  induction p as [|c p IH]; [reflexivity|]. cbn [app]. rewrite after_last_nl_cons.
  replace (existsb is_lf (c :: p ++ [LF])) with true; [exact IH|].
  symmetry. cbn [existsb]. rewrite existsb_app. cbn. now rewrite !orb_true_r.
Qed.

Lemma after_last_nl_app p x : existsb is_lf x = false -> after_last_nl (p ++ x) = after_last_nl p ++ x.
Proof.
  intros Hx. induction p as [|c p IH]; cbn [app].
  - now rewrite after_last_nl_nolf.
  - rewrite !after_last_nl_cons. cbn [existsb]. rewrite existsb_app, Hx, orb_false_r.
    destruct (is_lf c || existsb is_lf p); [exact IH|reflexivity].
Qed.

Lemma after_last_nl_app_has p x : existsb is_lf x = true -> after_last_nl (p ++ x) = after_last_nl x.
Proof.
  intros Hx. induction p as [|c p IH]; cbn [app]; [reflexivity|].
  rewrite after_last_nl_cons. cbn [existsb]. rewrite existsb_app, Hx, !orb_true_r. exact IH.
Qed.

Lemma line_start_le p : line_start p <= blen p.
Proof. unfold line_start. lia. Qed.

Lemma blen_after_le p : blen (after_last_nl p) <= blen p.
Proof. destruct (after_last_nl_suffix p) as (p1 & E & _). apply (f_equal blen) in E. rewrite blen_app in E. lia. Qed.

Lemma line_start_decomp p : exists p1, p = p1 ++ after_last_nl p /\ blen p1 = line_start p.
Proof.
  destruct (after_last_nl_suffix p) as (p1 & E & _). exists p1. split; [exact E|].
  unfold line_start. apply (f_equal blen) in E. rewrite blen_app in E. lia.
Qed.

Lemma upto_nl_prefix q : exists q2, q = upto_nl q ++ q2.
Proof.
  induction q as [|c q IH]; [now exists []|]. cbn [upto_nl]. destruct (is_lf c).
  - now exists q.
  - destruct IH as (q2 & E). exists q2. cbn [app]. congruence.
Qed.

Lemma upto_nl_nonempty q : q <> [] -> upto_nl q <> [].
Proof. destruct q as [|c q]; [congruence|]. intros _. cbn [upto_nl]. destruct (is_lf c); discriminate. Qed.
