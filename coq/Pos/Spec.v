(* Pos/Spec.v - the declarative side of C10: what line, column, "the line containing an
   offset", "the lines meeting a span" and a correct error rendering ARE, by counting, without
   reference to how pest computes them (DESIGN.md section 2: a line ends at LF; CR LF is one
   terminator because only its LF counts; a lone CR is an ordinary column; columns count chars,
   offsets count bytes).

   A boundary offset of s is given by a decomposition s = p ++ q (offset = blen p); an ordered
   pair of boundary offsets by s = p ++ m ++ q (a = blen p, b = blen p + blen m). *)
From Coq Require Import String.
From Coq Require Import List Arith NArith Bool.
Import ListNotations.
Require Import PV.Pos.Model PV.Pos.ErrorFmt.
Open Scope list_scope.

Definition boundary (s : str) (off : nat) : Prop := exists p q, s = p ++ q /\ blen p = off.

Definition is_lf (c : char) : bool := ceq c LF.

(* number of newline-terminated lines in p *)
Definition count_nl (p : str) : nat := length (filter is_lf p).
(* what follows the last LF of p (all of p when it has none): drop chars while a LF remains *)
Fixpoint after_last_nl (p : str) : str :=
  match p with
  | [] => []
  | c :: r => if existsb is_lf p then after_last_nl r else p
  end.
(* q up to and including its first LF (all of q when it has none) *)
Fixpoint upto_nl (q : str) : str :=
  match q with
  | [] => []
  | c :: r => if is_lf c then [c] else c :: upto_nl r
  end.

Definition spec_line_col (p : str) : nat * nat := (1 + count_nl p, 1 + length (after_last_nl p)).

(* the maximal LF-delimited segment (terminator included) that contains the offset *)
Definition the_line (p q : str) : str := after_last_nl p ++ upto_nl q.
Definition line_start (p : str) : nat := blen p - blen (after_last_nl p).
Definition line_end (p q : str) : nat := blen p + blen (upto_nl q).

(* byte ranges of the lines of s (each with its terminator; no empty line after a final LF) *)
Fixpoint line_ranges_from (start cur : nat) (s : str) : list (nat * nat) :=
  match s with
  | [] => if Nat.eqb cur start then [] else [(start, cur)]
  | c :: r => let cur' := cur + len_utf8 c in
              if is_lf c then (start, cur') :: line_ranges_from cur' cur' r
              else line_ranges_from start cur' r
  end.
Definition line_ranges (s : str) : list (nat * nat) := line_ranges_from 0 0 s.

(* DESIGN.md section 2: the lines whose (non-empty) range [ls, le) meets the closed interval [a, b] *)
Definition meets (a b : nat) (r : nat * nat) : bool := Nat.leb (fst r) b && Nat.ltb a (snd r).
Definition lines_meeting (s : str) (a b : nat) : list (nat * nat) := filter (meets a b) (line_ranges s).

(* ------------------------------------------------------------------ rendering *)

(* how a line's text may be shown: CR/LF removed, or made visible *)
Definition display (vis : bool) (l : str) : str := if vis then visualize_whitespace l else strip_crlf l.
Definition tabkeep (c : char) : char := if ceq c TAB then TAB else SP.

Definition pos_vis (q : str) : bool := match q with c :: _ => is_crlf c | [] => false end.

(* the complete expected rendering of an error at offset blen p of p ++ q:
   header with line:column, the line number and that line's text (CR/LF stripped, or visualised:
   `vis`), and a marker whose `^` is preceded by exactly one blank (or tab) per char before the
   offset in its line *)
Definition spec_pos_layout (vis : bool) (path : option str) (p q msg : str) : str :=
  let L := fst (spec_line_col p) in
  let C := snd (spec_line_col p) in
  let sp := repeat SP (length (dec L)) in
  let pa := match path with Some x => x ++ lit ":" | None => [] end in
  sp ++ lit "--> " ++ pa ++ dec L ++ lit ":" ++ dec C ++ NL ++
  sp ++ lit " |" ++ NL ++
  dec L ++ lit " | " ++ display vis (the_line p q) ++ NL ++
  sp ++ lit " | " ++ map tabkeep (after_last_nl p) ++ lit "^---" ++ NL ++
  sp ++ lit " |" ++ NL ++
  sp ++ lit " = " ++ msg.

(* the marker is under the char at the offset: the shown text keeps one char per char of the
   part of the line before the offset *)
Definition text_aligned (vis : bool) (p : str) : bool :=
  Nat.eqb (length (display vis (after_last_nl p))) (length (after_last_nl p)).

Definition error_render_ok (p q : str) : Prop :=
  forall msg, exists vis,
    render_pos (p ++ q) (blen p) msg = Ok (spec_pos_layout vis None p q msg) /\
    text_aligned vis p = true.

(* Known class (finding C10-K1): a lone CR before the offset in its line is counted as a column
   but removed from the shown text (only when the text is not visualised) *)
Definition KnownClass_pos (p q : str) : bool :=
  negb (pos_vis q) && existsb (fun c => ceq c CR) (after_last_nl p).

(* ---- spans *)

Definition span_vis (m : str) : bool :=
  match m with [] => false | c :: r => is_crlf c || is_crlf (last r c) end.

Fixpoint eqs (x y : str) : bool :=
  match x, y with
  | [], [] => true
  | a :: x', b :: y' => ceq a b && eqs x' y'
  | _, _ => false
  end.

Fixpoint split_rows_acc (cur : str) (s : str) : list str :=
  match s with
  | [] => [rev cur]
  | c :: r => if is_lf c then rev cur :: split_rows_acc [] r else split_rows_acc (c :: cur) r
  end.
Definition split_rows (s : str) : list str := split_rows_acc [] s.

Fixpoint leading_sp (s : str) : nat :=
  match s with c :: r => if ceq c SP then S (leading_sp r) else 0 | [] => 0 end.

Definition row (rows : list str) (i : nat) : str := nth i rows [].

(* What a rendered span error must show (checked on the output text `out`, split into rows):
   first three rows: header `--> L:C` with the line and column of the START offset, a separator, the
     start line's number and text;   last three rows: marker, separator, message;
   the marker has its `^` under column C (the first `^`, preceded by blanks/tabs copied from the
     text; for a multi-line span whose end column is smaller, the LAST `^`);
   in between: nothing when at most one line meets the span; otherwise one row with the number and
     text of the LAST line meeting the span, preceded by a `...` row exactly when lines are skipped. *)
Definition span_shows_as (vis : bool) (p m q msg out : str) : bool :=
  let s := p ++ m ++ q in
  let L := fst (spec_line_col p) in
  let C := snd (spec_line_col p) in
  let text := display vis (the_line p (m ++ q)) in
  let meet := lines_meeting s (blen p) (blen p + blen m) in
  match rev (split_rows out) with
  | msg_row :: sep2 :: marker_row :: rfront =>
    match rev rfront with
    | header :: sep1 :: start_row :: middle =>
      let w := leading_sp header in
      let sp := repeat SP w in
      let u := skipn (w + 3) marker_row in
      eqs header (sp ++ lit "--> " ++ dec L ++ lit ":" ++ dec C) &&
      eqs sep1 (sp ++ lit " |") &&
      eqs start_row (pad_left w (dec L) ++ lit " | " ++ text) &&
      eqs sep2 (sp ++ lit " |") &&
      eqs msg_row (sp ++ lit " = " ++ msg) &&
      eqs (firstn (w + 3) marker_row) (sp ++ lit " | ") &&
      text_aligned vis p &&
      (eqs (firstn C u) (map tabkeep (firstn (C - 1) text) ++ [CARET])
       || (Nat.leb 2 (length meet) && Nat.eqb (length u) C && ceq (last u SP) CARET)) &&
      match meet with
      | [] | [_] => match middle with [] => true | _ => false end
      | r0 :: rest =>
        let r2 := last rest r0 in
        let L2 := L + length rest in
        match slice s (fst r2) (snd r2) with
        | None => false
        | Some line2 =>
          let cont_ok := fun c : str =>
            Nat.leb (length (dec L2)) w &&   (* the number fits the gutter: all `|` in one column *)
            (eqs c (pad_left w (dec L2) ++ lit " | " ++ display false line2) ||
             eqs c (pad_left w (dec L2) ++ lit " | " ++ display true line2)) in
          match middle with
          | [c] => negb (Nat.ltb 1 (length rest)) && cont_ok c
          | [dots; c] => Nat.ltb 1 (length rest) && eqs dots (sp ++ lit " | ...") && cont_ok c
          | _ => false
          end
        end
      end
    | _ => false
    end
  | _ => false
  end.

(* the text may be shown stripped or visualised *)
Definition span_shows (p m q msg out : str) : bool :=
  span_shows_as true p m q msg out || span_shows_as false p m q msg out.

Definition no_lf (t : str) : Prop := existsb is_lf t = false.

Definition span_render_ok (fx : fixes) (p m q : str) : Prop :=
  forall msg, no_lf msg ->
    exists out, render_span fx (p ++ m ++ q) (blen p, blen p + blen m) msg = Ok out /\
                span_shows p m q msg out = true.

(* Known classes of the span rendering (findings C10-K1 .. C10-K4):
   K1 a lone CR before the start offset in its line, removed from the shown text;
   K2 (only without fix_continued, i.e. without fixes/C10-1-continued-line-visualize.patch)
      the text is visualised (span starts/ends with CR or LF) and a further line is shown: that
      line is emitted raw, with its CR/LF, which breaks the row layout;
   K3 the span ends right after a LF and text follows: the following line is shown, labelled with
      the number of the line before it;
   K4 (only without fix_eoi_line, i.e. without fixes/C10-2-empty-span-at-end-line.patch)
      the empty span at the end of an input whose last line is not empty: no text is shown and the
      marker is not under the reported column. *)
Definition has_crlf (t : str) : bool := existsb is_crlf t.
Definition ends_lf (m : str) : bool := match m with [] => false | c :: r => is_lf (last r c) end.
Definition KnownClass_span (fx : fixes) (p m q : str) : bool :=
  let s := p ++ m ++ q in
  let meet := lines_meeting s (blen p) (blen p + blen m) in
  (negb (span_vis m) && existsb (fun c => ceq c CR) (after_last_nl p))
  || (negb (fix_continued fx) && span_vis m && match meet with
                    | r0 :: r1 :: rest =>
                      match slice s (fst (last rest r1)) (snd (last rest r1)) with
                      | Some l2 => has_crlf l2 | None => false end
                    | _ => false end)
  || (ends_lf m && negb (match q with [] => true | _ => false end))
  || (negb (fix_eoi_line fx) &&
      match m, q with [], [] => negb (match after_last_nl p with [] => true | _ => false end) | _, _ => false end).

(* ------------------------------------------------------------------ runner entry points
   (the specification oracle of the correspondence runs these on the REAL output) *)
Definition before (s : str) (off : nat) : str := match split_at s off with Some (p, _) => p | None => [] end.
Definition after (s : str) (off : nat) : str := match split_at s off with Some (_, q) => q | None => [] end.
Definition ordered_boundaries (s : str) (a b : nat) : bool :=
  Nat.leb a b && match split_at s a, split_at s b with Some _, Some _ => true | _, _ => false end.
Definition pos_render_okb (p q msg out : str) : bool :=
  (eqs out (spec_pos_layout true None p q msg) && text_aligned true p) ||
  (eqs out (spec_pos_layout false None p q msg) && text_aligned false p).
