(* Pos/SpanLayoutProofs.v - Error::new_from_span + format shows the line number, the line text and
   a marker under the column (Spec.span_shows), for every string and ordered boundary pair outside
   the known classes K1..K4. *)
From Coq Require Import String.
From Coq Require Import List Arith NArith Bool Lia.
Import ListNotations.
Require Import PV.Pos.Model PV.Pos.ErrorFmt PV.Pos.Spec PV.Pos.BasicProofs PV.Pos.LineColProofs
               PV.Pos.LinesProofs PV.Pos.ErrorProofs PV.Pos.SpanProofs.
Open Scope list_scope.

Arguments Nat.sub : simpl never.
Arguments Nat.leb : simpl never.
Arguments Nat.ltb : simpl never.
Arguments Nat.eqb : simpl never.
Arguments Nat.max : simpl never.
Arguments len_utf8 : simpl never.
Arguments lit : simpl never.
Arguments dec : simpl never.
Arguments pad_left : simpl never.
Arguments display : simpl never.

(* ---------------------------------------------------------------- rows without LF *)

Lemma no_lf_app x y : no_lf x -> no_lf y -> no_lf (x ++ y).
Proof. unfold no_lf. intros Hx Hy. now rewrite existsb_app, Hx, Hy. Qed.

Lemma no_lf_repeat c w : is_lf c = false -> no_lf (repeat c w).
Proof. intros H. unfold no_lf. induction w as [|w IH]; [reflexivity|]. cbn [repeat existsb]. now rewrite H, IH. Qed.

Lemma no_lf_cons c x : is_lf c = false -> no_lf x -> no_lf (c :: x).
Proof. unfold no_lf. intros H1 H2. cbn [existsb]. now rewrite H1, H2. Qed.

Lemma digit_not_lf k : is_lf (48 + k)%N = false.
Proof. unfold is_lf, ceq. apply N.eqb_neq. unfold LF. lia. Qed.

Lemma dec_aux_no_lf : forall fuel n acc, no_lf acc -> no_lf (dec_aux fuel n acc).
Proof.
  induction fuel as [|f IH]; intros n acc H; [exact H|]. cbn [dec_aux].
  assert (H' : no_lf ((48 + N.of_nat (Nat.modulo n 10))%N :: acc)) by (apply no_lf_cons; [apply digit_not_lf|exact H]).
  destruct (Nat.eqb (Nat.div n 10) 0); [exact H'|apply IH; exact H'].
Qed.

Lemma no_lf_dec n : no_lf (dec n).
Proof. unfold dec. apply dec_aux_no_lf. reflexivity. Qed.

Lemma no_lf_visualize x : no_lf (visualize_whitespace x).
Proof.
  unfold no_lf, visualize_whitespace. induction x as [|c x IH]; [reflexivity|]. cbn [map existsb]. rewrite IH, orb_false_r.
  destruct (ceq c CR) eqn:E1; [reflexivity|]. destruct (ceq c LF) eqn:E2; [reflexivity|]. exact E2.
Qed.

Lemma no_lf_strip x : no_lf (strip_crlf x).
Proof.
  unfold no_lf, strip_crlf. induction x as [|c x IH]; [reflexivity|]. cbn [filter].
  destruct (ceq c CR) eqn:E1; cbn [orb negb]; [exact IH|]. destruct (ceq c LF) eqn:E2; cbn [negb]; [exact IH|].
  cbn [existsb]. unfold is_lf at 1. now rewrite E2, IH.
Qed.

Lemma no_lf_display vis x : no_lf (display vis x).
Proof. destruct vis; [apply no_lf_visualize|apply no_lf_strip]. Qed.

Lemma no_lf_tabkeep x : no_lf (map tabkeep x).
Proof.
  unfold no_lf. induction x as [|c x IH]; [reflexivity|]. cbn [map existsb]. rewrite IH, orb_false_r.
  unfold tabkeep. destruct (ceq c TAB); reflexivity.
Qed.

Lemma no_lf_pad_left w t : no_lf t -> no_lf (pad_left w t).
Proof. intros H. unfold pad_left. apply no_lf_app; [apply no_lf_repeat; reflexivity|exact H]. Qed.

Lemma no_lf_lit_arrow : no_lf (lit "--> "). Proof. reflexivity. Qed.
Lemma no_lf_lit_colon : no_lf (lit ":"). Proof. reflexivity. Qed.
Lemma no_lf_lit_bar : no_lf (lit " |"). Proof. reflexivity. Qed.
Lemma no_lf_lit_bar_sp : no_lf (lit " | "). Proof. reflexivity. Qed.
Lemma no_lf_lit_dots : no_lf (lit " | ..."). Proof. reflexivity. Qed.
Lemma no_lf_lit_eq : no_lf (lit " = "). Proof. reflexivity. Qed.

Lemma no_lf_no_crlf x : has_crlf x = false -> no_lf x.
Proof.
  unfold has_crlf, no_lf. induction x as [|c x IH]; [reflexivity|]. cbn [existsb]. intros H.
  apply orb_false_iff in H as [Hc Hx]. unfold is_crlf in Hc. apply orb_false_iff in Hc as [Hc _].
  unfold is_lf at 1. now rewrite Hc, IH.
Qed.

(* ---------------------------------------------------------------- split_rows inverts join *)

Fixpoint join (rows : list str) : str :=
  match rows with
  | [] => []
  | r :: rs => match rs with [] => r | _ => r ++ NL ++ join rs end
  end.

Lemma split_rows_acc_row : forall r cur rest, no_lf r ->
  split_rows_acc cur (r ++ LF :: rest) = (rev cur ++ r) :: split_rows_acc [] rest.
Proof.
  induction r as [|c r IH]; intros cur rest H.
  - cbn [app split_rows_acc]. rewrite is_lf_LF. now rewrite app_nil_r.
  - unfold no_lf in H. cbn [existsb] in H. apply orb_false_iff in H as [Hc Hr].
    cbn [app split_rows_acc]. rewrite Hc. rewrite IH by exact Hr. cbn [rev]. now rewrite <- app_assoc.
Qed.

Lemma split_rows_acc_last : forall r cur, no_lf r -> split_rows_acc cur r = [rev cur ++ r].
Proof.
  induction r as [|c r IH]; intros cur H.
  - cbn [split_rows_acc]. now rewrite app_nil_r.
  - unfold no_lf in H. cbn [existsb] in H. apply orb_false_iff in H as [Hc Hr].
    cbn [split_rows_acc]. rewrite Hc. rewrite IH by exact Hr. cbn [rev]. now rewrite <- app_assoc.
Qed.

Lemma split_rows_join : forall rows, rows <> [] -> Forall no_lf rows -> split_rows (join rows) = rows.
Proof.
  induction rows as [|r rs IH]; intros Hne Hf; [congruence|]. inversion Hf as [|? ? Hr Hrs]; subst.
  cbn [join]. destruct rs as [|r2 rs'].
  - unfold split_rows. now rewrite split_rows_acc_last.
  - unfold split_rows, NL. cbn [app]. rewrite split_rows_acc_row by exact Hr. cbn [rev app].
    f_equal. apply IH; [discriminate|exact Hrs].
Qed.

(* ---------------------------------------------------------------- small list facts *)

Lemma eqs_refl x : eqs x x = true.
Proof. induction x as [|c x IH]; [reflexivity|]. cbn [eqs]. now rewrite ceq_refl, IH. Qed.

Lemma eqs_app_prefix x a b : eqs (x ++ a) (x ++ b) = eqs a b.
Proof. induction x as [|c x IH]; [reflexivity|]. cbn [app eqs]. now rewrite ceq_refl, IH. Qed.

Lemma lit_arrow : lit "--> " = [45; 45; 62; 32]%N. Proof. reflexivity. Qed.

Lemma leading_sp_header w x : leading_sp (repeat SP w ++ lit "--> " ++ x) = w.
Proof. induction w as [|w IH]; [now rewrite lit_arrow|]. cbn [repeat app leading_sp]. now rewrite ceq_refl, IH. Qed.

Lemma length_sp_bar w : length (repeat SP w ++ lit " | ") = w + 3.
Proof. rewrite app_length, repeat_length. reflexivity. Qed.

Lemma firstn_prefix {A} (x y : list A) n : n = length x -> firstn n (x ++ y) = x.
Proof. intros ->. rewrite firstn_app, Nat.sub_diag, firstn_all. cbn [firstn]. apply app_nil_r. Qed.

Lemma skipn_prefix {A} (x y : list A) n : n = length x -> skipn n (x ++ y) = y.
Proof. intros ->. rewrite skipn_app, Nat.sub_diag, skipn_all. reflexivity. Qed.

Lemma last_snoc {A} (x : list A) c d : last (x ++ [c]) d = c.
Proof. induction x as [|a x IH]; [reflexivity|]. cbn [app]. destruct (x ++ [c]) eqn:E; [now apply app_eq_nil in E as [_ E]|]. exact IH. Qed.

Lemma pad_left_exact t : pad_left (length t) t = t.
Proof. unfold pad_left. now rewrite Nat.sub_diag. Qed.

Lemma last_cons_default {A} (c : A) r d : last (c :: r) d = last r c.
Proof. revert c. induction r as [|c2 r IH]; intros c; [reflexivity|]. cbn [last]. cbn [last] in IH. destruct r; [reflexivity|]. apply IH. Qed.

(* ---------------------------------------------------------------- how many lines meet a span *)

Lemma ends_lf_snoc m0 c : ends_lf (m0 ++ [c]) = is_lf c.
Proof. unfold ends_lf. destruct (m0 ++ [c]) as [|c0 r] eqn:E; [now apply app_eq_nil in E as [_ E]|]. rewrite <- last_cons_default with (d := c0). rewrite <- E. now rewrite last_snoc. Qed.

Lemma ends_lf_nolf x : existsb is_lf x = false -> ends_lf x = false.
Proof.
  induction x as [|c x _] using rev_ind; [reflexivity|]. rewrite existsb_app. cbn [existsb]. intros H.
  apply orb_false_iff in H as [_ H]. rewrite orb_false_r in H. now rewrite ends_lf_snoc.
Qed.

Lemma ends_lf_app_cons x1 c x2 : ends_lf (x1 ++ c :: x2) = ends_lf (c :: x2).
Proof.
  induction x2 as [|c2 x2 _] using rev_ind.
  - rewrite (ends_lf_snoc x1 c). reflexivity.
  - replace (x1 ++ c :: x2 ++ [c2]) with ((x1 ++ c :: x2) ++ [c2]) by (now rewrite <- app_assoc).
    replace (c :: x2 ++ [c2]) with ((c :: x2) ++ [c2]) by reflexivity. now rewrite !ends_lf_snoc.
Qed.

Lemma ends_lf_lf_cons x2 : x2 <> [] -> ends_lf (LF :: x2) = ends_lf x2.
Proof. destruct x2 as [|c r]; [congruence|]. intros _. unfold ends_lf. now rewrite last_cons_default. Qed.

Lemma count_nl_nolf x : existsb is_lf x = false -> count_nl x = 0.
Proof.
  induction x as [|c x IH]; [reflexivity|]. cbn [existsb]. intros H. apply orb_false_iff in H as [Hc Hx].
  rewrite count_nl_cons, Hc. now rewrite IH.
Qed.

Lemma first_lf_split x : existsb is_lf x = true -> exists x1 x2, x = x1 ++ LF :: x2 /\ existsb is_lf x1 = false.
Proof.
  induction x as [|c x IH]; [discriminate|]. cbn [existsb]. destruct (is_lf c) eqn:E.
  - intros _. exists [], x. unfold is_lf in E. apply ceq_eq in E. subst. auto.
  - cbn [orb]. intros H. destruct (IH H) as (x1 & x2 & -> & H1). exists (c :: x1), x2. split; [reflexivity|].
    cbn [existsb]. now rewrite E, H1.
Qed.

Lemma upto_nl_app_nolf x y : existsb is_lf x = false -> upto_nl (x ++ y) = x ++ upto_nl y.
Proof.
  induction x as [|c x IH]; [reflexivity|]. cbn [existsb]. intros H. apply orb_false_iff in H as [Hc Hx].
  cbn [app upto_nl]. rewrite Hc. now rewrite IH.
Qed.

Lemma drop_line_app_nolf x y : existsb is_lf x = false -> drop_line (x ++ y) = drop_line y.
Proof.
  induction x as [|c x IH]; [reflexivity|]. cbn [existsb]. intros H. apply orb_false_iff in H as [Hc Hx].
  cbn [app drop_line]. rewrite Hc. now apply IH.
Qed.

Lemma ranges_snd_gt : forall q st cur, q <> [] -> Forall (fun r => cur < snd r) (line_ranges_from st cur q).
Proof.
  induction q as [|c q IH]; intros st cur H; [congruence|]. cbn [line_ranges_from].
  pose proof (len_utf8_pos c) as Hc. destruct q as [|c2 q'].
  - destruct (is_lf c).
    + rewrite ranges_nil. constructor; [cbn; lia|constructor].
    + cbn [line_ranges_from]. destruct (Nat.eqb (cur + len_utf8 c) st); constructor; [cbn; lia|constructor].
  - assert (Hne : c2 :: q' <> []) by discriminate. destruct (is_lf c).
    + constructor; [cbn; lia|]. eapply Forall_impl; [|apply IH; exact Hne]. cbn beta. intros; lia.
    + eapply Forall_impl; [|apply IH; exact Hne]. cbn beta. intros; lia.
Qed.

Definition is_nil (y : str) : bool := match y with [] => true | _ => false end.

(* lines of x ++ y (read from offset cur, current line started at st) that start at or before
   the end of x *)
Lemma count_starts : forall n x y st cur, length x <= n -> st <= cur -> x ++ y <> [] ->
  length (filter (fun r => Nat.leb (fst r) (cur + blen x)) (line_ranges_from st cur (x ++ y))) =
  1 + count_nl x - (if ends_lf x && is_nil y then 1 else 0).
Proof.
  induction n as [|n IH]; intros x y st cur Hn Hst Hne.
  - destruct x; [|cbn in Hn; lia]. cbn [app] in *. cbn [blen count_nl ends_lf andb]. rewrite Nat.add_0_r.
    rewrite ranges_step by assumption. cbn [filter fst].
    replace (Nat.leb st cur) with true by (symmetry; apply Nat.leb_le; lia). cbn [length].
    rewrite filter_none; [reflexivity|].
    eapply Forall_impl; [|apply ranges_fst_ge; lia]. cbn beta. intros r Hr. apply Nat.leb_gt.
    pose proof (upto_nl_blen_pos' y Hne). lia.
  - rewrite ranges_step by assumption. cbn [filter fst].
    replace (Nat.leb st (cur + blen x)) with true by (symmetry; apply Nat.leb_le; lia). cbn [length].
    destruct (existsb is_lf x) eqn:E.
    + destruct (first_lf_split x E) as (x1 & x2 & -> & Hx1).
      assert (Eu : upto_nl ((x1 ++ LF :: x2) ++ y) = x1 ++ [LF]).
      { rewrite <- app_assoc. cbn [app]. rewrite upto_nl_app_nolf by exact Hx1. cbn [upto_nl]. now rewrite is_lf_LF. }
      assert (Ed : drop_line ((x1 ++ LF :: x2) ++ y) = x2 ++ y).
      { rewrite <- app_assoc. cbn [app]. rewrite drop_line_app_nolf by exact Hx1. cbn [drop_line]. now rewrite is_lf_LF. }
      rewrite Eu, Ed. rewrite !blen_app. cbn [blen]. rewrite len_LF.
      rewrite count_nl_app, count_nl_cons, is_lf_LF, (count_nl_nolf x1 Hx1), ends_lf_app_cons.
      destruct (x2 ++ y) as [|c0 r0] eqn:E2.
      * apply app_eq_nil in E2 as [-> ->]. rewrite ranges_nil. cbn [filter length count_nl]. reflexivity.
      * rewrite <- E2. replace (cur + (blen x1 + (1 + blen x2))) with (cur + (blen x1 + (1 + 0)) + blen x2) by lia.
        rewrite IH.
        -- assert (Hd : ends_lf (LF :: x2) && is_nil y = ends_lf x2 && is_nil y).
           { destruct y; [|now rewrite !andb_false_r]. destruct x2 as [|c2 x2']; [now rewrite app_nil_r in E2|].
             now rewrite ends_lf_lf_cons by discriminate. }
           rewrite Hd. destruct (ends_lf x2 && is_nil y) eqn:Ee; [|lia].
           (* x2 ends with LF: it has at least one *)
           assert (1 <= count_nl x2); [|lia].
           apply andb_true_iff in Ee as [Ee _]. destruct (existsb is_lf x2) eqn:E3.
           ++ destruct (first_lf_split x2 E3) as (y1 & y2 & -> & _). rewrite count_nl_app, count_nl_cons, is_lf_LF. lia.
           ++ rewrite ends_lf_nolf in Ee by exact E3. discriminate.
        -- rewrite app_length in Hn. cbn [length] in Hn. lia.
        -- lia.
        -- rewrite E2. discriminate.
    + rewrite upto_nl_app_nolf, drop_line_app_nolf by exact E. rewrite (count_nl_nolf x E), (ends_lf_nolf x E).
      cbn [andb]. rewrite blen_app. rewrite filter_none; [reflexivity|].
      destruct y as [|c0 y'].
      * cbn [drop_line]. rewrite ranges_nil. constructor.
      * eapply Forall_impl; [|apply ranges_fst_ge; lia]. cbn beta. intros r Hr. apply Nat.leb_gt.
        assert (1 <= blen (upto_nl (c0 :: y'))) by (apply upto_nl_blen_pos'; discriminate). lia.
Qed.

Lemma meet_cons p m q : m ++ q <> [] ->
  meet_of p m q =
  (line_start p, line_end p (m ++ q)) ::
  filter (meets (blen p) (blen p + blen m))
         (line_ranges_from (line_end p (m ++ q)) (line_end p (m ++ q)) (drop_line (m ++ q))).
Proof.
  intros Hne. unfold meet_of. rewrite lines_meeting_from by lia.
  rewrite ranges_step by (try exact Hne; apply line_start_le). cbn [filter]. unfold meets at 1. cbn [fst snd].
  pose proof (line_start_le p). pose proof (upto_nl_blen_pos' (m ++ q) Hne).
  replace (Nat.leb (line_start p) (blen p + blen m)) with true by (symmetry; apply Nat.leb_le; lia).
  replace (Nat.ltb (blen p) (blen p + blen (upto_nl (m ++ q)))) with true by (symmetry; apply Nat.ltb_lt; lia).
  reflexivity.
Qed.

Lemma meet_nil p : meet_of p [] [] = [].
Proof.
  unfold meet_of. cbn [app blen]. rewrite Nat.add_0_r, lines_meeting_from by lia. cbn [line_ranges_from].
  destruct (Nat.eqb (blen p) (line_start p)); [reflexivity|]. cbn [filter]. unfold meets. cbn [fst snd].
  replace (Nat.ltb (blen p) (blen p)) with false by (symmetry; apply Nat.ltb_ge; lia). now rewrite andb_false_r.
Qed.

Lemma meet_length p m q : m ++ q <> [] ->
  length (meet_of p m q) = 1 + count_nl m - (if ends_lf m && is_nil q then 1 else 0).
Proof.
  intros Hne. unfold meet_of. rewrite lines_meeting_from by lia.
  rewrite <- (count_starts (length m) m q (line_start p) (blen p)); [|lia|apply line_start_le|exact Hne].
  f_equal. apply filter_ext_in. intros r Hr. unfold meets.
  pose proof (ranges_snd_gt (m ++ q) (line_start p) (blen p) Hne) as Hs. rewrite Forall_forall in Hs.
  specialize (Hs r Hr). replace (Nat.ltb (blen p) (snd r)) with true by (symmetry; apply Nat.ltb_lt; lia).
  apply andb_true_r.
Qed.

Lemma meet_valid p m q : Forall (fun r => slice (p ++ m ++ q) (fst r) (snd r) <> None) (meet_of p m q).
Proof. pose proof (lines_span_correct p m q) as H. unfold lines_span in H. eapply collect_valid. exact H. Qed.

Lemma head_text p r : text_of (p ++ r) (line_start p, line_end p r) = the_line p r.
Proof.
  destruct (the_line_decomp p r) as (p1 & q2 & _ & _ & Es & H1 & H2). unfold text_of. cbn [fst snd].
  rewrite Es, <- H1, <- H2. now rewrite slice_app3.
Qed.

(* ---------------------------------------------------------------- the stored end line/column *)

Lemma end_lc_nonlf p m : m <> [] -> ends_lf m = false ->
  end_lc (p ++ m) = (fst (spec_line_col p) + count_nl m, 1 + length (after_last_nl (p ++ m))) /\
  1 <= length (after_last_nl (p ++ m)).
Proof.
  intros Hm He. induction m as [|c m0 _] using rev_ind; [congruence|]. rewrite ends_lf_snoc in He.
  assert (Ha : after_last_nl (p ++ m0 ++ [c]) = after_last_nl (p ++ m0) ++ [c]).
  { rewrite app_assoc. apply after_last_nl_app. cbn [existsb]. now rewrite He. }
  split; [|rewrite Ha, app_length; cbn [length]; lia].
  unfold end_lc. unfold spec_line_col at 1. cbn [snd]. rewrite Ha, app_length. cbn [length].
  replace (Nat.eqb (1 + (length (after_last_nl (p ++ m0)) + 1)) 1) with false by (symmetry; apply Nat.eqb_neq; lia).
  unfold spec_line_col. cbn [fst]. rewrite Ha, app_length, count_nl_app. cbn [length]. f_equal; lia.
Qed.

Lemma end_lc_lf p m0 :
  end_lc (p ++ m0 ++ [LF]) = (fst (spec_line_col p) + count_nl m0, 2 + length (after_last_nl (p ++ m0))).
Proof.
  unfold end_lc. rewrite app_assoc. unfold spec_line_col at 1. cbn [snd]. rewrite after_last_nl_app_lf. cbn [length].
  replace (Nat.eqb (1 + 0) 1) with true by reflexivity. rewrite removelast_last.
  unfold spec_line_col. cbn [fst snd]. rewrite count_nl_app. f_equal; lia.
Qed.

Lemma end_lc_empty p : fst (end_lc p) <= fst (spec_line_col p) /\ snd (spec_line_col p) <= snd (end_lc p).
Proof.
  unfold end_lc. destruct (Nat.eqb_spec (snd (spec_line_col p)) 1) as [E|E]; cbn [fst snd]; [|lia].
  split; [|lia]. destruct (removelast_decomp p) as (x & Ex). unfold spec_line_col. cbn [fst].
  rewrite Ex at 2. rewrite count_nl_app. lia.
Qed.

(* ---------------------------------------------------------------- underline and format on a span error *)

Section Fmt.
Variables (loc : iloc) (L C Le Ce : nat) (line msg : str).
Hypothesis HC : 1 <= C.
Hypothesis HCe : 2 <= Ce.
Hypothesis Hline : C - 1 <= length line.

Definition span_err (cont : option str) : error :=
  {| e_location := loc; e_line_col := LSpan (L, C) (Le, Ce); e_path := None; e_line := line;
     e_continued := cont; e_message := msg |}.

Definition marker_ok (text : str) (multi : bool) (u : str) : bool :=
  eqs (firstn C u) (map tabkeep (firstn (C - 1) text) ++ [CARET])
  || (multi && Nat.eqb (length u) C && ceq (last u SP) CARET).

Lemma underline_span cont : exists u,
  underline (span_err cont) = Ok u /\ no_lf u /\
  (C <= Ce -> marker_ok line false u = true) /\ marker_ok line true u = true.
Proof.
  unfold underline, e_start, span_err. cbn [e_line_col e_line fst snd].
  destruct (Nat.ltb_spec Ce C) as [Hinv|Hni].
  - rewrite rsub_ok by lia. cbn [bind fst snd]. rewrite rsub_ok by lia. cbn [bind]. rewrite rsub_ok by lia. cbn [bind].
    replace (Nat.ltb 1 (C + 1 - (Ce - 1))) with true by (symmetry; apply Nat.ltb_lt; lia).
    eexists. split; [reflexivity|]. split.
    + apply no_lf_app; [apply no_lf_tabkeep|]. apply no_lf_cons; [reflexivity|].
      apply no_lf_app; [apply no_lf_repeat; reflexivity|reflexivity].
    + split; [lia|]. unfold marker_ok. cbn [andb].
      replace (map (fun c => if ceq c TAB then TAB else SP) (firstn (Ce - 1 - 1) line) ++
               CARET :: repeat DASH (C + 1 - (Ce - 1) - 2) ++ [CARET])
        with ((map tabkeep (firstn (Ce - 1 - 1) line) ++ CARET :: repeat DASH (C + 1 - (Ce - 1) - 2)) ++ [CARET])
        by (rewrite <- app_assoc; reflexivity).
      rewrite last_snoc, ceq_refl, andb_true_r.
      rewrite !app_length. cbn [length]. rewrite map_length, firstn_length, repeat_length.
      replace (Nat.eqb (Nat.min (Ce - 1 - 1) (length line) + S (C + 1 - (Ce - 1) - 2) + 1) C) with true
        by (symmetry; apply Nat.eqb_eq; lia).
      apply orb_true_r.
  - cbn [bind fst snd]. rewrite rsub_ok by lia. cbn [bind]. rewrite rsub_ok by lia. cbn [bind].
    eexists. split; [reflexivity|]. split.
    + apply no_lf_app; [apply no_lf_tabkeep|]. apply no_lf_cons; [reflexivity|].
      destruct (Nat.ltb 1 (Ce - C)); [|reflexivity]. apply no_lf_app; [apply no_lf_repeat; reflexivity|reflexivity].
    + assert (Hm : forall multi, marker_ok line multi
         (map (fun c => if ceq c TAB then TAB else SP) (firstn (C - 1) line) ++
          CARET :: (if Nat.ltb 1 (Ce - C) then repeat DASH (Ce - C - 2) ++ [CARET] else [])) = true).
      { intros multi. unfold marker_ok. apply orb_true_iff. left.
        rewrite firstn_app, map_length, firstn_length. replace (Nat.min (C - 1) (length line)) with (C - 1) by lia.
        replace (C - (C - 1)) with 1 by lia. cbn [firstn]. rewrite firstn_all2 by (rewrite map_length, firstn_length; lia).
        apply eqs_refl. }
      split; [intros _|]; apply Hm.
Qed.

Definition sp_of (n : nat) : str := repeat SP (length (dec n)).

Lemma format_single u : underline (span_err None) = Ok u ->
  format (span_err None) =
  Ok (join [sp_of (Nat.max L Le) ++ lit "--> " ++ dec L ++ lit ":" ++ dec C;
            sp_of (Nat.max L Le) ++ lit " |";
            dec L ++ lit " | " ++ line;
            sp_of (Nat.max L Le) ++ lit " | " ++ u;
            sp_of (Nat.max L Le) ++ lit " |";
            sp_of (Nat.max L Le) ++ lit " = " ++ msg]).
Proof.
  intros Hu. unfold span_err in *. unfold format. cbn [e_line_col e_continued]. rewrite Hu. cbn [bind].
  unfold spacing, e_start, sp_of. cbn [e_line_col e_path e_line e_message fst snd join app]. unfold NL.
  rewrite <- !app_assoc. reflexivity.
Qed.

Lemma format_multi cl u : L <= Le -> underline (span_err (Some cl)) = Ok u ->
  format (span_err (Some cl)) =
  Ok (join ([sp_of (Nat.max L Le) ++ lit "--> " ++ dec L ++ lit ":" ++ dec C;
             sp_of (Nat.max L Le) ++ lit " |";
             pad_left (length (sp_of (Nat.max L Le))) (dec L) ++ lit " | " ++ line] ++
            (if Nat.ltb 1 (Le - L)
             then [sp_of (Nat.max L Le) ++ lit " | ..."; pad_left (length (sp_of (Nat.max L Le))) (dec Le) ++ lit " | " ++ cl]
             else [pad_left (length (sp_of (Nat.max L Le))) (dec Le) ++ lit " | " ++ cl]) ++
            [sp_of (Nat.max L Le) ++ lit " | " ++ u;
             sp_of (Nat.max L Le) ++ lit " |";
             sp_of (Nat.max L Le) ++ lit " = " ++ msg])).
Proof.
  intros Hle Hu. unfold span_err in *. unfold format. cbn [e_line_col e_continued]. unfold e_start. cbn [e_line_col fst snd].
  rewrite rsub_ok by exact Hle. cbn [bind]. rewrite Hu. cbn [bind].
  unfold spacing, sp_of. cbn [e_line_col e_path e_line e_message fst snd]. unfold NL.
  destruct (Nat.ltb 1 (Le - L)); cbn [join app]; rewrite <- !app_assoc; reflexivity.
Qed.

End Fmt.

(* ---------------------------------------------------------------- evaluating the checker *)

Lemma shows_intro vis p m q msg w middle u :
  let L := fst (spec_line_col p) in
  let C := snd (spec_line_col p) in
  let text := display vis (the_line p (m ++ q)) in
  let sp := repeat SP w in
  let meet := meet_of p m q in
  no_lf msg -> no_lf u -> Forall no_lf middle ->
  text_aligned vis p = true ->
  marker_ok C text (Nat.leb 2 (length meet)) u = true ->
  match meet with
  | [] | [_] => match middle with [] => true | _ => false end
  | r0 :: rest =>
    let r2 := last rest r0 in
    let L2 := L + length rest in
    match slice (p ++ m ++ q) (fst r2) (snd r2) with
    | None => false
    | Some line2 =>
      let cont_ok := fun c : str =>
        Nat.leb (length (dec L2)) w &&
        (eqs c (pad_left w (dec L2) ++ lit " | " ++ display false line2) ||
         eqs c (pad_left w (dec L2) ++ lit " | " ++ display true line2)) in
      match middle with
      | [c] => negb (Nat.ltb 1 (length rest)) && cont_ok c
      | [dots; c] => Nat.ltb 1 (length rest) && eqs dots (sp ++ lit " | ...") && cont_ok c
      | _ => false
      end
    end
  end = true ->
  span_shows_as vis p m q msg
    (join ([sp ++ lit "--> " ++ dec L ++ lit ":" ++ dec C; sp ++ lit " |"; pad_left w (dec L) ++ lit " | " ++ text] ++
           middle ++ [sp ++ lit " | " ++ u; sp ++ lit " |"; sp ++ lit " = " ++ msg])) = true.
Proof.
  intros L C text sp meet Hmsg Hu Hmid Hal Hmk Htail.
  assert (Hsp : no_lf sp) by (apply no_lf_repeat; reflexivity).
  unfold span_shows_as. rewrite split_rows_join.
  2:{ discriminate. }
  2:{ repeat apply Forall_cons.
      - repeat (apply no_lf_app; [first [exact Hsp|apply no_lf_lit_arrow|apply no_lf_dec|apply no_lf_lit_colon]|]). apply no_lf_dec.
      - apply no_lf_app; [exact Hsp|apply no_lf_lit_bar].
      - apply no_lf_app; [apply no_lf_pad_left, no_lf_dec|]. apply no_lf_app; [apply no_lf_lit_bar_sp|apply no_lf_display].
      - apply Forall_app. split; [exact Hmid|]. repeat apply Forall_cons; [| | |constructor].
        + apply no_lf_app; [exact Hsp|]. apply no_lf_app; [apply no_lf_lit_bar_sp|exact Hu].
        + apply no_lf_app; [exact Hsp|apply no_lf_lit_bar].
        + apply no_lf_app; [exact Hsp|]. apply no_lf_app; [apply no_lf_lit_eq|exact Hmsg]. }
  cbn [app rev]. rewrite rev_app_distr. cbn [rev app]. rewrite !rev_app_distr. cbn [rev app]. rewrite rev_involutive.
  subst L C text sp meet. unfold meet_of in *.
  rewrite leading_sp_header.
  rewrite !eqs_refl. cbn [andb].
  replace (repeat SP w ++ lit " | " ++ u) with ((repeat SP w ++ lit " | ") ++ u) by (now rewrite <- app_assoc).
  rewrite (firstn_prefix (repeat SP w ++ lit " | ") u) by (now rewrite length_sp_bar).
  rewrite (skipn_prefix (repeat SP w ++ lit " | ") u) by (now rewrite length_sp_bar).
  rewrite eqs_refl, Hal. cbn [andb]. unfold marker_ok in Hmk. rewrite Hmk. cbn [andb].
  exact Htail.
Qed.

(* ---------------------------------------------------------------- the theorem *)

Lemma known_unpack fx p m q : KnownClass_span fx p m q = false ->
  (negb (span_vis m) && existsb (fun c => ceq c CR) (after_last_nl p) = false) /\
  (fix_continued fx = false -> span_vis m = true ->
   match meet_of p m q with
   | r0 :: r1 :: rest => match slice (p ++ m ++ q) (fst (last rest r1)) (snd (last rest r1)) with
                         | Some l2 => has_crlf l2 | None => false end
   | _ => false end = false) /\
  (ends_lf m = true -> q = []) /\
  (fix_eoi_line fx = false -> m = [] -> q = [] -> after_last_nl p = []).
Proof.
  unfold KnownClass_span. intros H. apply orb_false_iff in H as [H H4]. apply orb_false_iff in H as [H H3].
  apply orb_false_iff in H as [H1 H2]. split; [exact H1|]. split; [|split].
  - intros Hf Hv. rewrite Hf, Hv in H2. exact H2.
  - intros He. rewrite He in H3. destruct q; [reflexivity|discriminate].
  - intros Hf -> ->. rewrite Hf in H4. destruct (after_last_nl p); [reflexivity|discriminate].
Qed.

Lemma last_map {A B} (f : A -> B) l d : last (map f l) (f d) = f (last l d).
Proof. revert d. induction l as [|x l IH]; intros d; [reflexivity|]. cbn [map]. rewrite !last_cons_default. apply IH. Qed.

Lemma count_nl_zero x : count_nl x = 0 -> existsb is_lf x = false.
Proof.
  induction x as [|c x IH]; [reflexivity|]. rewrite count_nl_cons. cbn [existsb]. destruct (is_lf c); [lia|]. intros H. now apply IH.
Qed.

Lemma ends_lf_true_snoc m : ends_lf m = true -> exists m0, m = m0 ++ [LF].
Proof.
  induction m as [|c m0 _] using rev_ind; [discriminate|]. rewrite ends_lf_snoc. intros H. exists m0.
  unfold is_lf in H. apply ceq_eq in H. now subst.
Qed.

Lemma strip_no_crlf x : has_crlf x = false -> strip_crlf x = x.
Proof.
  unfold has_crlf, strip_crlf. induction x as [|c x IH]; [reflexivity|]. cbn [existsb filter]. intros H.
  apply orb_false_iff in H as [Hc Hx]. unfold is_crlf in Hc. rewrite orb_comm in Hc. rewrite Hc. cbn [negb]. now rewrite IH.
Qed.

Theorem render_span_shows fx p m q msg : KnownClass_span fx p m q = false -> no_lf msg ->
  exists out, render_span fx (p ++ m ++ q) (blen p, blen p + blen m) msg = Ok out /\
              span_shows_as (span_vis m) p m q msg out = true.
Proof.
  intros HK Hmsg. destruct (known_unpack _ _ _ _ HK) as (K1 & K2 & K3 & K4).
  unfold render_span. rewrite new_from_span_correct. cbn [bind].
  assert (Hsl : first_line fx p m q = the_line p (m ++ q)).
  { unfold first_line, texts_of. destruct (m ++ q) as [|c0 r0] eqn:E.
    - apply app_eq_nil in E as [-> ->]. rewrite meet_nil. cbn [map app].
      destruct (fix_eoi_line fx) eqn:Ef; [reflexivity|]. unfold the_line. now rewrite K4.
    - rewrite <- E. rewrite meet_cons by (rewrite E; discriminate). cbn [map]. apply head_text. }
  rewrite Hsl.
  destruct (aligned_prefix (span_vis m) p K1) as [Hlen Htab].
  set (line := display (span_vis m) (the_line p (m ++ q))).
  set (L := fst (spec_line_col p)). set (C := snd (spec_line_col p)).
  set (Le := fst (end_lc (p ++ m))). set (Ce := snd (end_lc (p ++ m))).
  assert (Hline : C - 1 <= length line).
  { subst line C. unfold the_line. rewrite display_app, app_length, Hlen. unfold spec_line_col. cbn [snd]. lia. }
  assert (Hal : text_aligned (span_vis m) p = true) by (unfold text_aligned; now apply Nat.eqb_eq).
  assert (HCe : 2 <= Ce) by apply end_lc_col_ge2.
  assert (HC : 1 <= C) by apply spec_col_ge1.
  set (cont := if fix_continued fx then _ else _).
  match goal with |- exists out, format ?e = _ /\ _ =>
    replace e with (span_err (ISpan (blen p, blen p + blen m)) L C Le Ce line msg cont)
      by (unfold span_err; subst L C Le Ce; now rewrite <- !surjective_pairing) end.
  set (w := length (dec (Nat.max L Le))).
  assert (Hsp : sp_of (Nat.max L Le) = repeat SP w) by reflexivity.
  destruct (underline_span (ISpan (blen p, blen p + blen m)) L C Le Ce line msg HC HCe Hline cont) as (u & Hu & Hunl & Hm1 & Hm2).
  pose proof (meet_valid p m q) as Hvalid.
  destruct (meet_of p m q) as [|r0 [|r1 rest]] eqn:Emeet.
  - (* no line meets the span: the span is empty at the end of the input *)
    assert (Hmq : m = [] /\ q = []).
    { destruct (m ++ q) as [|c0 s0] eqn:E; [now apply app_eq_nil in E|].
      rewrite meet_cons in Emeet by (rewrite E; discriminate). discriminate. }
    destruct Hmq as [-> ->].
    assert (Hcont : cont = None) by (subst cont; unfold texts_of; rewrite Emeet; cbn; now destruct (fix_continued fx), (span_vis [])).
    rewrite Hcont in *.
    assert (Hends : Le <= L /\ C <= Ce) by (subst Le Ce L C; rewrite app_nil_r; apply end_lc_empty).
    destruct Hends as [HLe HCle].
    rewrite (format_single _ _ _ _ _ _ _ _ Hu). eexists. split; [reflexivity|].
    rewrite Hsp. replace (dec L ++ lit " | " ++ line) with (pad_left w (dec L) ++ lit " | " ++ line)
      by (subst w; rewrite Nat.max_l by lia; now rewrite pad_left_exact).
    apply (shows_intro (span_vis []) p [] [] msg w [] u); try assumption; try constructor.
    + rewrite Emeet. cbn [length]. apply Hm1. lia.
    + rewrite Emeet. reflexivity.
  - (* one line *)
    assert (Hcont : cont = None) by (subst cont; unfold texts_of; rewrite Emeet; cbn; now destruct (fix_continued fx), (span_vis m)).
    rewrite Hcont in *.
    assert (Hends : Le <= L /\ C <= Ce).
    { assert (Hcase : m = [] \/ m <> []) by (destruct m; [left; reflexivity|right; discriminate]).
      destruct Hcase as [Hm0|Hm].
      - subst Le Ce L C. rewrite Hm0, app_nil_r. apply end_lc_empty.
      - assert (Hne : m ++ q <> []) by (destruct m; [congruence|discriminate]).
        pose proof (meet_length p m q Hne) as Hl. rewrite Emeet in Hl. cbn [length] in Hl.
        destruct (ends_lf m) eqn:Ee.
        + rewrite (K3 eq_refl) in *. cbn [is_nil andb] in Hl.
          destruct (ends_lf_true_snoc m Ee) as (m0 & Em0). rewrite Em0 in Hl. rewrite count_nl_app, count_nl_cons, is_lf_LF in Hl.
          cbn [count_nl filter length] in Hl.
          assert (H0 : count_nl m0 = 0) by (unfold count_nl in *; cbn [filter length] in Hl; lia).
          subst Le Ce. rewrite Em0, end_lc_lf. cbn [fst snd]. rewrite H0. fold L.
          rewrite after_last_nl_app by (apply count_nl_zero; exact H0). rewrite app_length.
          subst C. unfold spec_line_col. cbn [snd]. lia.
        + cbn [andb] in Hl. assert (H0 : count_nl m = 0) by lia.
          destruct (end_lc_nonlf p m Hm Ee) as [E1 _]. subst Le Ce. rewrite E1. cbn [fst snd]. rewrite H0. fold L.
          rewrite after_last_nl_app by (apply count_nl_zero; exact H0). rewrite app_length.
          subst C. unfold spec_line_col. cbn [snd]. lia. }
    destruct Hends as [HLe HCle].
    rewrite (format_single _ _ _ _ _ _ _ _ Hu). eexists. split; [reflexivity|].
    rewrite Hsp. replace (dec L ++ lit " | " ++ line) with (pad_left w (dec L) ++ lit " | " ++ line)
      by (subst w; rewrite Nat.max_l by lia; now rewrite pad_left_exact).
    apply (shows_intro (span_vis m) p m q msg w [] u); try assumption; try constructor.
    + rewrite Emeet. cbn [length]. apply Hm1. exact HCle.
    + rewrite Emeet. reflexivity.
  - (* several lines: a continued line is shown *)
    set (r2 := last rest r1).
    assert (Hm : m <> []).
    { intros ->. pose proof (meet_empty_span p q) as Ht. rewrite Emeet in Ht. discriminate. }
    assert (Hne : m ++ q <> []) by (destruct m; [congruence|discriminate]).
    assert (Hv2 : slice (p ++ m ++ q) (fst r2) (snd r2) <> None).
    { rewrite Forall_forall in Hvalid. apply Hvalid. right. subst r2. clear. revert r1.
      induction rest as [|x rest IH]; intros r1; [now left|]. rewrite last_cons_default. right. apply IH. }
    destruct (slice (p ++ m ++ q) (fst r2) (snd r2)) as [line2|] eqn:Es2; [|congruence].
    assert (Hll : last_text (texts_of p m q) = Some line2).
    { unfold texts_of. rewrite Emeet. cbn [map last_text tl]. rewrite last_map. fold r2. unfold text_of. now rewrite Es2. }
    pose proof (meet_length p m q Hne) as Hl. rewrite Emeet in Hl. cbn [length] in Hl.
    assert (HLe : Le = L + S (length rest)).
    { destruct (ends_lf m) eqn:Ee.
      - rewrite (K3 eq_refl) in *. cbn [is_nil andb] in Hl.
        destruct (ends_lf_true_snoc m Ee) as (m0 & Em0). rewrite Em0 in Hl. rewrite count_nl_app, count_nl_cons, is_lf_LF in Hl.
        unfold count_nl at 2 in Hl. cbn [filter length] in Hl.
        subst Le. rewrite Em0, end_lc_lf. cbn [fst]. fold L. lia.
      - cbn [andb] in Hl. destruct (end_lc_nonlf p m Hm Ee) as [E1 _]. subst Le. rewrite E1. cbn [fst]. fold L. lia. }
    set (cl := if fix_continued fx then visualize_whitespace line2 else if span_vis m then line2 else visualize_whitespace line2).
    assert (Hcont : cont = Some cl) by (subst cont cl; rewrite Hll; now destruct (fix_continued fx), (span_vis m)).
    rewrite Hcont in *.
    assert (Hcl : no_lf cl /\ (eqs cl (display false line2) || eqs cl (display true line2) = true)).
    { subst cl. assert (Hvz : no_lf (visualize_whitespace line2) /\
                          (eqs (visualize_whitespace line2) (display false line2) || eqs (visualize_whitespace line2) (display true line2) = true)).
      { split; [apply no_lf_visualize|]. unfold display. now rewrite eqs_refl, orb_true_r. }
      destruct (fix_continued fx) eqn:Efc; [exact Hvz|]. destruct (span_vis m) eqn:Ev; [|exact Hvz].
      - specialize (K2 eq_refl eq_refl). fold r2 in K2. rewrite Es2 in K2.
        split; [now apply no_lf_no_crlf|]. unfold display. rewrite strip_no_crlf by exact K2. now rewrite eqs_refl. }
    destruct Hcl as [Hcl1 Hcl2].
    assert (HLle : L <= Le) by lia.
    rewrite (format_multi _ _ _ _ _ _ _ _ _ HLle Hu). eexists. split; [reflexivity|].
    rewrite Hsp. unfold sp_of. rewrite repeat_length. fold w.
    apply (shows_intro (span_vis m) p m q msg w _ u); try assumption.
    + destruct (Nat.ltb 1 (Le - L)); repeat apply Forall_cons; try constructor;
        try (apply no_lf_app; [apply no_lf_repeat; reflexivity|apply no_lf_lit_dots]);
        (apply no_lf_app; [apply no_lf_pad_left, no_lf_dec|]; apply no_lf_app; [apply no_lf_lit_bar_sp|exact Hcl1]).
    + rewrite Emeet. cbn [length]. apply Hm2.
    + rewrite Emeet. cbn zeta. rewrite last_cons_default. fold r2. rewrite Es2. fold L. cbn [length].
      rewrite <- HLe. replace (Le - L) with (S (length rest)) by lia.
      assert (Hw : Nat.leb (length (dec Le)) w = true)
        by (subst w; rewrite Nat.max_r by lia; apply Nat.leb_refl).
      destruct (Nat.ltb 1 (S (length rest))); cbn [negb andb];
        rewrite ?eqs_refl; cbn [andb]; rewrite Hw; cbn [andb];
        rewrite !(app_assoc (pad_left w (dec Le)) (lit " | ")), !eqs_app_prefix; exact Hcl2.
Qed.

Theorem span_render_correct fx p m q : KnownClass_span fx p m q = false -> span_render_ok fx p m q.
Proof.
  intros HK msg Hmsg. destruct (render_span_shows fx p m q msg HK Hmsg) as (out & E & S).
  exists out. split; [exact E|]. unfold span_shows. destruct (span_vis m); rewrite S; [reflexivity|apply orb_true_r].
Qed.
