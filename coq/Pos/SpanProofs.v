(* Pos/SpanProofs.v - Error::new_from_span + format:
   (1) what new_from_span builds, in terms of the counting specification;
   (2) rendering never panics, for EVERY string and ordered boundary pair (known classes included). *)
From Coq Require Import String.
From Coq Require Import List Arith NArith Bool Lia.
Import ListNotations.
Require Import PV.Pos.Model PV.Pos.ErrorFmt PV.Pos.Spec PV.Pos.BasicProofs PV.Pos.LineColProofs
               PV.Pos.LinesProofs PV.Pos.ErrorProofs.
Open Scope list_scope.

Arguments Nat.sub : simpl never.
Arguments Nat.leb : simpl never.
Arguments Nat.ltb : simpl never.
Arguments Nat.eqb : simpl never.
Arguments len_utf8 : simpl never.
Arguments lit : simpl never.
Arguments dec : simpl never.

(* the end line/column stored in the error: the end offset's, or - when the end offset is at the
   start of a line - those of the char before it, column + 1 *)
Definition end_lc (pm : str) : nat * nat :=
  if Nat.eqb (snd (spec_line_col pm)) 1
  then (fst (spec_line_col (removelast pm)), snd (spec_line_col (removelast pm)) + 1)
  else spec_line_col pm.

Definition meet_of (p m q : str) : list (nat * nat) :=
  lines_meeting (p ++ m ++ q) (blen p) (blen p + blen m).
Definition texts_of (p m q : str) : list str := map (text_of (p ++ m ++ q)) (meet_of p m q).
Definition first_line (fx : fixes) (p m q : str) : str :=
  match texts_of p m q with
  | x :: _ => x
  | [] => if fix_eoi_line fx then the_line p (m ++ q) else []
  end.
Definition last_text (l : list str) : option str :=
  match tl l with [] => None | x :: r => Some (last r x) end.

Lemma skip_back_one pm q :
  skip_back (pm ++ q) (blen pm) 1 = Ok (match pm with [] => false | _ => true end, blen (removelast pm)).
Proof.
  unfold skip_back. rewrite split_at_app. induction pm as [|c0 pm0 _] using rev_ind; [reflexivity|].
  rewrite rev_app_distr. cbn [rev app take_len]. rewrite removelast_last.
  rewrite blen_app. cbn [blen]. rewrite rsub_ok by lia. cbn [bind].
  replace (blen pm0 + (len_utf8 c0 + 0) - (len_utf8 c0 + 0)) with (blen pm0) by lia.
  destruct (pm0 ++ [c0]) eqn:E; [now apply app_eq_nil in E as [_ E]|reflexivity].
Qed.

Lemma removelast_decomp (pm : str) : exists x, pm = removelast pm ++ x.
Proof.
  induction pm as [|c0 pm0 _] using rev_ind; [now exists []|]. rewrite removelast_last. now exists [c0].
Qed.

Lemma span_vis_model m :
  match m with
  | [] => false
  | c :: r => is_crlf c || match r with [] => false | _ => is_crlf (last r c) end
  end = span_vis m.
Proof.
  destruct m as [|c r]; [reflexivity|]. cbn [span_vis]. destruct r as [|c2 r']; [|reflexivity].
  cbn [last]. now rewrite orb_false_r, orb_diag.
Qed.

Lemma new_from_span_correct fx p m q msg :
  new_from_span fx (p ++ m ++ q) (blen p, blen p + blen m) msg =
  Ok {| e_location := ISpan (blen p, blen p + blen m);
        e_line_col := LSpan (spec_line_col p) (end_lc (p ++ m));
        e_path := None;
        e_line := display (span_vis m) (first_line fx p m q);
        e_continued := if fix_continued fx then option_map visualize_whitespace (last_text (texts_of p m q))
                       else if span_vis m then last_text (texts_of p m q)
                       else option_map visualize_whitespace (last_text (texts_of p m q));
        e_message := msg |}.
Proof.
  unfold new_from_span. cbn [fst snd].
  assert (Eb : blen p + blen m = blen (p ++ m)) by now rewrite blen_app.
  assert (Es : p ++ m ++ q = (p ++ m) ++ q) by now rewrite app_assoc.
  rewrite Eb. rewrite Es at 1. rewrite line_col_correct. cbn [bind].
  assert (Eend : (if Nat.eqb (snd (spec_line_col (p ++ m))) 1
           then vb <- skip_back (p ++ m ++ q) (blen (p ++ m)) 1;;
                lc <- line_col (p ++ m ++ q) (snd vb);; Ok (fst lc, snd lc + 1)
           else Ok (spec_line_col (p ++ m))) = Ok (end_lc (p ++ m))).
  { unfold end_lc. destruct (Nat.eqb (snd (spec_line_col (p ++ m))) 1); [|reflexivity].
    rewrite Es, skip_back_one. cbn [bind snd].
    destruct (removelast_decomp (p ++ m)) as (x & Ex). rewrite Ex at 1. rewrite <- app_assoc.
    rewrite line_col_correct. reflexivity. }
  rewrite Eend. cbn [bind]. rewrite <- Eb. rewrite lines_correct. cbn [bind].
  assert (Hfl : match texts_of p m q with
                | x :: _ => Ok x
                | [] => if fix_eoi_line fx then line_of (p ++ m ++ q) (blen p) else Ok []
                end = Ok (first_line fx p m q)).
  { unfold first_line. destruct (texts_of p m q); [|reflexivity].
    destruct (fix_eoi_line fx); [apply line_of_correct|reflexivity]. }
  unfold texts_of, meet_of in Hfl. rewrite Hfl. cbn [bind].
  unfold span_as_str, rslice. cbn [fst snd]. rewrite slice_app3. cbn [bind].
  rewrite span_vis_model. rewrite line_col_correct. cbn [bind]. reflexivity.
Qed.

(* ---------------------------------------------------------------- no panic, universally *)

Lemma spec_col_ge1 p : 1 <= snd (spec_line_col p).
Proof. unfold spec_line_col. cbn [snd]. lia. Qed.

Lemma end_lc_col_ge2 pm : 2 <= snd (end_lc pm).
Proof.
  unfold end_lc. destruct (Nat.eqb_spec (snd (spec_line_col pm)) 1) as [E|E]; cbn [snd].
  - pose proof (spec_col_ge1 (removelast pm)). lia.
  - pose proof (spec_col_ge1 pm). lia.
Qed.

Lemma underline_span_ok loc path slc elc line cont msg :
  1 <= snd slc -> 2 <= snd elc ->
  exists u, underline {| e_location := loc; e_line_col := LSpan slc elc; e_path := path; e_line := line;
                         e_continued := cont; e_message := msg |} = Ok u.
Proof.
  intros H1 H2. unfold underline, e_start. cbn [e_line_col e_line snd]. destruct elc as [el ec]. cbn [snd] in *.
  destruct (Nat.ltb_spec ec (snd slc)) as [Hinv|Hni].
  - rewrite rsub_ok by lia. cbn [bind fst snd]. rewrite rsub_ok by lia. cbn [bind].
    rewrite rsub_ok by lia. cbn [bind]. eexists. reflexivity.
  - cbn [bind fst snd]. rewrite rsub_ok by lia. cbn [bind]. rewrite rsub_ok by lia. cbn [bind]. eexists. reflexivity.
Qed.

(* with an empty span text at most one line meets the span *)
Lemma meet_empty_span p q : tl (meet_of p [] q) = [].
Proof.
  unfold meet_of. cbn [app blen]. rewrite Nat.add_0_r. rewrite lines_meeting_from by lia.
  destruct q as [|c q'].
  - cbn [line_ranges_from]. destruct (Nat.eqb (blen p) (line_start p)); [reflexivity|]. cbn [filter].
    destruct (meets _ _ _); reflexivity.
  - rewrite ranges_step by (try discriminate; apply line_start_le).
    assert (Hn : filter (meets (blen p) (blen p))
                   (line_ranges_from (blen p + blen (upto_nl (c :: q'))) (blen p + blen (upto_nl (c :: q'))) (drop_line (c :: q'))) = []).
    { apply filter_none. eapply Forall_impl; [|apply ranges_fst_ge; lia]. cbn beta. intros r Hr. unfold meets.
      pose proof (upto_nl_blen_pos' (c :: q')).
      replace (Nat.leb (fst r) (blen p)) with false; [reflexivity|]. symmetry. apply Nat.leb_gt.
      assert (1 <= blen (upto_nl (c :: q'))) by (apply H; discriminate). lia. }
    cbn [filter]. destruct (meets _ _ _); cbn [tl]; rewrite Hn; reflexivity.
Qed.

Lemma last_text_none_of_tl {A} (f : A -> str) l : tl l = [] -> last_text (map f l) = None.
Proof. destruct l as [|x [|y l']]; cbn; congruence. Qed.

Lemma end_line_ge p m : m <> [] -> fst (spec_line_col p) <= fst (end_lc (p ++ m)).
Proof.
  intros Hm. unfold end_lc. destruct (Nat.eqb (snd (spec_line_col (p ++ m))) 1); unfold spec_line_col; cbn [fst].
  - induction m as [|c0 m0 _] using rev_ind; [congruence|]. rewrite app_assoc, removelast_last, count_nl_app. lia.
  - rewrite count_nl_app. lia.
Qed.

Theorem render_span_no_panic fx p m q msg :
  exists out, render_span fx (p ++ m ++ q) (blen p, blen p + blen m) msg = Ok out.
Proof.
  unfold render_span. rewrite new_from_span_correct. cbn [bind].
  set (cont := if fix_continued fx then _ else _).
  destruct (underline_span_ok (ISpan (blen p, blen p + blen m)) None (spec_line_col p) (end_lc (p ++ m))
              (display (span_vis m) (first_line fx p m q)) cont msg (spec_col_ge1 p) (end_lc_col_ge2 (p ++ m))) as (u & Hu).
  unfold format. cbn [e_line_col e_continued]. destruct cont as [cl|] eqn:Ec.
  - (* a continued line exists: the span text is not empty, so the end line is not before the start line *)
    assert (Hm : m <> []).
    { intros ->. subst cont. unfold texts_of in Ec. rewrite (last_text_none_of_tl _ _ (meet_empty_span p q)) in Ec.
      destruct (fix_continued fx); [|destruct (span_vis [])]; discriminate. }
    unfold e_start. cbn [e_line_col fst]. rewrite rsub_ok by (apply end_line_ge; exact Hm). cbn [bind].
    rewrite Hu. cbn [bind]. destruct (Nat.ltb 1 _); eexists; reflexivity.
  - rewrite Hu. cbn [bind]. eexists. reflexivity.
Qed.
