(* Pos/LineColProofs.v - Position::line_col, LineIndex::line_col, find_line_start/end, line_of and
   Span::new refine the counting specification, for every string (induction over the string). *)
From Coq Require Import List Arith NArith Bool Lia Sorted.
Import ListNotations.
Require Import PV.Pos.Model PV.Pos.ErrorFmt PV.Pos.Spec PV.Pos.BasicProofs.
Open Scope list_scope.

Arguments Nat.sub : simpl never.
Arguments Nat.leb : simpl never.
Arguments Nat.ltb : simpl never.
Arguments Nat.eqb : simpl never.
Arguments len_utf8 : simpl never.

(* ---------------------------------------------------------------- Position::line_col *)

Definition scan_result (pre : str) (line col : nat) : nat * nat :=
  (line + count_nl pre,
   if existsb is_lf pre then 1 + length (after_last_nl pre) else col + length pre).

Lemma ceq_eq a b : ceq a b = true -> a = b.
Proof. unfold ceq. apply N.eqb_eq. Qed.
Lemma ceq_refl a : ceq a a = true.
Proof. unfold ceq. apply N.eqb_refl. Qed.
Lemma ceq_sym a b : ceq a b = ceq b a.
Proof. unfold ceq. apply N.eqb_sym. Qed.

Lemma len_LF : len_utf8 LF = 1. Proof. reflexivity. Qed.
Lemma len_CR : len_utf8 CR = 1. Proof. reflexivity. Qed.

Lemma scan_result_lf pre line col :
  scan_result (LF :: pre) line col = scan_result pre (line + 1) 1.
Proof.
  unfold scan_result. rewrite count_nl_cons, is_lf_LF. f_equal; [lia|].
  rewrite after_last_nl_cons. cbn [existsb]. rewrite is_lf_LF. cbn [orb].
  destruct (existsb is_lf pre) eqn:E; [reflexivity|]. now rewrite after_last_nl_nolf.
Qed.

Lemma scan_result_other c pre line col : is_lf c = false ->
  scan_result (c :: pre) line col = scan_result pre line (col + 1).
Proof.
  intros H. unfold scan_result. rewrite count_nl_cons, H. f_equal.
  rewrite after_last_nl_cons. cbn [existsb]. rewrite H. cbn [orb length].
  destruct (existsb is_lf pre); [reflexivity|lia].
Qed.

Lemma scan_result_nil line col : scan_result [] line col = (line, col).
Proof. unfold scan_result, count_nl. cbn [filter length existsb]. f_equal; lia. Qed.

Lemma lc_scan_spec : forall n pre line col, length pre <= n ->
  lc_scan pre (blen pre) line col = Ok (scan_result pre line col).
Proof.
  induction n as [|n IH]; intros pre line col Hn.
  - destruct pre; [|cbn in Hn; lia]. now rewrite scan_result_nil.
  - destruct pre as [|c rest].
    + now rewrite scan_result_nil.
    + cbn [length] in Hn. cbn [lc_scan blen].
      pose proof (len_utf8_pos c) as Hc.
      replace (Nat.eqb (len_utf8 c + blen rest) 0) with false by (symmetry; apply Nat.eqb_neq; lia).
      destruct (ceq c CR) eqn:Ecr.
      * apply ceq_eq in Ecr. subst c. rewrite len_CR in *.
        destruct rest as [|c2 rest'].
        -- cbn [blen]. rewrite rsub_ok by lia. cbn [bind].
           replace (1 + 0 - 1) with (blen []) by reflexivity. rewrite IH by (cbn; lia).
           now rewrite (scan_result_other CR) by reflexivity.
        -- destruct (ceq c2 LF) eqn:Elf.
           ++ apply ceq_eq in Elf. subst c2. cbn [blen]. rewrite len_LF.
              replace (Nat.eqb (1 + (1 + blen rest')) 1) with false by (symmetry; apply Nat.eqb_neq; lia).
              rewrite rsub_ok by lia. cbn [bind].
              replace (1 + (1 + blen rest') - 2) with (blen rest') by lia.
              rewrite IH by (cbn [length] in Hn; lia).
              rewrite (scan_result_other CR) by reflexivity. rewrite scan_result_lf.
              (* the CR before the LF bumped the column, but the LF resets it *)
              unfold scan_result. reflexivity.
           ++ rewrite rsub_ok by lia. cbn [bind].
              replace (1 + blen (c2 :: rest') - 1) with (blen (c2 :: rest')) by lia.
              rewrite IH by lia. now rewrite (scan_result_other CR) by reflexivity.
      * destruct (ceq c LF) eqn:Elf.
        -- apply ceq_eq in Elf. subst c. rewrite len_LF in *. rewrite rsub_ok by lia. cbn [bind].
           replace (1 + blen rest - 1) with (blen rest) by lia. rewrite IH by lia.
           now rewrite scan_result_lf.
        -- rewrite rsub_ok by lia. cbn [bind].
           replace (len_utf8 c + blen rest - len_utf8 c) with (blen rest) by lia. rewrite IH by lia.
           now rewrite scan_result_other by exact Elf.
Qed.

Lemma scan_result_start pre : scan_result pre 1 1 = spec_line_col pre.
Proof.
  unfold scan_result, spec_line_col. f_equal.
  destruct (existsb is_lf pre) eqn:E; [reflexivity|]. now rewrite after_last_nl_nolf.
Qed.

Theorem line_col_correct p q : line_col (p ++ q) (blen p) = Ok (spec_line_col p).
Proof.
  unfold line_col. rewrite blen_app.
  replace (Nat.ltb (blen p + blen q) (blen p)) with false by (symmetry; apply Nat.ltb_ge; lia).
  rewrite split_at_app. rewrite (lc_scan_spec (length p)) by lia. now rewrite scan_result_start.
Qed.

(* ---------------------------------------------------------------- LineIndex *)

(* offsets just after each LF of cs, cs starting at byte `off` *)
Fixpoint nl_ends (off : nat) (cs : str) : list nat :=
  match cs with
  | [] => []
  | c :: r => let off' := off + len_utf8 c in if is_lf c then off' :: nl_ends off' r else nl_ends off' r
  end.

Lemma li_scan_spec : forall cs off acc, li_scan cs off acc = acc ++ nl_ends off cs.
Proof.
  induction cs as [|c r IH]; intros off acc; cbn [li_scan nl_ends].
  - now rewrite app_nil_r.
  - fold (is_lf c). destruct (is_lf c); rewrite IH; [now rewrite <- app_assoc|reflexivity].
Qed.

Lemma line_index_new_spec s : line_index_new s = 0 :: nl_ends 0 s.
Proof. unfold line_index_new. now rewrite li_scan_spec. Qed.

Lemma nl_ends_app : forall p off m, nl_ends off (p ++ m) = nl_ends off p ++ nl_ends (off + blen p) m.
Proof.
  induction p as [|c p IH]; intros off m; cbn [app nl_ends blen].
  - now rewrite Nat.add_0_r.
  - replace (off + (len_utf8 c + blen p)) with (off + len_utf8 c + blen p) by lia.
    destruct (is_lf c); rewrite IH; reflexivity.
Qed.

Lemma nl_ends_length : forall p off, length (nl_ends off p) = count_nl p.
Proof.
  induction p as [|c p IH]; intros off; [reflexivity|]. cbn [nl_ends]. rewrite count_nl_cons.
  destruct (is_lf c); cbn [length]; rewrite IH; lia.
Qed.

Lemma nl_ends_bounds : forall p off, Forall (fun x => off < x <= off + blen p) (nl_ends off p).
Proof.
  induction p as [|c p IH]; intros off; [constructor|]. cbn [nl_ends blen].
  pose proof (len_utf8_pos c). specialize (IH (off + len_utf8 c)).
  assert (Forall (fun x => off < x <= off + (len_utf8 c + blen p)) (nl_ends (off + len_utf8 c) p))
    by (eapply Forall_impl; [|exact IH]; cbn; intros; lia).
  destruct (is_lf c); [constructor; [lia|assumption]|assumption].
Qed.

(* the offsets are strictly increasing: the slice is partitioned by `it <= pos` for every pos,
   which is the precondition of slice::partition_point *)
Lemma nl_ends_sorted : forall p off, StronglySorted lt (nl_ends off p).
Proof.
  induction p as [|c p IH]; intros off; [constructor|]. cbn [nl_ends].
  destruct (is_lf c); [|apply IH]. constructor; [apply IH|].
  eapply Forall_impl; [|apply nl_ends_bounds]. cbn. intros; lia.
Qed.

Theorem line_offsets_sorted s : StronglySorted lt (line_index_new s).
Proof.
  rewrite line_index_new_spec. constructor; [apply nl_ends_sorted|].
  eapply Forall_impl; [|apply nl_ends_bounds]. cbn. intros; lia.
Qed.

Definition partitioned {A} (f : A -> bool) (l : list A) : Prop :=
  exists l1 l2, l = l1 ++ l2 /\ forallb f l1 = true /\ forallb (fun x => negb (f x)) l2 = true.

Lemma sorted_partitioned pos : forall l, StronglySorted lt l -> partitioned (fun it => Nat.leb it pos) l.
Proof.
  induction l as [|x l IH]; intros H.
  - exists [], []. auto.
  - inversion H as [|? ? Hs Hf]; subst. destruct (Nat.leb_spec x pos) as [Hle|Hgt].
    + destruct (IH Hs) as (l1 & l2 & -> & H1 & H2). exists (x :: l1), l2. split; [reflexivity|].
      split; [|exact H2]. cbn [forallb]. rewrite H1, andb_true_r. now apply Nat.leb_le.
    + exists [], (x :: l). split; [reflexivity|]. split; [reflexivity|].
      apply forallb_forall. intros y Hy. apply negb_true_iff, Nat.leb_gt.
      destruct Hy as [<-|Hy]; [lia|]. rewrite Forall_forall in Hf. specialize (Hf y Hy). lia.
Qed.

Theorem line_offsets_partitioned s pos : partitioned (fun it => Nat.leb it pos) (line_index_new s).
Proof. apply sorted_partitioned, line_offsets_sorted. Qed.

Lemma partition_point_app_all {A} (f : A -> bool) l1 l2 :
  forallb f l1 = true -> partition_point f (l1 ++ l2) = length l1 + partition_point f l2.
Proof.
  induction l1 as [|x l1 IH]; [reflexivity|]. cbn [forallb app partition_point length].
  intros H. apply andb_true_iff in H as [Hx Hl]. rewrite Hx, IH by exact Hl. lia.
Qed.

Lemma partition_point_none {A} (f : A -> bool) l :
  Forall (fun x => f x = false) l -> partition_point f l = 0.
Proof. destruct l as [|x l]; [reflexivity|]. intros H. inversion H; subst. cbn. now rewrite H2. Qed.

(* the entry of the index at position count_nl p is the start of the line containing blen p *)
Lemma nth_line_start : forall p o off tl,
  nth_error (o :: nl_ends off p ++ tl) (count_nl p) =
  Some (if existsb is_lf p then off + blen p - blen (after_last_nl p) else o).
Proof.
  induction p as [|c p IH]; intros o off tl; [reflexivity|].
  cbn [nl_ends]. rewrite count_nl_cons, after_last_nl_cons. cbn [existsb blen].
  destruct (is_lf c) eqn:E; cbn [orb].
  - cbn [app plus nth_error]. rewrite IH. f_equal.
    destruct (existsb is_lf p) eqn:E2; [lia|]. rewrite after_last_nl_nolf by exact E2. lia.
  - cbn [plus]. rewrite IH. f_equal. destruct (existsb is_lf p); [lia|reflexivity].
Qed.

(* LineIndex built over p ++ m (any extension of the text before the offset), input p ++ m ++ q *)
Theorem li_line_col_correct p m q :
  li_line_col (line_index_new (p ++ m)) (p ++ m ++ q) (blen p) = Ok (spec_line_col p).
Proof.
  unfold li_line_col. rewrite line_index_new_spec, nl_ends_app. cbn [plus].
  assert (Hpp : partition_point (fun it => Nat.leb it (blen p)) (0 :: nl_ends 0 p ++ nl_ends (blen p) m)
                = S (count_nl p)).
  { cbn [partition_point]. replace (Nat.leb 0 (blen p)) with true by (symmetry; apply Nat.leb_le; lia).
    f_equal. rewrite partition_point_app_all.
    - rewrite nl_ends_length, partition_point_none; [lia|].
      eapply Forall_impl; [|apply nl_ends_bounds]. cbn. intros x Hx. apply Nat.leb_gt. lia.
    - apply forallb_forall. intros x Hx. apply Nat.leb_le.
      pose proof (nl_ends_bounds p 0) as Hb. rewrite Forall_forall in Hb. specialize (Hb x Hx). lia. }
  rewrite Hpp. rewrite rsub_ok by lia. cbn [bind]. replace (S (count_nl p) - 1) with (count_nl p) by lia.
  rewrite nth_line_start. cbn [plus].
  assert (Hst : (if existsb is_lf p then blen p - blen (after_last_nl p) else 0) = line_start p).
  { unfold line_start. destruct (existsb is_lf p) eqn:E; [reflexivity|]. rewrite after_last_nl_nolf by exact E. lia. }
  rewrite Hst. destruct (line_start_decomp p) as (p1 & Ep & Hp1).
  unfold rslice. rewrite <- Hp1.
  assert (Hs : slice (p ++ m ++ q) (blen p1) (blen p) = Some (after_last_nl p)).
  { rewrite Ep at 1. rewrite <- app_assoc.
    replace (blen p) with (blen p1 + blen (after_last_nl p)) by (rewrite <- blen_app, <- Ep; reflexivity).
    apply slice_app3. }
  rewrite Hs. cbn [bind]. unfold spec_line_col. f_equal. f_equal; lia.
Qed.

Theorem pair_line_col_correct p q : pair_line_col (p ++ q) (blen p) = Ok (spec_line_col p).
Proof.
  unfold pair_line_col. pose proof (li_line_col_correct p q []) as H. now rewrite app_nil_r in H.
Qed.

Theorem pair_line_col_upto_correct p m q :
  pair_line_col_upto (p ++ m ++ q) (blen p + blen m) (blen p) = Ok (spec_line_col p).
Proof.
  unfold pair_line_col_upto, rslice.
  pose proof (slice_app3 [] (p ++ m) q) as H. cbn [app blen plus] in H. rewrite blen_app, <- app_assoc in H.
  rewrite H. cbn [bind]. apply li_line_col_correct.
Qed.

(* ---------------------------------------------------------------- find_line_start / find_line_end / line_of *)

Lemma char_indices_from_app : forall p o q,
  char_indices_from o (p ++ q) = char_indices_from o p ++ char_indices_from (o + blen p) q.
Proof.
  induction p as [|c p IH]; intros o q; cbn [app char_indices_from blen].
  - now rewrite Nat.add_0_r.
  - replace (o + (len_utf8 c + blen p)) with (o + len_utf8 c + blen p) by lia.
    rewrite IH. reflexivity.
Qed.

Lemma char_indices_from_bounds : forall p o, Forall (fun ic => o <= fst ic < o + blen p) (char_indices_from o p).
Proof.
  induction p as [|c p IH]; intros o; [constructor|]. cbn [char_indices_from blen].
  pose proof (len_utf8_pos c). constructor; [cbn; lia|].
  eapply Forall_impl; [|apply IH]. cbn. intros; lia.
Qed.

Lemma skip_while_app_all {A} (f : A -> bool) l1 l2 : forallb f l1 = true -> skip_while f (l1 ++ l2) = skip_while f l2.
Proof.
  induction l1 as [|x l1 IH]; [reflexivity|]. cbn [forallb app skip_while]. intros H.
  apply andb_true_iff in H as [Hx Hl]. rewrite Hx. now apply IH.
Qed.

Lemma skip_while_none {A} (f : A -> bool) l : Forall (fun x => f x = false) l -> skip_while f l = l.
Proof. destruct l as [|x l]; [reflexivity|]. intros H. inversion H; subst. cbn. now rewrite H2. Qed.

(* searching backwards for a LF in p finds the last one *)
Lemma find_rev_lf : forall p o,
  find is_lf_at (rev (char_indices_from o p)) =
  if existsb is_lf p then Some (o + blen p - blen (after_last_nl p) - 1, LF) else None.
Proof.
  induction p as [|c p IH] using rev_ind; intros o; [reflexivity|].
  rewrite char_indices_from_app. cbn [char_indices_from]. rewrite rev_app_distr. cbn [rev app find].
  unfold is_lf_at at 1. cbn [snd]. rewrite existsb_app. cbn [existsb]. rewrite orb_false_r. fold (is_lf c).
  rewrite blen_app. cbn [blen]. destruct (is_lf c) eqn:E.
  - rewrite orb_true_r. unfold is_lf in E. apply ceq_eq in E. subst c.
    rewrite after_last_nl_app_lf. cbn [blen]. rewrite len_LF. f_equal. f_equal. lia.
  - rewrite orb_false_r. rewrite IH. destruct (existsb is_lf p) eqn:E2; [|reflexivity].
    rewrite after_last_nl_app by (cbn; now rewrite E). rewrite blen_app. cbn [blen].
    pose proof (blen_after_le p). f_equal. f_equal. lia.
Qed.

Lemma has_lf_after_nonempty p : existsb is_lf p = true -> blen (after_last_nl p) < blen p.
Proof.
  intros H. destruct (after_last_nl_suffix p) as (p1 & E & Hy & _). destruct (Hy H) as (p0 & ->).
  apply (f_equal blen) in E. rewrite !blen_app in E. cbn [blen] in E. rewrite len_LF in E. lia.
Qed.

Theorem find_line_start_correct p q : find_line_start (p ++ q) (blen p) = line_start p.
Proof.
  unfold find_line_start. destruct (p ++ q) as [|c0 s0] eqn:Es.
  - apply app_eq_nil in Es as [-> _]. reflexivity.
  - rewrite <- Es. clear c0 s0 Es. unfold char_indices. rewrite char_indices_from_app, rev_app_distr.
    rewrite skip_while_app_all.
    + rewrite skip_while_none.
      * rewrite find_rev_lf. unfold line_start. destruct (existsb is_lf p) eqn:E.
        -- pose proof (has_lf_after_nonempty p E). cbn [plus]. lia.
        -- rewrite after_last_nl_nolf by exact E. lia.
      * apply Forall_rev. eapply Forall_impl; [|apply char_indices_from_bounds]. cbn.
        intros ic H. apply Nat.leb_gt. lia.
    + apply forallb_forall. intros ic H. apply in_rev in H.
      pose proof (char_indices_from_bounds q (0 + blen p)) as Hb. rewrite Forall_forall in Hb.
      specialize (Hb ic H). apply Nat.leb_le. lia.
Qed.

(* searching forwards for a LF in q finds the first one *)
Lemma find_lf_fwd : forall q o,
  find is_lf_at (char_indices_from o q) =
  if existsb is_lf q then Some (o + blen (upto_nl q) - 1, LF) else None.
Proof.
  induction q as [|c q IH]; intros o; [reflexivity|]. cbn [char_indices_from find upto_nl existsb].
  unfold is_lf_at at 1. cbn [snd]. fold (is_lf c). destruct (is_lf c) eqn:E.
  - unfold is_lf in E. apply ceq_eq in E. subst c. cbn [blen orb]. rewrite len_LF. f_equal. f_equal. lia.
  - cbn [orb]. rewrite IH. destruct (existsb is_lf q); [|reflexivity]. cbn [blen].
    pose proof (len_utf8_pos c). f_equal. f_equal. lia.
Qed.

Lemma upto_nl_nolf q : existsb is_lf q = false -> upto_nl q = q.
Proof.
  induction q as [|c q IH]; [reflexivity|]. cbn [existsb upto_nl]. intros H.
  apply orb_false_iff in H as [Hc Hq]. rewrite Hc. now rewrite IH.
Qed.

Lemma upto_nl_blen_pos q : existsb is_lf q = true -> 1 <= blen (upto_nl q).
Proof.
  destruct q as [|c q]; [discriminate|]. intros _. cbn [upto_nl]. pose proof (len_utf8_pos c).
  destruct (is_lf c); cbn [blen]; lia.
Qed.

Theorem find_line_end_correct p q : find_line_end (p ++ q) (blen p) = Ok (line_end p q).
Proof.
  unfold find_line_end, line_end. destruct (p ++ q) as [|c0 s0] eqn:Es.
  - apply app_eq_nil in Es as [-> ->]. reflexivity.
  - assert (Hne : 1 <= blen (p ++ q)) by (rewrite Es; cbn [blen]; pose proof (len_utf8_pos c0); lia).
    rewrite <- Es. clear c0 s0 Es. rewrite rsub_ok by exact Hne. cbn [bind]. rewrite blen_app in *.
    destruct (Nat.eqb_spec (blen p) (blen p + blen q - 1)) as [Heq|Hneq].
    + (* the special case: exactly one (one-byte) char follows *)
      assert (Hq : blen q = 1) by lia. destruct q as [|c [|c2 q']].
      * cbn in Hq. lia.
      * cbn [upto_nl]. destruct (is_lf c); reflexivity.
      * cbn [blen] in Hq. pose proof (len_utf8_pos c). pose proof (len_utf8_pos c2). lia.
    + unfold char_indices. rewrite char_indices_from_app. rewrite skip_while_app_all.
      * rewrite skip_while_none.
        -- rewrite find_lf_fwd. cbn [plus]. destruct (existsb is_lf q) eqn:E.
           ++ pose proof (upto_nl_blen_pos q E). f_equal. lia.
           ++ now rewrite upto_nl_nolf.
        -- eapply Forall_impl; [|apply char_indices_from_bounds]. cbn. intros ic H. apply Nat.ltb_ge. lia.
      * apply forallb_forall. intros ic H.
        pose proof (char_indices_from_bounds p 0) as Hb. rewrite Forall_forall in Hb.
        specialize (Hb ic H). apply Nat.ltb_lt. lia.
Qed.

(* s = p1 ++ the_line ++ q2 around the offset *)
Lemma the_line_decomp p q : exists p1 q2,
  p = p1 ++ after_last_nl p /\ q = upto_nl q ++ q2 /\
  p ++ q = p1 ++ the_line p q ++ q2 /\ blen p1 = line_start p /\
  blen p1 + blen (the_line p q) = line_end p q.
Proof.
  destruct (line_start_decomp p) as (p1 & Ep & Hp1). destruct (upto_nl_prefix q) as (q2 & Eq).
  exists p1, q2. split; [exact Ep|]. split; [exact Eq|]. split.
  - unfold the_line. rewrite Ep at 1. rewrite Eq at 1. now rewrite <- !app_assoc.
  - split; [exact Hp1|]. unfold the_line, line_end. rewrite blen_app.
    apply (f_equal blen) in Ep. rewrite blen_app in Ep. lia.
Qed.

Theorem line_of_correct p q : line_of (p ++ q) (blen p) = Ok (the_line p q).
Proof.
  unfold line_of. rewrite blen_app.
  replace (Nat.ltb (blen p + blen q) (blen p)) with false by (symmetry; apply Nat.ltb_ge; lia).
  rewrite find_line_end_correct. cbn [bind]. rewrite find_line_start_correct.
  destruct (the_line_decomp p q) as (p1 & q2 & _ & _ & Es & H1 & H2).
  unfold rslice. rewrite Es, <- H1, <- H2. now rewrite slice_app3.
Qed.

(* ---------------------------------------------------------------- Span::new, Span::get, merge_spans *)

Theorem span_new_iff s a b : span_new s a b <> None <-> a <= b /\ boundary s a /\ boundary s b.
Proof.
  unfold span_new. rewrite <- slice_iff. destruct (slice s a b); split; congruence.
Qed.

Lemma span_new_ok p m q : span_new (p ++ m ++ q) (blen p) (blen p + blen m) = Some (blen p, blen p + blen m).
Proof. unfold span_new. now rewrite slice_app3. Qed.

Theorem position_new_iff s a : position_new s a <> None <-> boundary s a.
Proof. unfold position_new. rewrite boundary_iff. destruct (split_at s a); split; congruence. Qed.

(* Span::get on the span (blen p, blen p + blen m): succeeds iff x..y are ordered boundaries of the
   span's text, and then yields the span shifted by the start *)
Theorem span_get_correct p m q x y :
  span_get (p ++ m ++ q) (blen p, blen p + blen m) x y =
  Ok (if ordered_boundaries m x y then Some (blen p + x, blen p + y) else None).
Proof.
  unfold span_get, span_as_str, rslice. cbn [fst snd]. rewrite slice_app3. cbn [bind]. f_equal.
  unfold ordered_boundaries.
  destruct (slice m x y) as [t|] eqn:E.
  - destruct (slice_some _ _ _ _ E) as (p' & q' & -> & -> & ->).
    replace (Nat.leb (blen p') (blen p' + blen t)) with true by (symmetry; apply Nat.leb_le; lia).
    rewrite split_at_app. rewrite <- (blen_app p' t), (app_assoc p' t q'), split_at_app. reflexivity.
  - destruct (Nat.leb_spec x y) as [L|L]; [|reflexivity]. cbn [andb].
    destruct (split_at m x) as [[p1 q1]|] eqn:E1; [|reflexivity].
    destruct (split_at m y) as [[p2 q2]|] eqn:E2; [|reflexivity]. exfalso.
    assert (H : slice m x y <> None).
    { apply slice_iff. split; [exact L|]. split; apply boundary_iff; congruence. }
    congruence.
Qed.

Theorem merge_spans_correct s a b c d :
  span_new s a b <> None -> span_new s c d <> None ->
  merge_spans s (a, b) (c, d) =
  if Nat.leb c b && Nat.leb a d then Some (Nat.min a c, Nat.max b d) else None.
Proof.
  intros H1 H2. unfold merge_spans. cbn [fst snd]. destruct (Nat.leb c b && Nat.leb a d) eqn:E; [|reflexivity].
  apply span_new_iff in H1 as (L1 & Ba & Bb). apply span_new_iff in H2 as (L2 & Bc & Bd).
  assert (H : span_new s (Nat.min a c) (Nat.max b d) <> None).
  { apply span_new_iff. split; [lia|]. split.
    - destruct (Nat.min_spec a c) as [[_ ->]|[_ ->]]; assumption.
    - destruct (Nat.max_spec b d) as [[_ ->]|[_ ->]]; assumption. }
  unfold span_new in *. destruct (slice s (Nat.min a c) (Nat.max b d)); congruence.
Qed.
