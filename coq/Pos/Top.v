(* Pos/Top.v - the per-offset and per-pair facts of C10 phrased on (s, offsets), assembled from the
   decomposition lemmas. *)
From Coq Require Import String.
From Coq Require Import List Arith NArith Bool Lia.
Import ListNotations.
Require Import PV.Pos.Model PV.Pos.ErrorFmt PV.Pos.Spec PV.Pos.BasicProofs PV.Pos.LineColProofs
               PV.Pos.LinesProofs PV.Pos.ErrorProofs PV.Pos.SpanProofs PV.Pos.SpanLayoutProofs.
Open Scope list_scope.

(* the text of s between two offsets *)
Definition mid (s : str) (a b : nat) : str := match slice s a b with Some t => t | None => [] end.

Lemma two_boundaries s a b : boundary s a -> boundary s b -> a <= b ->
  exists p m q, s = p ++ m ++ q /\ a = blen p /\ b = blen p + blen m /\
                before s a = p /\ after s a = m ++ q /\ mid s a b = m /\ after s b = q.
Proof.
  intros (p & r & -> & <-) (p2 & q & E & <-) L.
  destruct (app_eq_blen_le _ _ _ _ E L) as (m & -> & ->).
  exists p, m, q. rewrite blen_app. repeat split.
  - apply before_app.
  - apply after_app.
  - unfold mid. now rewrite slice_app3.
  - rewrite app_assoc, <- blen_app. apply after_app.
Qed.

Section PerOffset.
Variables (fx : fixes) (s : str) (off : nat).
Hypothesis Hb : boundary s off.

Lemma top_line_col : line_col s off = Ok (spec_line_col (before s off)).
Proof. destruct Hb as (p & q & -> & <-). rewrite before_app. apply line_col_correct. Qed.

Lemma top_pair_line_col : pair_line_col s off = line_col s off.
Proof. destruct Hb as (p & q & -> & <-). now rewrite pair_line_col_correct, line_col_correct. Qed.

Lemma top_line_of : line_of s off = Ok (the_line (before s off) (after s off)).
Proof. destruct Hb as (p & q & -> & <-). rewrite before_app, after_app. apply line_of_correct. Qed.

Lemma top_line_of_range :
  find_line_start s off = line_start (before s off) /\
  find_line_end s off = Ok (line_end (before s off) (after s off)).
Proof.
  destruct Hb as (p & q & -> & <-). rewrite before_app, after_app.
  split; [apply find_line_start_correct|apply find_line_end_correct].
Qed.

Lemma top_render_pos : KnownClass_pos (before s off) (after s off) = false ->
  error_render_ok (before s off) (after s off).
Proof.
  destruct Hb as (p & q & -> & <-). rewrite before_app, after_app. intros HK msg.
  exists (pos_vis q). apply render_pos_correct. exact HK.
Qed.

Lemma top_render_pos_no_panic msg : exists out, render_pos s off msg = Ok out.
Proof. destruct Hb as (p & q & -> & <-). apply render_pos_no_panic. Qed.

Section PerPair.
Variable b : nat.
Hypothesis Hb2 : boundary s b.
Hypothesis Hle : off <= b.

Lemma top_pair_line_col_upto : pair_line_col_upto s b off = line_col s off.
Proof.
  destruct (two_boundaries s off b Hb Hb2 Hle) as (p & m & q & -> & -> & -> & _).
  rewrite pair_line_col_upto_correct. now rewrite line_col_correct.
Qed.

Lemma top_lines_span : lines_span s (off, b) = Ok (lines_meeting s off b).
Proof.
  destruct (two_boundaries s off b Hb Hb2 Hle) as (p & m & q & -> & -> & -> & _). apply lines_span_correct.
Qed.

Lemma top_lines : lines s (off, b) = Ok (map (text_of s) (lines_meeting s off b)).
Proof.
  destruct (two_boundaries s off b Hb Hb2 Hle) as (p & m & q & -> & -> & -> & _). apply lines_correct.
Qed.

Lemma top_render_span :
  KnownClass_span fx (before s off) (mid s off b) (after s b) = false ->
  span_render_ok fx (before s off) (mid s off b) (after s b).
Proof.
  destruct (two_boundaries s off b Hb Hb2 Hle) as (p & m & q & _ & _ & _ & -> & _ & -> & ->).
  apply span_render_correct.
Qed.

Lemma top_render_span_no_panic msg : exists out, render_span fx s (off, b) msg = Ok out.
Proof.
  destruct (two_boundaries s off b Hb Hb2 Hle) as (p & m & q & -> & -> & -> & _). apply render_span_no_panic.
Qed.

End PerPair.
End PerOffset.
