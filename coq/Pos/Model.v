(* Pos/Model.v - executable model of the line/column code of pest:
     pest/src/position.rs   Position::new, line_col, line_of, find_line_start, find_line_end,
                            at_end, match_char, skip_back
     pest/src/iterators/line_index.rs   LineIndex::new, LineIndex::line_col
     pest/src/iterators/pair.rs         Pair::line_col (= LineIndex::line_col at the start offset)
     pest/src/span.rs       Span::new, Span::get, as_str, LinesSpan::next, Lines::next, merge_spans
   Strings are lists of chars; a char is its Unicode scalar value (N) and carries its UTF-8
   length; every offset is a BYTE offset.  `res` makes every Rust panic site explicit
   (Panic) and keeps fuel exhaustion of the one unbounded loop (LinesSpan) apart (Diverge). *)
From Coq Require Import List Arith NArith Bool.
Import ListNotations.

Definition char := N.
Definition str := list char.
Definition LF : char := 10%N.
Definition CR : char := 13%N.
Definition TAB : char := 9%N.
Definition SP : char := 32%N.

Definition len_utf8 (c : char) : nat :=
  if (c <? 128)%N then 1 else if (c <? 2048)%N then 2 else if (c <? 65536)%N then 3 else 4.

Definition ceq (a b : char) : bool := N.eqb a b.

(* str::len() *)
Fixpoint blen (s : str) : nat :=
  match s with [] => 0 | c :: r => len_utf8 c + blen r end.

Inductive res (A : Type) : Type := Ok (a : A) | Panic | Diverge.
Arguments Ok {A} a.
Arguments Panic {A}.
Arguments Diverge {A}.
Definition bind {A B} (r : res A) (f : A -> res B) : res B :=
  match r with Ok a => f a | Panic => Panic | Diverge => Diverge end.
Notation "x <- e ;; f" := (bind e (fun x => f)) (at level 61, e at next level, right associativity).

(* usize subtraction with overflow checks: None = panic *)
Definition csub (a b : nat) : option nat := if Nat.leb b a then Some (a - b) else None.
Definition rsub (a b : nat) : res nat := match csub a b with Some x => Ok x | None => Panic end.

(* s.is_char_boundary(off) together with the two halves s[..off], s[off..] *)
Fixpoint split_at (s : str) (off : nat) : option (str * str) :=
  match off with
  | 0 => Some ([], s)
  | _ => match s with
         | [] => None
         | c :: r => match csub off (len_utf8 c) with
                     | None => None
                     | Some off' => match split_at r off' with
                                    | Some (p, q) => Some (c :: p, q)
                                    | None => None
                                    end
                     end
         end
  end.

(* s.get(a..b): Some exactly when a <= b <= len and both are char boundaries;
   &s[a..b] is the same function with None read as a panic *)
Definition slice (s : str) (a b : nat) : option str :=
  match split_at s a with
  | None => None
  | Some (_, q) => match csub b a with
                   | None => None
                   | Some n => match split_at q n with Some (m, _) => Some m | None => None end
                   end
  end.
Definition rslice (s : str) (a b : nat) : res str :=
  match slice s a b with Some t => Ok t | None => Panic end.

(* ---------------------------------------------------------------- position.rs *)

(* Position::new(input, pos): input.get(pos..).map(..) *)
Definition position_new (s : str) (pos : nat) : option nat :=
  match split_at s pos with Some _ => Some pos | None => None end.

(* the `while pos != 0 { match chars.next() {..} }` loop of Position::line_col;
   `chars` is the peekable iterator over input[..pos] *)
Fixpoint lc_scan (chars : str) (pos : nat) (line col : nat) {struct chars} : res (nat * nat) :=
  if Nat.eqb pos 0 then Ok (line, col) else
  match chars with
  | [] => Panic                                            (* None => unreachable!() *)
  | c :: rest =>
    if ceq c CR then
      match rest with
      | n :: rest' =>
        if ceq n LF then                                   (* Some(&'\n') = chars.peek() *)
          p <- rsub pos (if Nat.eqb pos 1 then 1 else 2) ;;
          lc_scan rest' p (line + 1) 1
        else
          p <- rsub pos 1 ;; lc_scan rest p line (col + 1)
      | [] => p <- rsub pos 1 ;; lc_scan rest p line (col + 1)
      end
    else if ceq c LF then
      p <- rsub pos 1 ;; lc_scan rest p (line + 1) 1
    else
      p <- rsub pos (len_utf8 c) ;; lc_scan rest p line (col + 1)
  end.

Definition line_col (s : str) (pos : nat) : res (nat * nat) :=
  if Nat.ltb (blen s) pos then Panic                        (* "position out of bounds" *)
  else match split_at s pos with
       | None => Panic                                      (* &self.input[..pos] *)
       | Some (sl, _) => lc_scan sl pos 1 1
       end.

(* input.char_indices() *)
Fixpoint char_indices_from (i : nat) (s : str) : list (nat * char) :=
  match s with [] => [] | c :: r => (i, c) :: char_indices_from (i + len_utf8 c) r end.
Definition char_indices (s : str) := char_indices_from 0 s.

Fixpoint skip_while {A} (p : A -> bool) (l : list A) : list A :=
  match l with [] => [] | x :: r => if p x then skip_while p r else l end.

Definition is_lf_at (ic : nat * char) : bool := ceq (snd ic) LF.

Definition find_line_start (s : str) (pos : nat) : nat :=
  match s with
  | [] => 0
  | _ => match find is_lf_at (skip_while (fun ic => Nat.leb pos (fst ic)) (rev (char_indices s))) with
         | Some (i, _) => i + 1
         | None => 0
         end
  end.

Definition find_line_end (s : str) (pos : nat) : res nat :=
  match s with
  | [] => Ok 0
  | _ => l1 <- rsub (blen s) 1 ;;                           (* self.input.len() - 1 *)
         if Nat.eqb pos l1 then Ok (blen s)
         else match find is_lf_at (skip_while (fun ic => Nat.ltb (fst ic) pos) (char_indices s)) with
              | Some (i, _) => Ok (i + 1)
              | None => Ok (blen s)
              end
  end.

Definition line_of (s : str) (pos : nat) : res str :=
  if Nat.ltb (blen s) pos then Panic
  else e <- find_line_end s pos ;; rslice s (find_line_start s pos) e.

Definition at_end (s : str) (pos : nat) : bool := Nat.eqb pos (blen s).

(* self.input[self.pos..].chars().next() == Some(c) *)
Definition match_char (s : str) (pos : nat) (c : char) : res bool :=
  match split_at s pos with
  | None => Panic
  | Some (_, q) => Ok (match q with c' :: _ => ceq c c' | [] => false end)
  end.

Fixpoint take_len (n : nat) (l : str) : option nat :=
  match n with
  | 0 => Some 0
  | S n' => match l with
            | [] => None
            | c :: r => match take_len n' r with Some k => Some (len_utf8 c + k) | None => None end
            end
  end.

(* Position::skip_back(n): (returned bool, new pos) *)
Definition skip_back (s : str) (pos n : nat) : res (bool * nat) :=
  match split_at s pos with
  | None => Panic
  | Some (pre, _) =>
    match take_len n (rev pre) with
    | None => Ok (false, pos)
    | Some k => p <- rsub pos k ;; Ok (true, p)
    end
  end.

(* ---------------------------------------------------------------- line_index.rs *)

Fixpoint li_scan (cs : str) (offset : nat) (acc : list nat) : list nat :=
  match cs with
  | [] => acc
  | c :: r => let offset := offset + len_utf8 c in
              if ceq c LF then li_scan r offset (acc ++ [offset]) else li_scan r offset acc
  end.
Definition line_index_new (text : str) : list nat := li_scan text 0 [0].

(* slice::partition_point by its specification: the number of leading elements satisfying the
   predicate (defined for slices partitioned by it; Pos/LineColProofs.v proves line_offsets is) *)
Fixpoint partition_point {A} (p : A -> bool) (l : list A) : nat :=
  match l with [] => 0 | x :: r => if p x then S (partition_point p r) else 0 end.

Definition li_line_col (idx : list nat) (input : str) (pos : nat) : res (nat * nat) :=
  line <- rsub (partition_point (fun it => Nat.leb it pos) idx) 1 ;;
  match nth_error idx line with
  | None => Panic                                           (* self.line_offsets[line] *)
  | Some first => ls <- rslice input first pos ;;           (* &input[first_offset..pos] *)
                  Ok (line + 1, length ls + 1)
  end.

(* Pair::line_col for a pair starting at `a`:
   - built by PairsBuilder: the index covers the whole input;
   - produced by a parse: the index covers input[..last_input_pos] (pairs.rs, `new`) *)
Definition pair_line_col (s : str) (a : nat) : res (nat * nat) :=
  li_line_col (line_index_new s) s a.
Definition pair_line_col_upto (s : str) (last a : nat) : res (nat * nat) :=
  pre <- rslice s 0 last ;; li_line_col (line_index_new pre) s a.

(* ---------------------------------------------------------------- span.rs *)

Definition span_new (s : str) (a b : nat) : option (nat * nat) :=
  match slice s a b with Some _ => Some (a, b) | None => None end.

Definition span_as_str (s : str) (sp : nat * nat) : res str := rslice s (fst sp) (snd sp).

(* Span::get with the range already converted to start..end *)
Definition span_get (s : str) (sp : nat * nat) (x y : nat) : res (option (nat * nat)) :=
  t <- span_as_str s sp ;;
  Ok (match slice t x y with Some _ => Some (fst sp + x, fst sp + y) | None => None end).

Definition merge_spans (s : str) (a b : nat * nat) : option (nat * nat) :=
  if Nat.leb (fst b) (snd a) && Nat.leb (fst a) (snd b)
  then span_new s (Nat.min (fst a) (fst b)) (Nat.max (snd a) (snd b))
  else None.

(* LinesSpan::next: (yielded span, new self.pos) *)
Definition lines_span_next (s : str) (sp : nat * nat) (pos : nat) : res (option (nat * nat) * nat) :=
  if Nat.ltb (snd sp) pos then Ok (None, pos) else
  match position_new s pos with
  | None => Ok (None, pos)
  | Some p =>
    if at_end s p then Ok (None, pos) else
    let line_start := find_line_start s p in
    e <- find_line_end s p ;;
    Ok (span_new s line_start e, e)
  end.

(* collect(): call next until it yields None *)
Fixpoint lines_span_collect (fuel : nat) (s : str) (sp : nat * nat) (pos : nat) : res (list (nat * nat)) :=
  match fuel with
  | 0 => Diverge
  | S f => r <- lines_span_next s sp pos ;;
           match fst r with
           | None => Ok []
           | Some l => rest <- lines_span_collect f s sp (snd r) ;; Ok (l :: rest)
           end
  end.

Definition lines_span (s : str) (sp : nat * nat) : res (list (nat * nat)) :=
  lines_span_collect (S (S (blen s))) s sp (fst sp).

Fixpoint rmap {A B} (f : A -> res B) (l : list A) : res (list B) :=
  match l with [] => Ok [] | x :: r => y <- f x ;; ys <- rmap f r ;; Ok (y :: ys) end.

(* Lines::next = inner.next().map(|span| span.as_str()) *)
Definition lines (s : str) (sp : nat * nat) : res (list str) :=
  l <- lines_span s sp ;; rmap (span_as_str s) l.
