(* Pos/LinesProofs.v - LinesSpan / Lines iteration yields exactly the consecutive lines of the
   input that meet the span (DESIGN.md section 2), for every string and ordered boundary pair. *)
From Coq Require Import List Arith NArith Bool Lia.
Import ListNotations.
Require Import PV.Pos.Model PV.Pos.ErrorFmt PV.Pos.Spec PV.Pos.BasicProofs PV.Pos.LineColProofs.
Open Scope list_scope.

Arguments Nat.sub : simpl never.
Arguments Nat.leb : simpl never.
Arguments Nat.ltb : simpl never.
Arguments Nat.eqb : simpl never.
Arguments len_utf8 : simpl never.

(* what follows the first line of q *)
Fixpoint drop_line (q : str) : str :=
  match q with [] => [] | c :: r => if is_lf c then r else drop_line r end.

Lemma upto_drop q : q = upto_nl q ++ drop_line q.
Proof. induction q as [|c q IH]; [reflexivity|]. cbn [upto_nl drop_line]. destruct (is_lf c); cbn [app]; congruence. Qed.

Lemma drop_line_length q : q <> [] -> length (drop_line q) < length q.
Proof.
  intros H. pose proof (upto_nl_nonempty q H) as Hu. pose proof (f_equal (@length _) (upto_drop q)) as E.
  rewrite app_length in E. destruct (upto_nl q); [congruence|]. cbn [length] in E. lia.
Qed.

Lemma drop_line_nolf q : existsb is_lf q = false -> drop_line q = [].
Proof.
  induction q as [|c q IH]; [reflexivity|]. cbn [existsb drop_line]. intros H.
  apply orb_false_iff in H as [Hc Hq]. rewrite Hc. now apply IH.
Qed.

Lemma upto_nl_ends_lf q : existsb is_lf q = true -> exists u0, upto_nl q = u0 ++ [LF].
Proof.
  induction q as [|c q IH]; [discriminate|]. cbn [existsb upto_nl]. destruct (is_lf c) eqn:E.
  - intros _. exists []. unfold is_lf in E. apply ceq_eq in E. now subst.
  - cbn [orb]. intros H. destruct (IH H) as (u0 & ->). now exists (c :: u0).
Qed.

Lemma upto_nl_blen_pos' q : q <> [] -> 1 <= blen (upto_nl q).
Proof.
  destruct q as [|c q]; [congruence|]. intros _. cbn [upto_nl]. pose proof (len_utf8_pos c).
  destruct (is_lf c); cbn [blen]; lia.
Qed.

(* ---------------------------------------------------------------- the specification, unfolded along the text *)

Lemma ranges_nil x : line_ranges_from x x [] = [].
Proof. cbn. now rewrite Nat.eqb_refl. Qed.

Lemma ranges_step : forall q st cur, q <> [] -> st <= cur ->
  line_ranges_from st cur q =
  (st, cur + blen (upto_nl q)) ::
  line_ranges_from (cur + blen (upto_nl q)) (cur + blen (upto_nl q)) (drop_line q).
Proof.
  induction q as [|c q IH]; intros st cur Hne Hle; [congruence|].
  cbn [line_ranges_from upto_nl drop_line]. pose proof (len_utf8_pos c) as Hc.
  destruct (is_lf c) eqn:E.
  - cbn [blen]. now rewrite Nat.add_0_r.
  - destruct q as [|c2 q'].
    + cbn [upto_nl drop_line blen]. rewrite ranges_nil. cbn [line_ranges_from]. rewrite Nat.add_0_r.
      replace (Nat.eqb (cur + len_utf8 c) st) with false by (symmetry; apply Nat.eqb_neq; lia).
      reflexivity.
    + rewrite IH by (try discriminate; lia). cbn [blen].
      replace (cur + len_utf8 c + blen (upto_nl (c2 :: q'))) with (cur + (len_utf8 c + blen (upto_nl (c2 :: q')))) by lia.
      reflexivity.
Qed.

Lemma ranges_fst_ge : forall q st cur, st <= cur -> Forall (fun r => st <= fst r) (line_ranges_from st cur q).
Proof.
  induction q as [|c q IH]; intros st cur H; cbn [line_ranges_from].
  - destruct (Nat.eqb cur st); repeat constructor.
  - pose proof (len_utf8_pos c). destruct (is_lf c).
    + constructor; [cbn; lia|]. eapply Forall_impl; [|apply IH; lia]. cbn. intros; lia.
    + apply IH. lia.
Qed.

Lemma ranges_app : forall x st cur y, exists R,
  line_ranges_from st cur (x ++ y) =
  R ++ line_ranges_from (if existsb is_lf x then cur + blen x - blen (after_last_nl x) else st) (cur + blen x) y
  /\ Forall (fun r => snd r <= cur + blen x) R.
Proof.
  induction x as [|c x IH]; intros st cur y.
  - exists []. cbn [app existsb blen]. rewrite Nat.add_0_r. auto.
  - cbn [app line_ranges_from]. rewrite after_last_nl_cons. cbn [existsb blen].
    pose proof (len_utf8_pos c) as Hc. pose proof (blen_after_le x) as Ha.
    destruct (is_lf c) eqn:E; cbn [orb].
    + destruct (IH (cur + len_utf8 c) (cur + len_utf8 c) y) as (R & ER & HR).
      exists ((st, cur + len_utf8 c) :: R). split.
      * rewrite ER. cbn [app]. f_equal. f_equal.
        replace (cur + len_utf8 c + blen x) with (cur + (len_utf8 c + blen x)) by lia.
        f_equal. destruct (existsb is_lf x) eqn:E2; [lia|]. rewrite after_last_nl_nolf by exact E2. lia.
      * constructor; [cbn; lia|]. eapply Forall_impl; [|exact HR]. cbn. intros; lia.
    + destruct (IH st (cur + len_utf8 c) y) as (R & ER & HR). exists R. split.
      * rewrite ER. f_equal.
        replace (cur + len_utf8 c + blen x) with (cur + (len_utf8 c + blen x)) by lia.
        f_equal. destruct (existsb is_lf x); [lia|reflexivity].
      * eapply Forall_impl; [|exact HR]. cbn. intros; lia.
Qed.

Lemma filter_none {A} (f : A -> bool) l : Forall (fun x => f x = false) l -> filter f l = [].
Proof. induction 1 as [|x l Hx _ IH]; [reflexivity|]. cbn. now rewrite Hx. Qed.

(* the lines meeting [a,b], a = blen p: nothing before the line containing a *)
Lemma lines_meeting_from p r b : blen p <= b ->
  lines_meeting (p ++ r) (blen p) b = filter (meets (blen p) b) (line_ranges_from (line_start p) (blen p) r).
Proof.
  intros Hb. unfold lines_meeting, line_ranges. destruct (ranges_app p 0 0 r) as (R & -> & HR).
  rewrite filter_app, filter_none.
  - cbn [app plus]. f_equal. f_equal. unfold line_start.
    destruct (existsb is_lf p) eqn:E; [reflexivity|]. rewrite after_last_nl_nolf by exact E. lia.
  - eapply Forall_impl; [|exact HR]. cbn [plus]. intros x Hx. unfold meets.
    replace (Nat.ltb (blen p) (snd x)) with false by (symmetry; apply Nat.ltb_ge; lia). apply andb_false_r.
Qed.

(* ---------------------------------------------------------------- the iteration *)

Lemma lines_span_next_spec p' q' sp :
  lines_span_next (p' ++ q') sp (blen p') =
  if Nat.ltb (snd sp) (blen p') then Ok (None, blen p')
  else match q' with
       | [] => Ok (None, blen p')
       | _ => Ok (Some (line_start p', line_end p' q'), line_end p' q')
       end.
Proof.
  unfold lines_span_next. destruct (Nat.ltb (snd sp) (blen p')); [reflexivity|].
  unfold position_new. rewrite split_at_app. unfold at_end. rewrite blen_app.
  destruct q' as [|c q''].
  - cbn [blen]. rewrite Nat.add_0_r, Nat.eqb_refl. reflexivity.
  - set (q' := c :: q''). assert (Hq : 1 <= blen q') by (subst q'; cbn [blen]; pose proof (len_utf8_pos c); lia).
    replace (Nat.eqb (blen p') (blen p' + blen q')) with false by (symmetry; apply Nat.eqb_neq; lia).
    rewrite find_line_end_correct. cbn [bind]. rewrite find_line_start_correct.
    destruct (the_line_decomp p' q') as (p1 & q2 & _ & _ & Es & H1 & H2).
    unfold span_new. rewrite Es, <- H1, <- H2. now rewrite slice_app3.
Qed.

Lemma line_start_app_upto p' q' : existsb is_lf q' = true ->
  line_start (p' ++ upto_nl q') = blen (p' ++ upto_nl q').
Proof.
  intros H. destruct (upto_nl_ends_lf q' H) as (u0 & ->). unfold line_start.
  rewrite app_assoc, after_last_nl_app_lf. cbn [blen]. lia.
Qed.

Lemma collect_spec a b : a <= b -> forall fuel q' p' st,
  length q' < fuel -> a <= blen p' -> st <= blen p' ->
  (q' <> [] -> st = line_start p') ->
  (blen p' = a \/ st = blen p') ->
  lines_span_collect fuel (p' ++ q') (a, b) (blen p') =
  Ok (filter (meets a b) (line_ranges_from st (blen p') q')).
Proof.
  intros Hab. induction fuel as [|f IH]; intros q' p' st Hf Ha Hst Hls Hinv; [lia|].
  cbn [lines_span_collect]. rewrite lines_span_next_spec. cbn [snd].
  destruct (Nat.ltb_spec b (blen p')) as [Hlt|Hge].
  - cbn [bind fst]. f_equal. symmetry. apply filter_none.
    eapply Forall_impl; [|apply ranges_fst_ge; exact Hst]. cbn. intros r Hr. unfold meets.
    replace (Nat.leb (fst r) b) with false by (symmetry; apply Nat.leb_gt; lia). reflexivity.
  - destruct q' as [|c q''].
    + cbn [bind fst line_ranges_from]. f_equal.
      destruct (Nat.eqb_spec (blen p') st) as [_|Hne]; [reflexivity|]. cbn [filter]. unfold meets. cbn [fst snd].
      replace (Nat.ltb a (blen p')) with false by (symmetry; apply Nat.ltb_ge; lia). now rewrite andb_false_r.
    + set (q' := c :: q'') in *. assert (Hne : q' <> []) by (subst q'; discriminate).
      cbn [bind fst snd]. rewrite ranges_step by assumption.
      pose proof (upto_nl_blen_pos' q' Hne) as Hu.
      cbn [filter]. unfold meets at 1. cbn [fst snd].
      replace (Nat.leb st b) with true by (symmetry; apply Nat.leb_le; lia).
      replace (Nat.ltb a (blen p' + blen (upto_nl q'))) with true by (symmetry; apply Nat.ltb_lt; lia).
      cbn [andb]. rewrite (Hls Hne). unfold line_end.
      pose proof (upto_drop q') as Eq.
      assert (Es : p' ++ q' = (p' ++ upto_nl q') ++ drop_line q') by (rewrite <- app_assoc; now rewrite <- Eq).
      rewrite Es. rewrite <- blen_app.
      rewrite (IH (drop_line q') (p' ++ upto_nl q') (blen (p' ++ upto_nl q'))).
      * cbn [bind]. reflexivity.
      * pose proof (drop_line_length q' Hne). lia.
      * rewrite blen_app. lia.
      * lia.
      * intros Hd. symmetry. apply line_start_app_upto.
        destruct (existsb is_lf q') eqn:E; [reflexivity|]. now rewrite drop_line_nolf in Hd.
      * right. reflexivity.
Qed.

Theorem lines_span_correct p m q :
  lines_span (p ++ m ++ q) (blen p, blen p + blen m) =
  Ok (lines_meeting (p ++ m ++ q) (blen p) (blen p + blen m)).
Proof.
  unfold lines_span. cbn [fst]. rewrite lines_meeting_from by lia.
  apply collect_spec; try lia.
  all: try (pose proof (blen_ge_length (m ++ q)); rewrite blen_app; lia).
  all: try apply line_start_le.
  all: try reflexivity.
Qed.

(* every yielded range is a valid span of the input (it came out of Span::new) *)
Lemma collect_valid s sp : forall fuel pos L, lines_span_collect fuel s sp pos = Ok L ->
  Forall (fun r => slice s (fst r) (snd r) <> None) L.
Proof.
  induction fuel as [|f IH]; intros pos L H; [discriminate|]. cbn [lines_span_collect] in H.
  destruct (lines_span_next s sp pos) as [[o pos']| |] eqn:En; cbn [bind fst snd] in H; try discriminate.
  destruct o as [l|]; [|inversion H; constructor].
  destruct (lines_span_collect f s sp pos') as [rest| |] eqn:Er; cbn [bind] in H; try discriminate.
  inversion H; subst. constructor; [|eapply IH; exact Er].
  unfold lines_span_next in En. destruct (Nat.ltb (snd sp) pos); [discriminate|].
  destruct (position_new s pos); [|discriminate]. destruct (at_end s n); [discriminate|].
  destruct (find_line_end s n); cbn [bind] in En; try discriminate. inversion En as [[E1 E2]].
  unfold span_new in E1. destruct (slice s (find_line_start s n) a) eqn:Es; [|discriminate].
  inversion E1; subst. cbn [fst snd]. congruence.
Qed.

Definition text_of (s : str) (r : nat * nat) : str :=
  match slice s (fst r) (snd r) with Some t => t | None => [] end.

Lemma rmap_valid s : forall L, Forall (fun r => slice s (fst r) (snd r) <> None) L ->
  rmap (span_as_str s) L = Ok (map (text_of s) L).
Proof.
  induction 1 as [|r L Hr _ IH]; [reflexivity|]. cbn [rmap map]. unfold span_as_str at 1, rslice, text_of at 1.
  destruct (slice s (fst r) (snd r)); [|congruence]. cbn [bind]. now rewrite IH.
Qed.

Theorem lines_correct p m q :
  lines (p ++ m ++ q) (blen p, blen p + blen m) =
  Ok (map (text_of (p ++ m ++ q)) (lines_meeting (p ++ m ++ q) (blen p) (blen p + blen m))).
Proof.
  unfold lines. pose proof (lines_span_correct p m q) as H. rewrite H. cbn [bind].
  apply rmap_valid. unfold lines_span in H. eapply collect_valid. exact H.
Qed.
