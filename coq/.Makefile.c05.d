Opt/Concat.vo Opt/Concat.glob Opt/Concat.v.beautified Opt/Concat.required_vo: Opt/Concat.v Comb/PState.vo Peg/Ast.vo Opt/MapExpr.vo
Opt/Concat.vio: Opt/Concat.v Comb/PState.vio Peg/Ast.vio Opt/MapExpr.vio
Opt/Concat.vos Opt/Concat.vok Opt/Concat.required_vos: Opt/Concat.v Comb/PState.vos Peg/Ast.vos Opt/MapExpr.vos
Opt/Factor.vo Opt/Factor.glob Opt/Factor.v.beautified Opt/Factor.required_vo: Opt/Factor.v Comb/PState.vo Peg/Ast.vo Opt/MapExpr.vo
Opt/Factor.vio: Opt/Factor.v Comb/PState.vio Peg/Ast.vio Opt/MapExpr.vio
Opt/Factor.vos Opt/Factor.vok Opt/Factor.required_vos: Opt/Factor.v Comb/PState.vos Peg/Ast.vos Opt/MapExpr.vos
Opt/FactorProofs.vo Opt/FactorProofs.glob Opt/FactorProofs.v.beautified Opt/FactorProofs.required_vo: Opt/FactorProofs.v Comb/PState.vo Comb/Bytes.vo Iter/Queue.vo Peg/Ast.vo Peg/Spec.vo Opt/Sem.vo Opt/SemProofs.vo Opt/SemCong.vo Opt/SemTransfer.vo Opt/SemLaws.vo Opt/MapExpr.vo Opt/MapExprProofs.vo Opt/PassProofs.vo Opt/Factor.vo
Opt/FactorProofs.vio: Opt/FactorProofs.v Comb/PState.vio Comb/Bytes.vio Iter/Queue.vio Peg/Ast.vio Peg/Spec.vio Opt/Sem.vio Opt/SemProofs.vio Opt/SemCong.vio Opt/SemTransfer.vio Opt/SemLaws.vio Opt/MapExpr.vio Opt/MapExprProofs.vio Opt/PassProofs.vio Opt/Factor.vio
Opt/FactorProofs.vos Opt/FactorProofs.vok Opt/FactorProofs.required_vos: Opt/FactorProofs.v Comb/PState.vos Comb/Bytes.vos Iter/Queue.vos Peg/Ast.vos Peg/Spec.vos Opt/Sem.vos Opt/SemProofs.vos Opt/SemCong.vos Opt/SemTransfer.vos Opt/SemLaws.vos Opt/MapExpr.vos Opt/MapExprProofs.vos Opt/PassProofs.vos Opt/Factor.vos
Opt/List.vo Opt/List.glob Opt/List.v.beautified Opt/List.required_vo: Opt/List.v Comb/PState.vo Peg/Ast.vo Opt/MapExpr.vo
Opt/List.vio: Opt/List.v Comb/PState.vio Peg/Ast.vio Opt/MapExpr.vio
Opt/List.vos Opt/List.vok Opt/List.required_vos: Opt/List.v Comb/PState.vos Peg/Ast.vos Opt/MapExpr.vos
Opt/MapExpr.vo Opt/MapExpr.glob Opt/MapExpr.v.beautified Opt/MapExpr.required_vo: Opt/MapExpr.v Comb/PState.vo Peg/Ast.vo
Opt/MapExpr.vio: Opt/MapExpr.v Comb/PState.vio Peg/Ast.vio
Opt/MapExpr.vos Opt/MapExpr.vok Opt/MapExpr.required_vos: Opt/MapExpr.v Comb/PState.vos Peg/Ast.vos
Opt/MapExprProofs.vo Opt/MapExprProofs.glob Opt/MapExprProofs.v.beautified Opt/MapExprProofs.required_vo: Opt/MapExprProofs.v Comb/PState.vo Comb/Bytes.vo Iter/Queue.vo Peg/Ast.vo Peg/Spec.vo Opt/Sem.vo Opt/SemProofs.vo Opt/SemCong.vo Opt/MapExpr.vo
Opt/MapExprProofs.vio: Opt/MapExprProofs.v Comb/PState.vio Comb/Bytes.vio Iter/Queue.vio Peg/Ast.vio Peg/Spec.vio Opt/Sem.vio Opt/SemProofs.vio Opt/SemCong.vio Opt/MapExpr.vio
Opt/MapExprProofs.vos Opt/MapExprProofs.vok Opt/MapExprProofs.required_vos: Opt/MapExprProofs.v Comb/PState.vos Comb/Bytes.vos Iter/Queue.vos Peg/Ast.vos Peg/Spec.vos Opt/Sem.vos Opt/SemProofs.vos Opt/SemCong.vos Opt/MapExpr.vos
Opt/PassProofs.vo Opt/PassProofs.glob Opt/PassProofs.v.beautified Opt/PassProofs.required_vo: Opt/PassProofs.v Comb/PState.vo Comb/Bytes.vo Iter/Queue.vo Peg/Ast.vo Peg/Spec.vo Opt/Sem.vo Opt/SemProofs.vo Opt/SemCong.vo Opt/SemTransfer.vo Opt/MapExpr.vo
Opt/PassProofs.vio: Opt/PassProofs.v Comb/PState.vio Comb/Bytes.vio Iter/Queue.vio Peg/Ast.vio Peg/Spec.vio Opt/Sem.vio Opt/SemProofs.vio Opt/SemCong.vio Opt/SemTransfer.vio Opt/MapExpr.vio
Opt/PassProofs.vos Opt/PassProofs.vok Opt/PassProofs.required_vos: Opt/PassProofs.v Comb/PState.vos Comb/Bytes.vos Iter/Queue.vos Peg/Ast.vos Peg/Spec.vos Opt/Sem.vos Opt/SemProofs.vos Opt/SemCong.vos Opt/SemTransfer.vos Opt/MapExpr.vos
Opt/Pipeline.vo Opt/Pipeline.glob Opt/Pipeline.v.beautified Opt/Pipeline.required_vo: Opt/Pipeline.v Comb/PState.vo Peg/Ast.vo Opt/MapExpr.vo Opt/Rotate.vo Opt/Skip.vo Opt/Unroll.vo Opt/Concat.vo Opt/Factor.vo Opt/List.vo Opt/Restore.vo
Opt/Pipeline.vio: Opt/Pipeline.v Comb/PState.vio Peg/Ast.vio Opt/MapExpr.vio Opt/Rotate.vio Opt/Skip.vio Opt/Unroll.vio Opt/Concat.vio Opt/Factor.vio Opt/List.vio Opt/Restore.vio
Opt/Pipeline.vos Opt/Pipeline.vok Opt/Pipeline.required_vos: Opt/Pipeline.v Comb/PState.vos Peg/Ast.vos Opt/MapExpr.vos Opt/Rotate.vos Opt/Skip.vos Opt/Unroll.vos Opt/Concat.vos Opt/Factor.vos Opt/List.vos Opt/Restore.vos
Opt/Restore.vo Opt/Restore.glob Opt/Restore.v.beautified Opt/Restore.required_vo: Opt/Restore.v Comb/PState.vo Peg/Ast.vo Opt/MapExpr.vo
Opt/Restore.vio: Opt/Restore.v Comb/PState.vio Peg/Ast.vio Opt/MapExpr.vio
Opt/Restore.vos Opt/Restore.vok Opt/Restore.required_vos: Opt/Restore.v Comb/PState.vos Peg/Ast.vos Opt/MapExpr.vos
Opt/Rotate.vo Opt/Rotate.glob Opt/Rotate.v.beautified Opt/Rotate.required_vo: Opt/Rotate.v Comb/PState.vo Peg/Ast.vo Opt/MapExpr.vo
Opt/Rotate.vio: Opt/Rotate.v Comb/PState.vio Peg/Ast.vio Opt/MapExpr.vio
Opt/Rotate.vos Opt/Rotate.vok Opt/Rotate.required_vos: Opt/Rotate.v Comb/PState.vos Peg/Ast.vos Opt/MapExpr.vos
Opt/RotateProofs.vo Opt/RotateProofs.glob Opt/RotateProofs.v.beautified Opt/RotateProofs.required_vo: Opt/RotateProofs.v Comb/PState.vo Comb/Bytes.vo Iter/Queue.vo Peg/Ast.vo Peg/Spec.vo Opt/Sem.vo Opt/SemProofs.vo Opt/SemCong.vo Opt/SemTransfer.vo Opt/SemLaws.vo Opt/MapExpr.vo Opt/MapExprProofs.vo Opt/PassProofs.vo Opt/Rotate.vo
Opt/RotateProofs.vio: Opt/RotateProofs.v Comb/PState.vio Comb/Bytes.vio Iter/Queue.vio Peg/Ast.vio Peg/Spec.vio Opt/Sem.vio Opt/SemProofs.vio Opt/SemCong.vio Opt/SemTransfer.vio Opt/SemLaws.vio Opt/MapExpr.vio Opt/MapExprProofs.vio Opt/PassProofs.vio Opt/Rotate.vio
Opt/RotateProofs.vos Opt/RotateProofs.vok Opt/RotateProofs.required_vos: Opt/RotateProofs.v Comb/PState.vos Comb/Bytes.vos Iter/Queue.vos Peg/Ast.vos Peg/Spec.vos Opt/Sem.vos Opt/SemProofs.vos Opt/SemCong.vos Opt/SemTransfer.vos Opt/SemLaws.vos Opt/MapExpr.vos Opt/MapExprProofs.vos Opt/PassProofs.vos Opt/Rotate.vos
Opt/Sem.vo Opt/Sem.glob Opt/Sem.v.beautified Opt/Sem.required_vo: Opt/Sem.v Comb/PState.vo Comb/Bytes.vo Iter/Queue.vo Peg/Ast.vo Peg/Spec.vo
Opt/Sem.vio: Opt/Sem.v Comb/PState.vio Comb/Bytes.vio Iter/Queue.vio Peg/Ast.vio Peg/Spec.vio
Opt/Sem.vos Opt/Sem.vok Opt/Sem.required_vos: Opt/Sem.v Comb/PState.vos Comb/Bytes.vos Iter/Queue.vos Peg/Ast.vos Peg/Spec.vos
Opt/SemCong.vo Opt/SemCong.glob Opt/SemCong.v.beautified Opt/SemCong.required_vo: Opt/SemCong.v Comb/PState.vo Comb/Bytes.vo Iter/Queue.vo Peg/Ast.vo Peg/Spec.vo Peg/SpecFacts.vo Opt/Sem.vo Opt/SemProofs.vo
Opt/SemCong.vio: Opt/SemCong.v Comb/PState.vio Comb/Bytes.vio Iter/Queue.vio Peg/Ast.vio Peg/Spec.vio Peg/SpecFacts.vio Opt/Sem.vio Opt/SemProofs.vio
Opt/SemCong.vos Opt/SemCong.vok Opt/SemCong.required_vos: Opt/SemCong.v Comb/PState.vos Comb/Bytes.vos Iter/Queue.vos Peg/Ast.vos Peg/Spec.vos Peg/SpecFacts.vos Opt/Sem.vos Opt/SemProofs.vos
Opt/SemLaws.vo Opt/SemLaws.glob Opt/SemLaws.v.beautified Opt/SemLaws.required_vo: Opt/SemLaws.v Comb/PState.vo Comb/Bytes.vo Iter/Queue.vo Peg/Ast.vo Peg/Spec.vo Opt/Sem.vo Opt/SemProofs.vo Opt/SemCong.vo
Opt/SemLaws.vio: Opt/SemLaws.v Comb/PState.vio Comb/Bytes.vio Iter/Queue.vio Peg/Ast.vio Peg/Spec.vio Opt/Sem.vio Opt/SemProofs.vio Opt/SemCong.vio
Opt/SemLaws.vos Opt/SemLaws.vok Opt/SemLaws.required_vos: Opt/SemLaws.v Comb/PState.vos Comb/Bytes.vos Iter/Queue.vos Peg/Ast.vos Peg/Spec.vos Opt/Sem.vos Opt/SemProofs.vos Opt/SemCong.vos
Opt/SemProofs.vo Opt/SemProofs.glob Opt/SemProofs.v.beautified Opt/SemProofs.required_vo: Opt/SemProofs.v Comb/PState.vo Comb/Bytes.vo Iter/Queue.vo Peg/Ast.vo Peg/Spec.vo Peg/SpecFacts.vo Opt/Sem.vo
Opt/SemProofs.vio: Opt/SemProofs.v Comb/PState.vio Comb/Bytes.vio Iter/Queue.vio Peg/Ast.vio Peg/Spec.vio Peg/SpecFacts.vio Opt/Sem.vio
Opt/SemProofs.vos Opt/SemProofs.vok Opt/SemProofs.required_vos: Opt/SemProofs.v Comb/PState.vos Comb/Bytes.vos Iter/Queue.vos Peg/Ast.vos Peg/Spec.vos Peg/SpecFacts.vos Opt/Sem.vos
Opt/SemTransfer.vo Opt/SemTransfer.glob Opt/SemTransfer.v.beautified Opt/SemTransfer.required_vo: Opt/SemTransfer.v Comb/PState.vo Comb/Bytes.vo Iter/Queue.vo Peg/Ast.vo Peg/Spec.vo Peg/SpecFacts.vo Opt/Sem.vo Opt/SemProofs.vo Opt/SemCong.vo
Opt/SemTransfer.vio: Opt/SemTransfer.v Comb/PState.vio Comb/Bytes.vio Iter/Queue.vio Peg/Ast.vio Peg/Spec.vio Peg/SpecFacts.vio Opt/Sem.vio Opt/SemProofs.vio Opt/SemCong.vio
Opt/SemTransfer.vos Opt/SemTransfer.vok Opt/SemTransfer.required_vos: Opt/SemTransfer.v Comb/PState.vos Comb/Bytes.vos Iter/Queue.vos Peg/Ast.vos Peg/Spec.vos Peg/SpecFacts.vos Opt/Sem.vos Opt/SemProofs.vos Opt/SemCong.vos
Opt/Skip.vo Opt/Skip.glob Opt/Skip.v.beautified Opt/Skip.required_vo: Opt/Skip.v Comb/PState.vo Peg/Ast.vo Opt/MapExpr.vo
Opt/Skip.vio: Opt/Skip.v Comb/PState.vio Peg/Ast.vio Opt/MapExpr.vio
Opt/Skip.vos Opt/Skip.vok Opt/Skip.required_vos: Opt/Skip.v Comb/PState.vos Peg/Ast.vos Opt/MapExpr.vos
Opt/Unroll.vo Opt/Unroll.glob Opt/Unroll.v.beautified Opt/Unroll.required_vo: Opt/Unroll.v Comb/PState.vo Peg/Ast.vo Opt/MapExpr.vo
Opt/Unroll.vio: Opt/Unroll.v Comb/PState.vio Peg/Ast.vio Opt/MapExpr.vio
Opt/Unroll.vos Opt/Unroll.vok Opt/Unroll.required_vos: Opt/Unroll.v Comb/PState.vos Peg/Ast.vos Opt/MapExpr.vos
Opt/UnrollProofs.vo Opt/UnrollProofs.glob Opt/UnrollProofs.v.beautified Opt/UnrollProofs.required_vo: Opt/UnrollProofs.v Comb/PState.vo Comb/Bytes.vo Iter/Queue.vo Peg/Ast.vo Peg/Spec.vo Opt/Sem.vo Opt/SemProofs.vo Opt/SemCong.vo Opt/SemTransfer.vo Opt/SemLaws.vo Opt/MapExpr.vo Opt/MapExprProofs.vo Opt/PassProofs.vo Opt/Unroll.vo
Opt/UnrollProofs.vio: Opt/UnrollProofs.v Comb/PState.vio Comb/Bytes.vio Iter/Queue.vio Peg/Ast.vio Peg/Spec.vio Opt/Sem.vio Opt/SemProofs.vio Opt/SemCong.vio Opt/SemTransfer.vio Opt/SemLaws.vio Opt/MapExpr.vio Opt/MapExprProofs.vio Opt/PassProofs.vio Opt/Unroll.vio
Opt/UnrollProofs.vos Opt/UnrollProofs.vok Opt/UnrollProofs.required_vos: Opt/UnrollProofs.v Comb/PState.vos Comb/Bytes.vos Iter/Queue.vos Peg/Ast.vos Peg/Spec.vos Opt/Sem.vos Opt/SemProofs.vos Opt/SemCong.vos Opt/SemTransfer.vos Opt/SemLaws.vos Opt/MapExpr.vos Opt/MapExprProofs.vos Opt/PassProofs.vos Opt/Unroll.vos
Extract/OptExtract.vo Extract/OptExtract.glob Extract/OptExtract.v.beautified Extract/OptExtract.required_vo: Extract/OptExtract.v Comb/PState.vo Comb/Bytes.vo Iter/Queue.vo Peg/Ast.vo Peg/Spec.vo Opt/MapExpr.vo Opt/Rotate.vo Opt/Skip.vo Opt/Unroll.vo Opt/Concat.vo Opt/Factor.vo Opt/List.vo Opt/Restore.vo Opt/Pipeline.vo
Extract/OptExtract.vio: Extract/OptExtract.v Comb/PState.vio Comb/Bytes.vio Iter/Queue.vio Peg/Ast.vio Peg/Spec.vio Opt/MapExpr.vio Opt/Rotate.vio Opt/Skip.vio Opt/Unroll.vio Opt/Concat.vio Opt/Factor.vio Opt/List.vio Opt/Restore.vio Opt/Pipeline.vio
Extract/OptExtract.vos Extract/OptExtract.vok Extract/OptExtract.required_vos: Extract/OptExtract.v Comb/PState.vos Comb/Bytes.vos Iter/Queue.vos Peg/Ast.vos Peg/Spec.vos Opt/MapExpr.vos Opt/Rotate.vos Opt/Skip.vos Opt/Unroll.vos Opt/Concat.vos Opt/Factor.vos Opt/List.vos Opt/Restore.vos Opt/Pipeline.vos
