(* C04 - Pairs / Pair: the window arithmetic refines the plain forest.
   Rep p f : the Pairs value p stands for the forest f;  PairAt i t : the Pair with start index i stands for tree t. *)
From Coq Require Import List Arith Lia Bool.
Import ListNotations.
Require Import PV.Iter.Queue PV.Iter.QueueFacts PV.Iter.Model PV.Iter.Spec.
Open Scope list_scope.
Open Scope nat_scope.

Arguments Nat.mul : simpl never.
Arguments Nat.sub : simpl never.
Arguments Nat.add : simpl never.

Lemma bind_ok {A B} (a : A) (k : A -> res B) : bind (Ok a) k = k a.
Proof. reflexivity. Qed.

Lemma csub_ok a b : b <= a -> csub a b = Ok (a - b).
Proof. intros H. unfold csub. apply Nat.leb_le in H. rewrite H. reflexivity. Qed.

Lemma mapM_Forall2 {A B C} (g : A -> res B) (h : C -> B) idxs f :
  Forall2 (fun i t => g i = Ok (h t)) idxs f -> mapM g idxs = Ok (map h f).
Proof.
  induction 1 as [|i t idxs f H _ IH]; [reflexivity|].
  cbn [mapM map]. rewrite H. cbn [bind]. rewrite IH. reflexivity.
Qed.

Lemma mapM_Forall2_id {A B} (g : A -> res B) idxs f :
  Forall2 (fun i t => g i = Ok t) idxs f -> mapM g idxs = Ok f.
Proof.
  intros H. rewrite (mapM_Forall2 g (fun x => x) idxs f H). rewrite map_id. reflexivity.
Qed.

Lemma length_le_fsize f : length f <= fsize f.
Proof.
  induction f as [|t f IH]; [reflexivity|]. cbn [length fsize]. pose proof (tsize_pos t). lia.
Qed.

Section P.
Variable q : list qtoken.

Definition PairAt (i : nat) (t : tree) : Prop := Win q i [t].

Definition Rep (p : pairs) (f : list tree) : Prop :=
  Win q (p_start p) f /\ p_end p = p_start p + 2 * fsize f /\ p_count p = length f.

Lemma qget_nth i t : nth_error q i = Some t -> qget q i = Ok t.
Proof. intros H. unfold qget. rewrite H. reflexivity. Qed.

Lemma PairAt_facts i r tg ps pe ch :
  PairAt i (Node r tg ps pe ch) ->
  nth_error q i = Some (QStart (S i + 2 * fsize ch) ps) /\
  nth_error q (S i + 2 * fsize ch) = Some (QEnd i r tg pe) /\
  Win q (S i) ch /\ S (S i) + 2 * fsize ch <= length q.
Proof.
  intros W. destruct (Win_cons _ _ _ _ _ _ _ _ W) as (A & B & C & D).
  apply Win_bound in W. rewrite fsize_cons in W. cbn [fsize] in W. repeat split; auto. lia.
Qed.

Lemma pair_end_ok i r tg ps pe ch :
  PairAt i (Node r tg ps pe ch) -> pair_end q i = Ok (S i + 2 * fsize ch).
Proof.
  intros W. destruct (PairAt_facts _ _ _ _ _ _ W) as (A & _). unfold pair_end.
  rewrite (qget_nth _ _ A). reflexivity.
Qed.

Lemma pos_at_start i r tg ps pe ch : PairAt i (Node r tg ps pe ch) -> pos_at q i = Ok ps.
Proof.
  intros W. destruct (PairAt_facts _ _ _ _ _ _ W) as (A & _). unfold pos_at.
  rewrite (qget_nth _ _ A). reflexivity.
Qed.

Lemma pos_at_end i r tg ps pe ch : PairAt i (Node r tg ps pe ch) -> pos_at q (S i + 2 * fsize ch) = Ok pe.
Proof.
  intros W. destruct (PairAt_facts _ _ _ _ _ _ W) as (_ & B & _). unfold pos_at.
  rewrite (qget_nth _ _ B). reflexivity.
Qed.

Lemma pair_as_rule_ok i r tg ps pe ch : PairAt i (Node r tg ps pe ch) -> pair_as_rule q i = Ok r.
Proof.
  intros W. destruct (PairAt_facts _ _ _ _ _ _ W) as (_ & B & _). unfold pair_as_rule.
  rewrite (pair_end_ok _ _ _ _ _ _ W). cbn [bind]. rewrite (qget_nth _ _ B). reflexivity.
Qed.

Lemma pair_as_node_tag_ok i r tg ps pe ch : PairAt i (Node r tg ps pe ch) -> pair_as_node_tag q i = Ok tg.
Proof.
  intros W. destruct (PairAt_facts _ _ _ _ _ _ W) as (_ & B & _). unfold pair_as_node_tag.
  rewrite (pair_end_ok _ _ _ _ _ _ W). cbn [bind]. rewrite (qget_nth _ _ B). reflexivity.
Qed.

(* ---------------- pairs::new ---------------- *)

Lemma pairs_new_loop_ok f : forall fuel s c,
  Win q s f -> length f <= fuel ->
  pairs_new_loop q fuel s (s + 2 * fsize f) c = Ok (c + length f).
Proof.
  induction f as [|[r tg ps pe ch] f IH]; intros fuel s c W Hf.
  - cbn [fsize length]. destruct fuel; cbn [pairs_new_loop];
      (replace (s <? s + 2 * 0) with false by (symmetry; apply Nat.ltb_ge; lia));
      f_equal; lia.
  - cbn [length] in *. destruct fuel as [|k]; [lia|].
    destruct (Win_cons _ _ _ _ _ _ _ _ W) as (A & _ & _ & Wf).
    rewrite fsize_cons. cbn [pairs_new_loop].
    replace (s <? s + 2 * (S (fsize ch) + fsize f)) with true by (symmetry; apply Nat.ltb_lt; lia).
    rewrite (qget_nth _ _ A). cbn [bind].
    replace (S s + 2 * fsize ch + 1) with (S (S s) + 2 * fsize ch) by lia.
    replace (s + 2 * (S (fsize ch) + fsize f)) with (S (S s) + 2 * fsize ch + 2 * fsize f) by lia.
    rewrite IH; [f_equal; lia|exact Wf|lia].
Qed.

Lemma pairs_new_ok s f : Win q s f ->
  exists p, pairs_new q s (s + 2 * fsize f) = Ok p /\ Rep p f.
Proof.
  intros W. unfold pairs_new. rewrite pairs_new_loop_ok; [|exact W|].
  - cbn [bind]. eexists. split; [reflexivity|]. unfold Rep. cbn [p_start p_end p_count]. auto.
  - pose proof (Win_bound _ _ _ W). pose proof (length_le_fsize f). lia.
Qed.

Lemma pair_into_inner_ok i r tg ps pe ch : PairAt i (Node r tg ps pe ch) ->
  exists p, pair_into_inner q i = Ok p /\ Rep p ch.
Proof.
  intros W. destruct (PairAt_facts _ _ _ _ _ _ W) as (_ & _ & Wc & _). unfold pair_into_inner.
  rewrite (pair_end_ok _ _ _ _ _ _ W). cbn [bind].
  replace (i + 1) with (S i) by lia. exact (pairs_new_ok _ _ Wc).
Qed.

(* ---------------- next / next_back / peek / len ---------------- *)

Lemma pairs_peek_ok p f : Rep p f ->
  pairs_peek p = match f with [] => None | _ :: _ => Some (p_start p) end.
Proof.
  intros (W & E & C). unfold pairs_peek. rewrite E. destruct f as [|t f].
  - cbn [fsize]. replace (p_start p <? p_start p + 2 * 0) with false by (symmetry; apply Nat.ltb_ge; lia). reflexivity.
  - cbn [fsize]. pose proof (tsize_pos t).
    replace (p_start p <? p_start p + 2 * (tsize t + fsize f)) with true by (symmetry; apply Nat.ltb_lt; lia). reflexivity.
Qed.

Lemma pairs_next_nil p : Rep p [] -> pairs_next q p = Ok (p, None).
Proof. intros R. unfold pairs_next. rewrite (pairs_peek_ok _ _ R). reflexivity. Qed.

Lemma pairs_next_cons p t f : Rep p (t :: f) ->
  exists p', pairs_next q p = Ok (p', Some (p_start p)) /\ Rep p' f /\ PairAt (p_start p) t.
Proof.
  intros R. unfold pairs_next. rewrite (pairs_peek_ok _ _ R). destruct R as (W & E & C).
  destruct t as [r tg ps pe ch].
  pose proof (Win_single _ _ _ _ W) as W1.
  rewrite (pair_end_ok _ _ _ _ _ _ W1). cbn [bind]. cbn [length] in C.
  rewrite csub_ok by lia. cbn [bind]. eexists. split; [reflexivity|]. split; [|exact W1].
  destruct (Win_cons _ _ _ _ _ _ _ _ W) as (_ & _ & _ & Wf).
  unfold Rep. cbn [p_start p_end p_count]. rewrite fsize_cons in E.
  replace (S (p_start p) + 2 * fsize ch + 1) with (S (S (p_start p)) + 2 * fsize ch) by lia.
  repeat split; [exact Wf|lia|lia].
Qed.

Lemma pairs_next_back_nil p : Rep p [] -> pairs_next_back q p = Ok (p, None).
Proof.
  intros (W & E & C). unfold pairs_next_back. rewrite E. cbn [fsize].
  replace (p_start p + 2 * 0 <=? p_start p) with true by (symmetry; apply Nat.leb_le; lia). reflexivity.
Qed.

Lemma pairs_next_back_snoc p f t : Rep p (f ++ [t]) ->
  exists p' i, pairs_next_back q p = Ok (p', Some i) /\ Rep p' f /\ PairAt i t.
Proof.
  intros (W & E & C). destruct t as [r tg ps pe ch].
  destruct (Win_snoc _ _ _ _ _ _ _ _ W) as (A & B & Wf & W1).
  rewrite fsize_app, fsize_cons in E. cbn [fsize] in E.
  rewrite app_length in C. cbn [length] in C.
  unfold pairs_next_back.
  replace (p_end p <=? p_start p) with false by (symmetry; apply Nat.leb_gt; lia).
  rewrite csub_ok by lia. cbn [bind].
  replace (p_end p - 1) with (S (p_start p + 2 * fsize f) + 2 * fsize ch) by lia.
  rewrite (qget_nth _ _ A). cbn [bind]. rewrite csub_ok by lia. cbn [bind].
  eexists. eexists. split; [reflexivity|]. split; [|exact W1].
  unfold Rep. cbn [p_start p_end p_count]. repeat split; [exact Wf|lia].
Qed.

Lemma pairs_len_ok p f : Rep p f -> pairs_len p = length f.
Proof. intros (_ & _ & C). exact C. Qed.

Lemma pairs_is_empty_ok p f : Rep p f -> pairs_is_empty p = match f with [] => true | _ => false end.
Proof. intros (_ & _ & C). unfold pairs_is_empty. rewrite C. destruct f; reflexivity. Qed.

(* ---------------- draining a clone ---------------- *)

Lemma pairs_collect_ok f : forall fuel p,
  Rep p f -> length f < fuel ->
  exists idxs, pairs_collect q fuel p = Ok idxs /\ Forall2 PairAt idxs f.
Proof.
  induction f as [|t f IH]; intros fuel p R Hf; (destruct fuel as [|k]; [cbn [length] in Hf; lia|]).
  - cbn [pairs_collect]. rewrite (pairs_next_nil _ R). cbn [bind]. exists []. split; [reflexivity|constructor].
  - cbn [pairs_collect]. destruct (pairs_next_cons _ _ _ R) as (p' & E & R' & W1). rewrite E. cbn [bind].
    cbn [length] in Hf. destruct (IH k p' R') as (idxs & E2 & F2); [lia|].
    rewrite E2. cbn [bind]. eexists. split; [reflexivity|]. constructor; assumption.
Qed.

Lemma Rep_bound p f : Rep p f -> length f < fuel0 q.
Proof.
  intros (W & _ & _). apply Win_bound in W. pose proof (length_le_fsize f). unfold fuel0. lia.
Qed.

Lemma pairs_collect_fuel0 p f : Rep p f ->
  exists idxs, pairs_collect q (fuel0 q) p = Ok idxs /\ Forall2 PairAt idxs f.
Proof. intros R. apply pairs_collect_ok; [exact R|]. exact (Rep_bound _ _ R). Qed.

Lemma inner_collect i r tg ps pe ch : PairAt i (Node r tg ps pe ch) ->
  exists inner idxs, pair_into_inner q i = Ok inner /\ Rep inner ch /\
                     pairs_collect q (fuel0 q) inner = Ok idxs /\ Forall2 PairAt idxs ch.
Proof.
  intros W. destruct (pair_into_inner_ok _ _ _ _ _ _ W) as (inner & E & R).
  destruct (pairs_collect_fuel0 _ _ R) as (idxs & E2 & F2). eauto 8.
Qed.

Lemma PairAt_size i t : PairAt i t -> 2 * tsize t <= length q.
Proof. intros W. apply Win_bound in W. cbn [fsize] in W. lia. Qed.

End P.
