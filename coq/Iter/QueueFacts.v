(* C04 - facts about token queues and forests: unfolding equations, the forest induction principle,
   windows (Win), forest_of inverts tokens_at, order of positions = nesting of spans, the checker. *)
From Coq Require Import List Arith Lia Bool.
Import ListNotations.
Require Import PV.Iter.Queue.

Arguments Nat.mul : simpl never.
Arguments Nat.sub : simpl never.

(* ---------------- unfolding equations for the nested fixpoints ---------------- *)

Lemma tsize_eq r tg s e ch : tsize (Node r tg s e ch) = S (fsize ch).
Proof.
  reflexivity.
Qed.

Lemma ttoks_eq b r tg s e ch :
  ttoks b (Node r tg s e ch) = QStart (S b + 2 * fsize ch) s :: tokens_at (S b) ch ++ [QEnd b r tg e].
Proof.
  reflexivity.
Qed.

Lemma tposl_eq r tg s e ch : tposl (Node r tg s e ch) = s :: fposl ch ++ [e].
Proof.
  reflexivity.
Qed.

Lemma preorder_t_eq r tg s e ch : preorder_t (Node r tg s e ch) = Node r tg s e ch :: preorder ch.
Proof.
  reflexivity.
Qed.

Lemma token_list_t_eq r tg s e ch :
  token_list_t (Node r tg s e ch) = TStart r s :: token_list ch ++ [TEnd r e].
Proof.
  reflexivity.
Qed.

Lemma fsize_cons r tg s e ch f : fsize (Node r tg s e ch :: f) = S (fsize ch) + fsize f.
Proof. cbn [fsize]. rewrite tsize_eq. reflexivity. Qed.

Lemma fsize_app f1 f2 : fsize (f1 ++ f2) = fsize f1 + fsize f2.
Proof. induction f1 as [|t f1 IH]; [reflexivity|]. cbn [app fsize]. rewrite IH. lia. Qed.

Lemma tsize_pos t : 1 <= tsize t.
Proof. destruct t. rewrite tsize_eq. lia. Qed.

(* a forest is a binary tree (first child / next sibling): the induction principle used everywhere *)
Lemma forest_ind (P : list tree -> Prop) :
  P [] ->
  (forall r tg s e ch f, P ch -> P f -> P (Node r tg s e ch :: f)) ->
  forall f, P f.
Proof.
  intros H0 H1 f. remember (fsize f) as n eqn:E. revert f E.
  induction n as [n IH] using lt_wf_ind. intros [|[r tg s e ch] f'] E; [exact H0|].
  rewrite fsize_cons in E. apply H1; eapply IH; try reflexivity; lia.
Qed.

Lemma tokens_at_cons b r tg s e ch f :
  tokens_at b (Node r tg s e ch :: f) =
  QStart (S b + 2 * fsize ch) s :: tokens_at (S b) ch ++ QEnd b r tg e :: tokens_at (S (S b) + 2 * fsize ch) f.
Proof.
  cbn [tokens_at]. rewrite ttoks_eq, tsize_eq. cbn [app]. rewrite <- app_assoc. cbn [app].
  replace (b + 2 * S (fsize ch)) with (S (S b) + 2 * fsize ch) by lia. reflexivity.
Qed.

Lemma fposl_cons r tg s e ch f : fposl (Node r tg s e ch :: f) = s :: fposl ch ++ e :: fposl f.
Proof. cbn [fposl]. rewrite tposl_eq. cbn [app]. rewrite <- app_assoc. reflexivity. Qed.

Lemma preorder_cons r tg s e ch f :
  preorder (Node r tg s e ch :: f) = Node r tg s e ch :: preorder ch ++ preorder f.
Proof. cbn [preorder]. rewrite preorder_t_eq. reflexivity. Qed.

Lemma token_list_cons r tg s e ch f :
  token_list (Node r tg s e ch :: f) = TStart r s :: token_list ch ++ TEnd r e :: token_list f.
Proof. cbn [token_list]. rewrite token_list_t_eq. cbn [app]. rewrite <- app_assoc. reflexivity. Qed.

Lemma length_tokens_at f : forall b, length (tokens_at b f) = 2 * fsize f.
Proof.
  induction f as [|r tg s e ch f IHc IHf] using forest_ind; intros b; [reflexivity|].
  rewrite tokens_at_cons, fsize_cons. cbn [length]. rewrite app_length. cbn [length]. rewrite IHc, IHf. lia.
Qed.

Lemma tokens_at_app f1 : forall b f2,
  tokens_at b (f1 ++ f2) = tokens_at b f1 ++ tokens_at (b + 2 * fsize f1) f2.
Proof.
  induction f1 as [|t f1 IH]; intros b f2.
  - cbn [app tokens_at fsize]. f_equal. lia.
  - cbn [app tokens_at fsize]. rewrite IH, <- app_assoc.
    replace (b + 2 * (tsize t + fsize f1)) with (b + 2 * tsize t + 2 * fsize f1) by lia. reflexivity.
Qed.

Lemma map_qpos_tokens_at f : forall b, map qpos (tokens_at b f) = fposl f.
Proof.
  induction f as [|r tg s e ch f IHc IHf] using forest_ind; intros b; [reflexivity|].
  rewrite tokens_at_cons, fposl_cons. cbn [map qpos]. rewrite map_app. cbn [map qpos].
  rewrite IHc, IHf. reflexivity.
Qed.

Lemma length_fposl f : length (fposl f) = 2 * fsize f.
Proof. rewrite <- (map_qpos_tokens_at f 0), map_length. apply length_tokens_at. Qed.

Lemma length_preorder f : length (preorder f) = fsize f.
Proof.
  induction f as [|r tg s e ch f IHc IHf] using forest_ind; [reflexivity|].
  rewrite preorder_cons, fsize_cons. cbn [length]. rewrite app_length. lia.
Qed.

Lemma length_token_list f : length (token_list f) = 2 * fsize f.
Proof.
  induction f as [|r tg s e ch f IHc IHf] using forest_ind; [reflexivity|].
  rewrite token_list_cons, fsize_cons. cbn [length]. rewrite app_length. cbn [length]. lia.
Qed.

Lemma fposl_app f1 f2 : fposl (f1 ++ f2) = fposl f1 ++ fposl f2.
Proof. induction f1 as [|t f1 IH]; [reflexivity|]. cbn [app fposl]. rewrite IH, app_assoc. reflexivity. Qed.

Lemma preorder_app f1 f2 : preorder (f1 ++ f2) = preorder f1 ++ preorder f2.
Proof. induction f1 as [|t f1 IH]; [reflexivity|]. cbn [app preorder]. rewrite IH, app_assoc. reflexivity. Qed.

Lemma token_list_app f1 f2 : token_list (f1 ++ f2) = token_list f1 ++ token_list f2.
Proof. induction f1 as [|t f1 IH]; [reflexivity|]. cbn [app token_list]. rewrite IH, app_assoc. reflexivity. Qed.

(* ---------------- windows ---------------- *)

(* the tokens of forest f sit in q from index s on *)
Definition Win (q : list qtoken) (s : nat) (f : list tree) : Prop :=
  exists pre post, q = pre ++ tokens_at s f ++ post /\ length pre = s.

Lemma nth_error_mid {A} (pre : list A) x post n :
  length pre = n -> nth_error (pre ++ x :: post) n = Some x.
Proof. intros <-. rewrite nth_error_app2 by lia. rewrite Nat.sub_diag. reflexivity. Qed.

Lemma Win_bound q s f : Win q s f -> s + 2 * fsize f <= length q.
Proof.
  intros (pre & post & -> & L). rewrite !app_length, length_tokens_at. lia.
Qed.

Lemma Win_nil q s : s <= length q -> Win q s [].
Proof.
  intros H. exists (firstn s q), (skipn s q). split.
  - cbn [tokens_at app]. symmetry. apply firstn_skipn.
  - apply firstn_length_le. exact H.
Qed.

Lemma Win_app q s f1 f2 : Win q s (f1 ++ f2) -> Win q s f1 /\ Win q (s + 2 * fsize f1) f2.
Proof.
  intros (pre & post & -> & L). rewrite tokens_at_app. split.
  - exists pre, (tokens_at (s + 2 * fsize f1) f2 ++ post). split; [|exact L].
    rewrite <- !app_assoc. reflexivity.
  - exists (pre ++ tokens_at s f1), post. split.
    + rewrite <- !app_assoc. reflexivity.
    + rewrite app_length, length_tokens_at. lia.
Qed.

Lemma Win_app_intro q s f1 f2 : Win q s f1 -> Win q (s + 2 * fsize f1) f2 -> Win q s (f1 ++ f2).
Proof.
  intros (pre & post & E & L) (pre2 & post2 & E2 & L2).
  exists pre, post2. split; [|exact L].
  rewrite tokens_at_app.
  (* pre2 = pre ++ tokens_at s f1 because both are prefixes of q of the same length *)
  assert (P : pre2 = pre ++ tokens_at s f1).
  { assert (H1 : firstn (s + 2 * fsize f1) q = pre2).
    { rewrite E2. rewrite firstn_app. rewrite L2, Nat.sub_diag. cbn [firstn]. rewrite app_nil_r.
      rewrite <- L2. apply firstn_all. }
    assert (H2 : firstn (s + 2 * fsize f1) q = pre ++ tokens_at s f1).
    { rewrite E. rewrite app_assoc. rewrite firstn_app.
      assert (LL : length (pre ++ tokens_at s f1) = s + 2 * fsize f1) by (rewrite app_length, length_tokens_at; lia).
      rewrite LL, Nat.sub_diag. cbn [firstn]. rewrite app_nil_r. rewrite <- LL. apply firstn_all. }
    congruence. }
  rewrite E2, P. rewrite <- !app_assoc. reflexivity.
Qed.

Lemma Win_cons q s r tg ps pe ch f :
  Win q s (Node r tg ps pe ch :: f) ->
  nth_error q s = Some (QStart (S s + 2 * fsize ch) ps) /\
  nth_error q (S s + 2 * fsize ch) = Some (QEnd s r tg pe) /\
  Win q (S s) ch /\
  Win q (S (S s) + 2 * fsize ch) f.
Proof.
  intros (pre & post & -> & L). rewrite tokens_at_cons. repeat split.
  - cbn [app]. apply nth_error_mid. exact L.
  - replace (pre ++ (QStart (S s + 2 * fsize ch) ps :: tokens_at (S s) ch ++ QEnd s r tg pe :: tokens_at (S (S s) + 2 * fsize ch) f) ++ post)
      with ((pre ++ QStart (S s + 2 * fsize ch) ps :: tokens_at (S s) ch) ++ QEnd s r tg pe :: (tokens_at (S (S s) + 2 * fsize ch) f ++ post)).
    + apply nth_error_mid. rewrite app_length. cbn [length]. rewrite length_tokens_at. lia.
    + rewrite <- !app_assoc. cbn [app]. rewrite <- !app_assoc. reflexivity.
  - exists (pre ++ [QStart (S s + 2 * fsize ch) ps]), (QEnd s r tg pe :: tokens_at (S (S s) + 2 * fsize ch) f ++ post). split.
    + rewrite <- !app_assoc. cbn [app]. rewrite <- !app_assoc. reflexivity.
    + rewrite app_length. cbn [length]. lia.
  - exists (pre ++ QStart (S s + 2 * fsize ch) ps :: tokens_at (S s) ch ++ [QEnd s r tg pe]), post. split.
    + rewrite <- !app_assoc. cbn [app]. rewrite <- !app_assoc. reflexivity.
    + rewrite app_length. cbn [length]. rewrite app_length, length_tokens_at. cbn [length]. lia.
Qed.

Lemma Win_single q s t f : Win q s (t :: f) -> Win q s [t].
Proof. intros H. change (t :: f) with ([t] ++ f) in H. apply Win_app in H. tauto. Qed.

(* the last tree of a window *)
Lemma Win_snoc q s f r tg ps pe ch :
  Win q s (f ++ [Node r tg ps pe ch]) ->
  let si := s + 2 * fsize f in
  nth_error q (S si + 2 * fsize ch) = Some (QEnd si r tg pe) /\
  nth_error q si = Some (QStart (S si + 2 * fsize ch) ps) /\
  Win q s f /\ Win q si [Node r tg ps pe ch].
Proof.
  intros H si. apply Win_app in H. destruct H as [H1 H2]. fold si in H2.
  destruct (Win_cons _ _ _ _ _ _ _ _ H2) as (A & B & _ & _). auto.
Qed.

(* ---------------- forest_of inverts tokens_at ---------------- *)

Lemma forest_fuel_Win q f : forall fuel s,
  fsize f <= fuel -> Win q s f -> forest_fuel fuel q s (s + 2 * fsize f) = f.
Proof.
  induction f as [|r tg ps pe ch f IHc IHf] using forest_ind; intros fuel s Hf W.
  - destruct fuel; [reflexivity|]. cbn [forest_fuel fsize].
    replace (s <? s + 2 * 0) with false; [reflexivity|]. symmetry. apply Nat.ltb_ge. lia.
  - rewrite fsize_cons in *. destruct fuel as [|k]; [lia|].
    destruct (Win_cons _ _ _ _ _ _ _ _ W) as (A & B & Wc & Wf).
    cbn [forest_fuel].
    replace (s <? s + 2 * (S (fsize ch) + fsize f)) with true by (symmetry; apply Nat.ltb_lt; lia).
    rewrite A, B. f_equal; [f_equal|].
    + apply IHc; [lia|exact Wc].
    + replace (s + 2 * (S (fsize ch) + fsize f)) with (S (S s) + 2 * fsize ch + 2 * fsize f) by lia.
      apply IHf; [lia|exact Wf].
Qed.

Lemma forest_of_Win q s f : Win q s f -> forest_of q s (s + 2 * fsize f) = f.
Proof.
  intros W. unfold forest_of. apply forest_fuel_Win; [lia|exact W].
Qed.

Lemma Win_tokens_of f : Win (tokens_of f) 0 f.
Proof. exists [], []. split; [|reflexivity]. unfold tokens_of. cbn [app]. rewrite app_nil_r. reflexivity. Qed.

Theorem forest_of_tokens_of f : forest_of (tokens_of f) 0 (length (tokens_of f)) = f.
Proof.
  unfold tokens_of at 2. rewrite length_tokens_at.
  exact (forest_of_Win _ 0 f (Win_tokens_of f)).
Qed.

(* ---------------- chains ---------------- *)

Lemma chain_weaken lo lo' l : lo' <= lo -> chain lo l -> chain lo' l.
Proof. destruct l as [|x r]; cbn [chain]; [auto|]. intros H [A B]. split; [lia|exact B]. Qed.

Lemma chain_app_snoc l1 : forall lo x l2,
  chain lo ((l1 ++ [x]) ++ l2) <-> chain lo (l1 ++ [x]) /\ chain x l2.
Proof.
  induction l1 as [|y l1 IH]; intros lo x l2; cbn [app chain].
  - tauto.
  - rewrite (IH y x l2). tauto.
Qed.

Lemma chain_app l1 : forall lo l2, chain lo (l1 ++ l2) -> chain lo l1 /\ chain 0 l2.
Proof.
  induction l1 as [|y l1 IH]; intros lo l2; cbn [app chain].
  - intros H. split; [exact I|]. eapply chain_weaken; [|exact H]. lia.
  - intros [A B]. destruct (IH _ _ B). tauto.
Qed.

Lemma chain_Forall lo l : chain lo l -> Forall (fun x => lo <= x) l.
Proof.
  revert lo. induction l as [|x r IH]; intros lo; cbn [chain]; [constructor|].
  intros [A B]. constructor; [exact A|]. eapply Forall_impl; [|apply IH; exact B]. cbn. intros; lia.
Qed.

Lemma chainb_spec lo l : chainb lo l = true <-> chain lo l.
Proof.
  revert lo. induction l as [|x r IH]; intros lo; cbn [chainb chain]; [tauto|].
  rewrite andb_true_iff, Nat.leb_le, IH. tauto.
Qed.

Lemma pos_okb_spec bounds len p : pos_okb bounds len p = true <-> pos_ok bounds len p.
Proof. unfold pos_okb, pos_ok. rewrite andb_true_iff, Nat.leb_le. tauto. Qed.

Lemma forallb_pos_ok bounds len l :
  forallb (pos_okb bounds len) l = true <-> Forall (pos_ok bounds len) l.
Proof.
  rewrite forallb_forall, Forall_forall. split; intros H x Hx.
  - apply pos_okb_spec. auto.
  - apply pos_okb_spec. auto.
Qed.

Lemma forest_okb_spec bounds len f : forest_okb bounds len f = true <-> forest_ok bounds len f.
Proof. unfold forest_okb, forest_ok. rewrite andb_true_iff, chainb_spec, forallb_pos_ok. tauto. Qed.

(* ---------------- order of positions = nesting of spans ---------------- *)

(* the spans of f lie, in order and without overlap, between lo and hi;
   children lie inside their parent *)
Inductive fnested : nat -> list tree -> nat -> Prop :=
| fn_nil lo hi : lo <= hi -> fnested lo [] hi
| fn_cons lo hi r tg s e ch f :
    lo <= s -> fnested s ch e -> fnested e f hi -> fnested lo (Node r tg s e ch :: f) hi.

Lemma chain_fnested f : forall lo hi, chain lo (fposl f ++ [hi]) <-> fnested lo f hi.
Proof.
  induction f as [|r tg s e ch f IHc IHf] using forest_ind; intros lo hi.
  - cbn [fposl app chain]. split.
    + intros [H _]. constructor. exact H.
    + intros H. inversion H. tauto.
  - rewrite fposl_cons. cbn [app chain].
    replace ((fposl ch ++ e :: fposl f) ++ [hi]) with ((fposl ch ++ [e]) ++ (fposl f ++ [hi]))
      by (rewrite <- !app_assoc; reflexivity).
    rewrite chain_app_snoc, IHc, IHf. split.
    + intros (A & B & C). constructor; assumption.
    + intros H. inversion H; subst. tauto.
Qed.

Lemma fnested_le lo f hi : fnested lo f hi -> lo <= hi.
Proof.
  induction 1 as [lo hi H|lo hi r tg s e ch f H1 _ IH1 _ IH2]; lia.
Qed.

Lemma fnested_weaken lo lo' hi hi' f : lo' <= lo -> hi <= hi' -> fnested lo f hi -> fnested lo' f hi'.
Proof.
  intros Hl Hh H. revert lo' hi' Hl Hh.
  induction H as [lo hi H|lo hi r tg s e ch f H1 Hc IHc Hf IHf]; intros lo' hi' Hl Hh.
  - constructor. lia.
  - constructor; [lia|exact Hc|]. apply IHf; lia.
Qed.

(* upper bound of a chain: the maximum is the last element *)
Lemma chain_snoc_exists lo l : chain lo l -> exists hi, chain lo (l ++ [hi]).
Proof.
  revert lo. induction l as [|x r IH]; intros lo; cbn [chain app].
  - intros _. exists lo. cbn [chain]. auto.
  - intros [A B]. destruct (IH _ B) as [hi H]. exists hi. cbn [chain]. auto.
Qed.

Lemma forest_ok_nested bounds len f : forest_ok bounds len f -> exists hi, fnested 0 f hi.
Proof.
  intros [C _]. destruct (chain_snoc_exists _ _ C) as [hi H]. exists hi. apply chain_fnested. exact H.
Qed.

(* what forest_ok gives for the head tree and the rest *)
Lemma forest_ok_cons bounds len r tg s e ch f :
  forest_ok bounds len (Node r tg s e ch :: f) ->
  s <= e /\ pos_ok bounds len s /\ pos_ok bounds len e /\ forest_ok bounds len ch /\ forest_ok bounds len f.
Proof.
  intros [C F]. rewrite fposl_cons in *.
  cbn [chain] in C. destruct C as [_ C].
  replace (fposl ch ++ e :: fposl f) with ((fposl ch ++ [e]) ++ fposl f) in C by (rewrite <- app_assoc; reflexivity).
  apply chain_app_snoc in C. destruct C as [C1 C2].
  inversion F as [|? ? Fs F']; subst.
  apply Forall_app in F'. destruct F' as [Fc Fe]. inversion Fe as [|? ? Fe1 Ff]; subst.
  assert (Hse : s <= e).
  { apply chain_fnested in C1. apply fnested_le in C1. exact C1. }
  assert (Cc : chain 0 (fposl ch)).
  { apply chain_app in C1. destruct C1 as [C1 _]. eapply chain_weaken; [|exact C1]. lia. }
  assert (Cf : chain 0 (fposl f)).
  { eapply chain_weaken; [|exact C2]. lia. }
  unfold forest_ok. tauto.
Qed.

Lemma forest_ok_app bounds len f1 f2 :
  forest_ok bounds len (f1 ++ f2) -> forest_ok bounds len f1 /\ forest_ok bounds len f2.
Proof.
  intros [C F]. rewrite fposl_app in *. apply chain_app in C. apply Forall_app in F.
  unfold forest_ok. tauto.
Qed.

(* first start <= last end in an ordered forest *)
Lemma fnested_first_last lo hi f t u : fnested lo f hi -> hd_error f = Some t -> last f t = u ->
  lo <= t_start t /\ t_start t <= t_end u /\ t_end u <= hi.
Proof.
  intros H. revert t u. induction H as [lo hi H|lo hi r tg s e ch f H1 Hc _ Hf IHf]; intros t u Ht Hu.
  - discriminate.
  - cbn [hd_error] in Ht. inversion Ht; subst t. clear Ht.
    pose proof (fnested_le _ _ _ Hc) as Hse. pose proof (fnested_le _ _ _ Hf) as Hehi.
    destruct f as [|t2 f'].
    + cbn [last] in Hu. subst u. cbn [t_start t_end]. lia.
    + assert (L : last (Node r tg s e ch :: t2 :: f') (Node r tg s e ch) = last (t2 :: f') t2).
      { clear. generalize (Node r tg s e ch). revert t2. induction f' as [|x f' IH]; intros t2 d; [reflexivity|].
        change (last (d :: t2 :: x :: f') d) with (last (t2 :: x :: f') d).
        change (last (t2 :: x :: f') d) with (last (x :: f') d).
        change (last (t2 :: x :: f') t2) with (last (x :: f') t2).
        specialize (IH x). destruct f' as [|y f'']; [reflexivity|].
        change (last (x :: y :: f'') d) with (last (y :: f'') d).
        change (last (x :: y :: f'') t2) with (last (y :: f'') t2).
        clear IH. revert y. induction f'' as [|z f'' IH2]; intros y; [reflexivity|].
        change (last (y :: z :: f'') d) with (last (z :: f'') d).
        change (last (y :: z :: f'') t2) with (last (z :: f'') t2). apply IH2. }
      rewrite L in Hu.
      destruct (IHf t2 u eq_refl Hu) as (A & B & C). cbn [t_start]. lia.
Qed.

(* ---------------- wfq ---------------- *)

Lemma wfq_forest bounds len q : wfq bounds len q ->
  exists F, q = tokens_of F /\ Win q 0 F /\ length q = 2 * fsize F /\ forest_ok bounds len F.
Proof.
  intros ((F & ->) & C & Fo). exists F. repeat split.
  - apply Win_tokens_of.
  - apply length_tokens_at.
  - unfold tokens_of in C. rewrite map_qpos_tokens_at in C. exact C.
  - unfold tokens_of in Fo. rewrite map_qpos_tokens_at in Fo. exact Fo.
Qed.

Lemma wfq_of_forest bounds len F : forest_ok bounds len F -> wfq bounds len (tokens_of F).
Proof.
  intros [C Fo]. unfold wfq, tokens_of. rewrite map_qpos_tokens_at. split; [exists F; reflexivity|]. tauto.
Qed.

(* every window of a well-formed queue is an ordered forest with valid positions *)
Lemma Win_forest_ok bounds len q s f : wfq bounds len q -> Win q s f -> forest_ok bounds len f.
Proof.
  intros (_ & C & Fo) (pre & post & -> & L).
  rewrite !map_app, map_qpos_tokens_at in *. split.
  - apply chain_app in C. destruct C as [_ C]. apply chain_app in C. tauto.
  - apply Forall_app in Fo. destruct Fo as [_ Fo]. apply Forall_app in Fo. tauto.
Qed.

Lemma wfq_pos_ok bounds len q i t : wfq bounds len q -> nth_error q i = Some t -> pos_ok bounds len (qpos t).
Proof.
  intros (_ & _ & Fo) H. rewrite Forall_forall in Fo. apply Fo. apply in_map. eapply nth_error_In. exact H.
Qed.

(* ---------------- the boolean checker ---------------- *)

Lemma opt_nat_eqb_eq a b : opt_nat_eqb a b = true <-> a = b.
Proof.
  destruct a, b; cbn [opt_nat_eqb]; try (split; [discriminate|discriminate]); try tauto.
  rewrite Nat.eqb_eq. split; [intros ->; reflexivity|intros H; inversion H; reflexivity].
Qed.

Lemma qtoken_eqb_eq a b : qtoken_eqb a b = true <-> a = b.
Proof.
  destruct a, b; cbn [qtoken_eqb]; try (split; [discriminate|discriminate]).
  - rewrite andb_true_iff, !Nat.eqb_eq. split; [intros [-> ->]; reflexivity|intros H; inversion H; auto].
  - rewrite !andb_true_iff, !Nat.eqb_eq, opt_nat_eqb_eq.
    split; [intros [[[-> ->] ->] ->]; reflexivity|intros H; inversion H; auto].
Qed.

Lemma list_eqb_eq {A} (eqb : A -> A -> bool) (H : forall a b, eqb a b = true <-> a = b) l1 :
  forall l2, list_eqb eqb l1 l2 = true <-> l1 = l2.
Proof.
  induction l1 as [|x r IH]; intros [|y r2]; cbn [list_eqb]; try (split; [discriminate|discriminate]); try tauto.
  rewrite andb_true_iff, H, IH. split; [intros [-> ->]; reflexivity|intros E; inversion E; auto].
Qed.

Theorem wfqb_sound bounds len q : wfqb bounds len q = true -> wfq bounds len q.
Proof.
  unfold wfqb, wfq. rewrite !andb_true_iff, (list_eqb_eq _ qtoken_eqb_eq), chainb_spec, forallb_pos_ok.
  intros [[E C] Fo]. split; [|tauto]. eexists. exact E.
Qed.

Theorem wfqb_complete bounds len q : wfq bounds len q -> wfqb bounds len q = true.
Proof.
  intros ((F & ->) & C & Fo). unfold wfqb.
  rewrite !andb_true_iff, (list_eqb_eq _ qtoken_eqb_eq), chainb_spec, forallb_pos_ok.
  rewrite forest_of_tokens_of. tauto.
Qed.

(* an equivalent grammar-style reading of "balanced, properly nested, cross-links correct":
   the queue segment starting at index b is a sequence of  Start .. inner segment .. End  groups
   whose Start points at its End and vice versa *)
Inductive wf_seg : nat -> list qtoken -> Prop :=
| wf_seg_nil b : wf_seg b []
| wf_seg_node b inner rest r tg p1 p2 :
    wf_seg (S b) inner -> wf_seg (S (S b) + length inner) rest ->
    wf_seg b (QStart (S b + length inner) p1 :: inner ++ QEnd b r tg p2 :: rest).

Lemma wf_seg_tokens_at f : forall b, wf_seg b (tokens_at b f).
Proof.
  induction f as [|r tg s e ch f IHc IHf] using forest_ind; intros b; [constructor|].
  rewrite tokens_at_cons. rewrite <- (length_tokens_at ch (S b)). constructor; [apply IHc|].
  rewrite length_tokens_at. apply IHf.
Qed.

Lemma wf_seg_inv b l : wf_seg b l -> exists f, l = tokens_at b f.
Proof.
  induction 1 as [b|b inner rest r tg p1 p2 H1 IH1 H2 IH2].
  - exists []. reflexivity.
  - destruct IH1 as [fc E1]. destruct IH2 as [fr E2]. subst inner rest.
    exists (Node r tg p1 p2 fc :: fr). rewrite tokens_at_cons, length_tokens_at. reflexivity.
Qed.

Theorem balanced_iff q : (exists f, q = tokens_of f) <-> wf_seg 0 q.
Proof.
  split.
  - intros [f ->]. apply wf_seg_tokens_at.
  - apply wf_seg_inv.
Qed.

(* ---------------- interface lemmas for the parser-state side (closing a rule, tagging the last node) ---------------- *)

Lemma wfq_intro bounds len f :
  chain 0 (fposl f) -> Forall (pos_ok bounds len) (fposl f) -> wfq bounds len (tokens_of f).
Proof. intros C Fo. apply wfq_of_forest. split; assumption. Qed.

(* a closed rule: Start at index b' = b + 2|f|, its children after it, then the End *)
Lemma tokens_at_snoc b f r tg s e ch :
  tokens_at b (f ++ [Node r tg s e ch]) =
  tokens_at b f ++ QStart (S (b + 2 * fsize f) + 2 * fsize ch) s :: tokens_at (S (b + 2 * fsize f)) ch
               ++ [QEnd (b + 2 * fsize f) r tg e].
Proof. rewrite tokens_at_app, tokens_at_cons. cbn [tokens_at]. reflexivity. Qed.

(* tag_node rewrites the tag of the last End token *)
Lemma tokens_at_retag_last b f r tg tg' s e ch :
  tokens_at b (f ++ [Node r tg' s e ch]) =
  removelast (tokens_at b (f ++ [Node r tg s e ch])) ++ [QEnd (b + 2 * fsize f) r tg' e].
Proof.
  rewrite !tokens_at_snoc.
  replace (tokens_at b f ++ QStart (S (b + 2 * fsize f) + 2 * fsize ch) s :: tokens_at (S (b + 2 * fsize f)) ch ++ [QEnd (b + 2 * fsize f) r tg e])
    with ((tokens_at b f ++ QStart (S (b + 2 * fsize f) + 2 * fsize ch) s :: tokens_at (S (b + 2 * fsize f)) ch) ++ [QEnd (b + 2 * fsize f) r tg e])
    by (rewrite <- app_assoc; reflexivity).
  rewrite removelast_last, <- app_assoc. reflexivity.
Qed.

Lemma fposl_snoc f r tg s e ch : fposl (f ++ [Node r tg s e ch]) = fposl f ++ s :: fposl ch ++ [e].
Proof. rewrite fposl_app, fposl_cons. cbn [fposl]. reflexivity. Qed.
