(* C04 - the specification side: a token forest is a plain `list tree`; every view is a
   structural function of that forest and of the input text.  Nothing here mentions queue indices. *)
From Coq Require Import List Arith Bool String Ascii.
Import ListNotations.
Require Import PV.Iter.Queue PV.Iter.Model.
Open Scope string_scope.
Open Scope list_scope.
Open Scope nat_scope.

(* ---------------- the plain list machine: a double-ended queue of items ---------------- *)

Fixpoint last_error {X} (l : list X) : option X :=
  match l with [] => None | [x] => Some x | _ :: r => last_error r end.

Definition list_step {X} (l : list X) (o : iter_op) : list X * answer X :=
  match o with
  | Next => (tl l, AItem (hd_error l))
  | NextBack => (removelast l, AItem (last_error l))
  | Len => (l, ALen (List.length l))
  | Peek => (l, AItem (hd_error l))
  end.

Fixpoint run_list {X} (l : list X) (ops : list iter_op) : list (answer X) :=
  match ops with
  | [] => []
  | o :: r => let (l', a) := list_step l o in a :: run_list l' r
  end.

(* ---------------- views of a tree / forest ---------------- *)

Section Views.
Variable input : string.
Variable rname : nat -> string.
Variable tname : nat -> string.
Variable esc : string -> string.

Definition span_str (s e : nat) : string := substring s (e - s) input.
Definition tree_str (t : tree) : string := span_str (t_start t) (t_end t).

(* Pairs::as_str: from the start of the first pair to the end of the last one *)
Definition forest_str (f : list tree) : string :=
  match f with
  | [] => ""
  | t :: _ => match last_error f with Some u => span_str (t_start t) (t_end u) | None => "" end
  end.

Definition forest_concat (f : list tree) : string := String.concat "" (map tree_str f).

Definition has_tag (tg : nat) (t : tree) : bool :=
  match t_tag t with Some x => x =? tg | None => false end.
Definition forest_find_tagged (tg : nat) (f : list tree) : list tree := filter (has_tag tg) (preorder f).

(* line/column of a byte offset, by counting: lines end at '\n', columns count chars *)
Fixpoint line_col_from (s : string) (n : nat) (line col : nat) : nat * nat :=
  match n with
  | 0 => (line, col)
  | S n' =>
    match s with
    | EmptyString => (line, col)
    | String c r =>
      if nat_of_ascii c =? 10 then line_col_from r n' (S line) 1
      else line_col_from r n' line (if is_cont c then col else S col)
    end
  end.
Definition spec_line_col (pos : nat) : nat * nat := line_col_from input pos 1 1.
Definition tree_line_col (t : tree) : nat * nat := spec_line_col (t_start t).

(* `{:?}` *)
Definition debug_span_str (s e : nat) : string :=
  ("Span { str: " ++ esc (span_str s e) ++ ", range: " ++ nat_str s ++ ".." ++ nat_str e ++ " }")%string.
Fixpoint debug_tree (t : tree) : string :=
  match t with
  | Node r tg s e ch =>
    ("Pair { rule: " ++ rname r ++
     (match tg with Some x => ", node_tag: " ++ esc (tname x) | None => "" end) ++
     ", span: " ++ debug_span_str s e ++ ", inner: [" ++ join ", " (map debug_tree ch) ++ "] }")%string
  end.
Definition debug_forest (f : list tree) : string := ("[" ++ join ", " (map debug_tree f) ++ "]")%string.

(* `{:#}` *)
Fixpoint alt_tree (t : tree) : string :=
  match t with
  | Node r tg s e ch =>
    match ch with
    | [] => (rname r ++ "(" ++ nat_str s ++ ", " ++ nat_str e ++ ")")%string
    | _ => (rname r ++ "(" ++ nat_str s ++ ", " ++ nat_str e ++ ", [" ++ join ", " (map alt_tree ch) ++ "])")%string
    end
  end.
Definition display_forest (alternate : bool) (f : list tree) : string :=
  ("[" ++ join ", " (map (fun t => if alternate then alt_tree t else tree_str t) f) ++ "]")%string.

(* to_json *)
Definition forest_pos (f : list tree) : nat * nat :=
  match f with
  | [] => (0, 0)
  | t :: _ => match last_error f with Some u => (t_start t, t_end u) | None => (0, 0) end
  end.

Fixpoint json_tree (t : tree) : json :=
  match t with
  | Node r tg s e ch =>
    JObj [json_pos s e; ("rule", JStr (rname r));
          ("inner", match ch with
                    | [] => JStr (span_str s e)
                    | c0 :: _ =>
                      JObj [json_pos (t_start c0) (match last_error ch with Some u => t_end u | None => 0 end);
                            ("pairs", JArr (map json_tree ch))]
                    end)]
  end.
Definition json_forest (f : list tree) : json :=
  JObj [json_pos (fst (forest_pos f)) (snd (forest_pos f)); ("pairs", JArr (map json_tree f))].

End Views.
