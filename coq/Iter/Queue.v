(* C04 - the token queue, token trees, and the abstraction between them.

   queue  = list qtoken in stream order (index 0 first), as in pest/src/iterators/queueable_token.rs
   tree   = Node rule tag start end children   (what the documentation calls a token pair)
   tokens_at b f : the queue segment that represents forest f when its first token sits at index b
   forest_of q s e : the forest represented by the window [s, e) of q (follows the cross-links)
   wfq bounds len q : q is balanced, properly nested, its cross-links are correct (= q is the token
                      list of some forest), positions never decrease in stream order, and every
                      position satisfies `bounds` (the char-boundary predicate of the input) and is <= len.
   Definitions only (plus the boolean checker); the facts are in QueueFacts.v. *)
From Coq Require Import List Arith Bool.
Import ListNotations.

Inductive qtoken :=
| QStart (end_idx : nat) (pos : nat)
| QEnd (start_idx : nat) (rule : nat) (tag : option nat) (pos : nat).

Inductive tree := Node (rule : nat) (tag : option nat) (s e : nat) (children : list tree).

Definition qpos (t : qtoken) : nat := match t with QStart _ p => p | QEnd _ _ _ p => p end.
Definition is_startb (t : qtoken) : bool := match t with QStart _ _ => true | QEnd _ _ _ _ => false end.

Definition t_rule (t : tree) := match t with Node r _ _ _ _ => r end.
Definition t_tag (t : tree) := match t with Node _ tg _ _ _ => tg end.
Definition t_start (t : tree) := match t with Node _ _ s _ _ => s end.
Definition t_end (t : tree) := match t with Node _ _ _ e _ => e end.
Definition t_children (t : tree) := match t with Node _ _ _ _ ch => ch end.

(* number of nodes *)
Fixpoint tsize (t : tree) : nat :=
  match t with
  | Node _ _ _ _ ch => S ((fix fs (l : list tree) : nat := match l with [] => 0 | c :: l' => tsize c + fs l' end) ch)
  end.
Fixpoint fsize (f : list tree) : nat := match f with [] => 0 | t :: f' => tsize t + fsize f' end.

(* tokens of a tree whose Start token has index b *)
Fixpoint ttoks (b : nat) (t : tree) : list qtoken :=
  match t with
  | Node r tg s e ch =>
    QStart (S b + 2 * fsize ch) s ::
    (fix go (b' : nat) (l : list tree) : list qtoken :=
       match l with [] => [] | c :: l' => ttoks b' c ++ go (b' + 2 * tsize c) l' end) (S b) ch
    ++ [QEnd b r tg e]
  end.
Fixpoint tokens_at (b : nat) (f : list tree) : list qtoken :=
  match f with [] => [] | t :: f' => ttoks b t ++ tokens_at (b + 2 * tsize t) f' end.
Definition tokens_of (f : list tree) : list qtoken := tokens_at 0 f.

(* stream positions of a forest, in token order *)
Fixpoint tposl (t : tree) : list nat :=
  match t with
  | Node _ _ s e ch =>
    s :: (fix go (l : list tree) : list nat := match l with [] => [] | c :: l' => tposl c ++ go l' end) ch ++ [e]
  end.
Fixpoint fposl (f : list tree) : list nat := match f with [] => [] | t :: f' => tposl t ++ fposl f' end.

(* abstraction: follow the cross-links; fuel bounds the number of nodes on any first-child/next-sibling path *)
Fixpoint forest_fuel (fuel : nat) (q : list qtoken) (s e : nat) : list tree :=
  match fuel with
  | 0 => []
  | S k =>
    if s <? e then
      match nth_error q s with
      | Some (QStart ei ps) =>
        match nth_error q ei with
        | Some (QEnd _ r tg pe) => Node r tg ps pe (forest_fuel k q (S s) ei) :: forest_fuel k q (S ei) e
        | _ => []
        end
      | _ => []
      end
    else []
  end.
Definition forest_of (q : list qtoken) (s e : nat) : list tree := forest_fuel (e - s) q s e.

(* positions never decrease: chain lo l  :=  lo <= l0 <= l1 <= ... *)
Fixpoint chain (lo : nat) (l : list nat) : Prop :=
  match l with [] => True | x :: r => lo <= x /\ chain x r end.
Fixpoint chainb (lo : nat) (l : list nat) : bool :=
  match l with [] => true | x :: r => (lo <=? x) && chainb x r end.

Definition pos_ok (bounds : nat -> bool) (len : nat) (p : nat) : Prop := bounds p = true /\ p <= len.
Definition pos_okb (bounds : nat -> bool) (len : nat) (p : nat) : bool := bounds p && (p <=? len).

Definition wfq (bounds : nat -> bool) (len : nat) (q : list qtoken) : Prop :=
  (exists f, q = tokens_of f) /\
  chain 0 (map qpos q) /\
  Forall (pos_ok bounds len) (map qpos q).

(* the same on forests (used for PairsBuilder input): spans are ordered boundaries *)
Definition forest_ok (bounds : nat -> bool) (len : nat) (f : list tree) : Prop :=
  chain 0 (fposl f) /\ Forall (pos_ok bounds len) (fposl f).
Definition forest_okb (bounds : nat -> bool) (len : nat) (f : list tree) : bool :=
  chainb 0 (fposl f) && forallb (pos_okb bounds len) (fposl f).

(* decidable equality on tokens, for the checker *)
Definition opt_nat_eqb (a b : option nat) : bool :=
  match a, b with None, None => true | Some x, Some y => x =? y | _, _ => false end.
Definition qtoken_eqb (a b : qtoken) : bool :=
  match a, b with
  | QStart e1 p1, QStart e2 p2 => (e1 =? e2) && (p1 =? p2)
  | QEnd s1 r1 t1 p1, QEnd s2 r2 t2 p2 => (s1 =? s2) && (r1 =? r2) && opt_nat_eqb t1 t2 && (p1 =? p2)
  | _, _ => false
  end.
Fixpoint list_eqb {A} (eqb : A -> A -> bool) (l1 l2 : list A) : bool :=
  match l1, l2 with
  | [], [] => true
  | x :: r1, y :: r2 => eqb x y && list_eqb eqb r1 r2
  | _, _ => false
  end.

(* boolean checker: abstract, concretise again, compare; then the position conditions *)
Definition wfqb (bounds : nat -> bool) (len : nat) (q : list qtoken) : bool :=
  list_eqb qtoken_eqb q (tokens_of (forest_of q 0 (length q))) &&
  chainb 0 (map qpos q) &&
  forallb (pos_okb bounds len) (map qpos q).

(* plain views of a forest *)
Fixpoint preorder_t (t : tree) : list tree :=
  match t with
  | Node _ _ _ _ ch => t :: (fix go (l : list tree) : list tree := match l with [] => [] | c :: l' => preorder_t c ++ go l' end) ch
  end.
Fixpoint preorder (f : list tree) : list tree := match f with [] => [] | t :: f' => preorder_t t ++ preorder f' end.

Inductive tok := TStart (rule pos : nat) | TEnd (rule pos : nat).
Fixpoint token_list_t (t : tree) : list tok :=
  match t with
  | Node r _ s e ch =>
    TStart r s :: (fix go (l : list tree) : list tok := match l with [] => [] | c :: l' => token_list_t c ++ go l' end) ch ++ [TEnd r e]
  end.
Fixpoint token_list (f : list tree) : list tok := match f with [] => [] | t :: f' => token_list_t t ++ token_list f' end.
