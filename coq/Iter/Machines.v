(* C04 - the interleaving theorems: under every finite sequence of Next / NextBack / Len / Peek the Pairs,
   FlatPairs and Tokens machines return what the plain list machine returns on the forest, its pre-order
   and its token list, and never panic. *)
From Coq Require Import String List Arith Lia Bool.
Import ListNotations.
Require Import PV.Iter.Queue PV.Iter.QueueFacts PV.Iter.Model PV.Iter.Spec PV.Iter.PairsProofs.
Open Scope list_scope.
Open Scope nat_scope.

Arguments Nat.mul : simpl never.
Arguments Nat.sub : simpl never.
Arguments Nat.add : simpl never.

(* ---------------- generic refinement of a double-ended machine ---------------- *)

Lemma last_error_snoc {X} (l : list X) x : last_error (l ++ [x]) = Some x.
Proof.
  induction l as [|y l IH]; [reflexivity|].
  cbn [app]. destruct (l ++ [x]) eqn:E; [destruct l; discriminate|]. exact IH.
Qed.

Lemma list_snoc_cases {X} (l : list X) : l = [] \/ exists l' x, l = l' ++ [x].
Proof.
  destruct l as [|a l]; [left; reflexivity|right].
  destruct (exists_last (l := a :: l)) as (l' & x & E); [discriminate|]. eauto.
Qed.

Section Deque.
Variables (S X : Type).
Variable step : S -> iter_op -> res (S * answer X).
Variable R : S -> list X -> Prop.
Variable allowed : iter_op -> Prop.
Hypothesis Hstep : forall s l o, allowed o -> R s l ->
  exists s', step s o = Ok (s', snd (list_step l o)) /\ R s' (fst (list_step l o)).

Theorem run_refines_on : forall ops s l, Forall allowed ops -> R s l -> run_machine step s ops = Ok (run_list l ops).
Proof.
  induction ops as [|o ops IH]; intros s l HA H; [reflexivity|].
  inversion HA as [|? ? Ho HA']; subst.
  cbn [run_machine run_list]. destruct (Hstep s l o Ho H) as (s' & E & H').
  rewrite E. cbn [bind fst snd]. destruct (list_step l o) as [l' a] eqn:EL. cbn [fst snd] in *.
  rewrite (IH s' l' HA' H'). reflexivity.
Qed.
End Deque.

Theorem run_refines (S X : Type) (step : S -> iter_op -> res (S * answer X)) (R : S -> list X -> Prop) :
  (forall s l o, R s l -> exists s', step s o = Ok (s', snd (list_step l o)) /\ R s' (fst (list_step l o))) ->
  forall ops s l, R s l -> run_machine step s ops = Ok (run_list l ops).
Proof.
  intros Hstep ops s l H. apply (run_refines_on S X step R (fun _ => True)); [|apply Forall_forall; intros; exact I|exact H].
  intros s0 l0 o _ H0. apply Hstep. exact H0.
Qed.

(* ---------------- observing a pair completely ---------------- *)

Section M.
Variable q : list qtoken.
Variable input : string.

Notation fok := (forest_ok (is_char_boundary input) (String.length input)).

Lemma str_get_ok s e :
  s <= e -> is_char_boundary input s = true -> is_char_boundary input e = true ->
  str_get input s e = Some (substring s (e - s) input).
Proof.
  intros H A B. unfold str_get. apply Nat.leb_le in H. rewrite H, A, B. reflexivity.
Qed.

Lemma slice_ok s e :
  s <= e -> is_char_boundary input s = true -> is_char_boundary input e = true ->
  slice input s e = Ok (substring s (e - s) input).
Proof. intros H A B. unfold slice. rewrite str_get_ok by assumption. reflexivity. Qed.

Lemma fok_node r tg ps pe ch f : fok (Node r tg ps pe ch :: f) ->
  ps <= pe /\ is_char_boundary input ps = true /\ is_char_boundary input pe = true /\ fok ch /\ fok f.
Proof.
  intros H. apply forest_ok_cons in H. unfold pos_ok in H. tauto.
Qed.

Lemma pair_as_span_ok i r tg ps pe ch : PairAt q i (Node r tg ps pe ch) -> fok [Node r tg ps pe ch] ->
  pair_as_span q input i = Ok (ps, pe).
Proof.
  intros W H. apply fok_node in H. destruct H as (A & B & C & _).
  unfold pair_as_span. rewrite (pos_at_start _ _ _ _ _ _ _ W). cbn [bind].
  rewrite (pair_end_ok _ _ _ _ _ _ _ W). cbn [bind]. rewrite (pos_at_end _ _ _ _ _ _ _ W). cbn [bind].
  rewrite str_get_ok by assumption. reflexivity.
Qed.

Lemma pair_as_str_ok i r tg ps pe ch : PairAt q i (Node r tg ps pe ch) -> fok [Node r tg ps pe ch] ->
  pair_as_str q input i = Ok (span_str input ps pe).
Proof.
  intros W H. apply fok_node in H. destruct H as (A & B & C & _).
  unfold pair_as_str. rewrite (pos_at_start _ _ _ _ _ _ _ W). cbn [bind].
  rewrite (pair_end_ok _ _ _ _ _ _ _ W). cbn [bind]. rewrite (pos_at_end _ _ _ _ _ _ _ W). cbn [bind].
  apply slice_ok; assumption.
Qed.

Lemma Forall2_fok_split (P : nat -> tree -> Prop) idxs f :
  Forall2 P idxs f -> fok f -> Forall2 (fun i t => P i t /\ fok [t]) idxs f.
Proof.
  induction 1 as [|i t idxs f H _ IH]; intros Hf; [constructor|].
  change (t :: f) with ([t] ++ f) in Hf. apply forest_ok_app in Hf. destruct Hf as [H1 H2].
  constructor; [tauto|]. apply IH. exact H2.
Qed.

Lemma walk_forest f : forall idxs fuel,
  fsize f <= fuel -> Forall2 (PairAt q) idxs f -> fok f ->
  mapM (walk_pair q input fuel) idxs = Ok f.
Proof.
  induction f as [|r tg ps pe ch f IHc IHf] using forest_ind; intros idxs fuel Hfuel F2 Hok.
  - inversion F2; subst. reflexivity.
  - inversion F2 as [|i t idxs' f' W F2']; subst. rewrite fsize_cons in Hfuel.
    destruct fuel as [|k]; [lia|].
    destruct (fok_node _ _ _ _ _ _ Hok) as (A & B & C & Hc & Hf).
    assert (H1 : fok [Node r tg ps pe ch]).
    { change (Node r tg ps pe ch :: f) with ([Node r tg ps pe ch] ++ f) in Hok. apply forest_ok_app in Hok. tauto. }
    cbn [mapM]. rewrite (IHf idxs' (S k)); [|lia|exact F2'|exact Hf].
    cbn [walk_pair].
    rewrite (pair_as_rule_ok _ _ _ _ _ _ _ W). cbn [bind].
    rewrite (pair_as_node_tag_ok _ _ _ _ _ _ _ W). cbn [bind].
    rewrite (pair_as_span_ok _ _ _ _ _ _ W H1). cbn [bind].
    destruct (inner_collect _ _ _ _ _ _ _ W) as (inner & ci & E1 & _ & E2 & F3).
    rewrite E1. cbn [bind]. rewrite E2. cbn [bind].
    rewrite (IHc ci k); [|lia|exact F3|exact Hc]. reflexivity.
Qed.

Lemma walk_pair_ok i t : PairAt q i t -> fok [t] -> walk_pair q input (fuel0 q) i = Ok t.
Proof.
  intros W H.
  assert (E : mapM (walk_pair q input (fuel0 q)) [i] = Ok [t]).
  { apply walk_forest; [|constructor; [exact W|constructor]|exact H].
    pose proof (PairAt_size _ _ _ W). cbn [fsize]. unfold fuel0. lia. }
  cbn [mapM] in E. destruct (walk_pair q input (fuel0 q) i) as [t'| |]; cbn [bind] in E; congruence.
Qed.

Lemma obs_pair_ok o t : match o, t with Some i, Some t => PairAt q i t /\ fok [t] | None, None => True | _, _ => False end ->
  obs_pair q input o = Ok t.
Proof.
  destruct o as [i|], t as [t|]; intros H; try contradiction.
  - destruct H as [W H]. unfold obs_pair. rewrite (walk_pair_ok _ _ W H). reflexivity.
  - reflexivity.
Qed.

(* ---------------- Pairs ---------------- *)

Definition RepP (p : pairs) (f : list tree) : Prop := Rep q p f /\ fok f.

Lemma fok_hd t f : fok (t :: f) -> fok [t] /\ fok f.
Proof. intros H. change (t :: f) with ([t] ++ f) in H. apply forest_ok_app in H. exact H. Qed.

Lemma pairs_step_refines p f o : RepP p f ->
  exists p', pairs_step q input p o = Ok (p', snd (list_step f o)) /\ RepP p' (fst (list_step f o)).
Proof.
  intros [R H]. destruct o; cbn [pairs_step list_step fst snd].
  - (* Next *)
    destruct f as [|t f].
    + rewrite (pairs_next_nil _ _ R). cbn [bind fst snd obs_pair]. exists p. split; [reflexivity|]. split; assumption.
    + destruct (pairs_next_cons _ _ _ _ R) as (p' & E & R' & W). destruct (fok_hd _ _ H) as [H1 H2].
      rewrite E. cbn [bind fst snd]. rewrite (obs_pair_ok (Some (p_start p)) (Some t)) by (split; assumption).
      cbn [bind hd_error tl]. exists p'. split; [reflexivity|]. split; assumption.
  - (* NextBack *)
    destruct (list_snoc_cases f) as [->|(f' & t & ->)].
    + rewrite (pairs_next_back_nil _ _ R). cbn [bind fst snd obs_pair removelast last_error].
      exists p. split; [reflexivity|]. split; assumption.
    + destruct (pairs_next_back_snoc _ _ _ _ R) as (p' & i & E & R' & W).
      apply forest_ok_app in H. destruct H as [H1 H2].
      rewrite E. cbn [bind fst snd]. rewrite (obs_pair_ok (Some i) (Some t)) by (split; assumption).
      cbn [bind]. rewrite removelast_last, last_error_snoc. exists p'. split; [reflexivity|]. split; assumption.
  - (* Len *)
    rewrite (pairs_len_ok _ _ _ R). exists p. split; [reflexivity|]. split; assumption.
  - (* Peek *)
    rewrite (pairs_peek_ok _ _ _ R). destruct f as [|t f].
    + cbn [obs_pair bind hd_error]. exists p. split; [reflexivity|]. split; assumption.
    + destruct (fok_hd _ _ H) as [H1 H2]. destruct R as (W & RE & RC).
      rewrite (obs_pair_ok (Some (p_start p)) (Some t)) by (split; [exact (Win_single _ _ _ _ W)|exact H1]).
      cbn [bind hd_error]. exists p. split; [reflexivity|]. split; [split; [exact W|tauto]|exact H].
Qed.

Theorem pairs_interleaving_refines p f ops : RepP p f ->
  run_pairs q input p ops = Ok (run_list f ops).
Proof.
  intros H. unfold run_pairs. apply (run_refines _ _ _ RepP); [|exact H].
  intros s l o Hs. apply pairs_step_refines. exact Hs.
Qed.

End M.
