(* C04 - assembly: the statements as they are pinned in props/C04.v, parameterised by the fix flags, proved
   for the repaired code (fixes_all). *)
From Coq Require Import String List Arith Lia Bool.
Import ListNotations.
Require Import PV.Iter.Queue PV.Iter.QueueFacts PV.Iter.Model PV.Iter.Spec PV.Iter.PairsProofs PV.Iter.Machines
               PV.Iter.FlatTokens PV.Iter.Views PV.Iter.BuilderProofs.
Open Scope list_scope.
Open Scope nat_scope.

Arguments Nat.mul : simpl never.
Arguments Nat.sub : simpl never.
Arguments Nat.add : simpl never.

Definition wf_for (input : string) (q : list qtoken) : Prop :=
  wfq (is_char_boundary input) (String.length input) q.

(* ---------------- what "every view of a Pairs value agrees with the forest f" means ---------------- *)

Definition pairs_views_agree (fx : fixes) (input : string) (rname tname : nat -> string) (esc : string -> string)
           (q : list qtoken) (p : pairs) (f : list tree) : Prop :=
  (* forward and backward iteration, len, peek in any interleaving *)
  (forall ops, run_pairs q input p ops = Ok (run_list f ops)) /\
  (* flatten: pre-order, in any interleaving *)
  (forall ops, run_flat fx q input (pairs_flatten p) ops = Ok (run_list (preorder f) ops)) /\
  (* tokens, in any interleaving *)
  (exists k, pairs_tokens q input p = Ok k /\
             forall ops, run_tokens q input k ops = Ok (run_list (token_list f) ops)) /\
  pairs_len p = length f /\
  pairs_is_empty p = (match f with [] => true | _ => false end) /\
  pairs_as_str q input p = Ok (forest_str input f) /\
  pairs_concat q input p = Ok (forest_concat input f) /\
  (forall tg, exists idxs, pairs_find_tagged q tg p = Ok idxs /\ Forall2 (PairAt q) idxs (forest_find_tagged tg f)) /\
  (forall tg, exists o, pairs_find_first_tagged q tg p = Ok o /\
     match forest_find_tagged tg f with [] => o = None | t :: _ => exists i, o = Some i /\ PairAt q i t end) /\
  (forall alternate, display_pairs q input rname alternate p = Ok (display_forest input rname alternate f)) /\
  debug_pairs q input rname tname esc p = Ok (debug_forest input rname tname esc f) /\
  pairs_to_json fx q input rname p = Ok (json_forest input rname f) /\
  walk_pairs q input p = Ok f.

(* ... and of a Pair value with the tree t *)
Definition pair_views_agree (fx : fixes) (input : string) (rname tname : nat -> string) (esc : string -> string)
           (q : list qtoken) (i : nat) (t : tree) : Prop :=
  pair_as_rule q i = Ok (t_rule t) /\
  pair_as_node_tag q i = Ok (t_tag t) /\
  pair_as_span q input i = Ok (t_start t, t_end t) /\
  pair_as_str q input i = Ok (tree_str input t) /\
  (exists p, pair_into_inner q i = Ok p /\ Rep q p (t_children t)) /\
  (exists p, pairs_single fx q i = Ok p /\ Rep q p [t]) /\
  (exists k, pair_tokens q input i = Ok k /\
             forall ops, run_tokens q input k ops = Ok (run_list (token_list [t]) ops)) /\
  (forall li, pair_line_col q input li i = li_line_col li input (t_start t)) /\
  display_pair q input i = Ok (tree_str input t) /\
  alt_pair q rname (fuel0 q) i = Ok (alt_tree rname t) /\
  debug_pair q input rname tname esc (fuel0 q) i = Ok (debug_tree input rname tname esc t) /\
  pair_to_json fx q input rname i = Ok (json_tree input rname t) /\
  walk_pair q input (fuel0 q) i = Ok t.

(* the iterator part of C04 for one choice of the repaired functions *)
Definition iter_statement (fx : fixes) : Prop :=
  forall (input : string) (rname tname : nat -> string) (esc : string -> string) (q : list qtoken),
    wf_for input q ->
    (* the whole queue is a window, and its forest is forest_of *)
    (exists p0, pairs_new q 0 (length q) = Ok p0 /\ Rep q p0 (forest_of q 0 (length q))) /\
    (* spans: children inside parents, siblings in order and disjoint *)
    (exists hi, fnested 0 (forest_of q 0 (length q)) hi /\ hi <= String.length input) /\
    (* every window: Rep q p f  <->  p = {s; s + 2|f|; length f} and the tokens of f sit at s *)
    (forall s f, Win q s f ->
       forest_of q s (s + 2 * fsize f) = f /\ exists p, pairs_new q s (s + 2 * fsize f) = Ok p /\ Rep q p f) /\
    (forall p f, Rep q p f -> pairs_views_agree fx input rname tname esc q p f) /\
    (forall i t, PairAt q i t -> pair_views_agree fx input rname tname esc q i t).

(* the PairsBuilder part *)
Definition builder_statement : Prop :=
  forall (input : string) (f : list tree),
    (* every node list is produced by a call sequence; `.tag()` first panics *)
    run_bops (bops_of f) [] = Ok f /\
    (forall t rest, run_bops (BTag t :: rest) [] = Panic) /\
    (* build panics exactly when some span fails the assertion of push_node *)
    (build_queue input f = Panic <-> spans_okb input f = false) /\
    (* on ordered boundary spans: a well-formed queue whose forest is f *)
    (forest_ok (is_char_boundary input) (String.length input) f ->
       exists p, build input f = Ok (tokens_of f, p) /\ Rep (tokens_of f) p f /\
                 wf_for input (tokens_of f) /\ forest_of (tokens_of f) 0 (length (tokens_of f)) = f).

(* ---------------- proofs ---------------- *)

Section Proofs.
Variable input : string.
Variable rname tname : nat -> string.
Variable esc : string -> string.
Variable q : list qtoken.
Hypothesis Hwf : wf_for input q.

Notation fok := (forest_ok (is_char_boundary input) (String.length input)).

Lemma Rep_fok p f : Rep q p f -> fok f.
Proof. intros (W & _ & _). exact (Win_forest_ok _ _ _ _ _ Hwf W). Qed.

Lemma whole : exists F, Win q 0 F /\ length q = 2 * fsize F /\ fok F /\ forest_of q 0 (length q) = F.
Proof.
  destruct (wfq_forest _ _ _ Hwf) as (F & E & W & L & H). exists F.
  split; [exact W|]. split; [exact L|]. split; [exact H|].
  rewrite L. exact (forest_of_Win q 0 F W).
Qed.

Theorem pairs_views_all p f : Rep q p f -> pairs_views_agree fixes_all input rname tname esc q p f.
Proof.
  intros R. pose proof (Rep_fok _ _ R) as H.
  destruct whole as (F & HW & HL & HF & _).
  unfold pairs_views_agree. repeat split.
  - intros ops. apply pairs_interleaving_refines. split; assumption.
  - intros ops. apply flat_run_refines. apply flatten_RepF; assumption.
  - destruct (pairs_tokens_ok q input F HW HL HF p f R) as (k & E & RT). exists k. split; [exact E|].
    intros ops. exact (tokens_run_refines q input F HW HL HF k _ ops RT).
  - exact (pairs_len_ok _ _ _ R).
  - exact (pairs_is_empty_ok _ _ _ R).
  - exact (pairs_as_str_ok _ _ _ _ R H).
  - exact (pairs_concat_ok _ _ _ _ R H).
  - intros tg. exact (pairs_find_tagged_ok _ _ tg _ _ R H).
  - intros tg. exact (pairs_find_first_tagged_ok _ _ tg _ _ R H).
  - intros alternate. exact (display_pairs_ok _ _ _ alternate _ _ R H).
  - exact (debug_pairs_ok _ _ _ _ _ _ _ R H).
  - exact (pairs_to_json_ok _ _ _ fixes_all _ _ R H (or_intror eq_refl)).
  - unfold walk_pairs. destruct (pairs_collect_fuel0 _ _ _ R) as (idxs & E & F2). rewrite E. cbn [bind].
    apply walk_forest; [exact (fuel0_enough _ _ _ R)|exact F2|exact H].
Qed.

Theorem pair_views_all i t : PairAt q i t -> pair_views_agree fixes_all input rname tname esc q i t.
Proof.
  intros W. assert (H : fok [t]) by exact (Win_forest_ok _ _ _ _ _ Hwf W).
  destruct whole as (F & HW & HL & HF & _).
  destruct t as [r tg ps pe ch]. unfold pair_views_agree. cbn [t_rule t_tag t_start t_end t_children].
  repeat split.
  - exact (pair_as_rule_ok _ _ _ _ _ _ _ W).
  - exact (pair_as_node_tag_ok _ _ _ _ _ _ _ W).
  - exact (pair_as_span_ok _ _ _ _ _ _ _ _ W H).
  - exact (pair_as_str_ok _ _ _ _ _ _ _ _ W H).
  - exact (pair_into_inner_ok _ _ _ _ _ _ _ W).
  - exact (pairs_single_ok _ _ _ W).
  - destruct (pair_tokens_ok q input F HW HL HF i _ W) as (k & E & RT). exists k. split; [exact E|].
    intros ops. exact (tokens_run_refines q input F HW HL HF k _ ops RT).
  - intros li. exact (pair_line_col_ok _ _ li _ _ W).
  - exact (pair_as_str_ok _ _ _ _ _ _ _ _ W H).
  - exact (alt_pair_ok _ _ _ _ W).
  - exact (debug_pair_ok _ _ _ _ _ _ _ W H).
  - exact (pair_to_json_ok _ _ _ fixes_all _ _ W H).
  - exact (walk_pair_ok _ _ _ _ W H).
Qed.

End Proofs.

Theorem iter_statement_fixed : iter_statement fixes_all.
Proof.
  intros input rname tname esc q Hwf.
  destruct (whole input q Hwf) as (F & HW & HL & HF & EF).
  split; [|split; [|split; [|split]]].
  - destruct (pairs_new_ok q 0 F HW) as (p0 & E & R). exists p0. rewrite EF.
    replace (length q) with (0 + 2 * fsize F) by lia. auto.
  - rewrite EF. destruct HF as [C Fo]. destruct (chain_snoc_exists _ _ C) as [hi Hc].
    (* take hi = the last position (or 0), which is <= len *)
    destruct (list_snoc_cases (fposl F)) as [E|(l' & x & E)].
    + exists 0. split; [|lia]. apply chain_fnested. rewrite E. cbn. lia.
    + exists x. split.
      * apply chain_fnested. rewrite E in *. clear Hc.
        assert (G : forall l lo, chain lo (l ++ [x]) -> chain lo ((l ++ [x]) ++ [x])).
        { induction l as [|a l IH]; intros lo; cbn [app chain]; [lia|]. intros [A B]. split; [exact A|]. apply IH. exact B. }
        apply G. exact C.
      * rewrite E in Fo. apply Forall_app in Fo. destruct Fo as [_ Fo]. inversion Fo as [|? ? [_ P] _]; subst. exact P.
  - intros s f W. split; [exact (forest_of_Win q s f W)|exact (pairs_new_ok q s f W)].
  - intros p f R. exact (pairs_views_all input rname tname esc q Hwf p f R).
  - intros i t W. exact (pair_views_all input rname tname esc q Hwf i t W).
Qed.

Theorem builder_statement_holds : builder_statement.
Proof.
  intros input f. split; [|split; [|split]].
  - exact (run_bops_of f []).
  - intros t rest. reflexivity.
  - exact (build_panics_iff input f).
  - intros H. exact (build_ok input f H).
Qed.
