(* C04 - harness support: rebuild a queue (with its cross-links) from the raw Start/End stream that
   the real `Tokens` iterator yields for a parse result.  Not part of any theorem; the runner then
   checks `wfqb` on the result and compares every view of the real Pairs with the model run on it. *)
From Coq Require Import List Arith Bool.
Import ListNotations.
Require Import PV.Iter.Queue PV.Iter.Model.

Inductive rawtok := RStart (pos : nat) | REnd (rule : nat) (tag : option nat) (pos : nat).

Fixpoint requeue (l : list rawtok) (stk : list nat) (acc : list qtoken) : option (list qtoken) :=
  match l with
  | [] => match stk with [] => Some acc | _ :: _ => None end
  | RStart p :: r => requeue r (length acc :: stk) (acc ++ [QStart 0 p])
  | REnd rule tg p :: r =>
    match stk with
    | [] => None
    | si :: stk' =>
      match set_end acc si (length acc) with
      | Ok acc' => requeue r stk' (acc' ++ [QEnd si rule tg p])
      | _ => None
      end
    end
  end.
