(* C04 - Tokens and FlatPairs under every interleaving. *)
From Coq Require Import String List Arith Lia Bool.
Import ListNotations.
Require Import PV.Iter.Queue PV.Iter.QueueFacts PV.Iter.Model PV.Iter.Spec PV.Iter.PairsProofs PV.Iter.Machines.
Open Scope list_scope.
Open Scope nat_scope.

Arguments Nat.mul : simpl never.
Arguments Nat.sub : simpl never.
Arguments Nat.add : simpl never.

(* ---------------- sub-lists by index ---------------- *)

Definition sub {X} (l : list X) (s e : nat) : list X := firstn (e - s) (skipn s l).

Lemma skipn_nth_cons {X} (l : list X) : forall s x, nth_error l s = Some x -> skipn s l = x :: skipn (S s) l.
Proof.
  induction l as [|a l IH]; intros [|s] x H; cbn [nth_error] in H; try discriminate.
  - inversion H. reflexivity.
  - cbn [skipn]. rewrite (IH s x H). reflexivity.
Qed.

Lemma nth_error_skipn' {X} (l : list X) : forall s n, nth_error (skipn s l) n = nth_error l (s + n).
Proof.
  induction l as [|a l IH]; intros [|s] n; cbn [skipn]; try reflexivity.
  - destruct n; reflexivity.
  - replace (S s + n) with (S (s + n)) by lia. cbn [nth_error]. apply IH.
Qed.

Lemma firstn_S_snoc {X} (l : list X) : forall n y, nth_error l n = Some y -> firstn (S n) l = firstn n l ++ [y].
Proof.
  induction l as [|a l IH]; intros [|n] y H; cbn [nth_error] in H; try discriminate.
  - inversion H. reflexivity.
  - cbn [firstn app]. f_equal. apply IH. exact H.
Qed.

Lemma nth_error_some_lt {X} (l : list X) n : n < length l -> exists x, nth_error l n = Some x.
Proof.
  intros H. destruct (nth_error l n) eqn:E; [eauto|]. apply nth_error_None in E. lia.
Qed.

Lemma sub_nil {X} (l : list X) s e : e <= s -> sub l s e = [].
Proof. intros H. unfold sub. replace (e - s) with 0 by lia. reflexivity. Qed.

Lemma sub_length {X} (l : list X) s e : s <= e -> e <= length l -> length (sub l s e) = e - s.
Proof. intros H1 H2. unfold sub. rewrite firstn_length, skipn_length. lia. Qed.

Lemma sub_cons {X} (l : list X) s e : s < e -> e <= length l ->
  exists x, nth_error l s = Some x /\ sub l s e = x :: sub l (S s) e.
Proof.
  intros H1 H2. destruct (nth_error_some_lt l s) as [x E]; [lia|]. exists x. split; [exact E|].
  unfold sub. rewrite (skipn_nth_cons _ _ _ E). replace (e - s) with (S (e - S s)) by lia. reflexivity.
Qed.

Lemma sub_snoc {X} (l : list X) s e : s < e -> e <= length l ->
  exists y, nth_error l (e - 1) = Some y /\ sub l s e = sub l s (e - 1) ++ [y].
Proof.
  intros H1 H2. destruct (nth_error_some_lt l (e - 1)) as [y E]; [lia|]. exists y. split; [exact E|].
  unfold sub. replace (e - s) with (S (e - 1 - s)) by lia. apply firstn_S_snoc.
  rewrite nth_error_skipn'. replace (s + (e - 1 - s)) with (e - 1) by lia. exact E.
Qed.

Lemma sub_all {X} (l : list X) : sub l 0 (length l) = l.
Proof. unfold sub. rewrite Nat.sub_0_r. cbn [skipn]. apply firstn_all. Qed.

Section T.
Variable q : list qtoken.
Variable input : string.
Notation fok := (forest_ok (is_char_boundary input) (String.length input)).
Notation wf := (wfq (is_char_boundary input) (String.length input) q).

(* ---------------- Tokens ---------------- *)

Lemma tokens_new_ok s e : wf -> tokens_new q input s e = Ok {| k_start := s; k_end := e |}.
Proof.
  intros (_ & _ & Fo). unfold tokens_new.
  replace (forallb (fun t => is_char_boundary input (qpos t)) q) with true; [reflexivity|].
  symmetry. apply forallb_forall. intros t Ht. rewrite Forall_forall in Fo.
  destruct (Fo (qpos t)) as [A _]; [apply in_map; exact Ht|exact A].
Qed.

Lemma position_ok p : is_char_boundary input p = true -> position_new_internal input p = Ok p.
Proof. intros H. unfold position_new_internal. rewrite H. reflexivity. Qed.

Lemma create_token_Win f : forall b k tk,
  Win q b f -> fok f -> nth_error (token_list f) k = Some tk -> create_token q input (b + k) = Ok tk.
Proof.
  induction f as [|r tg ps pe ch f IHc IHf] using forest_ind; intros b k tk W Hok Hk.
  - destruct k; discriminate.
  - destruct (Win_cons _ _ _ _ _ _ _ _ W) as (A & B & Wc & Wf).
    destruct (fok_node _ _ _ _ _ _ _ Hok) as (_ & Bs & Be & Hc & Hf).
    rewrite token_list_cons in Hk. destruct k as [|k].
    + cbn [nth_error] in Hk. inversion Hk; subst tk. replace (b + 0) with b by lia.
      unfold create_token. rewrite (qget_nth _ _ _ A). cbn [bind]. rewrite (qget_nth _ _ _ B). cbn [bind].
      rewrite (position_ok _ Bs). reflexivity.
    + cbn [nth_error] in Hk. destruct (Nat.lt_ge_cases k (length (token_list ch))) as [Hlt|Hge].
      * rewrite nth_error_app1 in Hk by exact Hlt. replace (b + S k) with (S b + k) by lia.
        exact (IHc _ _ _ Wc Hc Hk).
      * rewrite nth_error_app2 in Hk by exact Hge. rewrite length_token_list in *.
        destruct (k - 2 * fsize ch) as [|k'] eqn:Ek.
        -- cbn [nth_error] in Hk. inversion Hk; subst tk.
           replace (b + S k) with (S b + 2 * fsize ch) by lia.
           unfold create_token. rewrite (qget_nth _ _ _ B). cbn [bind]. rewrite (position_ok _ Be). reflexivity.
        -- cbn [nth_error] in Hk. replace (b + S k) with (S (S b) + 2 * fsize ch + k') by lia.
           exact (IHf _ _ _ Wf Hf Hk).
Qed.

Section WithF.
Variable F : list tree.
Hypothesis HW : Win q 0 F.
Hypothesis HL : length q = 2 * fsize F.
Hypothesis HF : fok F.

Lemma create_token_ok i tk : nth_error (token_list F) i = Some tk -> create_token q input i = Ok tk.
Proof. intros H. exact (create_token_Win F 0 i tk HW HF H). Qed.

Definition RepT (k : tokens) (l : list tok) : Prop :=
  k_start k <= k_end k /\ k_end k <= length q /\ l = sub (token_list F) (k_start k) (k_end k).

Lemma TL_len : length (token_list F) = length q.
Proof. rewrite length_token_list. lia. Qed.

Lemma tokens_step_refines k l o : RepT k l ->
  exists k', tokens_step q input k o = Ok (k', snd (list_step l o)) /\ RepT k' (fst (list_step l o)).
Proof.
  intros (H1 & H2 & ->). pose proof TL_len as TL.
  destruct (Nat.eq_dec (k_start k) (k_end k)) as [Heq|Hne].
  - (* empty *)
    rewrite (sub_nil _ _ _ (Nat.eq_le_incl _ _ (eq_sym Heq))).
    assert (Hle : (k_end k <=? k_start k) = true) by (apply Nat.leb_le; lia).
    destruct o; cbn [tokens_step list_step fst snd hd_error tl removelast last_error length].
    + unfold tokens_next. rewrite Hle. cbn [bind fst snd]. exists k. split; [reflexivity|].
      split; [lia|]. split; [lia|]. symmetry. apply sub_nil. lia.
    + unfold tokens_next_back. rewrite Hle. cbn [bind fst snd]. exists k. split; [reflexivity|].
      split; [lia|]. split; [lia|]. symmetry. apply sub_nil. lia.
    + unfold tokens_len. rewrite csub_ok by lia. cbn [bind]. replace (k_end k - k_start k) with 0 by lia.
      exists k. split; [reflexivity|]. split; [lia|]. split; [lia|]. symmetry. apply sub_nil. lia.
    + unfold tokens_next. rewrite Hle. cbn [bind fst snd]. exists k. split; [reflexivity|].
      split; [lia|]. split; [lia|]. symmetry. apply sub_nil. lia.
  - assert (Hlt : k_start k < k_end k) by lia.
    assert (Hle : (k_end k <=? k_start k) = false) by (apply Nat.leb_gt; lia).
    destruct o; cbn [tokens_step list_step fst snd].
    + destruct (sub_cons (token_list F) (k_start k) (k_end k)) as (x & Ex & Es); [lia|lia|].
      rewrite Es. cbn [hd_error tl]. unfold tokens_next. rewrite Hle.
      rewrite (create_token_ok _ _ Ex). cbn [bind fst snd].
      eexists. split; [reflexivity|]. unfold RepT. cbn [k_start k_end].
      replace (k_start k + 1) with (S (k_start k)) by lia. split; [lia|]. split; [lia|reflexivity].
    + destruct (sub_snoc (token_list F) (k_start k) (k_end k)) as (y & Ey & Es); [lia|lia|].
      rewrite Es, removelast_last, last_error_snoc. unfold tokens_next_back. rewrite Hle.
      rewrite csub_ok by lia. cbn [bind]. rewrite (create_token_ok _ _ Ey). cbn [bind fst snd].
      eexists. split; [reflexivity|]. unfold RepT. cbn [k_start k_end]. split; [lia|]. split; [lia|reflexivity].
    + unfold tokens_len. rewrite csub_ok by lia. cbn [bind]. rewrite sub_length by lia.
      exists k. split; [reflexivity|]. unfold RepT. auto.
    + destruct (sub_cons (token_list F) (k_start k) (k_end k)) as (x & Ex & Es); [lia|lia|].
      rewrite Es. cbn [hd_error]. unfold tokens_next. rewrite Hle.
      rewrite (create_token_ok _ _ Ex). cbn [bind fst snd].
      exists k. split; [reflexivity|]. unfold RepT. rewrite <- Es. auto.
Qed.

Theorem tokens_run_refines k l ops : RepT k l -> run_tokens q input k ops = Ok (run_list l ops).
Proof.
  intros H. unfold run_tokens. apply (run_refines _ _ _ RepT); [|exact H].
  intros s l' o Hs. apply tokens_step_refines. exact Hs.
Qed.
End WithF.


(* the tokens of a forest window are that part of the whole token list *)
Lemma list_ext_nth {X} (l1 : list X) : forall l2,
  length l1 = length l2 ->
  (forall k x y, nth_error l1 k = Some x -> nth_error l2 k = Some y -> x = y) -> l1 = l2.
Proof.
  induction l1 as [|a l1 IH]; intros [|b l2] HL H; cbn [length] in HL; try discriminate; [reflexivity|].
  f_equal.
  - exact (H 0 a b eq_refl eq_refl).
  - apply IH; [lia|]. intros k x y Hx Hy. exact (H (S k) x y Hx Hy).
Qed.

Lemma nth_error_firstn_lt {X} (l : list X) : forall n k, k < n -> nth_error (firstn n l) k = nth_error l k.
Proof.
  induction l as [|a l IH]; intros n k H.
  - rewrite firstn_nil. reflexivity.
  - destruct n as [|n]; [lia|]. destruct k as [|k]; cbn [firstn nth_error]; [reflexivity|]. apply IH. lia.
Qed.

Lemma token_list_window F s f :
  Win q 0 F -> length q = 2 * fsize F -> fok F -> Win q s f ->
  sub (token_list F) s (s + 2 * fsize f) = token_list f.
Proof.
  intros HW HL HF W. pose proof (Win_bound _ _ _ W) as HB.
  assert (Hf : fok f).
  { destruct W as (pre & post & E & L). destruct HF as [C Fo].
    pose proof (map_qpos_tokens_at F 0) as M. destruct HW as (pre0 & post0 & E0 & L0).
    destruct pre0; [|discriminate]. cbn [app] in E0.
    assert (EQ : map qpos q = fposl F).
    { rewrite E0, map_app, map_qpos_tokens_at.
      assert (post0 = []).
      { apply length_zero_iff_nil. rewrite E0, app_length, length_tokens_at in HL. lia. }
      subst post0. cbn [map]. apply app_nil_r. }
    rewrite <- EQ in C, Fo. rewrite E, !map_app, map_qpos_tokens_at in C, Fo. split.
    - apply chain_app in C. destruct C as [_ C]. apply chain_app in C. tauto.
    - apply Forall_app in Fo. destruct Fo as [_ Fo]. apply Forall_app in Fo. tauto. }
  apply list_ext_nth.
  - rewrite sub_length; rewrite ?length_token_list; lia.
  - intros k x y Hx Hy.
    assert (Hk : k < length (token_list f)) by (apply nth_error_Some; congruence).
    rewrite length_token_list in Hk.
    unfold sub in Hx. rewrite nth_error_firstn_lt in Hx by lia. rewrite nth_error_skipn' in Hx.
    pose proof (create_token_Win F 0 (s + k) x HW HF Hx) as E1. cbn in E1.
    pose proof (create_token_Win f s k y W Hf Hy) as E2.
    replace (0 + (s + k)) with (s + k) in E1 by lia. congruence.
Qed.

(* ---------------- FlatPairs ---------------- *)

Definition is_start_at (i : nat) : bool :=
  match nth_error q i with Some t => is_startb t | None => false end.

Definition startsk (s k : nat) : list nat := filter is_start_at (seq s k).

Lemma flat_is_start_ok i : i < length q -> flat_is_start q i = Ok (is_start_at i).
Proof.
  intros H. unfold flat_is_start, is_start_at, qget.
  destruct (nth_error q i) eqn:E; [reflexivity|]. apply nth_error_None in E. lia.
Qed.

Lemma startsk_S s k : startsk s (S k) = if is_start_at s then s :: startsk (S s) k else startsk (S s) k.
Proof. unfold startsk. cbn [seq filter]. reflexivity. Qed.

Lemma startsk_app s k1 k2 : startsk s (k1 + k2) = startsk s k1 ++ startsk (s + k1) k2.
Proof. unfold startsk. rewrite seq_app, filter_app. reflexivity. Qed.

Lemma scan_up_ok k : forall s, s + k <= length q ->
  exists s', scan_up q s k = Ok s' /\ s <= s' /\ s' <= s + k /\
             startsk s k = startsk s' (s + k - s') /\ (s' < s + k -> is_start_at s' = true).
Proof.
  induction k as [|k IH]; intros s H.
  - exists s. cbn [scan_up]. replace (s + 0 - s) with 0 by lia. repeat split; try lia.
  - cbn [scan_up]. rewrite flat_is_start_ok by lia. cbn [bind]. destruct (is_start_at s) eqn:E.
    + exists s. replace (s + S k - s) with (S k) by lia. repeat split; try lia. intros _. exact E.
    + destruct (IH (s + 1)) as (s' & E1 & A & B & C & D); [lia|]. exists s'. rewrite E1.
      rewrite startsk_S, E. replace (S s) with (s + 1) by lia. rewrite C.
      replace (s + 1 + k) with (s + S k) in * by lia. repeat split; try lia. exact D.
Qed.

Lemma startsk_false s k : (forall j, s <= j < s + k -> is_start_at j = false) -> startsk s k = [].
Proof.
  revert s. induction k as [|k IH]; intros s H; [reflexivity|].
  rewrite startsk_S, (H s) by lia. apply IH. intros j Hj. apply H. lia.
Qed.

Lemma scan_down_ok k : forall e, k <= e + 1 -> e < length q ->
  (exists i, e + 1 - k <= i /\ i <= e /\ is_start_at i = true) ->
  exists e', scan_down q e k = Ok e' /\ e + 1 - k <= e' /\ e' <= e /\ is_start_at e' = true /\
             (forall j, e' < j <= e -> is_start_at j = false).
Proof.
  induction k as [|k IH]; intros e Hk He (i & A & B & C).
  - lia.
  - cbn [scan_down]. rewrite flat_is_start_ok by lia. cbn [bind]. destruct (is_start_at e) eqn:E.
    + exists e. repeat split; try lia. exact E.
    + assert (i <> e) by (intros ->; congruence).
      rewrite csub_ok by lia. cbn [bind].
      destruct (IH (e - 1)) as (e' & E1 & A' & B' & C' & D'); [lia|lia|exists i; repeat split; try lia; exact C|].
      exists e'. rewrite E1. repeat split; try lia; [exact C'|].
      intros j Hj. destruct (Nat.eq_dec j e) as [->|]; [exact E|]. apply D'. lia.
Qed.

Lemma count_starts_ok k : forall s, s + k <= length q -> count_starts q s k = Ok (length (startsk s k)).
Proof.
  induction k as [|k IH]; intros s H; [reflexivity|].
  cbn [count_starts]. rewrite flat_is_start_ok by lia. cbn [bind].
  replace (s + 1) with (S s) by lia. rewrite IH by lia. cbn [bind].
  rewrite startsk_S. destruct (is_start_at s); reflexivity.
Qed.

Definition RepF (fl : flat) (L : list tree) : Prop :=
  f_start fl <= f_end fl /\ f_end fl <= length q /\
  (f_start fl < f_end fl -> is_start_at (f_start fl) = true) /\
  Forall2 (fun i t => PairAt q i t /\ fok [t]) (startsk (f_start fl) (f_end fl - f_start fl)) L.

Lemma Forall2_len {A B} (P : A -> B -> Prop) l1 l2 : Forall2 P l1 l2 -> length l1 = length l2.
Proof. induction 1; cbn [length]; congruence. Qed.

Lemma Forall2_snoc_inv {A B} (P : A -> B -> Prop) l1 a L :
  Forall2 P (l1 ++ [a]) L -> exists L' b, L = L' ++ [b] /\ Forall2 P l1 L' /\ P a b.
Proof.
  intros H. apply Forall2_app_inv_l in H. destruct H as (L1 & L2 & H1 & H2 & ->).
  inversion H2 as [|? b ? ? Hab H3]; subst. inversion H3; subst. eauto.
Qed.

Lemma flat_step_refines_gen fx fl L o : (o <> Len \/ fix_flatlen fx = true) -> RepF fl L ->
  exists fl', flat_step fx q input fl o = Ok (fl', snd (list_step L o)) /\ RepF fl' (fst (list_step L o)).
Proof.
  intros Hfx (H1 & H2 & H3 & H4).
  assert (Hlen : o = Len -> fix_flatlen fx = true) by (intros ->; destruct Hfx as [Hn|Hn]; [congruence|exact Hn]).
  destruct (Nat.eq_dec (f_start fl) (f_end fl)) as [Heq|Hne].
  - (* empty *)
    replace (f_end fl - f_start fl) with 0 in H4 by lia. cbn in H4. inversion H4; subst L.
    assert (Hle : (f_end fl <=? f_start fl) = true) by (apply Nat.leb_le; lia).
    assert (R0 : RepF fl []).
    { unfold RepF. replace (f_end fl - f_start fl) with 0 by lia. repeat split; try lia. constructor. }
    destruct o; cbn [flat_step list_step fst snd hd_error tl removelast last_error length].
    + unfold flat_next. rewrite Hle. cbn [bind fst snd obs_pair]. exists fl. split; [reflexivity|exact R0].
    + unfold flat_next_back. rewrite Hle. cbn [bind fst snd obs_pair]. exists fl. split; [reflexivity|exact R0].
    + unfold flat_len. rewrite (Hlen eq_refl). rewrite count_starts_ok by lia.
      replace (f_end fl - f_start fl) with 0 by lia. cbn [bind startsk seq filter length].
      exists fl. split; [reflexivity|exact R0].
    + unfold flat_next. rewrite Hle. cbn [bind fst snd obs_pair]. exists fl. split; [reflexivity|exact R0].
  - assert (Hlt : f_start fl < f_end fl) by lia. specialize (H3 Hlt).
    assert (Hle : (f_end fl <=? f_start fl) = false) by (apply Nat.leb_gt; lia).
    set (a := f_start fl) in *. set (b := f_end fl) in *.
    assert (ES : startsk a (b - a) = a :: startsk (S a) (b - S a)).
    { replace (b - a) with (S (b - S a)) by lia. rewrite startsk_S, H3. reflexivity. }
    destruct o; cbn [flat_step list_step fst snd].
    + (* Next *)
      rewrite ES in H4. inversion H4 as [|? t ? L' [W Ht] H5]; subst. cbn [hd_error tl].
      unfold flat_next. fold a b. rewrite Hle.
      destruct (scan_up_ok (b - (a + 1)) (a + 1)) as (s' & E1 & A & B & C & D); [lia|].
      rewrite E1. cbn [bind fst snd]. rewrite (obs_pair_ok q input (Some a) (Some t)) by (split; assumption).
      cbn [bind]. eexists. split; [reflexivity|]. unfold RepF. cbn [f_start f_end].
      replace (a + 1 + (b - (a + 1))) with b in * by lia.
      repeat split; try lia; [exact D|]. replace (S a) with (a + 1) in H5 by lia.
      replace (b - S a) with (b - (a + 1)) in H5 by lia. rewrite C in H5. exact H5.
    + (* NextBack *)
      unfold flat_next_back. fold a b. rewrite Hle. rewrite csub_ok by lia. cbn [bind].
      destruct (scan_down_ok (b - 1 + 1 - a) (b - 1)) as (e' & E1 & A & B & C & D);
        [lia|lia|exists a; repeat split; try lia; exact H3|].
      rewrite E1. cbn [bind fst snd].
      assert (ES2 : startsk a (b - a) = startsk a (e' - a) ++ [e']).
      { replace (b - a) with ((e' - a) + (S (b - S e'))) by lia. rewrite startsk_app.
        replace (a + (e' - a)) with e' by lia. rewrite startsk_S, C.
        rewrite (startsk_false (S e') (b - S e')); [reflexivity|]. intros j Hj. apply D. lia. }
      rewrite ES2 in H4. apply Forall2_snoc_inv in H4. destruct H4 as (L' & t & -> & H5 & [W Ht]).
      rewrite removelast_last, last_error_snoc.
      rewrite (obs_pair_ok q input (Some e') (Some t)) by (split; assumption). cbn [bind].
      eexists. split; [reflexivity|]. unfold RepF. cbn [f_start f_end]. fold a.
      repeat split; try lia; [intros _; exact H3|exact H5].
    + (* Len *)
      unfold flat_len. rewrite (Hlen eq_refl). fold a b. rewrite count_starts_ok by lia. cbn [bind].
      rewrite (Forall2_len _ _ _ H4). exists fl. split; [reflexivity|]. unfold RepF. fold a b. auto.
    + (* Peek = clone().next() *)
      rewrite ES in H4. inversion H4 as [|? t ? L' [W Ht] H5]; subst. cbn [hd_error].
      unfold flat_next. fold a b. rewrite Hle.
      destruct (scan_up_ok (b - (a + 1)) (a + 1)) as (s' & E1 & _); [lia|].
      rewrite E1. cbn [bind fst snd]. rewrite (obs_pair_ok q input (Some a) (Some t)) by (split; assumption).
      cbn [bind]. exists fl. split; [reflexivity|]. unfold RepF. fold a b. rewrite ES.
      repeat split; try lia; [intros _; exact H3|]. constructor; [split; assumption|exact H5].
Qed.

Lemma flat_step_refines fl L o : RepF fl L ->
  exists fl', flat_step fixes_all q input fl o = Ok (fl', snd (list_step L o)) /\ RepF fl' (fst (list_step L o)).
Proof. apply flat_step_refines_gen. right. reflexivity. Qed.

Theorem flat_run_refines fl L ops : RepF fl L -> run_flat fixes_all q input fl ops = Ok (run_list L ops).
Proof.
  intros H. unfold run_flat. apply (run_refines _ _ _ RepF); [|exact H].
  intros s l' o Hs. apply flat_step_refines. exact Hs.
Qed.

(* the code as it is: everything but len *)
Theorem flat_run_refines_nolen fx fl L ops : Forall (fun o => o <> Len) ops -> RepF fl L ->
  run_flat fx q input fl ops = Ok (run_list L ops).
Proof.
  intros HA H. unfold run_flat. apply (run_refines_on _ _ _ RepF (fun o => o <> Len)); [|exact HA|exact H].
  intros s l' o Ho Hs. apply flat_step_refines_gen; [left; exact Ho|exact Hs].
Qed.

(* flatten of a forest window represents the pre-order of that forest *)
Lemma fok_preorder f : fok f -> Forall (fun t => fok [t]) (preorder f).
Proof.
  induction f as [|r tg ps pe ch f IHc IHf] using forest_ind; intros H; [constructor|].
  rewrite preorder_cons. destruct (fok_node _ _ _ _ _ _ _ H) as (_ & _ & _ & Hc & Hf).
  constructor; [exact (proj1 (fok_hd _ _ _ H))|]. apply Forall_app. split; auto.
Qed.

Lemma starts_preorder f : forall s, Win q s f ->
  Forall2 (PairAt q) (startsk s (2 * fsize f)) (preorder f).
Proof.
  induction f as [|r tg ps pe ch f IHc IHf] using forest_ind; intros s W.
  - cbn. constructor.
  - destruct (Win_cons _ _ _ _ _ _ _ _ W) as (A & B & Wc & Wf).
    rewrite fsize_cons, preorder_cons.
    replace (2 * (S (fsize ch) + fsize f)) with (S (2 * fsize ch + S (2 * fsize f))) by lia.
    rewrite startsk_S. unfold is_start_at at 1. rewrite A. cbn [is_startb].
    constructor; [exact (Win_single _ _ _ _ W)|].
    rewrite startsk_app. apply Forall2_app; [apply IHc; exact Wc|].
    rewrite startsk_S. unfold is_start_at at 1. replace (S s + 2 * fsize ch) with (S s + 2 * fsize ch) by lia.
    rewrite B. cbn [is_startb]. replace (S (S s + 2 * fsize ch)) with (S (S s) + 2 * fsize ch) by lia.
    apply IHf. exact Wf.
Qed.

Lemma Forall2_and_r {A B} (P : A -> B -> Prop) (Q : B -> Prop) l1 l2 :
  Forall2 P l1 l2 -> Forall Q l2 -> Forall2 (fun a b => P a b /\ Q b) l1 l2.
Proof.
  induction 1 as [|a b l1 l2 H _ IH]; intros HQ; [constructor|].
  inversion HQ; subst. constructor; auto.
Qed.

Lemma flatten_RepF p f : Rep q p f -> fok f -> RepF (pairs_flatten p) (preorder f).
Proof.
  intros (W & E & _) H. unfold RepF, pairs_flatten. cbn [f_start f_end]. rewrite E.
  pose proof (Win_bound _ _ _ W). repeat split; try lia.
  - intros Hlt. destruct f as [|[r tg ps pe ch] f]; [cbn [fsize] in Hlt; lia|].
    destruct (Win_cons _ _ _ _ _ _ _ _ W) as (A & _). unfold is_start_at. rewrite A. reflexivity.
  - replace (p_start p + 2 * fsize f - p_start p) with (2 * fsize f) by lia.
    apply Forall2_and_r; [apply starts_preorder; exact W|apply fok_preorder; exact H].
Qed.

End T.
