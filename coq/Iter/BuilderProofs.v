(* C04 - PairsBuilder: push_node / build produce exactly tokens_at of the node list (or panic exactly when
   some span is not an ascending range on char boundaries); on ordered spans the result is a wfq queue
   whose forest_of is the node list; every node list is reachable by a call sequence. *)
From Coq Require Import String List Arith Lia Bool.
Import ListNotations.
Require Import PV.Iter.Queue PV.Iter.QueueFacts PV.Iter.Model PV.Iter.Spec PV.Iter.PairsProofs PV.Iter.Machines.
Open Scope list_scope.
Open Scope nat_scope.

Arguments Nat.mul : simpl never.
Arguments Nat.sub : simpl never.
Arguments Nat.add : simpl never.

Section B.
Variable input : string.
Notation fok := (forest_ok (is_char_boundary input) (String.length input)).

(* every node's span passes the assert! in push_node *)
Fixpoint spans_okb_t (t : tree) : bool :=
  match t with
  | Node _ _ s e ch =>
    (match str_get input s e with Some _ => true | None => false end) &&
    (fix go (l : list tree) : bool := match l with [] => true | c :: l' => spans_okb_t c && go l' end) ch
  end.
Fixpoint spans_okb (f : list tree) : bool :=
  match f with [] => true | t :: f' => spans_okb_t t && spans_okb f' end.

Lemma spans_okb_cons r tg s e ch f :
  spans_okb (Node r tg s e ch :: f) =
  (match str_get input s e with Some _ => true | None => false end) && spans_okb ch && spans_okb f.
Proof. reflexivity. Qed.

Lemma push_node_eq acc r tg s e ch :
  push_node input acc (Node r tg s e ch) =
  match str_get input s e with
  | None => Panic
  | Some _ =>
    bind (push_nodes input ch (acc ++ [QStart 0 s])) (fun q2 =>
    bind (set_end q2 (length acc) (length q2)) (fun q3 =>
    Ok (q3 ++ [QEnd (length acc) r tg e])))
  end.
Proof. reflexivity. Qed.

Lemma set_end_mid acc : forall p rest ei,
  set_end (acc ++ QStart 0 p :: rest) (length acc) ei = Ok (acc ++ QStart ei p :: rest).
Proof.
  induction acc as [|a acc IH]; intros p rest ei; [reflexivity|].
  cbn [app length set_end]. rewrite IH. destruct a; reflexivity.
Qed.

Theorem push_nodes_spec f : forall acc,
  push_nodes input f acc = if spans_okb f then Ok (acc ++ tokens_at (length acc) f) else Panic.
Proof.
  induction f as [|r tg s e ch f IHc IHf] using forest_ind; intros acc.
  - cbn [push_nodes spans_okb tokens_at]. rewrite app_nil_r. reflexivity.
  - cbn [push_nodes]. rewrite push_node_eq, spans_okb_cons.
    destruct (str_get input s e) as [x|]; [|reflexivity]. cbn [andb].
    rewrite IHc. destruct (spans_okb ch); [|reflexivity]. cbn [bind andb].
    rewrite app_length. cbn [length].
    replace ((acc ++ [QStart 0 s]) ++ tokens_at (length acc + 1) ch)
      with (acc ++ QStart 0 s :: tokens_at (length acc + 1) ch) by (rewrite <- app_assoc; reflexivity).
    rewrite set_end_mid. cbn [bind]. rewrite IHf. destruct (spans_okb f); [|reflexivity].
    f_equal. rewrite tokens_at_cons. rewrite !app_length. cbn [length]. rewrite length_tokens_at.
    rewrite <- ?app_assoc. cbn [app]. rewrite <- ?app_assoc. cbn [app].
    replace (length acc + 1) with (S (length acc)) by lia.
    replace (length acc + S (2 * fsize ch)) with (S (length acc) + 2 * fsize ch) by lia.
    replace (length acc + S (2 * fsize ch + 1)) with (S (S (length acc)) + 2 * fsize ch) by lia.
    replace (S (length acc) + 2 * fsize ch + 1) with (S (S (length acc)) + 2 * fsize ch) by lia.
    reflexivity.
Qed.

Lemma fok_spans_ok f : fok f -> spans_okb f = true.
Proof.
  induction f as [|r tg s e ch f IHc IHf] using forest_ind; intros H; [reflexivity|].
  destruct (fok_node _ _ _ _ _ _ _ H) as (A & B & C & Hc & Hf).
  rewrite spans_okb_cons, (str_get_ok input s e A B C), IHc, IHf by assumption. reflexivity.
Qed.

(* PairsBuilder::build on nodes whose spans are ordered boundaries *)
Theorem build_ok f : fok f ->
  exists p, build input f = Ok (tokens_of f, p) /\ Rep (tokens_of f) p f /\
            wfq (is_char_boundary input) (String.length input) (tokens_of f) /\
            forest_of (tokens_of f) 0 (length (tokens_of f)) = f.
Proof.
  intros H. unfold build, build_queue. rewrite push_nodes_spec, (fok_spans_ok _ H). cbn [app length bind].
  fold (tokens_of f).
  destruct (pairs_new_ok (tokens_of f) 0 f (Win_tokens_of f)) as (p & E & R).
  replace (length (tokens_of f)) with (0 + 2 * fsize f) by (unfold tokens_of; rewrite length_tokens_at; lia).
  rewrite E. cbn [bind]. exists p. split; [reflexivity|]. split; [exact R|]. split.
  - apply wfq_of_forest. exact H.
  - replace (0 + 2 * fsize f) with (length (tokens_of f)) by (unfold tokens_of; rewrite length_tokens_at; lia).
    apply forest_of_tokens_of.
Qed.

(* the documented panic of push_node, exactly *)
Theorem build_panics_iff f : build_queue input f = Panic <-> spans_okb f = false.
Proof.
  unfold build_queue. rewrite push_nodes_spec. destruct (spans_okb f); split; intros; congruence.
Qed.

End B.

(* ---------------- call sequences ---------------- *)

Lemma run_bop_with_eq r s e inner nodes :
  run_bop (BRuleWith r s e inner) nodes =
  bind (run_bops inner []) (fun ch => Ok (nodes ++ [Node r None s e ch])).
Proof. reflexivity. Qed.

Lemma set_last_tag_cons2 n m l t :
  set_last_tag (n :: m :: l) t = bind (set_last_tag (m :: l) t) (fun rest' => Ok (n :: rest')).
Proof. destruct n. reflexivity. Qed.

Lemma set_last_tag_snoc nodes : forall r tg s e ch t,
  set_last_tag (nodes ++ [Node r tg s e ch]) t = Ok (nodes ++ [Node r (Some t) s e ch]).
Proof.
  induction nodes as [|n nodes IH]; intros r tg s e ch t; [reflexivity|].
  cbn [app]. destruct (nodes ++ [Node r tg s e ch]) eqn:E; [destruct nodes; discriminate|].
  rewrite set_last_tag_cons2, <- E, IH. reflexivity.
Qed.

Lemma run_bops_app l1 : forall l2 acc,
  run_bops (l1 ++ l2) acc = bind (run_bops l1 acc) (fun acc' => run_bops l2 acc').
Proof.
  induction l1 as [|o l1 IH]; intros l2 acc; [reflexivity|].
  cbn [app run_bops]. destruct (run_bop o acc); cbn [bind]; [apply IH|reflexivity|reflexivity].
Qed.

(* the canonical call sequence of a node list: rule_with(..) [.tag(..)] per node *)
Fixpoint bops_of_tree (t : tree) : list bop :=
  match t with
  | Node r tg s e ch =>
    BRuleWith r s e ((fix go (l : list tree) : list bop := match l with [] => [] | c :: l' => bops_of_tree c ++ go l' end) ch)
    :: match tg with Some x => [BTag x] | None => [] end
  end.
Fixpoint bops_of (f : list tree) : list bop :=
  match f with [] => [] | t :: f' => bops_of_tree t ++ bops_of f' end.

Lemma bops_of_cons r tg s e ch f :
  bops_of (Node r tg s e ch :: f) =
  (BRuleWith r s e (bops_of ch) :: match tg with Some x => [BTag x] | None => [] end) ++ bops_of f.
Proof. reflexivity. Qed.

Theorem run_bops_of f : forall acc, run_bops (bops_of f) acc = Ok (acc ++ f).
Proof.
  induction f as [|r tg s e ch f IHc IHf] using forest_ind; intros acc.
  - cbn [bops_of run_bops]. rewrite app_nil_r. reflexivity.
  - rewrite bops_of_cons, run_bops_app.
    assert (E : run_bops (BRuleWith r s e (bops_of ch) :: match tg with Some x => [BTag x] | None => [] end) acc
                = Ok (acc ++ [Node r tg s e ch])).
    { cbn [run_bops]. rewrite run_bop_with_eq, IHc. cbn [bind app].
      destruct tg as [x|]; cbn [run_bops run_bop]; [|reflexivity].
      rewrite set_last_tag_snoc. reflexivity. }
    rewrite E. cbn [bind]. rewrite IHf, <- app_assoc. reflexivity.
Qed.

(* every node list is the result of some PairsBuilder call sequence *)
Corollary builder_reaches_every_forest f : exists ops, run_bops ops [] = Ok f.
Proof. exists (bops_of f). apply run_bops_of. Qed.

(* `.tag()` before any rule panics *)
Lemma tag_before_rule_panics t rest : run_bops (BTag t :: rest) [] = Panic.
Proof. reflexivity. Qed.
