(* C04 - the three statements that are FALSE of the code as it is (fixes_none), each
     - refuted by a kernel-evaluated witness (replayed on the real code by the harness),
     - proved for the repaired code (fixes_all, fixes/C04-*.patch),
     - and proved for the code as it is outside a decidable class (no next_back on Pairs::single;
       no len on FlatPairs; to_json only of a non-empty Pairs),
   so that any other violation still breaks a proof or the correspondence. *)
From Coq Require Import String List Arith Lia Bool.
Import ListNotations.
Require Import PV.Iter.Queue PV.Iter.QueueFacts PV.Iter.Model PV.Iter.Spec PV.Iter.PairsProofs PV.Iter.Machines
               PV.Iter.FlatTokens PV.Iter.Views PV.Iter.BuilderProofs PV.Iter.Top.
Open Scope list_scope.
Open Scope nat_scope.

Arguments Nat.mul : simpl never.
Arguments Nat.sub : simpl never.
Arguments Nat.add : simpl never.

(* Pairs::single(p) is the one-element forest [p] *)
Definition single_statement (fx : fixes) (allowed : iter_op -> Prop) : Prop :=
  forall (input : string) (q : list qtoken) (i : nat) (t : tree),
    wf_for input q -> PairAt q i t ->
    exists p, pairs_single fx q i = Ok p /\
      forall ops, Forall allowed ops -> run_pairs q input p ops = Ok (run_list [t] ops).

(* flatten() is the pre-order of the forest, under every interleaving incl. len *)
Definition flat_statement (fx : fixes) (allowed : iter_op -> Prop) : Prop :=
  forall (input : string) (q : list qtoken) (p : pairs) (f : list tree),
    wf_for input q -> Rep q p f ->
    forall ops, Forall allowed ops -> run_flat fx q input (pairs_flatten p) ops = Ok (run_list (preorder f) ops).

(* to_json is the JSON of the forest *)
Definition json_statement (fx : fixes) (allowed : list tree -> Prop) : Prop :=
  forall (input : string) (rname : nat -> string) (q : list qtoken) (p : pairs) (f : list tree),
    wf_for input q -> Rep q p f -> allowed f ->
    pairs_to_json fx q input rname p = Ok (json_forest input rname f).

Definition any_op (o : iter_op) : Prop := True.
Definition any_forest (f : list tree) : Prop := True.

(* ---------------- repaired code: the full statements ---------------- *)

Theorem single_fixed : single_statement fixes_all any_op.
Proof.
  intros input q i t Hwf W.
  destruct (pairs_single_ok q i t W) as (p & E & R). exists p. split; [exact E|].
  intros ops _. apply pairs_interleaving_refines. split; [exact R|]. exact (Win_forest_ok _ _ _ _ _ Hwf W).
Qed.

Theorem flat_fixed : flat_statement fixes_all any_op.
Proof.
  intros input q p f Hwf R ops _. apply flat_run_refines. apply flatten_RepF; [exact R|].
  destruct R as (W & _ & _). exact (Win_forest_ok _ _ _ _ _ Hwf W).
Qed.

Theorem json_fixed : json_statement fixes_all any_forest.
Proof.
  intros input rname q p f Hwf R _. apply pairs_to_json_ok; [exact R| |right; reflexivity].
  destruct R as (W & _ & _). exact (Win_forest_ok _ _ _ _ _ Hwf W).
Qed.

(* ---------------- code as it is: refuted ---------------- *)

Definition w_input : string := "ab"%string.

(* witness 1: a leaf pair a(0,1); single(p).next_back() hits `unreachable!()` *)
Definition w1_tree : tree := Node 0 None 0 1 [].
Definition w1_q : list qtoken := tokens_of [w1_tree].

Lemma w1_wf : wf_for w_input w1_q.
Proof. apply wfqb_sound. vm_compute. reflexivity. Qed.

Theorem C04_single_refuted : ~ single_statement fixes_none any_op.
Proof.
  intros H. destruct (H w_input w1_q 0 w1_tree w1_wf (Win_tokens_of [w1_tree])) as (p & E & HR).
  vm_compute in E. inversion E; subst p. specialize (HR [NextBack] (Forall_cons _ I (Forall_nil _))).
  vm_compute in HR. discriminate.
Qed.

(* witness 2: a(0,2,[b(0,1)]); flatten(), next_back(), len(): 0 instead of 1 *)
Definition w2_forest : list tree := [Node 0 None 0 2 [Node 1 None 0 1 []]].
Definition w2_q : list qtoken := tokens_of w2_forest.
Definition w2_p : pairs := {| p_start := 0; p_end := 4; p_count := 1 |}.

Lemma w2_wf : wf_for w_input w2_q.
Proof. apply wfqb_sound. vm_compute. reflexivity. Qed.

Lemma w2_rep : Rep w2_q w2_p w2_forest.
Proof. split; [exact (Win_tokens_of w2_forest)|]. split; reflexivity. Qed.

Theorem C04_flat_len_refuted : ~ flat_statement fixes_none any_op.
Proof.
  intros H. specialize (H w_input w2_q w2_p w2_forest w2_wf w2_rep [NextBack; Len]).
  specialize (H (Forall_cons _ I (Forall_cons _ I (Forall_nil _)))). vm_compute in H. discriminate.
Qed.

(* witness 3: the empty queue (the Ok result of a silent rule): to_json indexes out of bounds *)
Definition w3_p : pairs := {| p_start := 0; p_end := 0; p_count := 0 |}.

Lemma w3_wf : wf_for EmptyString [].
Proof. apply wfqb_sound. vm_compute. reflexivity. Qed.

Lemma w3_rep : Rep [] w3_p [].
Proof. split; [exact (Win_tokens_of [])|]. split; reflexivity. Qed.

Theorem C04_json_empty_refuted : ~ json_statement fixes_none any_forest.
Proof.
  intros H. specialize (H EmptyString (fun _ => EmptyString) [] w3_p [] w3_wf w3_rep I).
  vm_compute in H. discriminate.
Qed.

(* hence the whole iterator statement is false of the code as it is *)
Theorem C04_iter_statement_current_refuted : ~ iter_statement fixes_none.
Proof.
  intros H. apply C04_json_empty_refuted. intros input rname q p f Hwf R _.
  destruct (H input rname rname (fun s => s) q Hwf) as (_ & _ & _ & HP & _).
  destruct (HP p f R) as (_ & _ & _ & _ & _ & _ & _ & _ & _ & _ & _ & J & _). exact J.
Qed.

(* ---------------- code as it is, outside the known classes ---------------- *)

Definition not_next_back (o : iter_op) : Prop := o <> NextBack.
Definition not_len (o : iter_op) : Prop := o <> Len.
Definition non_empty (f : list tree) : Prop := f <> [].

Theorem flat_current_nolen : flat_statement fixes_none not_len.
Proof.
  intros input q p f Hwf R ops HA. apply flat_run_refines_nolen; [exact HA|].
  apply flatten_RepF; [exact R|]. destruct R as (W & _ & _). exact (Win_forest_ok _ _ _ _ _ Hwf W).
Qed.

Theorem json_current_nonempty : json_statement fixes_none non_empty.
Proof.
  intros input rname q p f Hwf R Hne. apply pairs_to_json_ok; [exact R| |left; exact Hne].
  destruct R as (W & _ & _). exact (Win_forest_ok _ _ _ _ _ Hwf W).
Qed.

(* Pairs::single as it is: the window stops one token short; forward iteration, len and peek are right *)
Theorem single_current_forward : single_statement fixes_none not_next_back.
Proof.
  intros input q i t Hwf W. assert (Hok := Win_forest_ok _ _ _ _ _ Hwf W).
  destruct t as [r tg ps pe ch].
  destruct (PairAt_facts _ _ _ _ _ _ _ W) as (A & B & _ & HB).
  set (e := S i + 2 * fsize ch) in *.
  set (pA := {| p_start := i; p_end := e; p_count := 1 |}).
  set (pB := {| p_start := e + 1; p_end := e; p_count := 0 |}).
  exists pA. split.
  - unfold pairs_single. rewrite (pair_end_ok _ _ _ _ _ _ _ W). cbn [bind fix_single fixes_none]. fold e.
    unfold pairs_new. destruct (length q) as [|k] eqn:EL; [lia|].
    cbn [pairs_new_loop]. replace (i <? e) with true by (symmetry; apply Nat.ltb_lt; unfold e; lia).
    rewrite (qget_nth _ _ _ A). cbn [bind]. fold e.
    destruct k; cbn [pairs_new_loop]; (replace (e + 1 <? e) with false by (symmetry; apply Nat.ltb_ge; lia));
      reflexivity.
  - intros ops HA. unfold run_pairs.
    apply (run_refines_on _ _ (pairs_step q input)
             (fun p l => (p = pA /\ l = [Node r tg ps pe ch]) \/ (p = pB /\ l = [])) not_next_back);
      [|exact HA|left; split; reflexivity].
    intros p l o Ho [[-> ->]|[-> ->]]; destruct o; try (exfalso; apply Ho; reflexivity);
      cbn [pairs_step list_step fst snd hd_error tl length].
    + (* Next on the fresh value *)
      unfold pairs_next, pairs_peek. cbn [pA p_start p_end p_count].
      replace (i <? e) with true by (symmetry; apply Nat.ltb_lt; unfold e; lia).
      rewrite (pair_end_ok _ _ _ _ _ _ _ W). fold e. cbn [bind]. rewrite csub_ok by lia. cbn [bind fst snd].
      rewrite (obs_pair_ok q input (Some i) (Some (Node r tg ps pe ch))) by (split; assumption).
      cbn [bind]. exists pB. split; [reflexivity|right; split; reflexivity].
    + exists pA. split; [reflexivity|left; split; reflexivity].
    + unfold pairs_peek. cbn [pA p_start p_end].
      replace (i <? e) with true by (symmetry; apply Nat.ltb_lt; unfold e; lia).
      rewrite (obs_pair_ok q input (Some i) (Some (Node r tg ps pe ch))) by (split; assumption).
      cbn [bind]. exists pA. split; [reflexivity|left; split; reflexivity].
    + (* Next on the drained value *)
      unfold pairs_next, pairs_peek. cbn [pB p_start p_end].
      replace (e + 1 <? e) with false by (symmetry; apply Nat.ltb_ge; lia).
      cbn [bind fst snd obs_pair]. exists pB. split; [reflexivity|right; split; reflexivity].
    + exists pB. split; [reflexivity|right; split; reflexivity].
    + unfold pairs_peek. cbn [pB p_start p_end].
      replace (e + 1 <? e) with false by (symmetry; apply Nat.ltb_ge; lia).
      cbn [bind obs_pair]. exists pB. split; [reflexivity|right; split; reflexivity].
Qed.
