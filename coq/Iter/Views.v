(* C04 - every other view of a Pairs / Pair value is the corresponding structural function of the forest:
   as_str, as_span, concat, into_inner, single, tokens, flatten, find_tagged, line_col, node tags,
   Display ({} and {:#}), Debug, to_json.  All for the repaired code (fixes_all); the three statements
   that are false of the code as it is are in Refuted.v. *)
From Coq Require Import String List Arith Lia Bool.
Import ListNotations.
Require Import PV.Iter.Queue PV.Iter.QueueFacts PV.Iter.Model PV.Iter.Spec PV.Iter.PairsProofs PV.Iter.Machines PV.Iter.FlatTokens.
Open Scope list_scope.
Open Scope nat_scope.

Arguments Nat.mul : simpl never.
Arguments Nat.sub : simpl never.
Arguments Nat.add : simpl never.

Lemma Forall2_imp {A B} (P Q : A -> B -> Prop) l1 l2 :
  (forall a b, P a b -> Q a b) -> Forall2 P l1 l2 -> Forall2 Q l1 l2.
Proof. intros H. induction 1; constructor; auto. Qed.

Lemma filter_len_le {A} (p : A -> bool) l : length (filter p l) <= length l.
Proof. induction l as [|a l IH]; [reflexivity|]. cbn [filter]. destruct (p a); cbn [length]; lia. Qed.

Section V.
Variable q : list qtoken.
Variable input : string.
Variable rname : nat -> string.
Variable tname : nat -> string.
Variable esc : string -> string.
Notation fok := (forest_ok (is_char_boundary input) (String.length input)).

(* ---------------- positions of the first and last token of a window ---------------- *)

Lemma Rep_first_pos p t f : Rep q p (t :: f) -> pos_at q (p_start p) = Ok (t_start t).
Proof.
  intros (W & _ & _). destruct t as [r tg ps pe ch]. exact (pos_at_start _ _ _ _ _ _ _ (Win_single _ _ _ _ W)).
Qed.

Lemma Rep_last_pos p f u : Rep q p (f ++ [u]) ->
  csub (p_end p) 1 = Ok (p_end p - 1) /\ pos_at q (p_end p - 1) = Ok (t_end u).
Proof.
  intros (W & E & _). destruct u as [r tg ps pe ch].
  destruct (Win_snoc _ _ _ _ _ _ _ _ W) as (A & _).
  rewrite fsize_app, fsize_cons in E. cbn [fsize] in E. split; [apply csub_ok; lia|].
  replace (p_end p - 1) with (S (p_start p + 2 * fsize f) + 2 * fsize ch) by lia.
  unfold pos_at. rewrite (qget_nth _ _ _ A). reflexivity.
Qed.

Lemma Rep_nonempty_lt p t f : Rep q p (t :: f) -> (p_start p <? p_end p) = true.
Proof.
  intros (_ & E & _). apply Nat.ltb_lt. rewrite E. cbn [fsize]. pose proof (tsize_pos t). lia.
Qed.

Lemma Rep_empty_lt p : Rep q p [] -> (p_start p <? p_end p) = false.
Proof. intros (_ & E & _). apply Nat.ltb_ge. rewrite E. cbn [fsize]. lia. Qed.

Lemma fok_first_last t f0 f' u : fok (t :: f0) -> t :: f0 = f' ++ [u] ->
  t_start t <= t_end u /\ is_char_boundary input (t_start t) = true /\ is_char_boundary input (t_end u) = true.
Proof.
  intros H E. destruct (forest_ok_nested _ _ _ H) as [hi N].
  assert (L : last (t :: f0) t = u) by (rewrite E; apply last_last).
  destruct (fnested_first_last _ _ _ t u N eq_refl L) as (_ & A & _).
  split; [exact A|]. split.
  - destruct t as [r tg ps pe ch]. destruct (fok_node _ _ _ _ _ _ _ H) as (_ & B & _). exact B.
  - rewrite E in H. apply forest_ok_app in H. destruct H as [_ H]. destruct u as [r tg ps pe ch].
    destruct (fok_node _ _ _ _ _ _ _ H) as (_ & _ & C & _). exact C.
Qed.

Lemma last_error_cons_snoc {X} (t : X) f0 f' u : t :: f0 = f' ++ [u] -> last_error (t :: f0) = Some u.
Proof. intros ->. apply last_error_snoc. Qed.

(* ---------------- Pairs::as_str, concat ---------------- *)

Theorem pairs_as_str_ok p f : Rep q p f -> fok f -> pairs_as_str q input p = Ok (forest_str input f).
Proof.
  intros R H. unfold pairs_as_str. destruct f as [|t f0].
  - rewrite (Rep_empty_lt _ R). reflexivity.
  - rewrite (Rep_nonempty_lt _ _ _ R). rewrite (Rep_first_pos _ _ _ R). cbn [bind].
    destruct (list_snoc_cases (t :: f0)) as [E|(f' & u & E)]; [discriminate|].
    assert (R' := R). rewrite E in R'. destruct (Rep_last_pos _ _ _ R') as [A B]. rewrite A. cbn [bind]. rewrite B. cbn [bind].
    destruct (fok_first_last _ _ _ _ H E) as (C & D & G).
    rewrite (slice_ok input _ _ C D G). unfold forest_str. rewrite (last_error_cons_snoc _ _ _ _ E). reflexivity.
Qed.

Lemma collect_split p f : Rep q p f -> fok f ->
  exists idxs, pairs_collect q (fuel0 q) p = Ok idxs /\ Forall2 (fun i t => PairAt q i t /\ fok [t]) idxs f.
Proof.
  intros R H. destruct (pairs_collect_fuel0 _ _ _ R) as (idxs & E & F2). exists idxs. split; [exact E|].
  apply Forall2_fok_split; assumption.
Qed.

Theorem pairs_concat_ok p f : Rep q p f -> fok f -> pairs_concat q input p = Ok (forest_concat input f).
Proof.
  intros R H. unfold pairs_concat. destruct (collect_split _ _ R H) as (idxs & E & F2). rewrite E. cbn [bind].
  rewrite (mapM_Forall2 (pair_as_str q input) (tree_str input) idxs f).
  - reflexivity.
  - eapply Forall2_imp; [|exact F2]. intros i [r tg ps pe ch] [W Ht]. exact (pair_as_str_ok _ _ _ _ _ _ _ _ W Ht).
Qed.

(* ---------------- Pairs::single (repaired) ---------------- *)

Theorem pairs_single_ok i t : PairAt q i t -> exists p, pairs_single fixes_all q i = Ok p /\ Rep q p [t].
Proof.
  intros W. destruct t as [r tg ps pe ch]. unfold pairs_single.
  rewrite (pair_end_ok _ _ _ _ _ _ _ W). cbn [bind fix_single fixes_all].
  destruct (pairs_new_ok q i [Node r tg ps pe ch] W) as (p & E & R).
  rewrite fsize_cons in E. cbn [fsize] in E.
  replace (S i + 2 * fsize ch + 1) with (i + 2 * (S (fsize ch) + 0)) by lia. eauto.
Qed.

(* ---------------- line_col ---------------- *)

Theorem pair_line_col_ok li i t : PairAt q i t -> pair_line_col q input li i = li_line_col li input (t_start t).
Proof.
  intros W. destruct t as [r tg ps pe ch]. unfold pair_line_col.
  rewrite (pos_at_start _ _ _ _ _ _ _ W). reflexivity.
Qed.

(* ---------------- tokens ---------------- *)

Section WithF.
Variable F : list tree.
Hypothesis HW : Win q 0 F.
Hypothesis HL : length q = 2 * fsize F.
Hypothesis HF : fok F.

Lemma wf_of_F : wfq (is_char_boundary input) (String.length input) q.
Proof.
  destruct HW as (pre & post & E & L). destruct pre; [|discriminate]. cbn [app] in E.
  assert (post = []).
  { apply length_zero_iff_nil. rewrite E, app_length, length_tokens_at in HL. lia. }
  subst post. rewrite app_nil_r in E. rewrite E. apply wfq_of_forest. exact HF.
Qed.

Theorem pairs_tokens_ok p f : Rep q p f ->
  exists k, pairs_tokens q input p = Ok k /\ RepT q F k (token_list f).
Proof.
  intros (W & E & _). unfold pairs_tokens. rewrite (tokens_new_ok q input _ _ wf_of_F).
  eexists. split; [reflexivity|]. unfold RepT. cbn [k_start k_end].
  pose proof (Win_bound _ _ _ W). rewrite E. split; [lia|]. split; [lia|].
  symmetry. apply (token_list_window q input F _ f HW HL HF W).
Qed.

Theorem pair_tokens_ok i t : PairAt q i t ->
  exists k, pair_tokens q input i = Ok k /\ RepT q F k (token_list [t]).
Proof.
  intros W. destruct t as [r tg ps pe ch]. unfold pair_tokens.
  rewrite (pair_end_ok _ _ _ _ _ _ _ W). cbn [bind]. rewrite (tokens_new_ok q input _ _ wf_of_F).
  eexists. split; [reflexivity|]. unfold RepT. cbn [k_start k_end].
  pose proof (Win_bound _ _ _ W) as HB. rewrite fsize_cons in HB. cbn [fsize] in HB.
  split; [lia|]. split; [lia|].
  replace (S i + 2 * fsize ch + 1) with (i + 2 * fsize [Node r tg ps pe ch]) by (rewrite fsize_cons; cbn [fsize]; lia).
  symmetry. apply (token_list_window q input F _ _ HW HL HF W).
Qed.
End WithF.

(* ---------------- find_tagged ---------------- *)

Lemma tag_matches_ok tg i t : PairAt q i t -> tag_matches q tg i = Ok (has_tag tg t).
Proof.
  intros W. destruct t as [r tg' ps pe ch]. unfold tag_matches.
  rewrite (pair_as_node_tag_ok _ _ _ _ _ _ _ W). reflexivity.
Qed.

Lemma flat_next_nil fl : RepF q input fl [] -> flat_next q fl = Ok (fl, None).
Proof.
  intros R. destruct (flat_step_refines q input fl [] Next R) as (fl' & E & _).
  cbn [flat_step list_step snd hd_error] in E. unfold flat_next in *.
  destruct (f_end fl <=? f_start fl); [reflexivity|].
  destruct (scan_up q (f_start fl + 1) (f_end fl - (f_start fl + 1))); cbn [bind fst snd obs_pair] in E; try discriminate.
  destruct (walk_pair q input (fuel0 q) (f_start fl)); cbn [bind] in E; discriminate.
Qed.

Lemma flat_next_cons fl t L : RepF q input fl (t :: L) ->
  exists fl' i, flat_next q fl = Ok (fl', Some i) /\ PairAt q i t /\ fok [t] /\ RepF q input fl' L.
Proof.
  intros R. destruct (flat_step_refines q input fl (t :: L) Next R) as (fl' & E & R').
  cbn [flat_step list_step fst snd hd_error tl] in E, R'.
  destruct R as (H1 & H2 & H3 & H4).
  destruct (Nat.eq_dec (f_start fl) (f_end fl)) as [Heq|Hne].
  - replace (f_end fl - f_start fl) with 0 in H4 by lia. cbn in H4. inversion H4.
  - assert (Hlt : f_start fl < f_end fl) by lia. specialize (H3 Hlt).
    replace (f_end fl - f_start fl) with (S (f_end fl - S (f_start fl))) in H4 by lia.
    rewrite startsk_S, H3 in H4. inversion H4 as [|? ? ? ? [W Ht] H5]; subst.
    destruct (flat_next q fl) as [[fl2 o]| |] eqn:EN; cbn [bind fst snd] in E; try discriminate.
    assert (o = Some (f_start fl)).
    { unfold flat_next in EN. destruct (f_end fl <=? f_start fl) eqn:EL; [apply Nat.leb_le in EL; lia|].
      destruct (scan_up q (f_start fl + 1) (f_end fl - (f_start fl + 1))); cbn [bind] in EN; try discriminate.
      inversion EN. reflexivity. }
    subst o. exists fl2, (f_start fl). split; [reflexivity|]. split; [exact W|]. split; [exact Ht|].
    destruct (obs_pair q input (Some (f_start fl))); cbn [bind] in E; try discriminate. inversion E; subst. exact R'.
Qed.

Lemma RepF_length fl L : RepF q input fl L -> length L < fuel0 q.
Proof.
  intros (H1 & H2 & _ & H4). rewrite <- (Forall2_len _ _ _ H4). unfold startsk, fuel0.
  pose proof (filter_len_le (is_start_at q) (seq (f_start fl) (f_end fl - f_start fl))) as HLE.
  rewrite seq_length in HLE. lia.
Qed.

Lemma find_tagged_next_ok tg L : forall fuel fl, RepF q input fl L -> length L < fuel ->
  exists fl' o, find_tagged_next q fuel tg fl = Ok (fl', o) /\
    match filter (has_tag tg) L with
    | [] => o = None /\ RepF q input fl' []
    | t :: rest => exists i L', o = Some i /\ PairAt q i t /\ fok [t] /\ RepF q input fl' L' /\ filter (has_tag tg) L' = rest
    end.
Proof.
  induction L as [|t L IH]; intros fuel fl R Hf; (destruct fuel as [|k]; [cbn [length] in Hf; lia|]).
  - cbn [find_tagged_next filter]. rewrite (flat_next_nil _ R). cbn [bind]. eauto.
  - cbn [find_tagged_next]. destruct (flat_next_cons _ _ _ R) as (fl1 & i & E & W & Ht & R1).
    rewrite E. cbn [bind]. rewrite (tag_matches_ok tg _ _ W). cbn [bind filter].
    destruct (has_tag tg t).
    + exists fl1, (Some i). split; [reflexivity|]. exists i, L. auto.
    + cbn [length] in Hf. destruct (IH k fl1 R1) as (fl' & o & E2 & M); [lia|]. eauto.
Qed.

Theorem pairs_find_first_tagged_ok tg p f : Rep q p f -> fok f ->
  exists o, pairs_find_first_tagged q tg p = Ok o /\
    match forest_find_tagged tg f with
    | [] => o = None
    | t :: _ => exists i, o = Some i /\ PairAt q i t
    end.
Proof.
  intros R H. pose proof (flatten_RepF q input p f R H) as RF.
  destruct (find_tagged_next_ok tg _ (fuel0 q) _ RF (RepF_length _ _ RF)) as (fl' & o & E & M).
  unfold pairs_find_first_tagged. rewrite E. cbn [bind snd]. exists o. split; [reflexivity|].
  unfold forest_find_tagged. destruct (filter (has_tag tg) (preorder f)) as [|t rest].
  - exact (proj1 M).
  - destruct M as (i & L' & -> & W & _). exists i. split; [reflexivity|exact W].
Qed.

Lemma find_tagged_collect_ok tg : forall n fuel fl L, RepF q input fl L ->
  length (filter (has_tag tg) L) = n -> n < fuel ->
  exists idxs, find_tagged_collect q fuel tg fl = Ok idxs /\ Forall2 (PairAt q) idxs (filter (has_tag tg) L).
Proof.
  induction n as [|n IH]; intros fuel fl L R Hn Hf; (destruct fuel as [|k]; [lia|]).
  - cbn [find_tagged_collect].
    destruct (find_tagged_next_ok tg _ (fuel0 q) _ R (RepF_length _ _ R)) as (fl' & o & E & M).
    rewrite E. cbn [bind]. destruct (filter (has_tag tg) L); [|discriminate].
    destruct M as [-> _]. exists []. split; [reflexivity|constructor].
  - cbn [find_tagged_collect].
    destruct (find_tagged_next_ok tg _ (fuel0 q) _ R (RepF_length _ _ R)) as (fl' & o & E & M).
    rewrite E. cbn [bind]. destruct (filter (has_tag tg) L) as [|t rest]; [discriminate|].
    destruct M as (i & L' & -> & W & _ & R' & EL). cbn [length] in Hn.
    destruct (IH k fl' L' R') as (idxs & E2 & F2); [rewrite EL; lia|lia|].
    rewrite E2. cbn [bind]. exists (i :: idxs). split; [reflexivity|]. constructor; [exact W|]. rewrite <- EL. exact F2.
Qed.

Theorem pairs_find_tagged_ok tg p f : Rep q p f -> fok f ->
  exists idxs, pairs_find_tagged q tg p = Ok idxs /\ Forall2 (PairAt q) idxs (forest_find_tagged tg f).
Proof.
  intros R H. pose proof (flatten_RepF q input p f R H) as RF. unfold pairs_find_tagged, forest_find_tagged.
  apply (find_tagged_collect_ok tg (length (filter (has_tag tg) (preorder f)))); [exact RF|reflexivity|].
  pose proof (RepF_length _ _ RF). pose proof (filter_len_le (has_tag tg) (preorder f)). lia.
Qed.

(* ---------------- Debug ---------------- *)

Lemma debug_span_ok s e : s <= e -> is_char_boundary input s = true -> is_char_boundary input e = true ->
  debug_span input esc s e = Ok (debug_span_str input esc s e).
Proof. intros A B C. unfold debug_span. rewrite (slice_ok input s e A B C). reflexivity. Qed.

Lemma debug_forest_ok f : forall idxs fuel,
  fsize f <= fuel -> Forall2 (PairAt q) idxs f -> fok f ->
  mapM (debug_pair q input rname tname esc fuel) idxs = Ok (map (debug_tree input rname tname esc) f).
Proof.
  induction f as [|r tg ps pe ch f IHc IHf] using forest_ind; intros idxs fuel Hfuel F2 Hok.
  - inversion F2; subst. reflexivity.
  - inversion F2 as [|i t idxs' f' W F2']; subst. rewrite fsize_cons in Hfuel.
    destruct fuel as [|k]; [lia|].
    destruct (fok_node _ _ _ _ _ _ _ Hok) as (A & B & C & Hc & Hf).
    pose proof (proj1 (fok_hd _ _ _ Hok)) as H1.
    cbn [mapM map]. rewrite (IHf idxs' (S k)); [|lia|exact F2'|exact Hf].
    cbn [debug_pair].
    rewrite (pair_as_rule_ok _ _ _ _ _ _ _ W). cbn [bind].
    rewrite (pair_as_node_tag_ok _ _ _ _ _ _ _ W). cbn [bind].
    rewrite (pair_as_span_ok _ _ _ _ _ _ _ _ W H1). cbn [bind fst snd].
    rewrite (debug_span_ok _ _ A B C). cbn [bind].
    destruct (inner_collect _ _ _ _ _ _ _ W) as (inner & ci & E1 & _ & E2 & F3).
    rewrite E1. cbn [bind]. rewrite E2. cbn [bind].
    rewrite (IHc ci k); [|lia|exact F3|exact Hc]. reflexivity.
Qed.

Lemma fuel0_enough p f : Rep q p f -> fsize f <= fuel0 q.
Proof. intros (W & _ & _). apply Win_bound in W. unfold fuel0. lia. Qed.

Theorem debug_pairs_ok p f : Rep q p f -> fok f ->
  debug_pairs q input rname tname esc p = Ok (debug_forest input rname tname esc f).
Proof.
  intros R H. unfold debug_pairs. destruct (pairs_collect_fuel0 _ _ _ R) as (idxs & E & F2). rewrite E. cbn [bind].
  rewrite (debug_forest_ok f idxs (fuel0 q) (fuel0_enough _ _ R) F2 H). reflexivity.
Qed.

Theorem debug_pair_ok i t : PairAt q i t -> fok [t] ->
  debug_pair q input rname tname esc (fuel0 q) i = Ok (debug_tree input rname tname esc t).
Proof.
  intros W H.
  assert (E : mapM (debug_pair q input rname tname esc (fuel0 q)) [i] = Ok (map (debug_tree input rname tname esc) [t])).
  { apply debug_forest_ok; [|constructor; [exact W|constructor]|exact H].
    pose proof (PairAt_size _ _ _ W). cbn [fsize]. unfold fuel0. lia. }
  cbn [mapM map] in E. destruct (debug_pair q input rname tname esc (fuel0 q) i); cbn [bind] in E; congruence.
Qed.

(* ---------------- Display ---------------- *)

Lemma alt_forest_ok f : forall idxs fuel,
  fsize f <= fuel -> Forall2 (PairAt q) idxs f ->
  mapM (alt_pair q rname fuel) idxs = Ok (map (alt_tree rname) f).
Proof.
  induction f as [|r tg ps pe ch f IHc IHf] using forest_ind; intros idxs fuel Hfuel F2.
  - inversion F2; subst. reflexivity.
  - inversion F2 as [|i t idxs' f' W F2']; subst. rewrite fsize_cons in Hfuel.
    destruct fuel as [|k]; [lia|].
    cbn [mapM map]. rewrite (IHf idxs' (S k)); [|lia|exact F2'].
    cbn [alt_pair].
    rewrite (pair_as_rule_ok _ _ _ _ _ _ _ W). cbn [bind].
    rewrite (pos_at_start _ _ _ _ _ _ _ W). cbn [bind].
    rewrite (pair_end_ok _ _ _ _ _ _ _ W). cbn [bind].
    rewrite (pos_at_end _ _ _ _ _ _ _ W). cbn [bind].
    destruct (pair_into_inner_ok _ _ _ _ _ _ _ W) as (inner & E1 & R).
    rewrite E1. cbn [bind]. destruct ch as [|c ch'].
    + rewrite (pairs_next_nil _ _ R). cbn [bind]. reflexivity.
    + destruct (pairs_next_cons _ _ _ _ R) as (inner' & E2 & R' & Wc). rewrite E2. cbn [bind].
      destruct (pairs_collect_fuel0 _ _ _ R') as (l & E3 & F3). rewrite E3. cbn [bind].
      rewrite (IHc (p_start inner :: l) k); [reflexivity|lia|constructor; assumption].
Qed.

Theorem alt_pair_ok i t : PairAt q i t -> alt_pair q rname (fuel0 q) i = Ok (alt_tree rname t).
Proof.
  intros W.
  assert (E : mapM (alt_pair q rname (fuel0 q)) [i] = Ok (map (alt_tree rname) [t])).
  { apply alt_forest_ok; [|constructor; [exact W|constructor]].
    pose proof (PairAt_size _ _ _ W). cbn [fsize]. unfold fuel0. lia. }
  cbn [mapM map] in E. destruct (alt_pair q rname (fuel0 q) i); cbn [bind] in E; congruence.
Qed.

Theorem display_pairs_ok alternate p f : Rep q p f -> fok f ->
  display_pairs q input rname alternate p = Ok (display_forest input rname alternate f).
Proof.
  intros R H. unfold display_pairs. destruct (collect_split _ _ R H) as (idxs & E & F2). rewrite E. cbn [bind].
  rewrite (mapM_Forall2 _ (fun t => if alternate then alt_tree rname t else tree_str input t) idxs f).
  - reflexivity.
  - eapply Forall2_imp; [|exact F2]. intros i t [W Ht]. destruct alternate.
    + exact (alt_pair_ok _ _ W).
    + destruct t as [r tg ps pe ch]. exact (pair_as_str_ok _ _ _ _ _ _ _ _ W Ht).
Qed.

(* ---------------- to_json (repaired) ---------------- *)

(* unfolding equations of the mutual fixpoint (cbn would expose the raw fix) *)
Lemma json_pair_S fx k i :
  json_pair fx q input rname (S k) i =
  bind (pos_at q i) (fun s =>
  bind (pair_end q i) (fun ei =>
  bind (pos_at q ei) (fun e =>
  bind (pair_as_rule q i) (fun r =>
  bind (pair_into_inner q i) (fun inner =>
  match pairs_peek inner with
  | None => bind (pair_as_str q input i) (fun str =>
            Ok (JObj [json_pos s e; ("rule"%string, JStr (rname r)); ("inner"%string, JStr str)]))
  | Some _ => bind (json_pairs fx q input rname k inner) (fun j =>
              Ok (JObj [json_pos s e; ("rule"%string, JStr (rname r)); ("inner"%string, j)]))
  end))))).
Proof. reflexivity. Qed.

Lemma json_pairs_S fx k p :
  json_pairs fx q input rname (S k) p =
  bind (if fix_json fx then
          if p_start p <? p_end p then
            bind (pos_at q (p_start p)) (fun s => bind (csub (p_end p) 1) (fun i => bind (pos_at q i) (fun e => Ok (s, e))))
          else Ok (0, 0)
        else
          bind (pos_at q (p_start p)) (fun s => bind (csub (p_end p) 1) (fun i => bind (pos_at q i) (fun e => Ok (s, e)))))
  (fun se =>
  bind (pairs_collect q (fuel0 q) p) (fun l =>
  bind (mapM (json_pair fx q input rname k) l) (fun js =>
  Ok (JObj [json_pos (fst se) (snd se); ("pairs"%string, JArr js)])))).
Proof. reflexivity. Qed.

Lemma json_pos_of fx p f : Rep q p f -> fok f -> (f <> [] \/ fix_json fx = true) ->
  (if fix_json fx then
     if p_start p <? p_end p then
       bind (pos_at q (p_start p)) (fun s => bind (csub (p_end p) 1) (fun i => bind (pos_at q i) (fun e => Ok (s, e))))
     else Ok (0, 0)
   else
     bind (pos_at q (p_start p)) (fun s => bind (csub (p_end p) 1) (fun i => bind (pos_at q i) (fun e => Ok (s, e)))))
  = Ok (forest_pos f).
Proof.
  intros R H Hfx. destruct f as [|t f0].
  - destruct Hfx as [Hn|Hn]; [congruence|]. rewrite Hn, (Rep_empty_lt _ R). reflexivity.
  - assert (E0 : bind (pos_at q (p_start p)) (fun s => bind (csub (p_end p) 1) (fun i => bind (pos_at q i) (fun e => Ok (s, e))))
                 = Ok (forest_pos (t :: f0))).
    { rewrite (Rep_first_pos _ _ _ R). cbn [bind].
      destruct (list_snoc_cases (t :: f0)) as [E|(f' & u & E)]; [discriminate|].
      assert (R' := R). rewrite E in R'. destruct (Rep_last_pos _ _ _ R') as [A B]. rewrite A. cbn [bind]. rewrite B. cbn [bind].
      unfold forest_pos. rewrite (last_error_cons_snoc _ _ _ _ E). reflexivity. }
    rewrite (Rep_nonempty_lt _ _ _ R). destruct (fix_json fx); exact E0.
Qed.

Lemma json_forest_ok fx f : forall idxs fuel,
  2 * fsize f <= fuel -> Forall2 (PairAt q) idxs f -> fok f ->
  mapM (json_pair fx q input rname fuel) idxs = Ok (map (json_tree input rname) f).
Proof.
  induction f as [|r tg ps pe ch f IHc IHf] using forest_ind; intros idxs fuel Hfuel F2 Hok.
  - inversion F2; subst. reflexivity.
  - inversion F2 as [|i t idxs' f' W F2']; subst. rewrite fsize_cons in Hfuel.
    destruct fuel as [|k]; [lia|].
    destruct (fok_node _ _ _ _ _ _ _ Hok) as (A & B & C & Hc & Hf).
    pose proof (proj1 (fok_hd _ _ _ Hok)) as H1.
    cbn [mapM map]. rewrite (IHf idxs' (S k)); [|lia|exact F2'|exact Hf].
    rewrite json_pair_S.
    rewrite (pos_at_start _ _ _ _ _ _ _ W). cbn [bind].
    rewrite (pair_end_ok _ _ _ _ _ _ _ W). cbn [bind].
    rewrite (pos_at_end _ _ _ _ _ _ _ W). cbn [bind].
    rewrite (pair_as_rule_ok _ _ _ _ _ _ _ W). cbn [bind].
    destruct (pair_into_inner_ok _ _ _ _ _ _ _ W) as (inner & E1 & R).
    rewrite E1. cbn [bind]. rewrite (pairs_peek_ok _ _ _ R). destruct ch as [|c ch'].
    + rewrite (pair_as_str_ok _ _ _ _ _ _ _ _ W H1). cbn [bind]. reflexivity.
    + pose proof (tsize_pos c) as Hc1. cbn [fsize] in Hfuel. destruct k as [|k']; [lia|].
      rewrite json_pairs_S.
      assert (Hne : c :: ch' <> [] \/ fix_json fx = true) by (left; discriminate).
      pose proof (json_pos_of fx _ _ R Hc Hne) as JP. rewrite JP. cbn [bind].
      destruct (pairs_collect_fuel0 _ _ _ R) as (l & E3 & F3). rewrite E3. cbn [bind].
      rewrite (IHc l k'); [|cbn [fsize]; lia|exact F3|exact Hc]. cbn [bind].
      cbn [json_tree]. unfold forest_pos. cbn [fst snd].
      destruct (last_error (c :: ch')) eqn:EL; [reflexivity|].
      destruct (list_snoc_cases (c :: ch')) as [E|(f'' & u & E)]; [discriminate|].
      rewrite (last_error_cons_snoc _ _ _ _ E) in EL. discriminate.
Qed.

Theorem pair_to_json_ok fx i t : PairAt q i t -> fok [t] ->
  pair_to_json fx q input rname i = Ok (json_tree input rname t).
Proof.
  intros W H. unfold pair_to_json.
  assert (E : mapM (json_pair fx q input rname (2 * fuel0 q)) [i] = Ok (map (json_tree input rname) [t])).
  { apply json_forest_ok; [|constructor; [exact W|constructor]|exact H].
    pose proof (PairAt_size _ _ _ W). cbn [fsize]. unfold fuel0. lia. }
  cbn [mapM map] in E. destruct (json_pair fx q input rname (2 * fuel0 q) i); cbn [bind] in E; congruence.
Qed.

(* holds for the code as it is on every non-empty Pairs, and for the repaired code on all *)
Theorem pairs_to_json_ok fx p f : Rep q p f -> fok f -> (f <> [] \/ fix_json fx = true) ->
  pairs_to_json fx q input rname p = Ok (json_forest input rname f).
Proof.
  intros R H Hfx. unfold pairs_to_json.
  assert (HS : 2 * fuel0 q = S (S (2 * length q))) by (unfold fuel0; lia). rewrite HS.
  rewrite json_pairs_S. pose proof (json_pos_of fx _ _ R H Hfx) as JP. rewrite JP. cbn [bind].
  destruct (pairs_collect_fuel0 _ _ _ R) as (l & E3 & F3). rewrite E3. cbn [bind].
  rewrite (json_forest_ok fx f l (S (2 * length q))); [reflexivity| |exact F3|exact H].
  destruct R as (W & _ & _). apply Win_bound in W. lia.
Qed.

End V.
