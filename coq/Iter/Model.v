(* C04 - executable model of pest/src/iterators/{pairs,pair,flat_pairs,tokens,pairs_builder,line_index}.rs

   Written line by line from the Rust code.  `res` is the outcome of running a piece of Rust:
     Ok v   normal return
     Panic  a Rust panic: Vec index out of bounds, `unreachable!()`, usize underflow (the harness
            builds with overflow-checks), `unwrap`/`expect` on None, str slice off a char boundary,
            failed `assert!`/`debug_assert!` (the harness builds with debug-assertions)
     Fuel   the model's loop budget ran out (a Rust loop that has not terminated after more
            iterations than any well-formed queue permits; never a normal return)
   The shared, immutable `Rc<Vec<QueueableToken>>` and `&str` input are Section variables; a
   Pairs / Pair / FlatPairs / Tokens value is then just its index fields.
   `fx` selects, per repaired function, the code as it is in the repository (false) or as it is
   after fixes/C04-*.patch (true). *)
From Coq Require Import List Arith Bool String Ascii.
From Coq Require Import DecimalString.
Import ListNotations.
Require Import PV.Iter.Queue.
Open Scope string_scope.
Open Scope list_scope.
Open Scope nat_scope.

Inductive res (A : Type) : Type := Ok (a : A) | Panic | Fuel.
Arguments Ok {A} a.
Arguments Panic {A}.
Arguments Fuel {A}.

Definition bind {A B} (m : res A) (k : A -> res B) : res B :=
  match m with Ok a => k a | Panic => Panic | Fuel => Fuel end.
Notation "x <- m ;; k" := (bind m (fun x => k)) (at level 61, m at next level, right associativity).

Fixpoint mapM {A B} (f : A -> res B) (l : list A) : res (list B) :=
  match l with
  | [] => Ok []
  | x :: r => y <- f x ;; ys <- mapM f r ;; Ok (y :: ys)
  end.

(* usize subtraction with overflow checks *)
Definition csub (a b : nat) : res nat := if b <=? a then Ok (a - b) else Panic.

Record fixes := { fix_single : bool; fix_flatlen : bool; fix_json : bool }.
Definition fixes_none : fixes := {| fix_single := false; fix_flatlen := false; fix_json := false |}.
Definition fixes_all : fixes := {| fix_single := true; fix_flatlen := true; fix_json := true |}.

(* ---------------------------------------------------------------------------------------- *)
(* &str as a string of bytes (documented meaning of the std methods used)                     *)
(* ---------------------------------------------------------------------------------------- *)

(* UTF-8 continuation byte 0b10xxxxxx;  std: `(b as i8) >= -0x40` is its negation *)
Definition is_cont (c : ascii) : bool := let n := nat_of_ascii c in (128 <=? n) && (n <? 192).

(* str::is_char_boundary *)
Definition is_char_boundary (s : string) (i : nat) : bool :=
  if i =? 0 then true
  else match get i s with
       | None => i =? String.length s
       | Some c => negb (is_cont c)
       end.

(* str::get(a..b) *)
Definition str_get (s : string) (a b : nat) : option string :=
  if (a <=? b) && is_char_boundary s a && is_char_boundary s b then Some (substring a (b - a) s) else None.
(* &s[a..b] *)
Definition slice (s : string) (a b : nat) : res string :=
  match str_get s a b with Some x => Ok x | None => Panic end.

(* s.chars().count() of valid UTF-8 = number of non-continuation bytes *)
Fixpoint chars_count (s : string) : nat :=
  match s with EmptyString => 0 | String c r => (if is_cont c then 0 else 1) + chars_count r end.

(* ---------------------------------------------------------------------------------------- *)
(* line_index.rs                                                                             *)
(* ---------------------------------------------------------------------------------------- *)

(* LineIndex::new: offset after every '\n' ('\n' is a one-byte char, so the char loop is a byte loop) *)
Fixpoint line_offsets_from (offset : nat) (s : string) : list nat :=
  match s with
  | EmptyString => []
  | String c r => if (nat_of_ascii c =? 10) then S offset :: line_offsets_from (S offset) r
                  else line_offsets_from (S offset) r
  end.
Definition line_index_new (text : string) : list nat := 0 :: line_offsets_from 0 text.

(* slice::partition_point on a partitioned slice = length of the longest prefix satisfying p *)
Fixpoint partition_point (p : nat -> bool) (l : list nat) : nat :=
  match l with [] => 0 | x :: r => if p x then S (partition_point p r) else 0 end.

Definition li_line_col (li : list nat) (input : string) (pos : nat) : res (nat * nat) :=
  line <- csub (partition_point (fun it => it <=? pos) li) 1 ;;
  match nth_error li line with
  | None => Panic
  | Some first_offset =>
    line_str <- slice input first_offset pos ;;
    Ok (line + 1, chars_count line_str + 1)
  end.

(* ---------------------------------------------------------------------------------------- *)

Record pairs := { p_start : nat; p_end : nat; p_count : nat }.
Record flat := { f_start : nat; f_end : nat }.
Record tokens := { k_start : nat; k_end : nat }.

(* structured JSON value produced by the Serialize impls (serde_json renders it) *)
Inductive json :=
| JNum (n : nat)
| JStr (s : string)
| JArr (l : list json)
| JObj (fields : list (string * json)).

Definition nat_str (n : nat) : string := NilZero.string_of_uint (Nat.to_uint n).

Fixpoint join (sep : string) (l : list string) : string :=
  match l with
  | [] => ""
  | [x] => x
  | x :: r => (x ++ sep ++ join sep r)%string
  end.

Section Iter.
Variable fx : fixes.
Variable q : list qtoken.          (* Rc<Vec<QueueableToken>> *)
Variable input : string.           (* &'i str *)
Variable rname : nat -> string.    (* `{:?}` of a rule *)
Variable tname : nat -> string.    (* the &str of a tag id *)
Variable esc : string -> string.   (* `{:?}` of a &str (core::fmt) *)

(* queue[i] *)
Definition qget (i : nat) : res qtoken := match nth_error q i with Some t => Ok t | None => Panic end.

(* Pair::pos / Pairs::pos *)
Definition pos_at (i : nat) : res nat := t <- qget i ;; Ok (qpos t).

(* Pair::pair / Pairs::pair: index of the matching End; `_ => unreachable!()` *)
Definition pair_end (i : nat) : res nat :=
  t <- qget i ;; match t with QStart e _ => Ok e | QEnd _ _ _ _ => Panic end.

(* ---------------- pairs.rs ---------------- *)

(* the counting loop of pairs::new;  `_ => unreachable!()` on an End token *)
Fixpoint pairs_new_loop (fuel cursor e count : nat) : res nat :=
  if cursor <? e then
    match fuel with
    | 0 => Fuel
    | S k => t <- qget cursor ;;
             match t with
             | QStart ei _ => pairs_new_loop k (ei + 1) e (count + 1)
             | QEnd _ _ _ _ => Panic
             end
    end
  else Ok count.

Definition pairs_new (s e : nat) : res pairs :=
  c <- pairs_new_loop (List.length q) s e 0 ;;
  Ok {| p_start := s; p_end := e; p_count := c |}.

(* the `None` branch for line_index in pairs::new (what `pest::state` passes) *)
Definition state_line_index : res (list nat) :=
  let last_input_pos := match rev q with [] => 0 | t :: _ => qpos t end in
  text <- slice input 0 last_input_pos ;;
  Ok (line_index_new text).

Definition pairs_peek (p : pairs) : option nat :=
  if p_start p <? p_end p then Some (p_start p) else None.

Definition pairs_next (p : pairs) : res (pairs * option nat) :=
  match pairs_peek p with
  | None => Ok (p, None)
  | Some pr =>
    e <- pair_end (p_start p) ;;
    c <- csub (p_count p) 1 ;;
    Ok ({| p_start := e + 1; p_end := p_end p; p_count := c |}, Some pr)
  end.

(* Pairs::pair_from_end + next_back *)
Definition pairs_next_back (p : pairs) : res (pairs * option nat) :=
  if p_end p <=? p_start p then Ok (p, None)
  else
    i <- csub (p_end p) 1 ;;
    t <- qget i ;;
    match t with
    | QEnd si _ _ _ =>
      c <- csub (p_count p) 1 ;;
      Ok ({| p_start := p_start p; p_end := si; p_count := c |}, Some si)
    | QStart _ _ => Panic
    end.

Definition pairs_len (p : pairs) : nat := p_count p.
Definition pairs_is_empty (p : pairs) : bool := p_count p =? 0.

Definition pairs_as_str (p : pairs) : res string :=
  if p_start p <? p_end p then
    s <- pos_at (p_start p) ;;
    i <- csub (p_end p) 1 ;;
    e <- pos_at i ;;
    slice input s e
  else Ok "".

(* `self.clone().collect::<Vec<_>>()` and every other loop that drains a clone with next() *)
Fixpoint pairs_collect (fuel : nat) (p : pairs) : res (list nat) :=
  match fuel with
  | 0 => Fuel
  | S k =>
    r <- pairs_next p ;;
    match r with
    | (_, None) => Ok []
    | (p', Some i) => rest <- pairs_collect k p' ;; Ok (i :: rest)
    end
  end.
Definition fuel0 : nat := S (List.length q).

Definition pairs_flatten (p : pairs) : flat := {| f_start := p_start p; f_end := p_end p |}.

(* ---------------- tokens.rs ---------------- *)

(* tokens::new with its cfg!(debug_assertions) sweep over the WHOLE queue *)
Definition tokens_new (s e : nat) : res tokens :=
  if forallb (fun t => is_char_boundary input (qpos t)) q then Ok {| k_start := s; k_end := e |} else Panic.

(* Position::new_internal: debug_assert!(input.get(pos..).is_some()) *)
Definition position_new_internal (p : nat) : res nat :=
  if is_char_boundary input p then Ok p else Panic.

Definition create_token (i : nat) : res tok :=
  t <- qget i ;;
  match t with
  | QStart ei p =>
    t2 <- qget ei ;;
    match t2 with
    | QEnd _ r _ _ => p' <- position_new_internal p ;; Ok (TStart r p')
    | QStart _ _ => Panic
    end
  | QEnd _ r _ p => p' <- position_new_internal p ;; Ok (TEnd r p')
  end.

Definition tokens_len (k : tokens) : res nat := csub (k_end k) (k_start k).

Definition tokens_next (k : tokens) : res (tokens * option tok) :=
  if k_end k <=? k_start k then Ok (k, None)
  else t <- create_token (k_start k) ;;
       Ok ({| k_start := k_start k + 1; k_end := k_end k |}, Some t).

Definition tokens_next_back (k : tokens) : res (tokens * option tok) :=
  if k_end k <=? k_start k then Ok (k, None)
  else i <- csub (k_end k) 1 ;;
       t <- create_token i ;;
       i' <- csub (k_end k) 1 ;;
       Ok ({| k_start := k_start k; k_end := i' |}, Some t).

Definition pairs_tokens (p : pairs) : res tokens := tokens_new (p_start p) (p_end p).

(* ---------------- pair.rs ---------------- *)

Definition pair_as_rule (i : nat) : res nat :=
  e <- pair_end i ;; t <- qget e ;;
  match t with QEnd _ r _ _ => Ok r | QStart _ _ => Panic end.

(* `_ => None`, not unreachable, in as_node_tag *)
Definition pair_as_node_tag (i : nat) : res (option nat) :=
  e <- pair_end i ;; t <- qget e ;;
  match t with QEnd _ _ tg _ => Ok tg | QStart _ _ => Ok None end.

Definition pair_as_str (i : nat) : res string :=
  s <- pos_at i ;; ei <- pair_end i ;; e <- pos_at ei ;; slice input s e.

(* Span::new_internal: debug_assert!(input.get(start..end).is_some()) *)
Definition pair_as_span (i : nat) : res (nat * nat) :=
  s <- pos_at i ;; ei <- pair_end i ;; e <- pos_at ei ;;
  match str_get input s e with Some _ => Ok (s, e) | None => Panic end.

Definition pair_into_inner (i : nat) : res pairs :=
  e <- pair_end i ;; pairs_new (i + 1) e.

Definition pair_tokens (i : nat) : res tokens :=
  e <- pair_end i ;; tokens_new i (e + 1).

Definition pair_line_col (li : list nat) (i : nat) : res (nat * nat) :=
  p <- pos_at i ;; li_line_col li input p.

(* Pairs::single (pair.rs:313) *)
Definition pairs_single (i : nat) : res pairs :=
  e <- pair_end i ;; pairs_new i (if fix_single fx then e + 1 else e).

(* ---------------- flat_pairs.rs ---------------- *)

Definition flat_is_start (i : nat) : res bool := t <- qget i ;; Ok (is_startb t).

(* `while self.start < self.end && !self.is_start(self.start) { self.start += 1 }`;
   k = end - start bounds the iterations exactly *)
Fixpoint scan_up (s k : nat) : res nat :=
  match k with
  | 0 => Ok s
  | S k' => b <- flat_is_start s ;; if b then Ok s else scan_up (s + 1) k'
  end.

(* `while self.end >= self.start && !self.is_start(self.end) { self.end -= 1 }`;
   k = end + 1 - start bounds the iterations exactly; `end -= 1` may underflow *)
Fixpoint scan_down (e k : nat) : res nat :=
  match k with
  | 0 => Ok e
  | S k' => b <- flat_is_start e ;; if b then Ok e else (e' <- csub e 1 ;; scan_down e' k')
  end.

Definition flat_next (f : flat) : res (flat * option nat) :=
  if f_end f <=? f_start f then Ok (f, None)
  else s' <- scan_up (f_start f + 1) (f_end f - (f_start f + 1)) ;;
       Ok ({| f_start := s'; f_end := f_end f |}, Some (f_start f)).

Definition flat_next_back (f : flat) : res (flat * option nat) :=
  if f_end f <=? f_start f then Ok (f, None)
  else e1 <- csub (f_end f) 1 ;;
       e' <- scan_down e1 (e1 + 1 - f_start f) ;;
       Ok ({| f_start := f_start f; f_end := e' |}, Some e').

(* fixed: (self.start..self.end).filter(|&i| self.is_start(i)).count() *)
Fixpoint count_starts (s k : nat) : res nat :=
  match k with
  | 0 => Ok 0
  | S k' => b <- flat_is_start s ;; n <- count_starts (s + 1) k' ;; Ok ((if b then 1 else 0) + n)
  end.

Definition flat_len (f : flat) : res nat :=
  if fix_flatlen fx then count_starts (f_start f) (f_end f - f_start f)
  else d <- csub (f_end f) (f_start f) ;; Ok (Nat.div2 d).

Definition flat_tokens (f : flat) : res tokens := tokens_new (f_start f) (f_end f).

Fixpoint flat_collect (fuel : nat) (f : flat) : res (list nat) :=
  match fuel with
  | 0 => Fuel
  | S k =>
    r <- flat_next f ;;
    match r with
    | (_, None) => Ok []
    | (f', Some i) => rest <- flat_collect k f' ;; Ok (i :: rest)
    end
  end.

(* Pairs::find_tagged = flatten().filter(tag matches); Filter::next loops over the inner next *)
Definition tag_matches (tg : nat) (i : nat) : res bool :=
  t <- pair_as_node_tag i ;; Ok (match t with Some nt => nt =? tg | None => false end).

Fixpoint find_tagged_next (fuel : nat) (tg : nat) (f : flat) : res (flat * option nat) :=
  match fuel with
  | 0 => Fuel
  | S k =>
    r <- flat_next f ;;
    match r with
    | (f', None) => Ok (f', None)
    | (f', Some i) => b <- tag_matches tg i ;; if b then Ok (f', Some i) else find_tagged_next k tg f'
    end
  end.

Definition pairs_find_first_tagged (tg : nat) (p : pairs) : res (option nat) :=
  r <- find_tagged_next fuel0 tg (pairs_flatten p) ;; Ok (snd r).

Fixpoint find_tagged_collect (fuel : nat) (tg : nat) (f : flat) : res (list nat) :=
  match fuel with
  | 0 => Fuel
  | S k =>
    r <- find_tagged_next fuel0 tg f ;;
    match r with
    | (_, None) => Ok []
    | (f', Some i) => rest <- find_tagged_collect k tg f' ;; Ok (i :: rest)
    end
  end.
Definition pairs_find_tagged (tg : nat) (p : pairs) : res (list nat) :=
  find_tagged_collect fuel0 tg (pairs_flatten p).

(* Pairs::concat: self.clone().fold(String::new(), |s, pair| s + pair.as_str()) *)
Definition pairs_concat (p : pairs) : res string :=
  l <- pairs_collect fuel0 p ;; strs <- mapM pair_as_str l ;; Ok (String.concat "" strs).

(* ---------------- observing a pair completely through the API ---------------- *)

(* as_rule, as_node_tag, as_span, into_inner + next until None, recursively *)
Fixpoint walk_pair (fuel : nat) (i : nat) : res tree :=
  match fuel with
  | 0 => Fuel
  | S k =>
    r <- pair_as_rule i ;;
    tg <- pair_as_node_tag i ;;
    sp <- pair_as_span i ;;
    inner <- pair_into_inner i ;;
    l <- pairs_collect fuel0 inner ;;
    ch <- mapM (walk_pair k) l ;;
    Ok (Node r tg (fst sp) (snd sp) ch)
  end.

Definition walk_pairs (p : pairs) : res (list tree) :=
  l <- pairs_collect fuel0 p ;; mapM (walk_pair fuel0) l.

(* ---------------- rendering ---------------- *)

(* impl Debug for Span *)
Definition debug_span (s e : nat) : res string :=
  str <- slice input s e ;;
  Ok ("Span { str: " ++ esc str ++ ", range: " ++ nat_str s ++ ".." ++ nat_str e ++ " }")%string.

(* impl Debug for Pair  (non-alternate `{:?}`) *)
Fixpoint debug_pair (fuel : nat) (i : nat) : res string :=
  match fuel with
  | 0 => Fuel
  | S k =>
    r <- pair_as_rule i ;;
    tg <- pair_as_node_tag i ;;
    sp <- pair_as_span i ;;
    span <- debug_span (fst sp) (snd sp) ;;
    inner <- pair_into_inner i ;;
    l <- pairs_collect fuel0 inner ;;
    ds <- mapM (debug_pair k) l ;;
    Ok ("Pair { rule: " ++ rname r ++
        (match tg with Some t => ", node_tag: " ++ esc (tname t) | None => "" end) ++
        ", span: " ++ span ++ ", inner: [" ++ join ", " ds ++ "] }")%string
  end.

(* impl Debug for Pairs: f.debug_list().entries(self.clone()).finish() *)
Definition debug_pairs (p : pairs) : res string :=
  l <- pairs_collect fuel0 p ;; ds <- mapM (debug_pair fuel0) l ;; Ok ("[" ++ join ", " ds ++ "]")%string.

(* impl Display for Pair, `{:#}`: into_inner().peekable(); peek() is the first next() *)
Fixpoint alt_pair (fuel : nat) (i : nat) : res string :=
  match fuel with
  | 0 => Fuel
  | S k =>
    r <- pair_as_rule i ;;
    s <- pos_at i ;;
    ei <- pair_end i ;;
    e <- pos_at ei ;;
    inner <- pair_into_inner i ;;
    first <- pairs_next inner ;;
    match first with
    | (_, None) => Ok (rname r ++ "(" ++ nat_str s ++ ", " ++ nat_str e ++ ")")%string
    | (inner', Some c) =>
      l <- pairs_collect fuel0 inner' ;;
      ds <- mapM (alt_pair k) (c :: l) ;;
      Ok (rname r ++ "(" ++ nat_str s ++ ", " ++ nat_str e ++ ", [" ++ join ", " ds ++ "])")%string
    end
  end.

(* impl Display for Pair, `{}` *)
Definition display_pair (i : nat) : res string := pair_as_str i.

(* impl Display for Pairs *)
Definition display_pairs (alternate : bool) (p : pairs) : res string :=
  l <- pairs_collect fuel0 p ;;
  ds <- mapM (fun i => if alternate then alt_pair fuel0 i else display_pair i) l ;;
  Ok ("[" ++ join ", " ds ++ "]")%string.

(* impl Serialize for Pair / Pairs *)
Definition json_pos (s e : nat) : string * json := ("pos", JArr [JNum s; JNum e]).

Fixpoint json_pair (fuel : nat) (i : nat) : res json :=
  match fuel with
  | 0 => Fuel
  | S k =>
    s <- pos_at i ;;
    ei <- pair_end i ;;
    e <- pos_at ei ;;
    r <- pair_as_rule i ;;
    inner <- pair_into_inner i ;;
    match pairs_peek inner with
    | None => str <- pair_as_str i ;;
              Ok (JObj [json_pos s e; ("rule", JStr (rname r)); ("inner", JStr str)])
    | Some _ => j <- json_pairs k inner ;;
                Ok (JObj [json_pos s e; ("rule", JStr (rname r)); ("inner", j)])
    end
  end
with json_pairs (fuel : nat) (p : pairs) : res json :=
  match fuel with
  | 0 => Fuel
  | S k =>
    se <- (if fix_json fx then
             if p_start p <? p_end p then
               s <- pos_at (p_start p) ;; i <- csub (p_end p) 1 ;; e <- pos_at i ;; Ok (s, e)
             else Ok (0, 0)
           else
             s <- pos_at (p_start p) ;; i <- csub (p_end p) 1 ;; e <- pos_at i ;; Ok (s, e)) ;;
    l <- pairs_collect fuel0 p ;;
    js <- mapM (json_pair k) l ;;
    Ok (JObj [json_pos (fst se) (snd se); ("pairs", JArr js)])
  end.

Definition pair_to_json (i : nat) : res json := json_pair (2 * fuel0) i.
Definition pairs_to_json (p : pairs) : res json := json_pairs (2 * fuel0) p.

End Iter.

(* ---------------------------------------------------------------------------------------- *)
(* pairs_builder.rs                                                                          *)
(* ---------------------------------------------------------------------------------------- *)

(* BuilderNode is exactly `tree` (rule, start, end, tag, children). *)

(* the fluent API: a call sequence on one PairsBuilder value; rule_with runs a nested sequence *)
Inductive bop :=
| BRule (r s e : nat)
| BRuleWith (r s e : nat) (inner : list bop)
| BTag (t : nat).

Fixpoint set_last_tag (nodes : list tree) (t : nat) : res (list tree) :=
  match nodes with
  | [] => Panic       (* .last_mut().expect("PairsBuilder::tag called before any rule was added") *)
  | [Node r _ s e ch] => Ok [Node r (Some t) s e ch]
  | n :: rest => rest' <- set_last_tag rest t ;; Ok (n :: rest')
  end.

Fixpoint run_bop (o : bop) (nodes : list tree) : res (list tree) :=
  match o with
  | BRule r s e => Ok (nodes ++ [Node r None s e []])
  | BRuleWith r s e inner =>
    ch <- (fix go (l : list bop) (acc : list tree) : res (list tree) :=
             match l with [] => Ok acc | o' :: l' => acc' <- run_bop o' acc ;; go l' acc' end) inner [] ;;
    Ok (nodes ++ [Node r None s e ch])
  | BTag t => set_last_tag nodes t
  end.
Fixpoint run_bops (l : list bop) (acc : list tree) : res (list tree) :=
  match l with [] => Ok acc | o :: l' => acc' <- run_bop o acc ;; run_bops l' acc' end.

(* queue[start_index] = Start { end_token_index: end_index, .. };  `_ => unreachable!()` *)
Fixpoint set_end (q : list qtoken) (i : nat) (ei : nat) : res (list qtoken) :=
  match q, i with
  | [], _ => Panic
  | QStart _ p :: r, 0 => Ok (QStart ei p :: r)
  | QEnd _ _ _ _ :: _, 0 => Panic
  | t :: r, S i' => r' <- set_end r i' ei ;; Ok (t :: r')
  end.

Section Builder.
Variable input : string.

Fixpoint push_node (q : list qtoken) (node : tree) : res (list qtoken) :=
  match node with
  | Node rule tag s e children =>
    match str_get input s e with
    | None => Panic                       (* assert!(input.get(node.start..node.end).is_some(), ..) *)
    | Some _ =>
      let start_index := List.length q in
      let q1 := q ++ [QStart 0 s] in
      q2 <- (fix go (l : list tree) (acc : list qtoken) : res (list qtoken) :=
               match l with [] => Ok acc | c :: l' => acc' <- push_node acc c ;; go l' acc' end) children q1 ;;
      let end_index := List.length q2 in
      q3 <- set_end q2 start_index end_index ;;
      Ok (q3 ++ [QEnd start_index rule tag e])
    end
  end.
Fixpoint push_nodes (l : list tree) (acc : list qtoken) : res (list qtoken) :=
  match l with [] => Ok acc | c :: l' => acc' <- push_node acc c ;; push_nodes l' acc' end.

(* PairsBuilder::build: the queue, and the Pairs over all of it (line index = LineIndex::new(input)) *)
Definition build_queue (nodes : list tree) : res (list qtoken) := push_nodes nodes [].
Definition build (nodes : list tree) : res (list qtoken * pairs) :=
  q <- build_queue nodes ;; p <- pairs_new q 0 (List.length q) ;; Ok (q, p).
Definition build_line_index : list nat := line_index_new input.
End Builder.

(* ---------------------------------------------------------------------------------------- *)
(* the three iterator machines under an arbitrary interleaving of operations                 *)
(* ---------------------------------------------------------------------------------------- *)

Inductive iter_op := Next | NextBack | Len | Peek.
Inductive answer (X : Type) := AItem (x : option X) | ALen (n : nat).
Arguments AItem {X} x.
Arguments ALen {X} n.

Section Machines.
Variable fx : fixes.
Variable q : list qtoken.
Variable input : string.

Definition obs_pair (o : option nat) : res (option tree) :=
  match o with None => Ok None | Some i => t <- walk_pair q input (fuel0 q) i ;; Ok (Some t) end.

Definition pairs_step (p : pairs) (o : iter_op) : res (pairs * answer tree) :=
  match o with
  | Next => r <- pairs_next q p ;; t <- obs_pair (snd r) ;; Ok (fst r, AItem t)
  | NextBack => r <- pairs_next_back q p ;; t <- obs_pair (snd r) ;; Ok (fst r, AItem t)
  | Len => Ok (p, ALen (pairs_len p))
  | Peek => t <- obs_pair (pairs_peek p) ;; Ok (p, AItem t)
  end.

(* FlatPairs and Tokens have no peek of their own: Peek is `it.clone().next()` *)
Definition flat_step (f : flat) (o : iter_op) : res (flat * answer tree) :=
  match o with
  | Next => r <- flat_next q f ;; t <- obs_pair (snd r) ;; Ok (fst r, AItem t)
  | NextBack => r <- flat_next_back q f ;; t <- obs_pair (snd r) ;; Ok (fst r, AItem t)
  | Len => n <- flat_len fx q f ;; Ok (f, ALen n)
  | Peek => r <- flat_next q f ;; t <- obs_pair (snd r) ;; Ok (f, AItem t)
  end.

Definition tokens_step (k : tokens) (o : iter_op) : res (tokens * answer tok) :=
  match o with
  | Next => r <- tokens_next q input k ;; Ok (fst r, AItem (snd r))
  | NextBack => r <- tokens_next_back q input k ;; Ok (fst r, AItem (snd r))
  | Len => n <- tokens_len k ;; Ok (k, ALen n)
  | Peek => r <- tokens_next q input k ;; Ok (k, AItem (snd r))
  end.
End Machines.

Fixpoint run_machine {S X} (step : S -> iter_op -> res (S * answer X)) (s : S) (ops : list iter_op)
  : res (list (answer X)) :=
  match ops with
  | [] => Ok []
  | o :: r => sa <- step s o ;; rest <- run_machine step (fst sa) r ;; Ok (snd sa :: rest)
  end.

Definition run_pairs (q : list qtoken) (input : string) := run_machine (pairs_step q input).
Definition run_flat (fx : fixes) (q : list qtoken) (input : string) := run_machine (flat_step fx q input).
Definition run_tokens (q : list qtoken) (input : string) := run_machine (tokens_step q input).
