(* C15 - detailed error tracking is observationally transparent.
   This file holds ONLY the pinned statements, the closing theorems, non-vacuity examples and
   Print Assumptions.  Models: PV.Comb.{PState,Bytes,Prog,Exec} (parser_state.rs, position.rs), PV.Comb.Help
   (error.rs: ParseAttempts -> help message), PV.Pos.ErrorFmt (Error::new_from_pos, Display).
   Proofs: PV.Comb.DetailProofs (exec_erase), PV.Comb.MaxPos / MaxPosUtf8, PV.Comb.HelpProofs.
   `exec cfg E fuel p s` runs the closure tree p (what a generated parser / the VM builds from a grammar) on the
   state s; `run_state .. w lim detail` is a whole parse of the input bytes w from ParserState::new with
   set_error_detail(detail) and call limit lim; `parse_with` is what pest::state() returns.              *)
From Coq Require Import String Ascii.
From Coq Require Import List Arith NArith ZArith Bool.
Import ListNotations.
Require Import PV.Stack.Model PV.Stack.Proofs PV.Comb.PState PV.Comb.Bytes PV.Comb.Prog PV.Comb.Exec PV.Comb.Frame.
Require Import PV.Comb.Utf8 PV.Comb.Utf8c PV.Comb.Detail PV.Comb.DetailProofs PV.Comb.MaxPos PV.Comb.MaxPosUtf8
               PV.Comb.Help PV.Comb.HelpProofs.
Require PV.Pos.Model PV.Pos.ErrorFmt.
Open Scope list_scope.

(* The full statement: for EVERY configuration, closure environment, program and fuel
   1a  from every state, the run with the switch on and the run with the switch off end in the same kind of
       result (Ok / Err / the same panic / out of fuel) and in states that agree on everything except the five
       ParseAttempts fields (erase_detail);
   1b  pest::state() returns the same thing: same tokens, or same error position, positives and negatives, or
       the same call-limit error;
   1c  a panic in detail mode is never one of the attempt bookkeeping (Vec::splice / index / subtraction:
       PkInternal) and is exactly the panic the run without detail has (empty-stack POP/PEEK, which is documented);
   2a  max_position never exceeds the input length;
   2b  for input that is valid UTF-8 (cs = its chars) and programs whose string constants are valid UTF-8 - both are
       `&str` in Rust - max_position is a char boundary of the input  (cfg_ok: the memchr feature with the repaired
       three-needle arm, or no memchr);
   3   and then Error::parse_attempts_error(input, rule_to_message, is_whitespace) builds its error and the error
       renders (Display), for every pair of callbacks and whatever error `self` it is called on.              *)
Definition C15_statement : Prop :=
  forall (cfg : config) (E : env) (p : prog) (fuel : nat),
    (forall s, map_res erase_detail (exec cfg E fuel p s) = map_res erase_detail (exec cfg E fuel p (set_pa_enabled s false))) /\
    (forall w lim, parse_with cfg E fuel p w lim true = parse_with cfg E fuel p w lim false) /\
    (forall w lim k, run_state cfg E fuel p w lim true = RPanic k ->
                     k <> PkInternal /\ run_state cfg E fuel p w lim false = RPanic k) /\
    (forall w lim, res_all (fun s' => max_position s' <= length w) (run_state cfg E fuel p w lim true)) /\
    (cfg_ok cfg -> env_valid E -> prog_valid p -> forall cs lim, Forall scalar cs ->
       res_all (fun s' =>
           boundaryb (flat_map encode cs) (max_position s') = true /\
           forall rule_to_message is_whitespace to_uppercase self, exists e out,
             parse_attempts_error rule_to_message is_whitespace to_uppercase self cs s' = Some (PV.Pos.Model.Ok e) /\
             help_render rule_to_message is_whitespace to_uppercase self cs s' = Some (PV.Pos.Model.Ok out))
         (run_state cfg E fuel p (flat_map encode cs) lim true)).

Theorem C15_detail_transparent : C15_statement.
Proof.
  intros cfg E p fuel.
  split; [intros s; apply detail_transparent|].
  split; [intros w lim; apply parse_with_detail_irrelevant|].
  split.
  { intros w lim k H. unfold run_state in *. split.
    - intros ->. destruct (init_wf_inv w lim true) as [W I]. exact (detail_no_internal_panic cfg E fuel p _ _ W I H).
    - pose proof (detail_same_result_kind cfg E fuel p (init w lim true)) as K. rewrite H in K.
      change (set_pa_enabled (init w lim true) false) with (init w lim false) in K.
      destruct (exec cfg E fuel p (init w lim false)); try contradiction. congruence. }
  split.
  { intros w lim. pose proof (run_state_max_position_le cfg E fuel p w lim true) as H.
    destruct (run_state cfg E fuel p w lim true); cbn in *; tauto. }
  intros Hc HE Vp cs lim F.
  assert (V : valid_utf8 (flat_map encode cs)) by (exists cs; auto).
  pose proof (run_state_max_position_boundary cfg E fuel p _ lim true Hc HE Vp V) as B.
  pose proof (fun r w u => run_help_renders r w u cfg E fuel p cs lim Hc HE Vp F) as R.
  destruct (run_state cfg E fuel p (flat_map encode cs) lim true); cbn in *; auto; (split; [tauto|]);
    intros r w u self; exact (R r w u self).
Qed.

(* The reduction asked for separately: if exec keeps the position on a char boundary, max_position is one.
   (C15_detail_transparent uses its general form max_position_boundary_from_invariant with the UTF-8 invariant.) *)
Definition C15_max_position_reduction_statement : Prop :=
  forall cfg E,
    (forall fuel p s, pos_boundary_inv s -> res_all pos_boundary_inv (exec cfg E fuel p s)) ->
    forall fuel p s, pos_boundary_inv s -> max_boundary_inv s -> res_all max_boundary_inv (exec cfg E fuel p s).
Theorem C15_max_position_reduction : C15_max_position_reduction_statement.
Proof. exact max_position_boundary_from_pos_boundary. Qed.

(* ---- non-vacuity: concrete evaluations of the model ---- *)
Definition cfg0 : config := {| memchr := true; fixed3 := true; fixedlim := false |}.
Definition E0 : env := fun _ => None.
Definition str_ (s : list byte) := PPrim (MMatchString s).
(* rule 0 { rule 1 { sequence("a" "b") } | rule 3 { "a" ^"é" } }   on the input "ac" *)
Definition p0 : prog :=
  PRule 0 (POrElse (PRule 1 (PSequence (PAndThen (str_ [97%N]) (str_ [98%N]))))
                   (PRule 3 (PAndThen (str_ [97%N]) (PPrim (MMatchInsens [195%N; 169%N]))))).
Definition in0 : list byte := [97%N; 99%N].

(* with detail: two call stacks, two expected tokens, max_position 1; the error itself is `expected rule 0 at 0` *)
Example C15_ex_detail_records :
  match run_state cfg0 E0 20 p0 in0 None true with
  | RErr s => max_position s = 1 /\
              rev (call_stacks s) = [ {| deepest := Some 1; parent := Some 0 |}; {| deepest := Some 3; parent := Some 0 |} ] /\
              rev (expected s) = [TSens [98%N]; TInsens [195%N; 169%N]] /\ unexpected s = []
  | _ => False
  end /\
  parse_with cfg0 E0 20 p0 in0 None true = OParsingError [0] [] 0.
Proof. vm_compute. repeat split; reflexivity. Qed.

(* without detail nothing is recorded, the two final states differ, and they agree after erasure *)
Example C15_ex_states_differ_only_in_detail :
  run_state cfg0 E0 20 p0 in0 None true <> run_state cfg0 E0 20 p0 in0 None false /\
  map_res erase_detail (run_state cfg0 E0 20 p0 in0 None true) = run_state cfg0 E0 20 p0 in0 None false /\
  parse_with cfg0 E0 20 p0 in0 None false = OParsingError [0] [] 0.
Proof. vm_compute. repeat split; try reflexivity. discriminate. Qed.

(* the help message of that state, with the callbacks of the correspondence harness
   (rule 1 -> "m1 é", rule 2 -> no message, rule n -> "m<n>"; "b" and " " are whitespace) *)
Definition rtm0 (r : nat) : option PV.Pos.Model.str :=
  match r with 2 => None | 1 => Some (PV.Pos.ErrorFmt.lit "m1 " ++ [233%N]) | 0 => Some (PV.Pos.ErrorFmt.lit "m0") | _ => Some (PV.Pos.ErrorFmt.lit "m3") end.
Definition isws0 (b : list byte) : bool :=
  match b with [x] => N.eqb x 98 || N.eqb x 32 | _ => false end.
Definition upper0 (s : PV.Pos.Model.str) : PV.Pos.Model.str :=
  map (fun c => if (97 <=? c)%N && (c <=? 122)%N then (c - 32)%N else if N.eqb c 233 then 201%N else c) s.

Example C15_ex_help_message :
  match run_state cfg0 E0 20 p0 in0 None true with
  | RErr s =>
    help_message rtm0 isws0 upper0 (PV.Pos.ErrorFmt.lit "    ") s =
      PV.Pos.ErrorFmt.lit "error: parsing error occurred." ++ [10%N] ++
      PV.Pos.ErrorFmt.lit "    note: expected one of tokens: WHITESPACE, `" ++ [201%N] ++ PV.Pos.ErrorFmt.lit "`" ++ [10%N] ++
      PV.Pos.ErrorFmt.lit "    help: m0" ++ [10%N] ++
      PV.Pos.ErrorFmt.lit "          - m1 " ++ [233%N] ++ [10%N] ++
      PV.Pos.ErrorFmt.lit "          - m3"
  | _ => False
  end.
Proof. vm_compute. reflexivity. Qed.

(* multi-byte input "éa", program "é" then "b": the token fails at offset 2, a boundary; offset 1 is none *)
Example C15_ex_multibyte :
  match run_state cfg0 E0 20 (PAndThen (str_ [195%N; 169%N]) (str_ [98%N])) [195%N; 169%N; 97%N] None true with
  | RErr s => max_position s = 2 /\ boundaryb (input s) (max_position s) = true /\ boundaryb (input s) 1 = false
  | _ => False
  end.
Proof. vm_compute. repeat split; reflexivity. Qed.

(* more than CALL_STACK_CHILDREN_THRESHOLD failing children are collapsed into the parent *)
Example C15_ex_threshold :
  let alt r := PRule r (str_ [98%N]) in
  match run_state cfg0 E0 20 (PRule 9 (POrElse (alt 1) (POrElse (alt 2) (POrElse (alt 3) (alt 4))))) [97%N] None true with
  | RErr s => call_stacks s = [ {| deepest := Some 9; parent := None |} ]
  | _ => False
  end.
Proof. vm_compute. reflexivity. Qed.

Print Assumptions C15_detail_transparent.
Print Assumptions C15_max_position_reduction.
