(* C03 - parser-state combinators are all-or-nothing and match exactly.
   Pinned statements over the model of pest/src/parser_state.rs + position.rs + stack.rs
   (PV.Comb.Exec: `exec cfg E fuel p s`; every Rust panic site is an explicit RPanic).
   Quantification: every feature configuration cfg, every closure environment E, every program p
   built from the public operations, every fuel, every start state s that is well-formed
   (pos <= |input|) and whose stack is in the representation invariant of C11 with some naive
   stack a (true of `init` and preserved by exec: exec_post).                                   *)
From Coq Require Import List Arith NArith ZArith Bool.
Import ListNotations.
Require Import PV.Stack.Model PV.Stack.Proofs PV.Comb.PState PV.Comb.Bytes PV.Comb.Prog PV.Comb.Exec
               PV.Comb.Frame PV.Comb.Contracts PV.Comb.Utf8 PV.Comb.Utf8b PV.Comb.Utf8c.
Require Import PV.Comb.Ref PV.Comb.RefProofs.

(* (1) a failed sequence leaves position, emitted tokens and stack contents as they were
       (tokens up to node tags, see C03_sequence_tag_refuted), and look-ahead / atomicity too *)
Definition C03_sequence_clause : Prop :=
  forall cfg E fuel p s a s', wf s -> Inv (stack s) a ->
    exec cfg E fuel (PSequence p) s = RErr s' -> restored s s'.

(* (2) any look-ahead, whether it succeeds or fails, leaves position, tokens (exactly) and stack
       as they were; and nothing at all is emitted (or tagged) while in look-ahead mode *)
Definition C03_lookahead_clause : Prop :=
  (forall cfg E fuel b p s a s', wf s -> Inv (stack s) a ->
     (exec cfg E fuel (PLookahead b p) s = ROk s' \/ exec cfg E fuel (PLookahead b p) s = RErr s') ->
     restored s s' /\ queue s' = queue s) /\
  (forall cfg E fuel p s a s', wf s -> Inv (stack s) a -> lookahead s <> LNone ->
     (exec cfg E fuel p s = ROk s' \/ exec cfg E fuel p s = RErr s') -> queue s' = queue s).

(* (3) the rule contract: see Contracts.rule_contract *)
Definition C03_rule_clause : Prop :=
  forall cfg E fuel r p s a, wf s -> Inv (stack s) a -> limit_reached s = false ->
  exists s2, queue s2 = (if emits s then QStart 0 (pos s) :: queue s else queue s) /\ pos s2 = pos s /\
  match exec cfg E fuel p s2, exec cfg E (S fuel) (PRule r p) s with
  | ROk sb, ROk s' =>
      pos s' = pos sb /\
      (if emits s
       then exists body, untagq (queue sb) = body ++ QStart 0 (pos s) :: untagq (queue s) /\
                         untagq (queue s') = QEnd (length (queue s)) r None (pos s') :: body ++
                                            QStart (S (length body + length (queue s))) (pos s) :: untagq (queue s)
       else queue s' = queue sb)
  | RErr sb, RErr s' =>
      pos s' = pos sb /\ (if emits s then untagq (queue s') = untagq (queue s) else queue s' = queue sb)
  | RPanic k, RPanic k' => k = k'
  | ROutOfFuel, ROutOfFuel => True
  | _, _ => False
  end.

(* (4) frame: no internal panic (Vec index, splice, drain, usize underflow, unreachable!) ever;
       input/lookahead/atomicity/limit preserved; position and counters monotone, pos <= |input|;
       earlier tokens only ever change in their tag; snapshots balanced (ghost naive stack) *)
Definition C03_frame_clause : Prop :=
  forall cfg E fuel p s a, wf s -> Inv (stack s) a -> post s a (exec cfg E fuel p s).

(* (5) the matching primitives, for a valid UTF-8 input, a char-boundary position and valid UTF-8
       needles: they never slice off a boundary, advance over exactly the matched text, always to
       a boundary, and report failure without moving (PStay) *)
Definition C03_primitive_clause : Prop :=
  (forall inp p s, valid_utf8 inp -> boundaryb inp p = true -> valid_utf8 s ->
     match match_string inp p s with
     | PMoved p' => p' = p + length s /\ firstn (length s) (skipn p inp) = s /\ boundaryb inp p' = true
     | PStay => prefixb s (skipn p inp) = false
     | PPanic => False end) /\
  (forall inp p s, boundaryb inp p = true ->
     match match_insensitive inp p s with
     | PMoved p' => p' = p + length s /\ boundaryb inp p' = true /\
                    map ascii_lower (firstn (length s) (skipn p inp)) = map ascii_lower s
     | PStay => boundaryb inp (p + length s) && prefixb_ci s (skipn p inp) = false
     | PPanic => False end) /\
  (forall inp p lo hi, valid_utf8 inp -> boundaryb inp p = true ->
     char_contract inp p (fun c => (lo <=? c)%N && (c <=? hi)%N) (match_range inp p lo hi)) /\
  (forall inp p rs, valid_utf8 inp -> boundaryb inp p = true ->
     char_contract inp p (in_ranges rs) (match_char_by inp p rs)) /\
  (forall cs k n, Forall scalar cs -> k <= length cs ->
     skip (flat_map encode cs) (length (flat_map encode (firstn k cs))) n =
     if k + n <=? length cs then PMoved (length (flat_map encode (firstn (k + n) cs))) else PStay) /\
  (forall inp p ss, p <= length inp ->
     let r := skip_until_basic inp p ss in
     p <= r <= length inp /\ (r = length inp \/ hit inp ss r = true) /\ forall q, p <= q < r -> hit inp ss q = false).

(* (6) byte-level frame of whole programs: from a valid UTF-8 input at a boundary, with valid
       needles, every reachable state is again at a boundary of a valid input with valid stack
       strings, and no boundary panic can happen; and the memchr-accelerated search (as repaired,
       see known_findings: fixed C03-skip-until-3) gives exactly the result of the plain loop *)
Definition C03_byte_clause : Prop :=
  (forall cfg E, cfg_ok cfg -> env_valid E -> forall fuel p s a,
     prog_valid p -> wf s -> Inv (stack s) a -> utf8_ok s -> upost (exec cfg E fuel p s)) /\
  (forall E fuel p s a l1 l2 f2, env_valid E -> prog_valid p -> wf s -> Inv (stack s) a -> utf8_ok s ->
     exec {| memchr := true; fixed3 := true; fixedlim := l1 |} E fuel p s =
     exec {| memchr := false; fixed3 := f2; fixedlim := l2 |} E fuel p s).

Definition C03_statement_proved_part : Prop :=
  C03_sequence_clause /\ C03_lookahead_clause /\ C03_rule_clause /\ C03_frame_clause /\
  C03_primitive_clause /\ C03_byte_clause.

Theorem C03_combinators_partial : C03_statement_proved_part.
Proof.
  split; [exact sequence_err_restores|]. split; [split; [exact lookahead_restores|exact exec_quiet]|].
  split; [exact rule_contract|]. split; [exact exec_post|].
  split.
  - split; [exact match_string_contract|]. split; [exact match_insensitive_contract|].
    split; [exact match_range_contract|]. split; [exact match_char_by_contract|].
    split; [exact skip_chars|exact skip_until_basic_spec].
  - split; [exact exec_boundary|exact exec_memchr_eq_basic].
Qed.

(* the memchr arm as it was before the fix: commit is refuted (kept as a regression witness) *)
Theorem C03_memchr_unfixed_refuted :
  skip_until_basic [120%N; 120%N; 97%N] 0 [[97%N]; [98%N]; []] = 0 /\
  skip_until_memchr false [120%N; 120%N; 97%N] 0 [[97%N]; [98%N]; []] = Some 2.
Proof. vm_compute. auto. Qed.

(* The same sequence clause with the tokens compared EXACTLY (tags included) is false:
   rule(2, "a") ; sequence(tag_node(0) ; fail)  leaves tag 0 on the earlier End token. *)
Definition C03_sequence_clause_exact : Prop :=
  forall cfg E fuel p s a s', wf s -> Inv (stack s) a ->
    exec cfg E fuel (PSequence p) s = RErr s' -> queue s' = queue s.

Definition tag_witness_prefix : prog := PRule 2 (PPrim (MMatchString [97%N])).
Definition tag_witness : prog := PSequence (PAndThen (PPrim (MTagNode 0)) (PPrim MErr)).
Definition witness_cfg : config := {| memchr := true; fixed3 := true; fixedlim := false |}.

Theorem C03_sequence_tag_refuted : ~ C03_sequence_clause_exact.
Proof.
  intros H.
  pose (s1 := match exec witness_cfg (fun _ => None) 10 tag_witness_prefix (init [97%N] None false) with ROk s => s | _ => init [] None false end).
  assert (W : wf s1) by (vm_compute; repeat constructor).
  assert (I : Inv (stack s1) (@sempty (list byte))) by (vm_compute; auto).
  specialize (H witness_cfg (fun _ => None) 10 (PAndThen (PPrim (MTagNode 0)) (PPrim MErr)) s1 _
                (match exec witness_cfg (fun _ => None) 10 tag_witness s1 with RErr s => s | _ => s1 end) W I eq_refl).
  vm_compute in H. discriminate H.
Qed.

(* non-vacuity: a reachable state with tokens, a non-empty stack and a nested snapshot in which a
   failing sequence really had moved position, queue and stack before failing *)
Example C03_example_restore :
  let p := PAndThen (PStackPush (PRule 1 (PPrim (MMatchString [97%N]))))
            (POptional (PSequence (PAndThen (PRule 2 (PPrim (MMatchString [98%N])))
                                  (PAndThen (PPrim MStackPop) (PPrim MErr))))) in
  match exec witness_cfg (fun _ => None) 20 p (init [97%N; 98%N] None false) with
  | ROk s => pos s = 1 /\ length (queue s) = 2 /\ cache (stack s) = [[97%N]]
  | _ => False
  end.
Proof. vm_compute. auto. Qed.

(* (7) reference clause: "the whole observable outcome equals that of a direct executable reading
   of these documented contracts, with and without the memchr-accelerated search".
   Ref.rexec is that reading (plain stack, no counters, no bookkeeping; a failed sequence / any
   look-ahead return the state they were given); abs forgets what the documentation does not
   mention and reads the snapshot stack through its live contents.
   The FULL statement is false, for the one known reason (C03-tag-in-failed-sequence): *)
Definition C03_reference_clause_full : Prop :=
  forall cfg E fuel p s a, wf s -> Inv (stack s) a -> limit s = None ->
    abs_res (exec cfg E fuel p s) = rexec cfg E fuel p (abs s).

Theorem C03_reference_full_refuted : ~ C03_reference_clause_full.
Proof. exact exec_refines_ref_refuted. Qed.

(* What holds, for every configuration, environment, fuel, program and start state:
   (a) EXACT equality with the reference in which the failure clause of `sequence` alone is read
       as coded (tokens = queue truncated to its old length, so a tag written on the last old
       token survives): this is the only clause where code and documentation part;
   (b) exact equality with the fully documented reference for programs (and closures) that
       never call tag_node  [KnownClass = "calls tag_node"];
   (c) equality with the fully documented reference up to the node tags, for all programs;
   (d) the reference outcome does not depend on the memchr feature, and the code built with
       memchr refines the reference that searches with the plain loop. *)
Definition C03_reference_clause : Prop :=
  (forall cfg E fuel p s a, wf s -> Inv (stack s) a -> limit s = None ->
     abs_res (exec cfg E fuel p s) = rexec_gen TagLeak cfg E fuel p (abs s)) /\
  (forall cfg E fuel p s a, notag_env E -> notag p = true -> wf s -> Inv (stack s) a -> limit s = None ->
     abs_res (exec cfg E fuel p s) = rexec cfg E fuel p (abs s)) /\
  (forall cfg E fuel p s a, wf s -> Inv (stack s) a -> limit s = None ->
     rreq (abs_res (exec cfg E fuel p s)) (rexec cfg E fuel p (abs s))) /\
  (forall cfg1 cfg2 E fuel p s a, cfg_ok cfg1 -> cfg_ok cfg2 -> env_valid E -> prog_valid p ->
     wf s -> Inv (stack s) a -> utf8_ok s -> limit s = None ->
     rexec_gen TagLeak cfg1 E fuel p (abs s) = rexec_gen TagLeak cfg2 E fuel p (abs s)) /\
  (forall E fuel p s a l1 l2 f2, env_valid E -> prog_valid p -> wf s -> Inv (stack s) a -> utf8_ok s -> limit s = None ->
     abs_res (exec {| memchr := true; fixed3 := true; fixedlim := l1 |} E fuel p s) =
     rexec_gen TagLeak {| memchr := false; fixed3 := f2; fixedlim := l2 |} E fuel p (abs s)).

Theorem C03_reference : C03_reference_clause.
Proof.
  split; [exact exec_refines_tagleak|]. split; [exact exec_refines_ref_notag|].
  split; [exact exec_refines_ref_untag|]. split; [exact ref_independent_of_memchr|exact exec_memchr_refines_plain_ref].
Qed.

(* from the initial state of a parse, with or without error detail *)
Theorem C03_reference_init : forall cfg E fuel p inp detail,
  abs_res (run_state cfg E fuel p inp None detail) = rexec_gen TagLeak cfg E fuel p (rinit inp) /\
  rreq (abs_res (run_state cfg E fuel p inp None detail)) (rexec cfg E fuel p (rinit inp)) /\
  (notag_env E -> notag p = true -> abs_res (run_state cfg E fuel p inp None detail) = rexec cfg E fuel p (rinit inp)).
Proof.
  intros. split; [apply exec_refines_tagleak_init|]. split; [apply exec_refines_ref_untag_init|].
  intros. now apply exec_refines_ref_init.
Qed.

Print Assumptions C03_combinators_partial.
Print Assumptions C03_reference.
Print Assumptions C03_reference_full_refuted.
Print Assumptions C03_reference_init.
Print Assumptions C03_sequence_tag_refuted.
Print Assumptions C03_memchr_unfixed_refuted.
