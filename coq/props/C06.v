(* C06 - validation guarantees termination and accepts well-formed grammars.
   Model of meta/src/validator.rs: PV.Valid.Validator (cfg_current = the code as it is; cfg_fixed =
   with fixes/C06-1-left-recursion-check-expr.patch and fixes/C06-2-node-tag-traversal.patch).
   Semantics: Layer S (PV.Peg.Spec.eval; SFuel = did not terminate within the fuel).
   The keyword / built-in name sets are parameters (kw, builtin): the theorems hold for every
   choice; the correspondence runs instantiate them with the lists of validator.rs.            *)
From Coq Require Import String Ascii List Arith NArith ZArith Bool.
Import ListNotations.
Require Import PV.Comb.PState PV.Peg.Ast PV.Peg.Spec.
Require Import PV.Valid.Validator PV.Valid.Known PV.Valid.Nullable PV.Valid.TermBase PV.Valid.KnownProofs PV.Valid.Accepted PV.Valid.Accept PV.Valid.Refute.

(* parsing any input from any rule terminates (both feature sets, any Unicode property table) *)
Definition terminates (G : grammar) : Prop :=
  forall (extras : bool) (uprop : name -> option (N -> bool)) (w : list byte) (r : name),
  exists fuel, eval G extras uprop w fuel NonAtomic true (EIdent r) 0 [] <> SFuel.
(* the opposite, for one start rule and one input: out of fuel for EVERY fuel *)
Definition diverges (G : grammar) (r : name) (w : list byte) : Prop :=
  forall (extras : bool) (uprop : name -> option (N -> bool)) (fuel : nat),
  eval G extras uprop w fuel NonAtomic true (EIdent r) 0 [] = SFuel.

Definition C06_termination (cfg : vcfg) : Prop :=
  forall (kw builtin : name -> bool) (G : grammar),
  validate kw builtin cfg G = [] -> no_stack_builtins G = true -> terminates G.

Definition C06_acceptance (cfg : vcfg) : Prop :=
  forall (kw builtin uprop_name : name -> bool) (G : grammar),
  wellformed_names kw builtin G -> legal_counts G -> tags_ok builtin G ->
  starts_with_char_everywhere uprop_name G ->
  validate kw builtin cfg G = [].

(* THE STATEMENT (for a validator configuration) *)
Definition C06_statement (cfg : vcfg) : Prop := C06_termination cfg /\ C06_acceptance cfg.

(* the statement restricted by the decidable known class (implicit WHITESPACE / COMMENT reaching a `!` rule) *)
Definition C06_termination_outside_known_class (cfg : vcfg) : Prop :=
  forall (kw builtin : name -> bool) (G : grammar),
  validate kw builtin cfg G = [] -> no_stack_builtins G = true -> ws_reaches_nonatomic G = false -> terminates G.
Definition C06_statement_outside_known_class (cfg : vcfg) : Prop :=
  C06_termination_outside_known_class cfg /\ C06_acceptance cfg.

(* ------------------------------------------------------------------------------------------ *)
(* (<=) holds for the code as it is and for the repaired code                                  *)
(* ------------------------------------------------------------------------------------------ *)
Theorem C06_acceptance_any : forall cfg, C06_acceptance cfg.
Proof. intros cfg kw builtin uprop_name G H1 H2 H3 H4. exact (acceptance kw builtin uprop_name G cfg H1 H2 H3 H4). Qed.

(* the cycle condition in the words of the property: "every path from a rule back to itself begins by matching at least one
   character" - a reference from which the rule can be reached again (through references at any position) is never unguarded *)
Theorem C06_acceptance_as_worded : forall cfg (kw builtin uprop_name : name -> bool) (G : grammar),
  wellformed_names kw builtin G -> legal_counts G -> tags_ok builtin G ->
  (forall r x, In r G -> rep_body (rexpr r) x -> starts_with_char uprop_name G x) ->
  (forall r, In r G -> is_ws_or_comment (rname r) = true -> starts_with_char uprop_name G (rexpr r)) ->
  (forall r l r', In r G -> In (EChoice l r') (subexprs (rexpr r)) -> starts_with_char uprop_name G l) ->
  every_cycle_starts_with_char uprop_name G ->
  validate kw builtin cfg G = [].
Proof.
  intros cfg kw builtin uprop_name G H1 H2 H3 A B C D.
  apply (C06_acceptance_any cfg kw builtin uprop_name G H1 H2 H3).
  split; [exact A|]. split; [exact B|]. split; [exact C|]. now apply cycles_text.
Qed.

(* the model itself is total: its fuel (number of rules + 1) never runs out, no panic site of validator.rs is reached *)
Theorem C06_model_total : forall (kw builtin : name -> bool) cfg (G : grammar),
  ~ In VFuel (validate kw builtin cfg G) /\ ~ In VPanic (validate kw builtin cfg G).
Proof. intros. apply validate_total; exact (fun _ => false). Qed.

(* ------------------------------------------------------------------------------------------ *)
(* (=>) is FALSE for the code as it is: four witnesses (DESIGN.md section 4 row 2)              *)
(* ------------------------------------------------------------------------------------------ *)
Definition pest_keywords : list name :=
  [nm "_"; nm "ANY"; nm "DROP"; nm "EOI"; nm "PEEK"; nm "PEEK_ALL"; nm "POP"; nm "POP_ALL"; nm "PUSH"; nm "SOI"].
Definition kw0 (n : name) : bool := mem n pest_keywords.
Definition builtin0 (n : name) : bool :=
  mem n [nm "ANY"; nm "DROP"; nm "EOI"; nm "PEEK"; nm "PEEK_ALL"; nm "POP"; nm "POP_ALL"; nm "SOI"; nm "ASCII_DIGIT";
         nm "ASCII_NONZERO_DIGIT"; nm "ASCII_BIN_DIGIT"; nm "ASCII_OCT_DIGIT"; nm "ASCII_HEX_DIGIT"; nm "ASCII_ALPHA_LOWER";
         nm "ASCII_ALPHA_UPPER"; nm "ASCII_ALPHA"; nm "ASCII_ALPHANUMERIC"; nm "ASCII"; nm "NEWLINE"].

Definition accepted_and_diverges (cfg : vcfg) (G : grammar) (r : name) (w : list byte) : Prop :=
  validate kw0 builtin0 cfg G = [] /\ no_stack_builtins G = true /\ diverges G r w.

(* a = { a? ~ "x" } *)
Theorem C06_witness_opt : forall w, accepted_and_diverges cfg_current W_opt ra w.
Proof. intros w. split; [vm_compute; reflexivity|]. split; [reflexivity|]. intros extras uprop fuel. apply W_opt_loops. Qed.
(* a = { !a ~ "x" } *)
Theorem C06_witness_neg : forall w, accepted_and_diverges cfg_current W_neg ra w.
Proof. intros w. split; [vm_compute; reflexivity|]. split; [reflexivity|]. intros extras uprop fuel. apply W_neg_loops. Qed.
(* a = { a{2} } *)
Theorem C06_witness_exact : forall w, accepted_and_diverges cfg_current W_exact ra w.
Proof. intros w. split; [vm_compute; reflexivity|]. split; [reflexivity|]. intros extras uprop fuel. apply W_exact_loops. Qed.
(* a = { b ~ "x" }  b = { a? } *)
Theorem C06_witness_mutual : forall w, accepted_and_diverges cfg_current W_mutual ra w.
Proof. intros w. split; [vm_compute; reflexivity|]. split; [reflexivity|]. intros extras uprop fuel. apply W_mutual_loops. Qed.

Lemma diverges_not_terminates G r w : diverges G r w -> ~ terminates G.
Proof. intros Hd Ht. destruct (Ht false (fun _ => None) w r) as [fuel Hf]. apply Hf. apply Hd. Qed.

Theorem C06_termination_refuted : ~ C06_termination cfg_current.
Proof.
  intros H. destruct (C06_witness_opt []) as (Hv & Hs & Hd).
  exact (diverges_not_terminates _ _ _ Hd (H kw0 builtin0 W_opt Hv Hs)).
Qed.
Theorem C06_statement_refuted : ~ C06_statement cfg_current.
Proof. intros [H _]. exact (C06_termination_refuted H). Qed.

(* the repaired check_expr rejects the four witnesses *)
Example C06_fixed_rejects_witnesses :
  validate kw0 builtin0 cfg_fixed W_opt = [VLeftRec [ra; ra]] /\ validate kw0 builtin0 cfg_fixed W_neg = [VLeftRec [ra; ra]] /\
  validate kw0 builtin0 cfg_fixed W_exact = [VLeftRec [ra; ra]] /\
  validate kw0 builtin0 cfg_fixed W_mutual = [VLeftRec [ra; rb; ra]; VLeftRec [rb; ra; rb]].
Proof. vm_compute. repeat split; reflexivity. Qed.

(* ------------------------------------------------------------------------------------------ *)
(* (=>) for the repaired validator: false in full (implicit skip), true outside the known class  *)
(* ------------------------------------------------------------------------------------------ *)
(* r = { "x" ~ "y" }  WHITESPACE = { n }  n = !{ "" ~ " " }, from the rule WHITESPACE, any input *)
Theorem C06_witness_ws : forall w, accepted_and_diverges cfg_fixed W_ws (nm "WHITESPACE") w /\ ws_reaches_nonatomic W_ws = true.
Proof.
  intros w. split; [|vm_compute; reflexivity].
  split; [vm_compute; reflexivity|]. split; [reflexivity|]. intros extras uprop fuel. apply W_ws_loops.
Qed.
Theorem C06_termination_fixed_refuted : ~ C06_termination cfg_fixed.
Proof.
  intros H. destruct (C06_witness_ws []) as [(Hv & Hs & Hd) _].
  exact (diverges_not_terminates _ _ _ Hd (H kw0 builtin0 W_ws Hv Hs)).
Qed.

(* grammar-extras: without fixes/C06-2 a repetition under a node tag is never validated *)
Theorem C06_witness_tag : forall w, accepted_and_diverges {| fix_lr := true; fix_tag := false |} W_tag (nm "r") w /\
  validate kw0 builtin0 cfg_fixed W_tag = [VRepNF].
Proof.
  intros w. split; [|vm_compute; reflexivity].
  split; [vm_compute; reflexivity|]. split; [reflexivity|]. intros extras uprop fuel. apply W_tag_loops.
Qed.

Theorem C06_termination_fixed : C06_termination_outside_known_class cfg_fixed.
Proof.
  intros kw builtin G Hv Hs Hk extras uprop w r.
  apply (termination_fixed kw builtin cfg_fixed G eq_refl (or_introl eq_refl) Hv Hs (not_known_ws G Hk)).
Qed.

(* the same with only the check_expr repair, for grammars without node tags (default feature set) *)
Theorem C06_termination_fixed_lr_only :
  forall kw builtin G, validate kw builtin {| fix_lr := true; fix_tag := false |} G = [] -> no_tags G = true ->
  no_stack_builtins G = true -> ws_reaches_nonatomic G = false -> terminates G.
Proof.
  intros kw builtin G Hv Ht Hs Hk extras uprop w r.
  apply (termination_fixed kw builtin {| fix_lr := true; fix_tag := false |} G eq_refl (or_intror Ht) Hv Hs (not_known_ws G Hk)).
Qed.

Theorem C06_fixed_outside_known_class : C06_statement_outside_known_class cfg_fixed.
Proof. split; [exact C06_termination_fixed|apply C06_acceptance_any]. Qed.

(* ------------------------------------------------------------------------------------------ *)
(* non-vacuity                                                                                *)
(* ------------------------------------------------------------------------------------------ *)
(* e = { "(" ~ e ~ ")" | "x"+ ~ e? }   WHITESPACE = _{ " " } : recursive, with repetition, accepted *)
Definition G_ok : grammar :=
  [{| rname := nm "e"; rty := RNormal;
      rexpr := EChoice (ESeq (EStr (nm "(")) (ESeq (EIdent (nm "e")) (EStr (nm ")")))) (ESeq (ERepOnce (EStr (nm "x"))) (EOpt (EIdent (nm "e")))) |};
   {| rname := nm "WHITESPACE"; rty := RSilent; rexpr := EStr (nm " ") |}].
Example C06_nonvacuous_accepts :
  validate kw0 builtin0 cfg_current G_ok = [] /\ validate kw0 builtin0 cfg_fixed G_ok = [] /\
  no_stack_builtins G_ok = true /\ ws_reaches_nonatomic G_ok = false.
Proof. vm_compute. repeat split; reflexivity. Qed.
Example C06_nonvacuous_terminates : terminates G_ok.
Proof. destruct C06_nonvacuous_accepts as (_ & H2 & H3 & H4). exact (C06_termination_fixed kw0 builtin0 G_ok H2 H3 H4). Qed.
(* both verdicts occur, and every check can fire *)
Example C06_nonvacuous_rejects :
  validate kw0 builtin0 cfg_current [{| rname := ra; rty := RNormal; rexpr := ESeq (EIdent ra) lit_x |}] = [VLeftRec [ra; ra]] /\
  validate kw0 builtin0 cfg_current [{| rname := ra; rty := RNormal; rexpr := ERep (EOpt lit_x) |}] = [VRepNF] /\
  validate kw0 builtin0 cfg_current [{| rname := ra; rty := RNormal; rexpr := ERep (ENegPred lit_x) |}] = [VRepNP] /\
  validate kw0 builtin0 cfg_current [{| rname := ra; rty := RNormal; rexpr := EChoice (EStr []) lit_x |}] = [VChoNF] /\
  validate kw0 builtin0 cfg_current [{| rname := nm "WHITESPACE"; rty := RNormal; rexpr := EIdent (nm "SOI") |}] = [VSpNP (nm "WHITESPACE")] /\
  validate kw0 builtin0 cfg_current [{| rname := nm "ANY"; rty := RNormal; rexpr := EIdent rb |}] = [VKeyword (nm "ANY"); VUndef rb].
Proof. vm_compute. repeat split; reflexivity. Qed.
(* the hypotheses of (<=) are satisfiable by a recursive grammar: e = { "(" ~ e ~ ")" | "x" } *)
Definition G_paren : grammar :=
  [{| rname := nm "e"; rty := RNormal; rexpr := EChoice (ESeq (EStr (nm "(")) (ESeq (EIdent (nm "e")) (EStr (nm ")")))) (EStr (nm "x")) |}].
Example C06_nonvacuous_acceptance_hyps :
  wellformed_names kw0 builtin0 G_paren /\ legal_counts G_paren /\ tags_ok builtin0 G_paren /\ starts_with_char_everywhere (fun _ => false) G_paren.
Proof.
  assert (Hsw : forall G s, s <> [] -> starts_with_char (fun _ => false) G (EStr s)) by (intros; now constructor).
  split; [|split; [|split]].
  - split; [|split].
    + intros r [<-|[]]. reflexivity.
    + repeat constructor. intros [].
    + intros r n [<-|[]] Hn. cbn in Hn. destruct Hn as [<-|[]]. left. cbn. auto.
  - intros r [<-|[]]. reflexivity.
  - intros r x t [<-|[]] Hn. cbn in Hn. repeat (destruct Hn as [Hn|Hn]; [discriminate|]). destruct Hn.
  - split; [|split; [|split]].
    + intros r x [<-|[]] [Hn|[Hn|[n Hn]]]; cbn in Hn; repeat (destruct Hn as [Hn|Hn]; [discriminate|]); destruct Hn.
    + intros r [<-|[]] Hs. discriminate.
    + intros r l r' [<-|[]] Hn. cbn in Hn. destruct Hn as [Hn|Hn].
      * inversion Hn; subst. apply SwSeq. apply Hsw. discriminate.
      * repeat (destruct Hn as [Hn|Hn]; [discriminate|]). destruct Hn.
    + (* no unguarded reference at all: "(" guards the only reference *)
      assert (Hno : forall v y, ~ uedge (fun _ => false) G_paren v y).
      { intros v y (b & Hb & Hu). unfold Validator.lookup in Hb.
        destruct (find_rule G_paren v) as [r0|] eqn:Ef; [|discriminate Hb]. inversion Hb; subst b. clear Hb.
        apply Nullable.find_rule_In in Ef. destruct Ef as [[<-|[]] _]. cbn [rexpr] in Hu.
        inversion Hu; subst.
        - inversion H2 as [| ? ? ? HL | ? ? ? HN HR | | | | | | | | | | | | |]; subst; [inversion HL|]. apply HN. apply Hsw. discriminate.
        - inversion H2. }
      intros x Hp. inversion Hp; subst; eapply Hno; eauto.
Qed.
Example C06_nonvacuous_acceptance : validate kw0 builtin0 cfg_fixed G_paren = [].
Proof.
  destruct C06_nonvacuous_acceptance_hyps as (H1 & H2 & H3 & H4).
  exact (C06_acceptance_any cfg_fixed kw0 builtin0 (fun _ => false) G_paren H1 H2 H3 H4).
Qed.

Print Assumptions C06_acceptance_any.
Print Assumptions C06_acceptance_as_worded.
Print Assumptions C06_model_total.
Print Assumptions C06_termination_refuted.
Print Assumptions C06_statement_refuted.
Print Assumptions C06_witness_neg.
Print Assumptions C06_witness_exact.
Print Assumptions C06_witness_mutual.
Print Assumptions C06_termination_fixed_refuted.
Print Assumptions C06_witness_tag.
Print Assumptions C06_termination_fixed.
Print Assumptions C06_termination_fixed_lr_only.
Print Assumptions C06_fixed_outside_known_class.
