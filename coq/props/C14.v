(* C14 - the bootstrapped grammar parser is the parser its grammar file denotes.
   Regenerated on every run from /repo (tools/sexp2v.py, tools/pest2v.py):
     gen/MetaOpt.v        the optimized rules the REAL optimizer printed for meta/src/grammar.pest
     gen/MetaCheckedIn.v  the closure table read (syn reader) in the CHECKED-IN meta/src/grammar.rs
   (1) byte-identity of the regenerated file and (4) the differential runs are in the driver;
   here: (2) every function of the checked-in file IS gen_rule / gen_skip / the built-in of the
   generator model for that grammar, (3) the meta-grammar is in class H, hence C02 instantiates:
   on every text, for every rule, the checked-in parser and the VM on the current optimizer's
   output return the same tokens / the same error.                                            *)
From Coq Require Import List Arith NArith ZArith Bool String Ascii Lia.
Import ListNotations.
Require Import PV.Stack.Model PV.Comb.PState PV.Comb.Bytes PV.Comb.Prog PV.Comb.Exec PV.Peg.Ast PV.Peg.VmCompile
               PV.Gen.GenCompile PV.Gen.ClassH PV.Gen.Lookup PV.Gen.Rel PV.Gen.Equiv PV.Gen.EnvSub
               PV.gen.MetaOpt PV.gen.MetaCheckedIn.
Local Open Scope string_scope.

Definition ci_env : env := table_env checked_in_closures.
Definition meta_gen_env : env := gen_env meta_opt [].
Definition meta_vm_env : env := vm_env meta_opt (ulookup []).
Definition meta_names : list name := map oname meta_opt.

(* the shape of the checked-in file *)
Definition C14_structure : Prop :=
  checked_in_all_rules = meta_names /\
  checked_in_variants = nm "EOI" :: meta_names /\
  checked_in_start = map (fun x => (x, x)) (meta_names ++ [nm "EOI"]) /\
  Forall (fun kp => meta_gen_env (fst kp) = Some (snd kp)) checked_in_closures /\        (* each fn = the generator model's *)
  forallb (fun k => match ci_env k with Some _ => true | None => false end) (seq 0 (List.length meta_opt)) = true /\   (* a fn per rule *)
  forallb (fun kp => closedb checked_in_closures (snd kp)) checked_in_closures = true.  (* every path called resolves *)

Definition C14_statement : Prop :=
  in_H meta_opt false = true /\ C14_structure /\
  forall (cfg : config) (r : name) (input : list byte) (detail : bool) (f1 f2 : nat),
    has_orule meta_opt r = true ->
    let rc := exec cfg ci_env f1 (gen_start meta_opt [] r) (init input None detail) in
    let rv := exec cfg meta_vm_env f2 (vm_start meta_opt (ulookup []) r) (init input None detail) in
    rc <> ROutOfFuel -> rv <> ROutOfFuel -> obs rc = obs rv /\ outcome_of cfg rc = outcome_of cfg rv.

Example meta_in_H : in_H meta_opt false = true.
Proof. vm_compute. reflexivity. Qed.

Lemma meta_structure : C14_structure.
Proof.
  unfold C14_structure. split; [vm_compute; reflexivity|]. split; [vm_compute; reflexivity|].
  split; [vm_compute; reflexivity|]. split; [|split; vm_compute; reflexivity].
  unfold checked_in_closures. repeat (apply Forall_cons; [vm_compute; reflexivity|]). apply Forall_nil.
Qed.

Theorem C14_checked_in_parser_eq_vm : C14_statement.
Proof.
  split; [exact meta_in_H|]. split; [exact meta_structure|].
  intros cfg r input detail f1 f2 Hr rc rv Hc Hv.
  destruct meta_structure as (_ & _ & _ & Hgen & Hdef & Hcl).
  assert (Hsub : forall k p, ci_env k = Some p -> meta_gen_env k = Some p).
  { intros k p Hk. apply assoc_in in Hk. rewrite Forall_forall in Hgen. apply (Hgen (k, p) Hk). }
  assert (Hclosed : forall k p, ci_env k = Some p -> closed ci_env p).
  { intros k p Hk. apply assoc_in in Hk. rewrite forallb_forall in Hcl. apply closedb_closed. apply (Hcl (k, p) Hk). }
  assert (Hstart : closed ci_env (gen_start meta_opt [] r)).
  { unfold gen_start, gen_call. rewrite Hr. intros k [<-|[]].
    destruct (has_orule_first meta_opt r Hr) as (_ & _ & _ & Hlt).
    rewrite forallb_forall in Hdef. specialize (Hdef (orule_id meta_opt r) ltac:(apply in_seq; lia)).
    destruct (ci_env (orule_id meta_opt r)); [discriminate|discriminate Hdef]. }
  assert (E : rc = exec cfg meta_gen_env f1 (gen_start meta_opt [] r) (init input None detail)).
  { unfold rc. apply exec_sub; assumption. }
  rewrite E in Hc |- *.
  destruct (gen_vm_agree cfg meta_opt [] false meta_in_H r input detail f1 f2 Hc) as [_ H].
  specialize (H Hv). split; [now apply rrel_obs|now apply rrel_outcome].
Qed.

(* non-vacuity: the checked-in closure table really parses a small grammar text, rule by rule *)
Definition wcfg : config := {| memchr := true; fixed3 := true; fixedlim := false |}.
Example C14_example_parses :
  match outcome_of wcfg (exec wcfg ci_env 400 (gen_start meta_opt [] (nm "grammar_rules")) (init (nm "a = { ""x"" ~ b* }") None false)) with
  | OPairs q => Nat.ltb 20 (List.length q)
  | _ => false
  end = true /\
  match outcome_of wcfg (exec wcfg ci_env 400 (gen_start meta_opt [] (nm "grammar_rules")) (init (nm "a = { ""x"" ~ }") None false)) with
  | OParsingError _ _ p => Nat.eqb p 12
  | _ => false
  end = true.
Proof. vm_compute. split; reflexivity. Qed.

Print Assumptions C14_checked_in_parser_eq_vm.
