(* C05 - optimizer passes preserve the meaning of every grammar.
   Vocabulary: PV.Opt.Statement (same_meaning, pass_preserves, pipeline_preserves, restorer_ok, valid_grammar). *)
From Coq Require Import List Arith NArith ZArith Bool String.
Import ListNotations.
Require Import PV.Comb.PState PV.Comb.Bytes PV.Comb.Utf8 PV.Iter.Queue PV.Peg.Ast PV.Peg.Spec PV.Peg.SpecFacts
  PV.Opt.Sem PV.Opt.SemCong PV.Opt.MapExpr PV.Opt.List PV.Opt.Restore PV.Opt.Pipeline PV.Opt.Statement
  PV.Opt.ListProofs PV.Opt.RestoreWitness PV.Opt.RestoreRefuted PV.Opt.PipelineProofs.

(* The full statement, for the code as it is (fixpop = fixmap = false: restorer.rs and the OptimizedExpr traversals as shipped):
   for every feature set and every valid grammar, each of the six AST passes applied on its own (as verif_apply_pass does)
   and their composition (optimize up to the conversion) leave Peg.Spec.eval unchanged - same definite result for every
   expression, atomicity, emit flag, boundary position, stack and valid input, at whatever fuel suffices - and in
   restore_on_err (to_optimized G) no alternative (child of ?, of *, side of |) can fail and leave a modified stack. *)
Definition C05_statement : Prop := C05_statement_for false false.

(* ---------- refuted as it stands: the lister (known finding, pinned by optimizer::tests::lister) ---------- *)
Lemma valid_a : valid_utf8 (nm "a"). Proof. exists [97%N]. split; [repeat constructor; left; reflexivity|reflexivity]. Qed.
Lemma valid_b : valid_utf8 (nm "b"). Proof. exists [98%N]. split; [repeat constructor; left; reflexivity|reflexivity]. Qed.
Lemma valid_abab : valid_utf8 (nm "abab").
Proof. exists [97%N; 98%N; 97%N; 98%N]. split; [repeat constructor; left; reflexivity|reflexivity]. Qed.
Lemma lister_G_valid : valid_grammar lister_G.
Proof.
  split; [|split].
  - intros r [<-|[]]; cbn. repeat constructor; auto using valid_a, valid_b.
  - intros r [<-|[]]; reflexivity.
  - repeat constructor. intros [].
Qed.

Theorem C05_lister_refuted : ~ (forall extras G, valid_grammar G -> pass_preserves extras 5 G).
Proof.
  intros H. specialize (H false lister_G lister_G_valid).
  set (G' := [{| rname := nm "r"; rty := RNormal; rexpr := ESeq (EStr (nm "a")) (ERep (ESeq (EStr (nm "b")) (EStr (nm "a")))) |}]).
  specialize (H false G' ltac:(vm_compute; reflexivity) (fun _ => None) lister_input NonAtomic true (EIdent (nm "r")) 0 []
                (SMatch 3 [] [Node 0 None 0 3 []]) valid_abab ltac:(constructor) ltac:(reflexivity) ltac:(constructor)).
  destruct H as [H _]. destruct H as [fuel [E _]].
  - exists 20. split; [vm_compute; reflexivity|discriminate].
  - assert (E20 : eval lister_G false (fun _ => None) lister_input 20 NonAtomic true (EIdent (nm "r")) 0 [] = SFail) by (vm_compute; reflexivity).
    pose proof (eval_deterministic _ _ _ _ _ _ _ _ _ _ _ _ _ E E20 ltac:(discriminate) ltac:(discriminate)). discriminate.
Qed.

Theorem C05_statement_refuted : ~ C05_statement.
Proof. intros H. apply C05_lister_refuted. intros extras G V. destruct (H extras G V) as [P _]. apply P. repeat constructor. Qed.

(* ---------- refuted as it stands: restore_on_err (fixes/C05-1, fixes/C05-2) ---------- *)
Theorem C05_restorer_pop_all_refuted :
  (forall extras OG, to_optimized_rules extras false false false G_popall = Some OG -> ~ restorer_ok false false OG) /\
  vm_accepts false false false G_popall (nm "abbX") 60 = Some true /\ spec_accepts false G_popall (nm "abbX") 60 = Some false /\
  vm_accepts false true false G_popall (nm "abbX") 60 = Some false.
Proof. split; [exact restorer_pop_all_not_ok|]. repeat split; vm_compute; reflexivity. Qed.

Theorem C05_restorer_map_refuted :
  (forall OG, to_optimized_rules true true false false G_nodetag = Some OG -> ~ restorer_ok true false OG) /\
  vm_accepts true true false G_reponce (nm "xyx") 60 = Some true /\ spec_accepts true G_reponce (nm "xyx") 60 = Some false /\
  vm_accepts true true false G_nodetag (nm "xyx") 60 = Some true /\ spec_accepts true G_nodetag (nm "xyx") 60 = Some false /\
  vm_accepts true true false G_itertag (nm "aba") 60 = Some true /\ spec_accepts true G_itertag (nm "aba") 60 = Some false /\
  vm_accepts true true true G_reponce (nm "xyx") 60 = Some false /\ vm_accepts true true true G_nodetag (nm "xyx") 60 = Some false /\
  vm_accepts true true true G_itertag (nm "aba") 60 = Some false.
Proof. split; [exact restorer_map_not_ok|]. repeat split; vm_compute; reflexivity. Qed.

(* ---------- proved ---------- *)
(* Each AST pass on its own, for every valid grammar and both feature sets; the lister outside its class (where the
   rewrite fires it is refuted above). *)
Theorem C05_passes : forall extras G, valid_grammar G ->
  pass_preserves extras 0 G /\ pass_preserves extras 1 G /\ pass_preserves extras 2 G /\ pass_preserves extras 3 G /\
  pass_preserves extras 4 G /\ (lister_applies G = false -> pass_preserves extras 5 G).
Proof.
  intros extras G V. pose proof V as (VL & VN & VU). split; [|split; [|split; [|split; [|split]]]].
  - apply rotate_preserves.
  - now apply skip_preserves.
  - apply unroll_preserves.
  - now apply concat_preserves.
  - apply factor_preserves.
  - apply list_preserves_outside_class.
Qed.

(* The composition rotate ; skip (map = the original rules) ; unroll ; concatenate ; factor ; list, rule by rule as
   `optimize` chains them, for every valid grammar outside the decidable known class (the lister fires on the output of
   the five passes before it). *)
Theorem C05_pipeline_outside_lister_class : forall extras G, valid_grammar G -> (forall ovf, lister_class ovf extras G = false) -> pipeline_preserves extras G.
Proof. exact pipeline_preserves_outside_class. Qed.

(* restore_on_err with fixes/C05-1 and fixes/C05-2 applied (the model flags the correspondence selects for such a tree):
   in restore_on_err (to_optimized G) no alternative can fail and leave a modified stack, whatever the feature set, the
   memchr configuration, the fuel, the state it is started in and the grammar rule it belongs to. *)
Theorem C05_restorer_fixed : forall extras G, valid_grammar G ->
  forall OG, to_optimized_rules extras true true false G = Some OG -> restorer_ok true true OG.
Proof. exact restorer_fixed. Qed.

(* the statement for the patched code, outside the known class *)
Theorem C05_fixed_outside_lister_class : forall extras G, valid_grammar G -> lister_applies G = false -> (forall ovf, lister_class ovf extras G = false) ->
  (forall k, k <= 5 -> pass_preserves extras k G) /\ pipeline_preserves extras G /\
  (forall OG, to_optimized_rules extras true true false G = Some OG -> restorer_ok true true OG).
Proof.
  intros extras G V L1 L2. destruct (C05_passes extras G V) as (P0 & P1 & P2 & P3 & P4 & P5). split; [|split].
  - intros k Hk. destruct k as [|[|[|[|[|[|k]]]]]]; auto. exfalso. apply (Nat.nle_succ_0 k). do 5 apply le_S_n in Hk. exact Hk.
  - now apply pipeline_preserves_outside_class.
  - now apply restorer_fixed.
Qed.

(* non-vacuity: the statement speaks about grammars on which the rewrites fire *)
Example rotate_fires : apply_pass false false 0 [{| rname := nm "r"; rty := RNormal; rexpr := ESeq (ESeq (EStr (nm "a")) (EStr (nm "b"))) (EStr (nm "a")) |}]
  = Some [{| rname := nm "r"; rty := RNormal; rexpr := ESeq (EStr (nm "a")) (ESeq (EStr (nm "b")) (EStr (nm "a"))) |}].
Proof. vm_compute. reflexivity. Qed.
Example factor_fires : apply_pass false false 4 [{| rname := nm "r"; rty := RAtomic; rexpr := EChoice (ESeq (EStr (nm "a")) (EStr (nm "b"))) (EStr (nm "a")) |}]
  = Some [{| rname := nm "r"; rty := RAtomic; rexpr := ESeq (EStr (nm "a")) (EOpt (EStr (nm "b"))) |}].
Proof. vm_compute. reflexivity. Qed.
Example concat_fires : apply_pass false false 3 [{| rname := nm "r"; rty := RAtomic; rexpr := ESeq (EInsens (nm "a")) (EInsens (nm "b")) |}]
  = Some [{| rname := nm "r"; rty := RAtomic; rexpr := EInsens (nm "ab") |}].
Proof. vm_compute. reflexivity. Qed.
Example unroll_fires : apply_pass false false 2 [{| rname := nm "r"; rty := RNormal; rexpr := ERepMinMax (EStr (nm "a")) 1 2 |}]
  = Some [{| rname := nm "r"; rty := RNormal; rexpr := ESeq (EStr (nm "a")) (EOpt (EStr (nm "a"))) |}].
Proof. vm_compute. reflexivity. Qed.
Example skip_fires : apply_pass false false 1 [{| rname := nm "r"; rty := RAtomic; rexpr := ERep (ESeq (ENegPred (EChoice (EStr (nm "a")) (EIdent (nm "s")))) (EIdent (nm "ANY"))) |};
                                       {| rname := nm "s"; rty := RNormal; rexpr := EStr (nm "b") |}]
  = Some [{| rname := nm "r"; rty := RAtomic; rexpr := ESkip [nm "a"; nm "b"] |}; {| rname := nm "s"; rty := RNormal; rexpr := EStr (nm "b") |}].
Proof. vm_compute. reflexivity. Qed.
Example lister_G_is_valid : valid_grammar lister_G. Proof. exact lister_G_valid. Qed.
Example lister_G_in_class : lister_class false false lister_G = true. Proof. vm_compute. reflexivity. Qed.

Print Assumptions C05_lister_refuted.
Print Assumptions C05_statement_refuted.
Print Assumptions C05_restorer_pop_all_refuted.
Print Assumptions C05_restorer_map_refuted.
Print Assumptions C05_passes.
Print Assumptions C05_pipeline_outside_lister_class.
Print Assumptions C05_restorer_fixed.
Print Assumptions C05_fixed_outside_lister_class.
