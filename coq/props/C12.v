(* C12 - a call limit never changes a result silently.
   This file holds ONLY the pinned statements, the closing theorems, the refutation witnesses,
   non-vacuity examples and Print Assumptions.  Model: PV.Comb.Exec (pest/src/parser_state.rs:
   CallLimitTracker = fields calls/limit, inc_call_check_limit = inc_call, state() = outcome_of);
   `fixedlim cfg = true` is state() with fixes/C12-1-state-ok-path.patch, `false` the code as shipped.
   Fuel: every run has its own explicit fuel and is assumed not to run out of it (OOutOfFuel);
   by exec_mono the result of a terminating run does not depend on the fuel. *)
From Coq Require Import List Arith NArith Bool.
Import ListNotations.
Require Import PV.Comb.PState PV.Comb.Bytes PV.Comb.Prog PV.Comb.Exec PV.Comb.CallComm PV.Comb.CallLimit.

(* One case: closure environment E, closure tree p, input, error-detail switch, limit L >= 0
   (set_call_limit(NonZeroUsize) only produces L >= 1; the theorems hold for 0 as well). *)
Definition C12_case (cfg : config) (E : env) (p : prog) (inp : list byte) (detail : bool) (L f1 f2 : nat) : Prop :=
  let a := parse_with cfg E f1 p inp (Some L) detail in        (* the parse with call limit L *)
  let b := parse_with cfg E f2 p inp None detail in            (* the parse with no limit    *)
  a <> OOutOfFuel -> b <> OOutOfFuel ->
  (* clause 1: exactly the unlimited result, or the "call limit reached" error (position unspecified) *)
  (a = b \/ exists ap, a = OCallLimit ap) /\
  (* clause 2: a parse that completes (Ok(pairs) or ParsingError) under L completes identically
     under every larger limit *)
  (completes a -> forall L' f3, L <= L' ->
     parse_with cfg E f3 p inp (Some L') detail <> OOutOfFuel ->
     parse_with cfg E f3 p inp (Some L') detail = a).

(* the full property: all closure trees x inputs x limits *)
Definition C12_statement (cfg : config) : Prop :=
  forall E p inp detail L f1 f2, C12_case cfg E p inp detail L f1 f2.

(* The two decidable classes outside which the statement is proved.
   AbsorbedClass: the limited run absorbed a refusal (repeat/optional/negative look-ahead/or_else turned the
     Err of a refused call into Ok) and the closure handed Ok to state() with the limit hit.
   PanicClass: the limited run does not return at all - it unwinds.  After an absorbed refusal the
     stack can lack an element that the unlimited run pushed; stack_pop/stack_peek then panic as documented. *)
Definition AbsorbedClass cfg E p inp detail L f1 : Prop := absorbed cfg E f1 p inp L detail = true.
Definition PanicClass cfg E p inp detail L f1 : Prop := parse_with cfg E f1 p inp (Some L) detail = OPanic.

Definition shipped : config := {| memchr := true; fixed3 := true; fixedlim := false |}.
Definition repaired : config := {| memchr := true; fixed3 := true; fixedlim := true |}.

(* ---- the code as shipped: refuted ---- *)
(* rule 0 = repeat(rule 1 = match_string "x") on "xxxx", limit 3: Ok with one pair instead of four *)
Definition w_prog : prog := PRule 0 (PRepeat (PRule 1 (PPrim (MMatchString [120%N])))).
Definition w_input : list byte := [120; 120; 120; 120]%N.
Definition C12_refuted_statement : Prop :=
  exists E p inp detail L f,
    let a := parse_with shipped E f p inp (Some L) detail in
    let b := parse_with shipped E f p inp None detail in
    completes a /\ completes b /\ a <> b.
Theorem C12_refuted : C12_refuted_statement.
Proof.
  exists (fun _ => None), w_prog, w_input, false, 3, 20. vm_compute.
  split; [exact I|split; [exact I|discriminate]].
Qed.
Corollary C12_shipped_not_statement : ~ C12_statement shipped.
Proof.
  intros H. pose proof (H (fun _ => None) w_prog w_input false 3 20 20) as H1. unfold C12_case in H1.
  assert (N1 : parse_with shipped (fun _ => None) 20 w_prog w_input (Some 3) false <> OOutOfFuel) by (vm_compute; discriminate).
  assert (N2 : parse_with shipped (fun _ => None) 20 w_prog w_input None false <> OOutOfFuel) by (vm_compute; discriminate).
  destruct (H1 N1 N2) as [[D|[ap D]] _]; vm_compute in D; discriminate.
Qed.

(* what does hold of the shipped code: the statement outside the two classes *)
Definition C12_shipped_outside_classes_statement : Prop :=
  forall cfg E p inp detail L f1 f2,
    ~ AbsorbedClass cfg E p inp detail L f1 -> ~ PanicClass cfg E p inp detail L f1 ->
    C12_case cfg E p inp detail L f1 f2.
Theorem C12_shipped_outside_classes : C12_shipped_outside_classes_statement.
Proof.
  intros cfg E p inp detail L f1 f2 NA NP Ha Hb. unfold AbsorbedClass in NA. unfold PanicClass in NP.
  apply not_true_is_false in NA. split.
  - destruct (limit_result_general cfg E p inp detail L f1 f2 Ha Hb) as [D|[D|[D|[_ D]]]]; auto; congruence.
  - intros Hc L' f3 HL Hf.
    apply (completion_stable_general cfg E p inp detail L (Some L') f1 f3); auto. split; auto.
Qed.

(* ---- the repaired state(): the full statement for every parse that returns ---- *)
Definition C12_repaired_statement : Prop :=
  forall cfg, fixedlim cfg = true ->
  forall E p inp detail L f1 f2,
    ~ PanicClass cfg E p inp detail L f1 -> C12_case cfg E p inp detail L f1 f2.
Theorem C12_call_limit_never_silent : C12_repaired_statement.
Proof.
  intros cfg F E p inp detail L f1 f2 NP Ha Hb. unfold PanicClass in NP. split.
  - destruct (limit_result_general cfg E p inp detail L f1 f2 Ha Hb) as [D|[D|[D|[D _]]]]; auto; congruence.
  - intros Hc L' f3 HL Hf.
    apply (completion_stable_general cfg E p inp detail L (Some L') f1 f3); auto.
    + split; auto.
    + now apply completes_not_absorbed.
Qed.

(* the PanicClass is not empty, also after the repair (so the literal statement, which has no
   panic disjunct, is false of any state() wrapper): optional(optional(push_literal "a")) ; stack_pop
   on "a", limit 1 - the inner optional is refused, the outer one absorbs it, stack_pop finds nothing *)
Definition wp_prog : prog :=
  PAndThen (POptional (POptional (PPrim (MStackPushLit [97%N])))) (PPrim MStackPop).
Definition C12_panic_class_inhabited_statement : Prop :=
  exists E p inp detail L f,
    parse_with repaired E f p inp (Some L) detail = OPanic /\
    completes (parse_with repaired E f p inp None detail).
Theorem C12_panic_class_inhabited : C12_panic_class_inhabited_statement.
Proof. exists (fun _ => None), wp_prog, [97%N], false, 1, 20. vm_compute. split; [reflexivity|exact I]. Qed.

(* ... and a panic is never internal to pest (no Vec index / splice / underflow / unreachable!):
   it is stack_pop/stack_peek on an empty stack, an undefined closure or a non-boundary slice *)
Definition C12_panic_is_client_side_statement : Prop :=
  forall cfg E f p inp lim detail k, run_state cfg E f p inp lim detail = RPanic k -> k <> PkInternal.
Theorem C12_panic_is_client_side : C12_panic_is_client_side_statement.
Proof. exact parse_no_internal_panic. Qed.

(* the supporting facts named in the design *)
Definition C12_lemmas_statement : Prop :=
  (* the counter is monotone and the limit constant along every run *)
  (forall cfg E fuel p s, res_cl s (exec cfg E fuel p s)) /\
  (* a refusal is sticky: once calls >= limit, every later state has calls >= limit *)
  (forall cfg E fuel p s, limit_reached s = true -> res_reached (exec cfg E fuel p s)) /\
  (* fuel monotonicity *)
  (forall cfg E f f' p s, f <= f' -> exec cfg E f p s <> ROutOfFuel -> exec cfg E f' p s = exec cfg E f p s) /\
  (* under_limit_simulation: a run under L from a state with calls/limit replaced by a laxer pair
     (no limit, or L' >= L with the same count) is the same run on all other fields, unless the
     run under L ends with the limit reached *)
  (forall cfg E L l fuel p sA c, limit sA = Some L -> lax L (calls sA) c l ->
     simpost L l (exec cfg E fuel p sA) (exec cfg E fuel p (recl sA c l))).
Theorem C12_lemmas : C12_lemmas_statement.
Proof.
  split; [exact exec_cl|]. split; [exact refusal_sticky|]. split; [exact exec_mono|exact under_limit_simulation].
Qed.

(* ---- non-vacuity (repaired model, the witness grammar): 7 calls are needed ---- *)
Definition run_w (lim : option nat) : outcome := parse_with repaired (fun _ => None) 20 w_prog w_input lim false.
Example C12_example_unlimited :
  run_w None = OPairs [QStart 9 0; QStart 2 0; QEnd 1 1 None 1; QStart 4 1; QEnd 3 1 None 2; QStart 6 2; QEnd 5 1 None 3;
                       QStart 8 3; QEnd 7 1 None 4; QEnd 0 0 None 4].
Proof. vm_compute. reflexivity. Qed.
Example C12_example_sweep :
  map (fun L => completesb (run_w (Some L))) [1; 2; 3; 4; 5; 6; 7; 8; 9; 10] =
  [false; false; false; false; false; false; false; true; true; true]
  /\ (forall L, In L [1; 2; 3; 4; 5; 6; 7] -> exists ap, run_w (Some L) = OCallLimit ap)
  /\ (forall L, In L [8; 9; 10] -> run_w (Some L) = run_w None).
Proof.
  split; [vm_compute; reflexivity|]. split; intros L H; cbn in H;
    repeat (destruct H as [<-|H]; [vm_compute; eauto|]); destruct H.
Qed.
(* the shipped model on the same sweep (token counts): limits 2..5 return Ok with 0..3 inner pairs
   instead of 4; with 6 the refused call is the one that would have failed anyway *)
Example C12_example_shipped_sweep :
  map (fun L => match parse_with shipped (fun _ => None) 20 w_prog w_input (Some L) false with
                | OPairs q => Some (length q) | _ => None end) [1; 2; 3; 4; 5; 6; 7; 8]
  = [None; Some 2; Some 4; Some 6; Some 8; Some 10; Some 10; Some 10].
Proof. vm_compute. reflexivity. Qed.

Print Assumptions C12_call_limit_never_silent.
Print Assumptions C12_shipped_outside_classes.
Print Assumptions C12_refuted.
Print Assumptions C12_panic_class_inhabited.
Print Assumptions C12_panic_is_client_side.
Print Assumptions C12_lemmas.
