(* C12 - a call limit never changes a result silently.
   This file holds ONLY the pinned statements, the closing theorems, non-vacuity examples and
   Print Assumptions.  Model: PV.Comb.Exec (pest/src/parser_state.rs: CallLimitTracker = fields
   calls/limit, inc_call_check_limit = inc_call, state() = outcome_of); `fixedlim cfg = true` is state()
   with fixes/C12-1-state-ok-path.patch, `false` the code as shipped.  Proofs: PV.Comb.CallComm (no state
   function reads calls/limit), PV.Comb.CallLimit (exec_mono, exec_cl, refusal_sticky,
   under_limit_simulation, lifted to state()), PV.Comb.CallLimitTop.
   Fuel: every run has its own explicit fuel and is assumed not to run out of it (OOutOfFuel);
   by exec_mono the result of a terminating run does not depend on the fuel. *)
From Coq Require Import List Arith NArith Bool.
Import ListNotations.
Require Import PV.Comb.PState PV.Comb.Bytes PV.Comb.Prog PV.Comb.Exec PV.Comb.CallComm PV.Comb.CallLimit PV.Comb.CallLimitTop.

(* One case: closure environment E, closure tree p, input, error-detail switch, limit L
   (set_call_limit(NonZeroUsize) only produces L >= 1; the theorems hold for 0 as well).
   completes o := o is OPairs _ (Ok(pairs)) or OParsingError _ _ _ (the ordinary error). *)
Definition C12_case (cfg : config) (E : env) (p : prog) (inp : list byte) (detail : bool) (L f1 f2 : nat) : Prop :=
  let a := parse_with cfg E f1 p inp (Some L) detail in        (* the parse with call limit L *)
  let b := parse_with cfg E f2 p inp None detail in            (* the parse with no limit    *)
  a <> OOutOfFuel -> b <> OOutOfFuel ->
  (* clause 1: exactly the unlimited result, or the "call limit reached" error (position unspecified) *)
  (a = b \/ exists ap, a = OCallLimit ap) /\
  (* clause 2: a parse that completes under L completes identically under every larger limit *)
  (completes a -> forall L' f3, L <= L' ->
     parse_with cfg E f3 p inp (Some L') detail <> OOutOfFuel ->
     parse_with cfg E f3 p inp (Some L') detail = a).

(* the full property: all closure trees x inputs x limits *)
Definition C12_statement (cfg : config) : Prop :=
  forall E p inp detail L f1 f2, C12_case cfg E p inp detail L f1 f2.

(* The two decidable classes outside which the statement is proved.
   AbsorbedClass: the limited run absorbed a refusal (repeat/optional/negative look-ahead/or_else turned the
     Err of a refused call into Ok) and the closure handed Ok to state() with the limit hit.
   PanicClass: the limited run does not return at all - it unwinds.  After an absorbed refusal the
     stack can lack an element that the unlimited run pushed; stack_pop/stack_peek then panic as documented. *)
Definition AbsorbedClass cfg E p inp detail L f1 : Prop := absorbed cfg E f1 p inp L detail = true.
Definition PanicClass cfg E p inp detail L f1 : Prop := parse_with cfg E f1 p inp (Some L) detail = OPanic.

(* ---- state() as shipped: refuted ---- *)
(* witness (CallLimitTop.c12_refuted): rule 0 = repeat(rule 1 = match_string "x") on "xxxx", limit 3:
   Ok with one pair instead of four *)
Definition C12_refuted_statement : Prop :=
  exists E p inp detail L f,
    let a := parse_with shipped E f p inp (Some L) detail in
    let b := parse_with shipped E f p inp None detail in
    completes a /\ completes b /\ a <> b.
Theorem C12_refuted : C12_refuted_statement.
Proof. exact c12_refuted. Qed.
Theorem C12_shipped_not_statement : ~ C12_statement shipped.
Proof. exact c12_shipped_not_statement. Qed.

(* what does hold of the shipped code (of any configuration): the statement outside the two classes *)
Definition C12_shipped_outside_classes_statement : Prop :=
  forall cfg E p inp detail L f1 f2,
    ~ AbsorbedClass cfg E p inp detail L f1 -> ~ PanicClass cfg E p inp detail L f1 ->
    C12_case cfg E p inp detail L f1 f2.
Theorem C12_shipped_outside_classes : C12_shipped_outside_classes_statement.
Proof. exact c12_shipped_outside_classes. Qed.

(* ---- the repaired state(): the full statement for every parse that returns ---- *)
Definition C12_repaired_statement : Prop :=
  forall cfg, fixedlim cfg = true ->
  forall E p inp detail L f1 f2,
    ~ PanicClass cfg E p inp detail L f1 -> C12_case cfg E p inp detail L f1 f2.
Theorem C12_call_limit_never_silent : C12_repaired_statement.
Proof. exact c12_repaired. Qed.

(* clause 1 once more, without a class hypothesis: equal, or the error, or a panic *)
Definition C12_trichotomy_statement : Prop :=
  forall cfg, fixedlim cfg = true ->
  forall E p inp detail L f1 f2,
    let a := parse_with cfg E f1 p inp (Some L) detail in
    let b := parse_with cfg E f2 p inp None detail in
    a <> OOutOfFuel -> b <> OOutOfFuel ->
    a = b \/ (exists ap, a = OCallLimit ap) \/ a = OPanic.
Theorem C12_trichotomy : C12_trichotomy_statement.
Proof. exact c12_repaired_trichotomy. Qed.

(* the PanicClass is not empty, also after the repair (so the statement without the class hypothesis is
   false of any state() wrapper): optional(optional(push_literal "a")) ; stack_pop on "a", limit 1 - the
   inner optional is refused, the outer one absorbs it, stack_pop finds nothing; without limit: Ok *)
Definition C12_panic_class_inhabited_statement : Prop :=
  exists E p inp detail L f,
    parse_with repaired E f p inp (Some L) detail = OPanic /\
    completes (parse_with repaired E f p inp None detail).
Theorem C12_panic_class_inhabited : C12_panic_class_inhabited_statement.
Proof. exact c12_panic_class_inhabited. Qed.

(* ... and a panic is never internal to pest (no Vec index / splice / underflow / unreachable!):
   it is stack_pop/stack_peek on an empty stack, an undefined closure or a non-boundary slice *)
Definition C12_panic_is_client_side_statement : Prop :=
  forall cfg E f p inp lim detail k, run_state cfg E f p inp lim detail = RPanic k -> k <> PkInternal.
Theorem C12_panic_is_client_side : C12_panic_is_client_side_statement.
Proof. exact parse_no_internal_panic. Qed.

(* the supporting facts named in the design *)
Definition C12_lemmas_statement : Prop :=
  (* the counter is monotone and the limit constant along every run (cl s s' := limit s' = limit s /\ calls s <= calls s') *)
  (forall cfg E fuel p s, res_cl s (exec cfg E fuel p s)) /\
  (* a refusal is sticky: once calls >= limit, every later state has calls >= limit *)
  (forall cfg E fuel p s, limit_reached s = true -> res_reached (exec cfg E fuel p s)) /\
  (* fuel monotonicity *)
  (forall cfg E f f' p s, f <= f' -> exec cfg E f p s <> ROutOfFuel -> exec cfg E f' p s = exec cfg E f p s) /\
  (* under_limit_simulation: the run under L from sA, and the run from sA with calls/limit replaced by a laxer
     pair (no limit, or L' >= L with the same count): same result constructor and same state on all other
     fields (recl), unless the run under L ends with the limit reached *)
  (forall cfg E L l fuel p sA c, limit sA = Some L -> lax L (calls sA) c l ->
     simpost L l (exec cfg E fuel p sA) (exec cfg E fuel p (recl sA c l))).
Theorem C12_lemmas : C12_lemmas_statement.
Proof. exact c12_lemmas. Qed.

(* ---- non-vacuity (the witness tree): the unlimited parse makes 7 calls ---- *)
Definition run_w (cfg : config) (lim : option nat) : outcome := parse_with cfg w_env 20 w_prog w_input lim false.
Example C12_example_unlimited :
  run_w repaired None = OPairs [QStart 9 0; QStart 2 0; QEnd 1 1 None 1; QStart 4 1; QEnd 3 1 None 2; QStart 6 2; QEnd 5 1 None 3;
                                QStart 8 3; QEnd 7 1 None 4; QEnd 0 0 None 4].
Proof. vm_compute. reflexivity. Qed.
(* repaired: limits 1..7 give the error, 8.. the unlimited result *)
Example C12_example_sweep :
  map (fun L => completesb (run_w repaired (Some L))) [1; 2; 3; 4; 5; 6; 7; 8; 9; 10] =
  [false; false; false; false; false; false; false; true; true; true]
  /\ (forall L, In L [1; 2; 3; 4; 5; 6; 7] -> exists ap, run_w repaired (Some L) = OCallLimit ap)
  /\ (forall L, In L [8; 9; 10] -> run_w repaired (Some L) = run_w repaired None).
Proof.
  split; [vm_compute; reflexivity|]. split; intros L H; cbn in H;
    repeat (destruct H as [<-|H]; [vm_compute; eauto|]); destruct H.
Qed.
(* shipped, token counts: limits 2..5 return Ok with 0..3 inner pairs instead of 4 (with 6 the refused
   call is the one that would have failed anyway) *)
Example C12_example_shipped_sweep :
  map (fun L => match run_w shipped (Some L) with OPairs q => Some (length q) | _ => None end) [1; 2; 3; 4; 5; 6; 7; 8]
  = [None; Some 2; Some 4; Some 6; Some 8; Some 10; Some 10; Some 10].
Proof. vm_compute. reflexivity. Qed.

(* the fuel hypothesis on the limited run is not implied by termination of the unlimited one: a hand-written
   closure tree whose loop body absorbs the refusal through or_else and then succeeds without consuming
   (wd_prog) exhausts any fuel tried under limit 1 and completes without limit.  Through a grammar this
   cannot happen: the VM and the generator count a call in every iteration of a repetition. *)
Example C12_example_limit_only_divergence :
  parse_with repaired w_env 400 wd_prog wd_input (Some 1) false = OOutOfFuel /\
  completes (parse_with repaired w_env 400 wd_prog wd_input None false).
Proof. vm_compute. split; [reflexivity|exact I]. Qed.

Print Assumptions C12_call_limit_never_silent.
Print Assumptions C12_trichotomy.
Print Assumptions C12_shipped_outside_classes.
Print Assumptions C12_refuted.
Print Assumptions C12_shipped_not_statement.
Print Assumptions C12_panic_class_inhabited.
Print Assumptions C12_panic_is_client_side.
Print Assumptions C12_lemmas.
