(* C01 - parsing conforms to the documented PEG semantics of the grammar language.

   Layers:  S = PV.Peg.Spec (`eval`, `spec_parse`: DESIGN.md Appendix A),
            B = PV.Peg.VmCompile (pest_vm as a compiler from optimized rules to Layer-C programs),
            C = PV.Comb.Exec (`exec`: parser_state.rs),   F = the optimizer (C05) and the validator (C06).

   FULL STATEMENT (`C01_statement`): for every grammar G the validator accepts, outside the decidable known
   classes, with OG = optimize G: parsing rule r of input w with the VM succeeds with the forest f  iff  the Spec
   evaluation of r on G matches with the forest f.  The validator and the optimizer belong to C06 / C05; the
   statement is therefore parametrised by them.

   PROVED HERE (closed under the global context, Coq 8.16.1, stdlib only):
     C01_simulation   the refinement theorem `vm_refines_spec` (induction on the Spec fuel, structural induction
                      inside): for every optimized grammar passing `grammar_ok`, every expression of the fragment,
                      every machine state representing the Spec state (a, emit, p, sg): a Spec match (p', sg', f)
                      is answered by an `exec` run ending in ROk with position p', stack contents sg' and the queue
                      extended by EXACTLY the tokens of f (tags included); a Spec failure by a run ending in RErr
                      with position and queue as before, and the stack contents as before whenever the expression
                      is syntactically "clean" (`fclean`).  With pp = true (PEEK / POP allowed) the run may instead
                      end in the documented empty-stack panic (known finding C01-emptystack), never otherwise.
     C01_termination  the converse transfer `vm_terminates_spec`: if the VM returns Ok or Err within fuel m, the Spec
                      evaluation with fuel m is definite (induction on m, following the run with C01_simulation).
     C01_forward      whole parses, Spec -> VM, both outcomes (Match -> Pairs with that forest; Fail -> ParsingError).
     C01_sound        whole parses, VM -> Spec, PEEK / POP allowed: a returned Pairs value is the Spec's forest.
     C01_partial      whole parses, both directions, both outcomes, no hypothesis on termination, for every
                      optimized grammar passing the checker `grammar_okb .. false` (no PEEK / POP).
     C01_from_parts   `C01_statement` from C01_partial + the hypotheses of Section FromParts, which name exactly what
                      separates the two:
                        (i)   optimizer_preserves  (C05): Spec on embed_g (optimize G) = Spec on G (+ totality and
                              preservation of rule names);
                        (ii)  optimized_in_fragment: optimize G passes `grammar_okb .. false`, i.e. the restrictions
                              that remain: no PEEK / POP (else the theorem holds up to the empty-stack panic), every
                              `#tag = e` has an e that produces a node of its own whenever it matches (else the VM
                              tags the previous node: known finding), `e+` as ORepOnce only with grammar-extras,
                              restore_on_err did its job (`rok`; fails for unrepaired POP_ALL, known finding 3),
                              WHITESPACE / COMMENT do not fail with a modified stack, identifiers are defined,
                              rule names are unique, string constants are valid UTF-8 (they are Rust Strings).
                      Termination of the Spec (C06) is NOT needed: it transfers in both directions.
   The fragment reached is the whole `oexpr` language (stages 1-5 of the plan): terminals, sequence, choice,
   optional, repetition, RepOnce (extras), both predicates, all five rule types incl. WHITESPACE / COMMENT rules
   of every type and the four shapes of the implicit skip, all hard-coded names, Unicode property rules, Skip,
   PUSH / PUSH literal / DROP / PEEK_ALL / POP_ALL / PEEK[i..j] / PEEK / POP, RestoreOnErr, node tags.          *)
From Coq Require Import List Arith NArith ZArith Bool String.
Import ListNotations.
Require Import PV.Iter.Queue PV.Stack.Model PV.Comb.PState PV.Comb.Bytes PV.Comb.Prog PV.Comb.Exec
               PV.Comb.Utf8 PV.Comb.Utf8c PV.Peg.Ast PV.Peg.Spec PV.Peg.VmCompile
               PV.Peg.Refine0 PV.Peg.Refine1 PV.Peg.Refine3 PV.Peg.Refine6 PV.Peg.Refine10 PV.Peg.Refine11.

(* ---------- the full statement ---------- *)
Definition C01_statement
    (valid : grammar -> Prop) (known : grammar -> Prop) (optimize : grammar -> option ogrammar)
    (extras : bool) (uranges : name -> option (list (N * N))) (cfg : config) : Prop :=
  forall G, valid G -> ~ known G ->
  exists OG, optimize G = Some OG /\
  forall r w f, valid_utf8 w -> has_rule G r = true ->
    ((exists m q, vm_parse OG uranges cfg w m r false = OPairs q /\ forest q = f) <->
     (exists n p sg, spec_parse G extras (uprop uranges) w n r = SMatch p sg f)).

(* ---------- what is proved ---------- *)
Definition C01_simulation_statement : Prop :=
  forall OG extras uranges pp cfg w, cfg_ok cfg -> grammar_ok OG extras uranges pp ->
  forall n e a emit p sg s,
    in_fragment OG extras uranges pp e = true -> rok OG (K OG) e = true -> lits_valid e ->
    rep w a emit p sg s ->
    match eval (embed_g OG) extras (uprop uranges) w n a emit (embed e) p sg with
    | SMatch p' sg' f =>
        exists m vr, exec cfg (vm_env OG uranges) m (vm_expr OG uranges e) s = vr /\
        match vr with
        | ROk s' => pos s' = p' /\ cache (stack s') = sg' /\
                    queue s' = toks (List.length (queue s)) f ++ queue s /\ rep w a emit p' sg' s'
        | RPanic k => pp = true /\ k = PkEmptyStack
        | _ => False
        end
    | SFail =>
        exists m vr, exec cfg (vm_env OG uranges) m (vm_expr OG uranges e) s = vr /\
        match vr with
        | RErr s' => pos s' = pos s /\ queue s' = queue s /\
                     ((exists k, fclean OG k e = true) -> cache (stack s') = cache (stack s)) /\
                     good s' /\ keeps s s'
        | RPanic k => pp = true /\ k = PkEmptyStack
        | _ => False
        end
    | SFuel => True
    end.

Theorem C01_simulation : C01_simulation_statement.
Proof. exact vm_refines_spec. Qed.

Definition C01_termination_statement : Prop :=
  forall OG extras uranges pp cfg w, cfg_ok cfg -> grammar_ok OG extras uranges pp ->
  forall m e a emit p sg s,
    in_fragment OG extras uranges pp e = true -> rok OG (K OG) e = true -> lits_valid e ->
    rep w a emit p sg s ->
    (exists s', exec cfg (vm_env OG uranges) m (vm_expr OG uranges e) s = ROk s' \/
                exec cfg (vm_env OG uranges) m (vm_expr OG uranges e) s = RErr s') ->
    eval (embed_g OG) extras (uprop uranges) w m a emit (embed e) p sg <> SFuel.

Theorem C01_termination : C01_termination_statement.
Proof. exact vm_terminates_spec_explicit. Qed.

Definition C01_forward_statement : Prop :=
  forall OG extras uranges pp cfg w, cfg_ok cfg -> grammar_okb OG extras uranges pp = true -> valid_utf8 w ->
  forall r detail n, ident_ok OG uranges pp r = true ->
    match spec_parse (embed_g OG) extras (uprop uranges) w n r with
    | SMatch _ _ f =>
        exists m, (exists q, vm_parse OG uranges cfg w m r detail = OPairs q /\ forest q = f) \/
                  (pp = true /\ vm_parse OG uranges cfg w m r detail = OPanic)
    | SFail =>
        exists m, (exists ps ns ap, vm_parse OG uranges cfg w m r detail = OParsingError ps ns ap) \/
                  (pp = true /\ vm_parse OG uranges cfg w m r detail = OPanic)
    | SFuel => True
    end.

Theorem C01_forward : C01_forward_statement.
Proof.
  intros OG extras uranges pp cfg w Hc Hg Hw. apply parse_refines_spec; auto. now apply grammar_okb_sound.
Qed.

Definition C01_sound_statement : Prop :=
  forall OG extras uranges pp cfg w, cfg_ok cfg -> grammar_okb OG extras uranges pp = true -> valid_utf8 w ->
  forall r detail m, ident_ok OG uranges pp r = true ->
    (forall q, vm_parse OG uranges cfg w m r detail = OPairs q ->
       exists n p sg, spec_parse (embed_g OG) extras (uprop uranges) w n r = SMatch p sg (forest q)) /\
    (forall ps ns ap, vm_parse OG uranges cfg w m r detail = OParsingError ps ns ap ->
       exists n, spec_parse (embed_g OG) extras (uprop uranges) w n r = SFail).

Theorem C01_sound : C01_sound_statement.
Proof.
  intros OG extras uranges pp cfg w Hc Hg Hw r detail m Hr. pose proof (grammar_okb_sound _ _ _ _ Hg) as HG. split.
  - intros q. exact (parse_ok_sound OG extras uranges pp cfg w Hc HG Hw r detail m q Hr).
  - intros ps ns ap. exact (parse_err_sound OG extras uranges pp cfg w Hc HG Hw r detail m ps ns ap Hr).
Qed.

Definition C01_partial_statement : Prop :=
  forall OG extras uranges cfg w r detail,
    cfg_ok cfg -> valid_utf8 w -> grammar_okb OG extras uranges false = true ->
    ident_ok OG uranges false r = true ->
    (forall f, (exists m q, vm_parse OG uranges cfg w m r detail = OPairs q /\ forest q = f) <->
               (exists n p sg, spec_parse (embed_g OG) extras (uprop uranges) w n r = SMatch p sg f)) /\
    ((exists m ps ns ap, vm_parse OG uranges cfg w m r detail = OParsingError ps ns ap) <->
     (exists n, spec_parse (embed_g OG) extras (uprop uranges) w n r = SFail)).

Theorem C01_partial : C01_partial_statement.
Proof.
  intros OG extras uranges cfg w r detail Hc Hw Hg Hr. pose proof (grammar_okb_sound _ _ _ _ Hg) as HG. split.
  - intros f. now apply (parse_iff_spec_total OG extras uranges false cfg w Hc HG Hw r detail f).
  - now apply (parse_fail_iff_spec_total OG extras uranges false cfg w Hc HG Hw r detail).
Qed.

(* ---------- from the parts to the full statement ---------- *)
Section FromParts.
Variable valid known : grammar -> Prop.
Variable optimize : grammar -> option ogrammar.
Variable extras : bool.
Variable uranges : name -> option (list (N * N)).
Variable cfg : config.
Hypothesis cfg_good : cfg_ok cfg.
(* C05 *)
Hypothesis optimize_total : forall G, valid G -> ~ known G -> exists OG, optimize G = Some OG.
Hypothesis optimizer_preserves : forall G OG, valid G -> ~ known G -> optimize G = Some OG ->
  forall w r res, res <> SFuel ->
    ((exists n, spec_parse (embed_g OG) extras (uprop uranges) w n r = res) <->
     (exists n, spec_parse G extras (uprop uranges) w n r = res)).
Hypothesis optimize_names : forall G OG, valid G -> ~ known G -> optimize G = Some OG ->
  forall r, has_rule G r = true -> ident_ok OG uranges false r = true.
(* the remaining fragment restrictions *)
Hypothesis optimized_in_fragment : forall G OG, valid G -> ~ known G -> optimize G = Some OG ->
  grammar_okb OG extras uranges false = true.

Theorem C01_from_parts : C01_statement valid known optimize extras uranges cfg.
Proof.
  intros G Hv Hk. destruct (optimize_total G Hv Hk) as [OG Ho]. exists OG. split; [exact Ho|].
  intros r w f Hw Hr.
  rewrite (proj1 (C01_partial OG extras uranges cfg w r false cfg_good Hw (optimized_in_fragment G OG Hv Hk Ho)
                    (optimize_names G OG Hv Hk Ho r Hr)) f).
  split.
  - intros (n & p & sg & Hn).
    destruct (proj1 (optimizer_preserves G OG Hv Hk Ho w r (SMatch p sg f) ltac:(discriminate)) (ex_intro _ n Hn)) as [n' Hn'].
    eauto.
  - intros (n & p & sg & Hn).
    destruct (proj2 (optimizer_preserves G OG Hv Hk Ho w r (SMatch p sg f) ltac:(discriminate)) (ex_intro _ n Hn)) as [n' Hn'].
    eauto.
Qed.
End FromParts.

(* ---------- non-vacuity ---------- *)
(* WHITESPACE = _{ " " }         ident = @{ ASCII_ALPHA ~ ASCII_ALPHANUMERIC* }     num = ${ ASCII_DIGIT ~ ASCII_DIGIT* }
   call = { ident ~ "(" ~ ")" }   atom = _{ call | ident | num | "(" ~ expr ~ ")" }  (call fails after `ident`: backtracks)
   expr = !{ atom ~ (("+" | "-") ~ atom)* }      item = { &atom ~ !"x" ~ expr }
   list = { SOI ~ item ~ ("," ~ item)* ~ EOI }                                                                    *)
Definition ri (s : string) : oexpr := OIdent (nm s).
Definition tx (s : string) : oexpr := OStr (nm s).
Definition ex_rules : ogrammar := [
  {| oname := nm "WHITESPACE"; oty := RSilent; oexpr_of := tx " " |};
  {| oname := nm "ident"; oty := RAtomic; oexpr_of := OSeq (ri "ASCII_ALPHA") (ORep (ri "ASCII_ALPHANUMERIC")) |};
  {| oname := nm "num"; oty := RCompound; oexpr_of := OSeq (ri "ASCII_DIGIT") (ORep (ri "ASCII_DIGIT")) |};
  {| oname := nm "call"; oty := RNormal; oexpr_of := OSeq (ri "ident") (OSeq (tx "(") (tx ")")) |};
  {| oname := nm "atom"; oty := RSilent;
     oexpr_of := OChoice (ri "call") (OChoice (ri "ident") (OChoice (ri "num") (OSeq (tx "(") (OSeq (ri "expr") (tx ")"))))) |};
  {| oname := nm "expr"; oty := RNonAtomic; oexpr_of := OSeq (ri "atom") (ORep (OSeq (OChoice (tx "+") (tx "-")) (ri "atom"))) |};
  {| oname := nm "item"; oty := RNormal; oexpr_of := OSeq (OPosPred (ri "atom")) (OSeq (ONegPred (tx "x")) (ri "expr")) |};
  {| oname := nm "list"; oty := RNormal;
     oexpr_of := OSeq (ri "SOI") (OSeq (ri "item") (OSeq (ORep (OSeq (tx ",") (ri "item"))) (ri "EOI"))) |} ].
Definition no_unicode : name -> option (list (N * N)) := fun _ => None.
Definition ex_cfg : config := {| memchr := true; fixed3 := true; fixedlim := true |}.

Example ex_rules_ok : grammar_okb ex_rules false no_unicode false = true.
Proof. vm_compute. reflexivity. Qed.

(* the VM and the Spec on "ab() + 12, c-(d)": the same non-trivial forest (nested rules of four modifiers, a choice
   that backtracks out of `call`, repetitions, both predicates, implicit whitespace) *)
Example ex_parse_agrees :
  match spec_parse (embed_g ex_rules) false (uprop no_unicode) (nm "ab() + 12, c-(d)") 40 (nm "list"),
        vm_parse ex_rules no_unicode ex_cfg (nm "ab() + 12, c-(d)") 200 (nm "list") false with
  | SMatch p _ f, OPairs q => p = 16 /\ forest q = f /\
      f = [Node 7 None 0 16                                                   (* list *)
            [Node 6 None 0 9                                                  (* item *)
               [Node 5 None 0 9                                               (* expr *)
                  [Node 3 None 0 4 [Node 1 None 0 2 []];                      (* call(ident) *)
                   Node 2 None 7 9 []]];                                      (* num *)
             Node 6 None 11 16
               [Node 5 None 11 16
                  [Node 1 None 11 12 [];
                   Node 5 None 14 15 [Node 1 None 14 15 []]]];
             Node 8 None 16 16 []]]                                           (* EOI *)
  | _, _ => False
  end.
Proof. vm_compute. repeat split; reflexivity. Qed.

(* and on an input both reject *)
Example ex_parse_rejects :
  match spec_parse (embed_g ex_rules) false (uprop no_unicode) (nm "ab() + , c") 40 (nm "list"),
        vm_parse ex_rules no_unicode ex_cfg (nm "ab() + , c") 200 (nm "list") false with
  | SFail, OParsingError _ _ _ => True
  | _, _ => False
  end.
Proof. vm_compute. exact I. Qed.

(* the theorem applied to the example *)
Example ex_theorem_instance f :
  (exists m q, vm_parse ex_rules no_unicode ex_cfg (nm "ab() + 12, c-(d)") m (nm "list") false = OPairs q /\ forest q = f) <->
  (exists n p sg, spec_parse (embed_g ex_rules) false (uprop no_unicode) (nm "ab() + 12, c-(d)") n (nm "list") = SMatch p sg f).
Proof.
  apply C01_partial.
  - intros _. reflexivity.
  - apply utf8b_sound. vm_compute. reflexivity.
  - exact ex_rules_ok.
  - vm_compute. reflexivity.
Qed.

(* the stack, tags and RepOnce (grammar-extras): heredoc = { PUSH(ASCII_ALPHA+) ~ "<" ~ #b = inner ~ ">" ~ POP }
   inner = ${ (!(">" ~ PEEK) ~ ANY)* }   - with pp = true (PEEK / POP present) *)
Definition ex_stack : ogrammar := [
  {| oname := nm "inner"; oty := RCompound;
     oexpr_of := ORep (OSeq (ONegPred (OSeq (tx ">") (ri "PEEK"))) (ri "ANY")) |};
  {| oname := nm "heredoc"; oty := RNormal;
     oexpr_of := OSeq (OPush (ORepOnce (ri "ASCII_ALPHA")))
                  (OSeq (tx "<") (OSeq (ONodeTag (ri "inner") (nm "b")) (OSeq (tx ">") (ri "POP")))) |} ].

Example ex_stack_ok : grammar_okb ex_stack true no_unicode true = true.
Proof. vm_compute. reflexivity. Qed.

Example ex_stack_agrees :
  match spec_parse (embed_g ex_stack) true (uprop no_unicode) (nm "ab<x>y>ab") 40 (nm "heredoc"),
        vm_parse ex_stack no_unicode ex_cfg (nm "ab<x>y>ab") 200 (nm "heredoc") false with
  | SMatch p sg f, OPairs q => p = 9 /\ sg = [] /\ forest q = f /\
      f = [Node 1 None 0 9 [Node 0 (Some 98) 3 6 []]]
  | _, _ => False
  end.
Proof. vm_compute. repeat split; reflexivity. Qed.

(* the side condition `go_names` (no rule named like a hard-coded name) is necessary: pest_vm lets a rule of the grammar
   shadow a built-in (fix 76a77f3), the Spec resolves the built-ins first.   ASCII_DIGIT = { "z" }   r = { ASCII_DIGIT } *)
Definition ex_shadow : ogrammar := [
  {| oname := nm "ASCII_DIGIT"; oty := RNormal; oexpr_of := tx "z" |};
  {| oname := nm "r"; oty := RNormal; oexpr_of := ri "ASCII_DIGIT" |} ].
Example ex_shadow_differs :
  grammar_okb ex_shadow false no_unicode false = false /\
  match vm_parse ex_shadow no_unicode ex_cfg (nm "z") 50 (nm "r") false,
        spec_parse (embed_g ex_shadow) false (uprop no_unicode) (nm "z") 20 (nm "r") with
  | OPairs q, SFail => forest q = [Node 1 None 0 1 [Node 0 None 0 1 []]]      (* the VM matches "z", the Spec does not *)
  | _, _ => False
  end /\
  match vm_parse ex_shadow no_unicode ex_cfg (nm "5") 50 (nm "r") false,
        spec_parse (embed_g ex_shadow) false (uprop no_unicode) (nm "5") 20 (nm "r") with
  | OParsingError _ _ _, SMatch 1 [] [Node 1 None 0 1 []] => True                (* the Spec matches "5", the VM does not *)
  | _, _ => False
  end.
Proof. vm_compute. repeat split; reflexivity. Qed.

(* ---------- closed with the optimizer (C05) and the validator (C06) ---------- *)
Require Import PV.Valid.Validator PV.Opt.List PV.Opt.Pipeline PV.Peg.Close2.

(* For every grammar G the validator accepts (`validate kw builtin vcfg G = []`, any keyword / built-in tables, any
   validator configuration; only the uniqueness of rule names is used: termination is not needed) and that lies in the
   decidable class `in_class` (PV.Peg.Close2; every conjunct is explained there: the lister class and the PEEK / POP and
   tag restrictions are KNOWN FINDINGS, names_okb and literals_validb are hypotheses of C05 / facts about Rust Strings,
   `optimize G <> None`, defined identifiers and RepOnce-needs-extras are derivable but NOT YET PROVED through the passes,
   WHITESPACE / COMMENT failing with an unmodified stack is not established by restore_on_err):
   the real pipeline `optimize` (six AST passes, to_optimized, restore_on_err; restorer flags of the repaired code,
   fixes/C05-1 and C05-2; either unroller arithmetic `ovf`) returns, and the VM on its output parses rule r of input w
   with forest f  iff  the Spec on the ORIGINAL grammar G matches with forest f.
   Used: C05 `pipeline_preserves_outside_class` (same_meaning G (passes G)) and `restorer_fixed` (no alternative of
   restore_on_err's output fails with a modified stack: the semantic reading of `rok`), `embed (to_optimized e) = e`
   and `embed` erasing RestoreOnErr (Close1), C01_partial.  No hypothesis is left besides `cfg_ok cfg` (the memchr
   arm of skip_until repaired or the feature off) and valid UTF-8 input.                                              *)
Definition C01_conformance_statement : Prop :=
  forall (kw builtin : name -> bool) (vcfg : Validator.vcfg) (ovf extras : bool) uranges cfg (G : grammar),
    cfg_ok cfg -> validate kw builtin vcfg G = [] -> in_class ovf extras uranges G = true ->
    exists OG, optimize ovf extras true true G = Some OG /\
    forall r w f, valid_utf8 w -> has_rule G r = true ->
      ((exists m q, vm_parse OG uranges cfg w m r false = OPairs q /\ forest q = f) <->
       (exists n p sg, spec_parse G extras (uprop uranges) w n r = SMatch p sg f)).

Theorem C01_conformance : C01_conformance_statement.
Proof. intros kw builtin vcfg ovf extras uranges cfg G Hc Hv Hk. exact (conformance kw builtin vcfg ovf extras uranges cfg Hc G Hv Hk). Qed.

(* the same as an instance of the full statement: valid = accepted by the validator, known = outside `in_class` *)
Theorem C01_statement_closed : forall kw builtin vcfg ovf extras uranges cfg, cfg_ok cfg ->
  C01_statement (fun G => validate kw builtin vcfg G = []) (fun G => in_class ovf extras uranges G = false)
                (optimize ovf extras true true) extras uranges cfg.
Proof.
  intros kw builtin vcfg ovf extras uranges cfg Hc G Hv Hk.
  apply (C01_conformance kw builtin vcfg ovf extras uranges cfg G Hc Hv). destruct (in_class ovf extras uranges G); [reflexivity|now elim Hk].
Qed.

(* non-vacuity: WHITESPACE, five modifiers, a repetition, choices; rotate, concatenate and factor all fire
   WHITESPACE = _{ " " }   word = @{ ASCII_ALPHA ~ ASCII_ALPHA* }   hello = @{ ^"he" ~ ^"llo" }
   kv = ${ word ~ "=" ~ word | word ~ ":" ~ word }   item = !{ hello | kv | word }
   list = { SOI ~ item ~ ("," ~ item)* ~ EOI }  (entered left-nested, so that rotate fires)            *)
Definition ei (s : string) : expr := EIdent (nm s).
Definition es (s : string) : expr := EStr (nm s).
Definition ex_src : grammar := [
  {| rname := nm "WHITESPACE"; rty := RSilent; rexpr := es " " |};
  {| rname := nm "word"; rty := RAtomic; rexpr := ESeq (ei "ASCII_ALPHA") (ERep (ei "ASCII_ALPHA")) |};
  {| rname := nm "hello"; rty := RAtomic; rexpr := ESeq (EInsens (nm "he")) (EInsens (nm "llo")) |};
  {| rname := nm "kv"; rty := RCompound;
     rexpr := EChoice (ESeq (ei "word") (ESeq (es "=") (ei "word"))) (ESeq (ei "word") (ESeq (es ":") (ei "word"))) |};
  {| rname := nm "item"; rty := RNonAtomic; rexpr := EChoice (ei "hello") (EChoice (ei "kv") (ei "word")) |};
  {| rname := nm "list"; rty := RNormal;
     rexpr := ESeq (ESeq (ESeq (ei "SOI") (ei "item")) (ERep (ESeq (es ",") (ei "item")))) (ei "EOI") |} ].

Example ex_src_accepted : validate (fun _ => false) is_builtin cfg_fixed ex_src = [].
Proof. vm_compute. reflexivity. Qed.
Example ex_src_in_class : in_class false false no_unicode ex_src = true.
Proof. vm_compute. reflexivity. Qed.
(* the optimizer really rewrote it: kv factored, hello concatenated, list rotated *)
Example ex_src_rewritten :
  match optimize false false true true ex_src with
  | Some OG =>
      option_map oexpr_of (find_orule OG (nm "kv")) =
        Some (OSeq (ri "word") (OChoice (OSeq (tx "=") (ri "word")) (OSeq (tx ":") (ri "word")))) /\
      option_map oexpr_of (find_orule OG (nm "hello")) = Some (OInsens (nm "hello")) /\
      option_map oexpr_of (find_orule OG (nm "list")) =
        Some (OSeq (ri "SOI") (OSeq (ri "item") (OSeq (ORep (OSeq (tx ",") (ri "item"))) (ri "EOI"))))
  | None => False
  end.
Proof. vm_compute. repeat split; reflexivity. Qed.
(* both sides computed on "Hello, ab=cd , x:y,zz": the VM on the optimized rules and the Spec on the source rules *)
Example ex_src_agrees :
  match optimize false false true true ex_src with
  | Some OG =>
      match spec_parse ex_src false (uprop no_unicode) (nm "Hello, ab=cd , x:y,zz") 40 (nm "list"),
            vm_parse OG no_unicode ex_cfg (nm "Hello, ab=cd , x:y,zz") 200 (nm "list") false with
      | SMatch p _ f, OPairs q => p = 21 /\ forest q = f /\ fsize f = 14
      | _, _ => False
      end
  | None => False
  end.
Proof. vm_compute. repeat split; reflexivity. Qed.
(* the theorem applied *)
Example ex_src_conforms :
  exists OG, optimize false false true true ex_src = Some OG /\
  forall r w f, valid_utf8 w -> has_rule ex_src r = true ->
    ((exists m q, vm_parse OG no_unicode ex_cfg w m r false = OPairs q /\ forest q = f) <->
     (exists n p sg, spec_parse ex_src false (uprop no_unicode) w n r = SMatch p sg f)).
Proof.
  apply (C01_conformance (fun _ => false) is_builtin cfg_fixed false false no_unicode ex_cfg ex_src).
  - intros _. reflexivity.
  - exact ex_src_accepted.
  - exact ex_src_in_class.
Qed.

Print Assumptions C01_simulation.
Print Assumptions C01_termination.
Print Assumptions C01_sound.
Print Assumptions C01_forward.
Print Assumptions C01_partial.
Print Assumptions C01_from_parts.
Print Assumptions C01_conformance.
Print Assumptions C01_statement_closed.
