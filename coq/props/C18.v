(* C18 - the bundled JSON grammar accepts exactly RFC 8259 JSON.
   This file holds ONLY the pinned statement, the closing theorems, non-vacuity examples and Print Assumptions.

   json_grammar (PV.gen.JsonGrammar) is REGENERATED from grammars/src/grammars/json.pest by tools/pest2v.py on every run
   (and cross-checked against the AST the real pest_meta parser reads from the same file).
   spec_parse (PV.Peg.Spec) is Layer S: the documented PEG semantics of the grammar language, with fuel; default
   features (extras = false), any table of Unicode property rules.
   json_text / json_doc / tree_top (PV.Json.Rfc8259) are RFC 8259 and the token tree that mirrors a document.
   Strings are byte sequences; a Rust &str is always valid UTF-8, and every JSON text is valid UTF-8
   (C18_json_text_is_utf8), so the hypothesis valid_utf8 w restricts neither side. *)
From Coq Require Import List Arith NArith Bool String.
Import ListNotations.
Require Import PV.Comb.PState PV.Comb.Utf8 PV.Iter.Queue PV.Peg.Ast PV.Peg.Spec.
Require Import PV.gen.JsonGrammar PV.Json.Rfc8259 PV.Json.Recogniser PV.Json.RfcStructure PV.Json.RfcUtf8 PV.Json.RfcAbnf PV.Json.Top.

Definition C18_statement : Prop :=
  forall (uprop : name -> option (N -> bool)) (w : list byte), valid_utf8 w ->
    (* the parser accepts w  <->  w is a JSON text (RFC 8259, with optional surrounding whitespace) *)
    ((exists p sg f fuel, spec_parse json_grammar false uprop w fuel (nm "json") = SMatch p sg f) <-> json_text w) /\
    (* on acceptance the whole input is consumed and the token tree mirrors THE document of w: one pair per value, object,
       member, array, string, number and literal (plus EOI), each with its exact source span *)
    (forall p sg f fuel, spec_parse json_grammar false uprop w fuel (nm "json") = SMatch p sg f ->
       exists d, json_doc w d /\ (forall d', json_doc w d' -> d' = d) /\
                 p = List.length w /\ sg = [] /\ f = tree_top (rule_id json_grammar) (List.length w) d) /\
    (* rejection is definite: with no amount of fuel does a non-JSON text match, and the parse fails in finite time *)
    (~ json_text w -> (forall fuel p sg f, spec_parse json_grammar false uprop w fuel (nm "json") <> SMatch p sg f) /\
                      exists fuel, spec_parse json_grammar false uprop w fuel (nm "json") = SFail).

Theorem C18_json_is_rfc8259 : C18_statement.
Proof. exact json_grammar_is_rfc8259. Qed.

(* the executable recogniser run against the real parser as specification oracle is RFC 8259 *)
Definition C18_recogniser_statement : Prop :=
  (forall w d, rfc_parse w = Some d <-> json_doc w d) /\ (forall w, json_text w <-> rfc_accepts w = true).
Theorem C18_recogniser_correct : C18_recogniser_statement.
Proof. split; [exact rfc_parse_correct|exact json_text_iff]. Qed.

Definition C18_utf8_statement : Prop := forall w, json_text w -> valid_utf8 w.
Theorem C18_json_text_is_utf8 : C18_utf8_statement.
Proof. exact json_text_valid_utf8. Qed.

(* RFC 8259's ABNF transcribed literally (ws attached to the six structural characters; PV.Json.RfcAbnf) generates the same texts *)
Definition C18_abnf_statement : Prop := forall w, abnf_json_text w <-> json_text w.
Theorem C18_rfc_abnf_equivalent : C18_abnf_statement.
Proof. exact abnf_equiv. Qed.

(* ---- non-vacuity ---- *)
(*  {"a": [1, -0.5e+3, "é\n", true, null], "":{}}  surrounded by blanks *)
Definition C18_example : list byte :=
  nm " {""a"": [1, -0.5e+3, ""é\n"", true, null], """":{}} ".
Example C18_example_is_json : json_text C18_example.
Proof. apply json_text_iff. vm_compute. reflexivity. Qed.
Example C18_example_parse :
  spec_parse json_grammar false (fun _ => None) C18_example 400 (nm "json") =
  match rfc_parse C18_example with Some d => SMatch 48 [] (tree_top (rule_id json_grammar) 48 d) | None => SFail end
  /\ rfc_accepts C18_example = true /\ List.length C18_example = 48.
Proof. vm_compute. repeat split; reflexivity. Qed.
(* near-misses: leading zero, bare sign, trailing comma, control character in a string, bad escape, truncated literal *)
Example C18_near_misses :
  map rfc_accepts [nm "01"; nm "-"; nm "[1,]"; [34; 9; 34]%N; nm """\x"""; nm "tru"; nm "{""a"":1,}"; nm "1 2"; nm ""] =
  [false; false; false; false; false; false; false; false; false].
Proof. vm_compute. reflexivity. Qed.
Example C18_near_miss_rejected : ~ json_text (nm "01").
Proof. intros H. apply json_text_iff in H. vm_compute in H. discriminate. Qed.
(* DEL (U+007F) and non-ASCII characters are allowed unescaped: only U+0000..U+001F, quotation mark and reverse solidus are not *)
Example C18_del_allowed : rfc_accepts [34; 127; 195; 169; 34]%N = true.
Proof. vm_compute. reflexivity. Qed.

Print Assumptions C18_json_is_rfc8259.
Print Assumptions C18_recogniser_correct.
Print Assumptions C18_json_text_is_utf8.
Print Assumptions C18_rfc_abnf_equivalent.
