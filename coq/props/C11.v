(* C11 - the backtracking stack is transactional for every history.
   This file holds ONLY the pinned statement, the closing theorem, non-vacuity examples and
   Print Assumptions.  The model (PV.Stack.Model) is a line-by-line transcription of
   pest/src/stack.rs; `None` stands for a Rust panic (usize underflow, bad drain range). *)
From Coq Require Import List Arith.
Import ListNotations.
Require Import PV.Stack.Model PV.Stack.Proofs PV.Stack.Top.

(* For EVERY finite history over push/pop/peek/snapshot/clear_snapshot/restore:
   the implementation model never panics (result is Some), and the trace
   (contents after each operation, element returned by each operation) is exactly
   the trace of the naive full-copy model. *)
Definition C11_statement : Prop :=
  forall (T : Type) (ops : list (op T)),
    run_impl (empty T) ops = Some (run_spec (sempty T) ops).

Theorem C11_stack_transactional : C11_statement.
Proof. exact C11_stack_transactional. Qed.

(* Non-vacuity: a history with snapshot nesting depth 3, pops below two snapshot lines,
   re-pushes, and all three of clear / restore / restore-without-snapshot. *)
Definition C11_example_history : list (op nat) :=
  [Push 1; Push 2; Push 3; Snapshot; Pop; Snapshot; Pop; Push 7; Snapshot; Pop; Pop; Push 8;
   Peek; Clear; Restore; Peek; Restore; Peek; Restore].
Example C11_example_trace :
  run_impl (empty nat) C11_example_history =
  Some [([1],None); ([2;1],None); ([3;2;1],None); ([3;2;1],None); ([2;1],Some 3); ([2;1],None);
        ([1],Some 2); ([7;1],None); ([7;1],None); ([1],Some 7); ([],Some 1); ([8],None);
        ([8],Some 8); ([8],None); ([2;1],None); ([2;1],Some 2); ([3;2;1],None); ([3;2;1],Some 3);
        ([],None)].
Proof. vm_compute. reflexivity. Qed.

Print Assumptions C11_stack_transactional.
