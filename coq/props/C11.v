(* C11 - the backtracking stack is transactional for every history.
   This file holds ONLY the pinned statement, the closing theorem, non-vacuity examples and
   Print Assumptions.  The model (PV.Stack.Model) is a line-by-line transcription of
   pest/src/stack.rs; `None` stands for a Rust panic (usize underflow, bad drain range). *)
From Coq Require Import List Arith.
Import ListNotations.
Require Import PV.Stack.Model PV.Stack.Proofs PV.Stack.Top PV.Stack.Laws.

(* For EVERY finite history over push/pop/peek/snapshot/clear_snapshot/restore:
   the implementation model never panics (result is Some), and the trace
   (contents after each operation, element returned by each operation) is exactly
   the trace of the naive full-copy model. *)
Definition C11_statement : Prop :=
  forall (T : Type) (ops : list (op T)),
    run_impl (empty T) ops = Some (run_spec (sempty T) ops).

Theorem C11_stack_transactional : C11_statement.
Proof. exact C11_stack_transactional. Qed.

(* Non-vacuity: a history with snapshot nesting depth 3, pops below two snapshot lines,
   re-pushes, and all three of clear / restore / restore-without-snapshot. *)
Definition C11_example_history : list (op nat) :=
  [Push 1; Push 2; Push 3; Snapshot; Pop; Snapshot; Pop; Push 7; Snapshot; Pop; Pop; Push 8;
   Peek; Clear; Restore; Peek; Restore; Peek; Restore].
Example C11_example_trace :
  run_impl (empty nat) C11_example_history =
  Some [([1],None); ([2;1],None); ([3;2;1],None); ([3;2;1],None); ([2;1],Some 3); ([2;1],None);
        ([1],Some 2); ([7;1],None); ([7;1],None); ([1],Some 7); ([],Some 1); ([8],None);
        ([8],Some 8); ([8],None); ([2;1],None); ([2;1],Some 2); ([3;2;1],None); ([3;2;1],Some 3);
        ([],None)].
Proof. vm_compute. reflexivity. Qed.

(* Transaction laws at every reachable state and nesting depth (the way ParserState uses the stack):
   after any history h, `snapshot; body; restore` with a well-bracketed body (bal 0 body = Some 0:
   the body never clears or restores a snapshot it did not take and closes its own) never panics and
   is invisible to every continuation k - the trace of k is the one produced straight after h. *)
Definition C11_checkpoint_restore_statement : Prop :=
  forall (T : Type) (h body k : list (op T)),
    bal 0 body = Some 0 ->
    exists t0 t1 tk,
      run_impl (empty T) (h ++ k) = Some (t0 ++ tk) /\
      run_impl (empty T) (h ++ (Snapshot :: body ++ [Restore]) ++ k) = Some (t0 ++ t1 ++ tk) /\
      length t0 = length h /\ length t1 = S (S (length body)).

Theorem C11_checkpoint_restore : C11_checkpoint_restore_statement.
Proof. exact checkpoint_restore_transparent. Qed.

(* `snapshot; body; clear_snapshot` never panics and leaves the enclosing saved copies untouched. *)
Definition C11_checkpoint_clear_statement : Prop :=
  forall (T : Type) (h body : list (op T)),
    bal 0 body = Some 0 ->
    snaps (exec_spec (sempty T) (h ++ Snapshot :: body ++ [Clear])) = snaps (exec_spec (sempty T) h) /\
    exists t, run_impl (empty T) (h ++ Snapshot :: body ++ [Clear]) = Some t /\
              length t = length h + S (S (length body)).

Theorem C11_checkpoint_clear : C11_checkpoint_clear_statement.
Proof. exact checkpoint_clear_keeps_outer. Qed.

(* Non-vacuity: a body with an inner snapshot, pops below both snapshot lines and a re-push is
   well bracketed; a body that restores the enclosing snapshot is not. *)
Example C11_bal_example :
  bal 0 [Pop; Snapshot; Pop; Pop; Push 9; Restore; Push 4 : op nat] = Some 0 /\
  bal 0 [Pop; Restore : op nat] = None.
Proof. split; reflexivity. Qed.

Print Assumptions C11_stack_transactional.
Print Assumptions C11_checkpoint_restore.
Print Assumptions C11_checkpoint_clear.
