(* C02 - generated parser and interpreting VM agree on every grammar and input.
   Models: PV.Gen.GenCompile (generator/src/generator.rs as a compiler from optimized rules to
   Layer-C programs; validated structurally against the REAL generator's output on every run),
   PV.Peg.VmCompile (vm/src/lib.rs as such a compiler), PV.Comb.Exec (parser_state.rs).
   obs = result kind, position, token queue, stack contents, attempt_pos, pos_attempts,
   neg_attempts (the call counter and the parse-attempt details are not part of it: the two
   back-ends make different numbers of sequence/optional calls).                             *)
From Coq Require Import List Arith NArith ZArith Bool String Ascii.
Import ListNotations.
Require Import PV.Stack.Model PV.Comb.PState PV.Comb.Bytes PV.Comb.Prog PV.Comb.Exec PV.Peg.Ast PV.Peg.VmCompile
               PV.Gen.GenCompile PV.Gen.ClassH PV.Gen.Rel PV.Gen.Equiv PV.Gen.EquivRev.
Local Open Scope string_scope.

(* for every feature configuration cfg (memchr / the C03 fix / the C12 fix), either value of
   grammar-extras, every optimized grammar G in class H, every Unicode table U, every start name r,
   every input, either value of the error-detail switch, and all fuels that suffice *)
Definition C02_statement : Prop :=
  forall (cfg : config) (extras : bool) (G : ogrammar) (U : utable), in_H G extras = true ->
  forall (r : name) (input : list byte) (detail : bool) (f1 f2 : nat),
    let rg := exec cfg (gen_env G U) f1 (gen_start G U r) (init input None detail) in
    let rv := exec cfg (vm_env G (ulookup U)) f2 (vm_start G (ulookup U) r) (init input None detail) in
    rg <> ROutOfFuel -> rv <> ROutOfFuel ->
    obs rg = obs rv /\ outcome_of cfg rg = outcome_of cfg rv.

Theorem C02_generated_eq_vm : C02_statement.
Proof.
  intros cfg extras G U HH r input detail f1 f2 rg rv Hg Hv.
  destruct (gen_vm_agree cfg G U extras HH r input detail f1 f2 Hg) as [_ H].
  specialize (H Hv). split; [now apply rrel_obs|now apply rrel_outcome].
Qed.

(* the generated parser returns exactly when the VM returns (no call limit: a limit is counted differently by the two) *)
Definition C02_termination_statement : Prop :=
  forall (cfg : config) (extras : bool) (G : ogrammar) (U : utable), in_H G extras = true ->
  forall (r : name) (input : list byte) (detail : bool),
    (exists f1, exec cfg (gen_env G U) f1 (gen_start G U r) (init input None detail) <> ROutOfFuel) <->
    (exists f2, exec cfg (vm_env G (ulookup U)) f2 (vm_start G (ulookup U) r) (init input None detail) <> ROutOfFuel).
Theorem C02_termination_equivalent : C02_termination_statement.
Proof.
  intros cfg extras G U HH r input detail. split.
  - intros [f1 Hg]. exact (proj1 (gen_vm_agree cfg G U extras HH r input detail f1 0 Hg)).
  - intros [f2 Hv]. exact (vm_gen_agree cfg G U extras HH r input detail f2 Hv).
Qed.

(* ---------- outside H the statement is false: one witness per excluded class ---------- *)
Definition wcfg : config := {| memchr := true; fixed3 := true; fixedlim := false |}.
Definition rl (n : string) (t : rtype) (e : oexpr) : orule := {| oname := nm n; oty := t; oexpr_of := e |}.
Definition res_gen (G : ogrammar) (input : string) : res :=
  exec wcfg (gen_env G []) 60 (gen_start G [] (nm "r0")) (init (nm input) None false).
Definition res_vm (G : ogrammar) (input : string) : res :=
  exec wcfg (vm_env G (ulookup [])) 60 (vm_start G (ulookup []) (nm "r0")) (init (nm input) None false).
Definition differ (G : ogrammar) (input : string) : Prop :=
  res_gen G input <> ROutOfFuel /\ res_vm G input <> ROutOfFuel /\ obs (res_gen G input) <> obs (res_vm G input).
Ltac differ_tac := split; [vm_compute; discriminate|split; [vm_compute; discriminate|vm_compute; intros X; discriminate X]].

(* 11a: WHITESPACE declared `!` - derive emits a WHITESPACE token inside r0, the VM none *)
Definition G_ws : ogrammar :=
  [ rl "r0" RNormal (OSeq (OStr (nm "x")) (OStr (nm "y"))); rl "WHITESPACE" RNonAtomic (OStr (nm " ")) ].
Example C02_ws_nonatomic_refuted : why_not_H G_ws false = 2 /\ differ G_ws "x y".
Proof. split; [reflexivity|differ_tac]. Qed.

(* 11b, repaired in /repo (fix 76a77f3): a user rule named like a hard-coded built-in shadows it in BOTH back-ends now;
   the grammar is in H, both models match "z" and reject "5" *)
Definition G_shadow : ogrammar :=
  [ rl "r0" RNormal (OIdent (nm "ASCII_DIGIT")); rl "ASCII_DIGIT" RNormal (OStr (nm "z")) ].
Example C02_shadow_builtin_agree :
  in_H G_shadow false = true /\
  obs (res_gen G_shadow "z") = obs (res_vm G_shadow "z") /\ (exists p q st a pa na, obs (res_gen G_shadow "z") = ObsOk p q st a pa na) /\
  obs (res_gen G_shadow "5") = obs (res_vm G_shadow "5") /\ (exists p q st a pa na, obs (res_gen G_shadow "5") = ObsErr p q st a pa na).
Proof. vm_compute. repeat split; try reflexivity; repeat eexists. Qed.

(* 13 (grammar-extras): `#t = e?` after a node - the VM tags the PRECEDING node when e matched nothing *)
Definition G_tag_opt : ogrammar :=
  [ rl "r0" RNormal (OSeq (OIdent (nm "r1")) (ONodeTag (OOpt (OIdent (nm "r2"))) (nm "t")));
    rl "r1" RNormal (OStr (nm "x")); rl "r2" RNormal (OStr (nm "y")) ].
Example C02_node_tag_opt_refuted : why_not_H G_tag_opt true = 3 /\ differ G_tag_opt "x".
Proof. split; [reflexivity|differ_tac]. Qed.
(* `#t = e*`: the generator tags every iteration, the VM the last one *)
Definition G_tag_rep : ogrammar :=
  [ rl "r0" RNormal (ONodeTag (ORep (OIdent (nm "r1"))) (nm "t")); rl "r1" RNormal (OStr (nm "x")) ].
Example C02_node_tag_rep_refuted : why_not_H G_tag_rep true = 3 /\ differ G_tag_rep "xxx".
Proof. split; [reflexivity|differ_tac]. Qed.

(* row 3: inside an atomic rule e* is `repeat(e)` in the generated code; an e that fails after popping
   (POP_ALL is not known to the restorer) leaves the stack popped there, while the VM's sequence restores it *)
Definition G_dirty : ogrammar :=
  [ rl "r0" RAtomic (OSeq (OPush (OStr (nm "x"))) (OSeq (OPush (OStr (nm "y")))
       (OSeq (ORep (OChoice (OStr (nm "5")) (OIdent (nm "POP_ALL")))) (OIdent (nm "DROP"))))) ].
Example C02_dirty_atomic_rep_refuted : why_not_H G_dirty false = 4 /\ differ G_dirty "xy5y".
Proof. split; [reflexivity|differ_tac]. Qed.

(* the statement without the restriction to H (here already for one configuration, the empty Unicode table,
   start rule r0 and fuel 60) is false *)
Definition C02_statement_unrestricted : Prop :=
  forall (G : ogrammar) (input : string),
    res_gen G input <> ROutOfFuel -> res_vm G input <> ROutOfFuel -> obs (res_gen G input) = obs (res_vm G input).
Theorem C02_unrestricted_refuted : ~ C02_statement_unrestricted.
Proof.
  intros H. destruct C02_ws_nonatomic_refuted as (_ & Hg & Hv & Hd). apply Hd. apply H; assumption.
Qed.

(* ---------- non-vacuity: a grammar in H with WHITESPACE, COMMENT, the four modifiers, stack operations,
   built-ins, a flattened sequence and an atomic repetition; the two models run and agree on it ---------- *)
Definition G_ex : ogrammar :=
  [ rl "r0" RNormal (OSeq (OIdent (nm "SOI")) (OSeq (OIdent (nm "a")) (OSeq (ORep (OIdent (nm "b"))) (OIdent (nm "EOI")))));
    rl "a" RCompound (OSeq (OPush (OIdent (nm "ASCII_ALPHA"))) (OSeq (OStr (nm "=")) (OIdent (nm "POP"))));
    rl "b" RAtomic (OSeq (OStr (nm "x")) (ORep (OChoice (OStr (nm "y")) (OIdent (nm "c")))));
    rl "c" RNonAtomic (OSeq (OStr (nm "(")) (OSeq (OOpt (OIdent (nm "d"))) (OStr (nm ")"))));
    rl "d" RSilent (OChoice (OInsens (nm "k")) (OChoice (ORange 48 57) (ONegPred (OStr (nm ")")))));
    rl "WHITESPACE" RSilent (OStr (nm " "));
    rl "COMMENT" RNormal (OSeq (OStr (nm "#")) (OSkip [nm "#"])) ].
Definition run_gen (G : ogrammar) (input : string) :=
  outcome_of wcfg (exec wcfg (gen_env G []) 200 (gen_start G [] (nm "r0")) (init (nm input) None false)).
Definition run_vm (G : ogrammar) (input : string) :=
  outcome_of wcfg (exec wcfg (vm_env G (ulookup [])) 200 (vm_start G (ulookup []) (nm "r0")) (init (nm input) None false)).
Example C02_example_in_H :
  in_H G_ex false = true /\ in_H G_ex true = true /\
  run_gen G_ex "q=q xy( K )y #c x" = run_vm G_ex "q=q xy( K )y #c x" /\
  (match run_gen G_ex "q=q xy( K )y #c x" with OPairs q => Nat.ltb 10 (List.length q) | _ => false end) = true /\
  run_gen G_ex "q=q x(9" = run_vm G_ex "q=q x(9" /\
  (match run_gen G_ex "q=q x(9" with OParsingError _ _ p => Nat.ltb 4 p | _ => false end) = true.
Proof. vm_compute. repeat split; reflexivity. Qed.

Print Assumptions C02_generated_eq_vm.
Print Assumptions C02_termination_equivalent.
Print Assumptions C02_unrestricted_refuted.
