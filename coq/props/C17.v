(* C17 - the debugger reports exactly the breakpoint hits of the parse under any timing.
   This file holds ONLY the pinned statements, the closing theorems, non-vacuity examples and
   Print Assumptions.  Model: PV.Debugger.Proto (transition system of debugger/src/lib.rs: listener
   closure, thread body, run(), cont(), breakpoint edits, recv; park token, is_done flag, breakpoint
   set under its Mutex (explicit acquire/release steps), bounded channel with blocking send, join).  `literal k` is the code as it is,
   `repaired k` the code with fixes/C17-1-final-send.patch, k the capacity of the channel (main.rs
   and the test-suite use 1).  A schedule is any list of thread ids whose steps are all enabled;
   `reachable cf cs b s` quantifies over ALL command histories cs (each run command carries the
   entry list and outcome of an arbitrary parse), initial breakpoint sets b and schedules.

   PARTIAL BY NATURE: spurious wake-ups of thread::park, OS scheduling fairness and memory orderings
   below SeqCst (run() loads the flag Relaxed) are run-time behaviours this model cannot exhibit;
   C17_spurious_wakeup_breaks_quiet shows what a spurious wake-up would allow. *)
From Coq Require Import List Arith Bool.
Import ListNotations.
Require Import PV.Debugger.Proto PV.Debugger.Spec PV.Debugger.Quiet PV.Debugger.Safety
               PV.Debugger.Count PV.Debugger.Rerun PV.Debugger.Witness.

(* THE FULL STATEMENT, for a version cf of the code: in every reachable state
   1. the delivered events of the current run are exactly the hits (rule in the breakpoint set at the
      moment of the lookup) among a prefix of the entries of the parse, followed at most by the outcome
      of the plain parse, and only after all entries (never an abort error);
   2. nothing is delivered while parked: deliveries <= wake-ups + 1, wake-ups <= unparks;
   3. deliveries <= 1 + number of cont();
   4. if the controller waits in the join of a run() that it called when it had received every
      delivered event, some thread can move; and every schedule is finite (so the join returns). *)
Definition C17_statement (cf : config) : Prop :=
  forall cs b s, reachable cf cs b s ->
    delivery_ok false s /\ quiet_ok s /\ count_ok s /\ join_progress cf s /\
    (forall sch s', exec cf s sch = Some s' -> length sch + measure s' <= measure s).

(* the class of controller behaviours outside which the repaired code is proved:
   some cont() of the current run did not answer a received, not yet answered breakpoint event *)
Definition KnownClass (s : state) : Prop := disciplined s = false.

Definition C17_restricted_statement (cf : config) : Prop :=
  forall cs b s, reachable cf cs b s ->
    delivery_ok false s /\ quiet_ok s /\ count_ok s /\ (~ KnownClass s -> join_progress cf s) /\
    (forall sch s', exec cf s sch = Some s' -> length sch + measure s' <= measure s).

(* what does hold of the code as it is (abort error may be delivered; the kick counts as a cont) *)
Definition C17_literal_safety_statement : Prop :=
  forall k cs b s, reachable (literal k) cs b s ->
    delivery_ok true s /\ quiet_ok s /\ count_weak_ok s /\
    (forall sch s', exec (literal k) s sch = Some s' -> length sch + measure s' <= measure s).

(* (1) the code as it is: clause 4 fails, even for a disciplined controller; witness = DESIGN.md row 12 *)
Definition C17_rerun_terminates_refuted_statement : Prop :=
  exists cs b sch s, exec (literal 1) (init cs b) sch = Some s /\
    in_join_drained s = true /\ ~ KnownClass s /\ deadlocked (literal 1) s = true.

Theorem C17_rerun_terminates_refuted : C17_rerun_terminates_refuted_statement.
Proof.
  destruct rerun_hangs_literal as (s & H1 & H2 & H3 & H4 & _).
  exists w1_cmds, [0], w1_sched, s. repeat split; auto. unfold KnownClass. rewrite H3. discriminate.
Qed.

Theorem C17_full_statement_refuted_literal : ~ C17_statement (literal 1).
Proof.
  intros H. destruct rerun_hangs_literal as (s & H1 & H2 & H3 & H4 & _).
  destruct (H w1_cmds [0] s (ex_intro _ w1_sched H1)) as (_ & _ & _ & Hj & _).
  unfold deadlocked in H4. destruct (Hj H2) as [E|E]; rewrite E in H4; cbn in H4; try discriminate.
  destruct (enabled (literal 1) s C); discriminate.
Qed.

(* (2) the repaired code: the full statement restricted to ~KnownClass, for every capacity >= 1 *)
Theorem C17_repaired_outside_known_class : forall k, k >= 1 -> C17_restricted_statement (repaired k).
Proof.
  intros k Hk cs b s Hr. repeat split.
  - exact (delivery_exact (repaired k) cs b s Hr).
  - apply (quiet_while_parked (repaired k) cs b s eq_refl Hr).
  - apply (quiet_while_parked (repaired k) cs b s eq_refl Hr).
  - apply (quiet_while_parked (repaired k) cs b s eq_refl Hr).
  - exact (one_delivery_per_cont k cs b s Hr).
  - intros Hn. apply (join_never_stuck k cs b s Hk Hr).
    unfold KnownClass in Hn. destruct (disciplined s); [reflexivity | exfalso; apply Hn; reflexivity].
  - intros sch s'. apply all_schedules_finite.
Qed.

(* (3) and the restriction is needed: a stale park token (cont twice) still hangs the repaired code *)
Theorem C17_full_statement_refuted_repaired : ~ C17_statement (repaired 1).
Proof.
  intros H. destruct rerun_hangs_repaired_undisciplined as (s & H1 & H2 & H3 & H4).
  destruct (H w2_cmds [0] s (ex_intro _ w2_sched H1)) as (_ & _ & _ & Hj & _).
  unfold deadlocked in H4. destruct (Hj H2) as [E|E]; rewrite E in H4; cbn in H4; try discriminate.
  destruct (enabled (repaired 1) s C); discriminate.
Qed.

(* (4) the safety clauses that the code as it is does satisfy *)
Theorem C17_literal_safety : C17_literal_safety_statement.
Proof.
  intros k cs b s Hr. repeat split.
  - exact (delivery_exact (literal k) cs b s Hr).
  - apply (quiet_while_parked (literal k) cs b s eq_refl Hr).
  - apply (quiet_while_parked (literal k) cs b s eq_refl Hr).
  - apply (quiet_while_parked (literal k) cs b s eq_refl Hr).
  - exact (deliveries_le_unparks (literal k) cs b s eq_refl Hr).
  - intros sch s'. apply all_schedules_finite.
Qed.

(* (4b) breakpoint edits never block, for EVERY version and capacity: whoever wants the guard of the
   breakpoint set gets it at once or after one (always enabled) step of the holder; while the parse is
   stopped at a breakpoint (parked / blocked in send) add_breakpoint and delete_breakpoint go through at once.
   The Mutex is modelled with explicit acquire / release steps (PLock -> PHeld, CIdle -> EAdd/EDel). *)
Definition C17_edits_never_block_statement : Prop :=
  forall cf cs b s, reachable cf cs b s -> edits_never_block cf s.

Theorem C17_breakpoint_edits_never_block : C17_edits_never_block_statement.
Proof. exact mutex_never_blocks. Qed.

(* (5) limitation: with a spurious return of park() a second event is delivered without any unpark *)
Definition C17_spurious_statement : Prop :=
  exists cs b sch s, exec (spurious 2) (init cs b) sch = Some s /\
    sends (log s) = [EvBp 0 0; EvBp 0 5] /\ count is_cont (log s) = 0 /\ count is_kick (log s) = 0 /\
    ~ quiet_ok s /\ exec (repaired 2) (init cs b) sch = None.

Theorem C17_spurious_wakeup_breaks_quiet : C17_spurious_statement.
Proof.
  destruct spurious_wakeup_breaks_quiet as (s & H1 & H2 & H3 & H4 & H5).
  exists w4_cmds, [0], w4_sched, s. repeat split; auto.
  intros (Q1 & Q2 & Q3). revert Q1 Q2. unfold parked.
  assert (E : exec (spurious 2) (init w4_cmds [0]) w4_sched = Some s) by exact H1.
  vm_compute in E. injection E as <-. vm_compute. intros Q1 Q2.
  apply Nat.le_0_r in Q2. discriminate.
Qed.

(* non-vacuity *)
Example C17_full_flow : exists s, exec (repaired 1) (init nv_cmds [2]) nv_sched = Some s /\
  rev (out s) = [ORecv (EvBp 2 0); OContOk; ORecv (EvBp 2 2); OContOk; ORecv EvEof] /\ c_finished s = true.
Proof. destruct full_flow_example as (s & H1 & H2 & H3 & _). eauto. Qed.
Example C17_join_state : exists cs b s, reachable (repaired 1) cs b s /\ in_join_drained s = true /\ ~ KnownClass s.
Proof.
  destruct rerun_join_example as (s & H1 & H2 & H3 & _). exists w1_cmds, [0], s.
  split; [eexists; exact H1|]. split; auto. unfold KnownClass. rewrite H3. discriminate.
Qed.
Example C17_count_exceeded_literal : exists s, exec (literal 1) (init w3_cmds [0]) w3_sched = Some s /\
  sends (log s) = [EvBp 0 0; EvAbort] /\ count is_cont (log s) = 0.
Proof. exact count_exceeded_literal. Qed.

Print Assumptions C17_rerun_terminates_refuted.
Print Assumptions C17_full_statement_refuted_literal.
Print Assumptions C17_repaired_outside_known_class.
Print Assumptions C17_full_statement_refuted_repaired.
Print Assumptions C17_literal_safety.
Print Assumptions C17_breakpoint_edits_never_block.
Print Assumptions C17_spurious_wakeup_breaks_quiet.
