(* C04 - the token stream is a well-formed tree and every Pairs view agrees with it.
   This file holds ONLY the pinned statements, the closing theorems, non-vacuity examples and Print Assumptions.

   Models (PV.Iter.Model) are line-by-line transcriptions of pest/src/iterators/{pairs,pair,flat_pairs,tokens,
   pairs_builder,line_index}.rs; `Panic` stands for a Rust panic (index, unreachable!, usize underflow, unwrap,
   slice off a char boundary, failed assert!/debug_assert!), `Fuel` for a loop that did not terminate within the
   model's budget.  `fixes_none` is the code as it is in the repository, `fixes_all` the code after
   fixes/C04-1..3 (Pairs::single, FlatPairs::len, Serialize for Pairs).

   SCOPE: this file covers PairsBuilder and all iterator/view clauses for EVERY well-formed queue.  The clause
   "every successful parse yields a well-formed queue" (exec_preserves_wfq, about parser_state.rs) is proved by the
   coordinator over the parser-state model and enters `C04_statement_with` as its first conjunct. *)
From Coq Require Import String Ascii List Arith Bool.
Import ListNotations.
Require Import PV.Iter.Queue PV.Iter.QueueFacts PV.Iter.Model PV.Iter.Spec PV.Iter.PairsProofs
               PV.Iter.BuilderProofs PV.Iter.Top PV.Iter.Refuted.
Open Scope list_scope.
Open Scope nat_scope.

(* ---- well-formedness (definition in PV.Iter.Queue) ----
   wfq bounds len q :=  (exists f, q = tokens_of f)            balanced, properly nested, cross-links correct
                     /\ chain 0 (map qpos q)                   positions never decrease in stream order
                     /\ Forall (pos_ok bounds len) (map qpos q) every position is a char boundary <= len
   Win q s f       :=  exists pre post, q = pre ++ tokens_at s f ++ post /\ length pre = s     (a window)
   Rep q p f       :=  Win q (p_start p) f /\ p_end p = p_start p + 2 * fsize f /\ p_count p = length f
   PairAt q i t    :=  Win q i [t] *)

Definition C04_wfq_meaning : Prop :=
  (* the generative reading equals the grammar reading (Start .. inner .. End groups with mutual links) *)
  (forall q, (exists f, q = tokens_of f) <-> wf_seg 0 q) /\
  (* the boolean checker decides wfq *)
  (forall bounds len q, wfqb bounds len q = true <-> wfq bounds len q) /\
  (* forest_of inverts tokens_of *)
  (forall f, forest_of (tokens_of f) 0 (length (tokens_of f)) = f).

(* every view of a Pairs value p that stands for the forest f *)
Definition C04_pairs_views (fx : fixes) (input : string) (rname tname : nat -> string) (esc : string -> string)
           (q : list qtoken) (p : pairs) (f : list tree) : Prop :=
  (forall ops, run_pairs q input p ops = Ok (run_list f ops)) /\
  (forall ops, run_flat fx q input (pairs_flatten p) ops = Ok (run_list (preorder f) ops)) /\
  (exists k, pairs_tokens q input p = Ok k /\
             forall ops, run_tokens q input k ops = Ok (run_list (token_list f) ops)) /\
  pairs_len p = length f /\
  pairs_is_empty p = (match f with [] => true | _ => false end) /\
  pairs_as_str q input p = Ok (forest_str input f) /\
  pairs_concat q input p = Ok (forest_concat input f) /\
  (forall tg, exists idxs, pairs_find_tagged q tg p = Ok idxs /\ Forall2 (PairAt q) idxs (forest_find_tagged tg f)) /\
  (forall tg, exists o, pairs_find_first_tagged q tg p = Ok o /\
     match forest_find_tagged tg f with [] => o = None | t :: _ => exists i, o = Some i /\ PairAt q i t end) /\
  (forall alternate, display_pairs q input rname alternate p = Ok (display_forest input rname alternate f)) /\
  debug_pairs q input rname tname esc p = Ok (debug_forest input rname tname esc f) /\
  pairs_to_json fx q input rname p = Ok (json_forest input rname f) /\
  walk_pairs q input p = Ok f.

(* every view of a Pair value (start index i) that stands for the tree t *)
Definition C04_pair_views (fx : fixes) (input : string) (rname tname : nat -> string) (esc : string -> string)
           (q : list qtoken) (i : nat) (t : tree) : Prop :=
  pair_as_rule q i = Ok (t_rule t) /\
  pair_as_node_tag q i = Ok (t_tag t) /\
  pair_as_span q input i = Ok (t_start t, t_end t) /\
  pair_as_str q input i = Ok (tree_str input t) /\
  (exists p, pair_into_inner q i = Ok p /\ Rep q p (t_children t)) /\
  (exists p, pairs_single fx q i = Ok p /\ Rep q p [t]) /\
  (exists k, pair_tokens q input i = Ok k /\
             forall ops, run_tokens q input k ops = Ok (run_list (token_list [t]) ops)) /\
  (forall li, pair_line_col q input li i = li_line_col li input (t_start t)) /\
  display_pair q input i = Ok (tree_str input t) /\
  alt_pair q rname (fuel0 q) i = Ok (alt_tree rname t) /\
  debug_pair q input rname tname esc (fuel0 q) i = Ok (debug_tree input rname tname esc t) /\
  pair_to_json fx q input rname i = Ok (json_tree input rname t) /\
  walk_pair q input (fuel0 q) i = Ok t.

(* the iterator clauses, for every well-formed queue, every window, every interleaving *)
Definition C04_iter_part (fx : fixes) : Prop :=
  forall (input : string) (rname tname : nat -> string) (esc : string -> string) (q : list qtoken),
    wfq (is_char_boundary input) (String.length input) q ->
    (exists p0, pairs_new q 0 (length q) = Ok p0 /\ Rep q p0 (forest_of q 0 (length q))) /\
    (exists hi, fnested 0 (forest_of q 0 (length q)) hi /\ hi <= String.length input) /\
    (forall s f, Win q s f ->
       forest_of q s (s + 2 * fsize f) = f /\ exists p, pairs_new q s (s + 2 * fsize f) = Ok p /\ Rep q p f) /\
    (forall p f, Rep q p f -> C04_pairs_views fx input rname tname esc q p f) /\
    (forall i t, PairAt q i t -> C04_pair_views fx input rname tname esc q i t).

(* the PairsBuilder clauses *)
Definition C04_builder_part : Prop :=
  forall (input : string) (f : list tree),
    run_bops (bops_of f) [] = Ok f /\
    (forall t rest, run_bops (BTag t :: rest) [] = Panic) /\
    (build_queue input f = Panic <-> spans_okb input f = false) /\
    (forest_ok (is_char_boundary input) (String.length input) f ->
       exists p, build input f = Ok (tokens_of f, p) /\ Rep (tokens_of f) p f /\
                 wfq (is_char_boundary input) (String.length input) (tokens_of f) /\
                 forest_of (tokens_of f) 0 (length (tokens_of f)) = f).

(* ===== COORDINATOR: the conjunct `exec_preserves_wfq`
         (forall E p w fuel s, exec E fuel p (init w) = ROk s -> wfq (is_char_boundary w) (length w) (queue s))
         is passed in as `parse_part`. ===== *)
Definition C04_statement_with (parse_part : Prop) : Prop :=
  parse_part /\ C04_builder_part /\ C04_iter_part fixes_all.

(* ---------------- closing theorems ---------------- *)

Theorem C04_wfq_checker_and_abstraction : C04_wfq_meaning.
Proof.
  split; [exact balanced_iff|]. split; [|exact forest_of_tokens_of].
  intros bounds len q. split; [apply wfqb_sound|apply wfqb_complete].
Qed.

Theorem C04_builder : C04_builder_part.
Proof. exact builder_statement_holds. Qed.

Theorem C04_views_agree_fixed : C04_iter_part fixes_all.
Proof. exact iter_statement_fixed. Qed.

Theorem C04_iterators_partial : forall parse_part : Prop, parse_part -> C04_statement_with parse_part.
Proof. intros P HP. split; [exact HP|]. split; [exact C04_builder|exact C04_views_agree_fixed]. Qed.

(* the same statement about the code as it is in the repository is FALSE: three witnesses *)
Theorem C04_views_agree_current_refuted : ~ C04_iter_part fixes_none.
Proof. exact C04_iter_statement_current_refuted. Qed.

Theorem C04_single_refuted : ~ single_statement fixes_none any_op.
Proof. exact Refuted.C04_single_refuted. Qed.
Theorem C04_flat_len_refuted : ~ flat_statement fixes_none any_op.
Proof. exact Refuted.C04_flat_len_refuted. Qed.
Theorem C04_json_empty_refuted : ~ json_statement fixes_none any_forest.
Proof. exact Refuted.C04_json_empty_refuted. Qed.

(* ... and true of it outside the three decidable classes *)
Theorem C04_current_outside_known_classes :
  single_statement fixes_none not_next_back /\ flat_statement fixes_none not_len /\ json_statement fixes_none non_empty.
Proof. split; [exact single_current_forward|]. split; [exact flat_current_nolen|exact json_current_nonempty]. Qed.

(* ---------------- non-vacuity ---------------- *)

(* a(0,5)[ b#t0(0,2)[ a(1,2) ] b(3,5) ] c(5,6): nesting depth 3, siblings, a tag; input with a 2-byte char *)
(* "xy" ++ U+00E9 ++ "z w": 7 bytes, the 2-byte char occupies offsets 2..4 *)
Definition ex_input : string :=
  String "x" (String "y" (String (Ascii.ascii_of_nat 195) (String (Ascii.ascii_of_nat 169) (String "z" (String " " (String "w" EmptyString)))))).
Definition ex_forest : list tree :=
  [Node 0 None 0 5 [Node 1 (Some 0) 0 2 [Node 0 None 1 2 []]; Node 1 None 4 5 []]; Node 2 None 5 6 []].

Example ex_forest_ok : forest_okb (is_char_boundary ex_input) (String.length ex_input) ex_forest = true.
Proof. vm_compute. reflexivity. Qed.

Example ex_not_boundary : is_char_boundary ex_input 3 = false.
Proof. vm_compute. reflexivity. Qed.

Example ex_build :
  build_queue ex_input ex_forest =
  Ok [QStart 7 0; QStart 4 0; QStart 3 1; QEnd 2 0 None 2; QEnd 1 1 (Some 0) 2; QStart 6 4; QEnd 5 1 None 5;
      QEnd 0 0 None 5; QStart 9 5; QEnd 8 2 None 6].
Proof. vm_compute. reflexivity. Qed.

Example ex_wfq : wfqb (is_char_boundary ex_input) (String.length ex_input) (tokens_of ex_forest) = true.
Proof. vm_compute. reflexivity. Qed.

Example ex_interleaving :
  run_pairs (tokens_of ex_forest) ex_input {| p_start := 0; p_end := 10; p_count := 2 |} [Len; NextBack; Peek; Next; Len; Next; NextBack] =
  Ok [ALen 2; AItem (Some (Node 2 None 5 6 []));
      AItem (Some (Node 0 None 0 5 [Node 1 (Some 0) 0 2 [Node 0 None 1 2 []]; Node 1 None 4 5 []]));
      AItem (Some (Node 0 None 0 5 [Node 1 (Some 0) 0 2 [Node 0 None 1 2 []]; Node 1 None 4 5 []]));
      ALen 0; AItem None; AItem None].
Proof. vm_compute. reflexivity. Qed.

Example ex_flat_len_fixed :
  run_flat fixes_all (tokens_of ex_forest) ex_input {| f_start := 0; f_end := 10 |} [Next; Next; Len; NextBack; Len] =
  Ok [AItem (Some (Node 0 None 0 5 [Node 1 (Some 0) 0 2 [Node 0 None 1 2 []]; Node 1 None 4 5 []]));
      AItem (Some (Node 1 (Some 0) 0 2 [Node 0 None 1 2 []])); ALen 3; AItem (Some (Node 2 None 5 6 [])); ALen 2].
Proof. vm_compute. reflexivity. Qed.

(* the same on the code as it is: len says 4 and 3 *)
Example ex_flat_len_current :
  run_flat fixes_none (tokens_of ex_forest) ex_input {| f_start := 0; f_end := 10 |} [Next; Next; Len; NextBack; Len] =
  Ok [AItem (Some (Node 0 None 0 5 [Node 1 (Some 0) 0 2 [Node 0 None 1 2 []]; Node 1 None 4 5 []]));
      AItem (Some (Node 1 (Some 0) 0 2 [Node 0 None 1 2 []])); ALen 4; AItem (Some (Node 2 None 5 6 [])); ALen 3].
Proof. vm_compute. reflexivity. Qed.

Example ex_bad_span_panics : build_queue ex_input [Node 0 None 0 3 []] = Panic.
Proof. vm_compute. reflexivity. Qed.

Print Assumptions C04_wfq_checker_and_abstraction.
Print Assumptions C04_builder.
Print Assumptions C04_views_agree_fixed.
Print Assumptions C04_iterators_partial.
Print Assumptions C04_views_agree_current_refuted.
Print Assumptions C04_single_refuted.
Print Assumptions C04_flat_len_refuted.
Print Assumptions C04_json_empty_refuted.
Print Assumptions C04_current_outside_known_classes.

(* ===================== the parser half: every successful parse yields a well-formed queue =====================
   Model: PV.Comb.{PState,Prog,Exec} (pest/src/parser_state.rs).  `queue s` is the token Vec with its LAST
   element at the head, so the stream is `rev (queue s)`; `conv` maps the parser-state token constructors
   to those of PV.Iter.Queue.  Proofs: PV.Comb.Wfq1 / Wfq / Wfq2 (induction on the fuel of `exec`,
   generalised over the start state: a run appends the tokens of a closed forest to whatever queue it
   started with; rules in progress are part of that old queue).
   (1) unconditionally: balanced, properly nested, cross-links and End rules correct (= tokens_of a forest),
       positions never decrease, every position <= |input|;
   (2) the char-boundary clause as a hypothesis schema: a state invariant U preserved by every run of
       programs satisfying V, with U s -> bnd (input s) (pos s) = true, gives the full wfq;
   (3) the schema instantiated with the UTF-8 theory (PV.Comb.Utf8c.exec_boundary): valid UTF-8 input,
       programs/environment with valid UTF-8 string constants (&str in Rust), a configuration without the
       memchr feature or with the repaired three-needle arm: full wfq with bounds = boundaryb input;
   (4) the same for the public entry point state() (`parse_with ... = OPairs q`). *)
Require Import PV.Stack.Model PV.Comb.PState PV.Comb.Bytes PV.Comb.Prog PV.Comb.Exec PV.Comb.Frame
               PV.Comb.Utf8 PV.Comb.Utf8c PV.Comb.Wfq1 PV.Comb.Wfq PV.Comb.Wfq2.

Definition C04_parse_part : Prop :=
  (forall cfg E fuel p inp lim detail s,
     exec cfg E fuel p (init inp lim detail) = ROk s ->
     (exists f, map conv (rev (queue s)) = tokens_of f) /\
     chain 0 (map qpos (map conv (rev (queue s)))) /\
     Forall (fun x => x <= length inp) (map qpos (map conv (rev (queue s))))) /\
  (forall cfg E (bnd : list byte -> nat -> bool) (U : pst -> Prop) (V : prog -> Prop),
     (forall s s', input s' = input s -> pos s' = pos s -> cache (stack s') = cache (stack s) -> U s -> U s') ->
     (forall s, U s -> bnd (input s) (pos s) = true) ->
     (forall p q, V p -> In q (children p) -> V q) ->
     (forall f q, V (PCall f) -> E f = Some q -> V q) ->
     (forall fuel p s a, V p -> wf s -> Inv (stack s) a -> U s ->
        match exec cfg E fuel p s with ROk s' | RErr s' => U s' | _ => True end) ->
     forall fuel p inp lim detail s,
       V p -> U (init inp lim detail) ->
       exec cfg E fuel p (init inp lim detail) = ROk s ->
       wfq (bnd inp) (length inp) (map conv (rev (queue s)))) /\
  (forall cfg E fuel p inp lim detail s,
     cfg_ok cfg -> env_valid E -> prog_valid p -> valid_utf8 inp ->
     exec cfg E fuel p (init inp lim detail) = ROk s ->
     wfq (boundaryb inp) (length inp) (map conv (rev (queue s)))) /\
  (forall cfg E fuel p inp lim detail q,
     cfg_ok cfg -> env_valid E -> prog_valid p -> valid_utf8 inp ->
     parse_with cfg E fuel p inp lim detail = OPairs q ->
     wfq (boundaryb inp) (length inp) (map conv q)).

Theorem C04_parse : C04_parse_part.
Proof.
  split; [exact exec_preserves_wfq|]. split; [exact exec_preserves_wfq_from_boundary|].
  split; [exact exec_preserves_wfq_utf8|exact parse_wfq_utf8].
Qed.

Theorem C04_token_stream_and_views : C04_statement_with C04_parse_part.
Proof. exact (C04_iterators_partial _ C04_parse). Qed.

(* non-vacuity of the parser half: a run producing a(b#7, c(d)) over a 2-byte char, checked by wfqb *)
Example C04_parse_example :
  match exec ex_cfg (fun _ => None) 20 ex_prog (init ex_inp None false) with
  | ROk s => wfqb (boundaryb ex_inp) (length ex_inp) (map conv (rev (queue s)))
  | _ => false
  end = true.
Proof. vm_compute. reflexivity. Qed.

Print Assumptions C04_parse.
Print Assumptions C04_token_stream_and_views.
