(* C10 - line/column arithmetic and error rendering are correct for all text.
   This file holds ONLY the pinned statements, the closing theorems, non-vacuity examples and
   Print Assumptions.  Models: PV.Pos.Model (position.rs, line_index.rs, span.rs), PV.Pos.ErrorFmt
   (error.rs); `Panic` stands for a Rust panic, `Diverge` for a non-terminating iterator.
   Specification: PV.Pos.Spec (counting LF / chars; lines meeting a span; what a rendering shows).
   Strings are lists of code points, offsets are byte offsets (blen, len_utf8). *)
From Coq Require Import String.
From Coq Require Import List Arith NArith Bool.
Import ListNotations.
Require Import PV.Pos.Model PV.Pos.ErrorFmt PV.Pos.Spec PV.Pos.BasicProofs PV.Pos.LineColProofs
               PV.Pos.LinesProofs PV.Pos.ErrorProofs PV.Pos.SpanProofs PV.Pos.SpanLayoutProofs PV.Pos.Top.
Open Scope list_scope.

(* The full statement.  For EVERY string s and EVERY UTF-8 boundary offset off of it
   (before/after = the text before/after the offset):
   1 Position::line_col = (1 + number of LF before, 1 + number of chars since the last LF);
   2 Pair::line_col (LineIndex) agrees, with the index over the whole input ...
   3 ... and with the index truncated at any later boundary (pairs produced by a parse);
   4 line_of = the maximal LF-delimited segment containing the offset (and find_line_start/end its bounds);
   5 Span::new succeeds exactly on ordered boundary offsets;
   6 lines_span()/lines() = the consecutive lines meeting [off, b], for every boundary b >= off;
   7 rendering an error built from the position: no panic, and exactly the expected layout - line
     number, that line's text, marker under the column;
   8 rendering an error built from the span (off, b): no panic, and it shows them (Spec.span_shows).
   fx selects the model of Error::new_from_span (ErrorFmt.fixes): fix_continued = with
   fixes/C10-1-continued-line-visualize.patch, fix_eoi_line = with fixes/C10-2-empty-span-at-end-line.patch;
   fixes_none = the code as first shipped (the driver probes which of the four states the tree is in). *)
Definition C10_statement (fx : fixes) : Prop :=
  forall (s : str) (off : nat), boundary s off ->
    let p := before s off in
    let q := after s off in
    line_col s off = Ok (1 + count_nl p, 1 + length (after_last_nl p)) /\
    pair_line_col s off = line_col s off /\
    line_of s off = Ok (the_line p q) /\
    (find_line_start s off = line_start p /\ find_line_end s off = Ok (line_end p q)) /\
    (forall a b, span_new s a b <> None <-> a <= b /\ boundary s a /\ boundary s b) /\
    error_render_ok p q /\
    (forall b, boundary s b -> off <= b ->
       pair_line_col_upto s b off = line_col s off /\
       lines_span s (off, b) = Ok (lines_meeting s off b) /\
       lines s (off, b) = Ok (map (text_of s) (lines_meeting s off b)) /\
       span_render_ok fx p (mid s off b) (after s b)).

(* The full statement is FALSE of the code (four classes of renderings as shipped; K2 is removed by
   the first patch, K4 by the second; K1 and K3 remain; see Spec.KnownClass_pos / KnownClass_span and
   the witnesses below).  What is proved is the same statement with clauses 7
   and 8 restricted to the complement of the decidable known classes - and, for ALL inputs (known
   classes included), that rendering never panics. *)
Definition C10_statement_outside_known_classes (fx : fixes) : Prop :=
  forall (s : str) (off : nat), boundary s off ->
    let p := before s off in
    let q := after s off in
    line_col s off = Ok (1 + count_nl p, 1 + length (after_last_nl p)) /\
    pair_line_col s off = line_col s off /\
    line_of s off = Ok (the_line p q) /\
    (find_line_start s off = line_start p /\ find_line_end s off = Ok (line_end p q)) /\
    (forall a b, span_new s a b <> None <-> a <= b /\ boundary s a /\ boundary s b) /\
    (KnownClass_pos p q = false -> error_render_ok p q) /\
    (forall msg, exists out, render_pos s off msg = Ok out) /\
    (forall b, boundary s b -> off <= b ->
       pair_line_col_upto s b off = line_col s off /\
       lines_span s (off, b) = Ok (lines_meeting s off b) /\
       lines s (off, b) = Ok (map (text_of s) (lines_meeting s off b)) /\
       (KnownClass_span fx p (mid s off b) (after s b) = false -> span_render_ok fx p (mid s off b) (after s b)) /\
       (forall msg, exists out, render_span fx s (off, b) msg = Ok out)).

(* for all four states of the tree; a repaired class is empty (C10_K2_empty_when_patched, C10_K4_empty_when_patched) *)
Theorem C10_outside_known_classes : forall fx, C10_statement_outside_known_classes fx.
Proof.
  intros fx s off Hb p q. subst p q.
  split; [exact (top_line_col s off Hb)|].
  split; [exact (top_pair_line_col s off Hb)|].
  split; [exact (top_line_of s off Hb)|].
  split; [exact (top_line_of_range s off Hb)|].
  split; [exact (span_new_iff s)|].
  split; [exact (top_render_pos s off Hb)|].
  split; [exact (top_render_pos_no_panic s off Hb)|].
  intros b Hb2 Hle.
  split; [exact (top_pair_line_col_upto s off Hb b Hb2 Hle)|].
  split; [exact (top_lines_span s off Hb b Hb2 Hle)|].
  split; [exact (top_lines s off Hb b Hb2 Hle)|].
  split; [exact (top_render_span fx s off Hb b Hb2 Hle)|].
  exact (top_render_span_no_panic fx s off Hb b Hb2 Hle).
Qed.

(* LineIndex::line_col uses slice::partition_point inside its specification: the offsets are sorted *)
Definition C10_partition_point_precondition_statement : Prop :=
  forall (s : str) (pos : nat), partitioned (fun it => Nat.leb it pos) (line_index_new s).
Theorem C10_partition_point_precondition : C10_partition_point_precondition_statement.
Proof. exact line_offsets_partitioned. Qed.

(* Span::get and merge_spans (not named by the property text; proved as by-products) *)
Definition C10_span_get_merge_statement : Prop :=
  (forall p m q x y, span_get (p ++ m ++ q) (blen p, blen p + blen m) x y =
                     Ok (if ordered_boundaries m x y then Some (blen p + x, blen p + y) else None)) /\
  (forall s a b c d, span_new s a b <> None -> span_new s c d <> None ->
      merge_spans s (a, b) (c, d) = if Nat.leb c b && Nat.leb a d then Some (Nat.min a c, Nat.max b d) else None).
Theorem C10_span_get_merge : C10_span_get_merge_statement.
Proof. split; [exact span_get_correct|exact merge_spans_correct]. Qed.

(* ---- the refuted clauses: one witness per known class, evaluated on the model (and replayed on the
   real code by the harness on every run) *)
Definition a_ : char := 97%N.
Definition b_ : char := 98%N.
Definition c_ : char := 99%N.
Definition d_ : char := 100%N.

(* K1  "a\r", offset 2: reported 1:3, text `a`, marker under column 2 *)
Definition C10_K1_refuted_statement : Prop :=
  exists p q, KnownClass_pos p q = true /\ ~ error_render_ok p q.
Theorem C10_K1_refuted : C10_K1_refuted_statement.
Proof.
  exists [a_; CR], []. split; [reflexivity|]. intros H. destruct (H []) as ([|] & H1 & H2); [vm_compute in H1; discriminate|vm_compute in H2; discriminate].
Qed.

(* witnesses: K2 "\nab\ncd" span 0..2 (raw continued line), K3 "ab\ncd" span 0..3 (following line shown,
   labelled 1), K4 "ab" span 2..2 (no text, marker at column 1), and K1 for a span: "a\rb" span 2..3 *)
Definition wK2 : str * str * str := ([], [LF; a_], [b_; LF; c_; d_]).
Definition wK3 : str * str * str := ([], [a_; b_; LF], [c_; d_]).
Definition wK4 : str * str * str := ([a_; b_], [], []).
Definition wK1 : str * str * str := ([a_; CR], [b_], []).
Definition span_refuted_on (fx : fixes) (ws : list (str * str * str)) : Prop :=
  forall w, In w ws -> let '(p, m, q) := w in KnownClass_span fx p m q = true /\ ~ span_render_ok fx p m q.
Lemma span_refute fx p m q :
  (forall out, render_span fx (p ++ m ++ q) (blen p, blen p + blen m) [] = Ok out -> span_shows p m q [] out = false) ->
  ~ span_render_ok fx p m q.
Proof. intros Hf H. destruct (H [] eq_refl) as (out & E & S). rewrite (Hf out E) in S. discriminate. Qed.
Ltac refute_all :=
  intros w Hw; cbn [In] in Hw;
  repeat (destruct Hw as [<-|Hw]; [split; [reflexivity|]; apply span_refute; intros out E;
                                   vm_compute in E; inversion E; subst out; vm_compute; reflexivity|]);
  destruct Hw.

(* the code as first shipped: all four classes *)
Definition C10_span_refuted_statement : Prop := span_refuted_on fixes_none [wK2; wK3; wK4; wK1].
Theorem C10_span_refuted : C10_span_refuted_statement.
Proof. refute_all. Qed.

(* the three patched states: exactly the unrepaired classes remain *)
Definition C10_span_refuted_patched_statement : Prop :=
  span_refuted_on {| fix_continued := true; fix_eoi_line := false |} [wK3; wK4; wK1] /\
  span_refuted_on {| fix_continued := false; fix_eoi_line := true |} [wK2; wK3; wK1] /\
  span_refuted_on fixes_all [wK3; wK1].
Theorem C10_span_refuted_patched : C10_span_refuted_patched_statement.
Proof. split; [|split]; refute_all. Qed.

(* a patch only removes cases from the known classes; and the class it repairs is empty: on its
   witness the rendering is now correct *)
Definition C10_known_classes_shrink_statement : Prop :=
  forall fx p m q, KnownClass_span fx p m q = true -> KnownClass_span fixes_none p m q = true.
Theorem C10_known_classes_shrink : C10_known_classes_shrink_statement.
Proof.
  intros fx p m q. unfold KnownClass_span. cbn [fixes_none fix_continued fix_eoi_line negb andb]. rewrite !orb_true_iff.
  intros [[[H|H]|H]|H]; [tauto| |tauto|].
  - destruct (fix_continued fx); [discriminate|]. cbn [negb andb] in H. tauto.
  - destruct (fix_eoi_line fx); [discriminate|]. cbn [negb andb] in H. tauto.
Qed.
Definition C10_K2_empty_when_patched_statement : Prop :=
  forall fx, fix_continued fx = true ->
    let '(p, m, q) := wK2 in KnownClass_span fx p m q = false /\ span_render_ok fx p m q.
Theorem C10_K2_empty_when_patched : C10_K2_empty_when_patched_statement.
Proof.
  intros [fc fe] H. cbn in H. subst fc. unfold wK2.
  assert (K : KnownClass_span {| fix_continued := true; fix_eoi_line := fe |} [] [LF; a_] [b_; LF; c_; d_] = false) by (destruct fe; reflexivity).
  split; [exact K|apply span_render_correct; exact K].
Qed.
Definition C10_K4_empty_when_patched_statement : Prop :=
  forall fx, fix_eoi_line fx = true ->
    let '(p, m, q) := wK4 in KnownClass_span fx p m q = false /\ span_render_ok fx p m q.
Theorem C10_K4_empty_when_patched : C10_K4_empty_when_patched_statement.
Proof.
  intros [fc fe] H. cbn in H. subst fe. unfold wK4.
  assert (K : KnownClass_span {| fix_continued := fc; fix_eoi_line := true |} [a_; b_] [] [] = false) by (destruct fc; reflexivity).
  split; [exact K|apply span_render_correct; exact K].
Qed.

Definition C10_statement_refuted_statement : Prop := forall fx, ~ C10_statement fx.
Theorem C10_statement_refuted : C10_statement_refuted_statement.
Proof.
  intros fx H. destruct C10_K1_refuted as (p & q & _ & Hn).
  assert (Hb : boundary (p ++ q) (blen p)) by (now exists p, q).
  destruct (H (p ++ q) (blen p) Hb) as (_ & _ & _ & _ & _ & Hr & _).
  rewrite before_app, after_app in Hr. exact (Hn Hr).
Qed.

(* ---- non-vacuity: concrete evaluations of the model on CRLF, multi-byte, tab and multi-line inputs *)
Definition e_acute : char := 233%N.
Definition emoji : char := 128512%N.

(* "é\r\n😀\tb" : offsets 0 2 3 4 8 9 10; offset 9 is line 2, column 3 *)
Example C10_ex_line_col : line_col [e_acute; CR; LF; emoji; TAB; b_] 9 = Ok (2, 3).
Proof. vm_compute. reflexivity. Qed.
Example C10_ex_between_cr_lf : line_col [e_acute; CR; LF; emoji; TAB; b_] 3 = Ok (1, 3).
Proof. vm_compute. reflexivity. Qed.
Example C10_ex_non_boundary : line_col [e_acute; CR; LF; emoji; TAB; b_] 5 = Panic /\ span_new [e_acute; CR; LF; emoji; TAB; b_] 2 5 = None.
Proof. vm_compute. split; reflexivity. Qed.
Example C10_ex_line_of : line_of [a_; LF; b_; c_; LF; d_] 3 = Ok [b_; c_; LF].
Proof. vm_compute. reflexivity. Qed.
(* "ab\ncd\nefgh" span 1..9 (error.rs test display_custom_span_three_lines): three lines meet it *)
Example C10_ex_lines_span :
  lines_span [a_; b_; LF; c_; d_; LF; 101%N; 102%N; 103%N; 104%N] (1, 9) = Ok [(0, 3); (3, 6); (6, 10)].
Proof. vm_compute. reflexivity. Qed.
Example C10_ex_render_span_shows :
  exists out, render_span fixes_none [a_; b_; LF; c_; d_; LF; 101%N; 102%N; 103%N; 104%N] (1, 9) (lit "m") = Ok out /\
              span_shows [a_] [b_; LF; c_; d_; LF; 101%N; 102%N; 103%N] [104%N] (lit "m") out = true /\
              KnownClass_span fixes_none [a_] [b_; LF; c_; d_; LF; 101%N; 102%N; 103%N] [104%N] = false.
Proof. eexists. split; [vm_compute; reflexivity|]. split; vm_compute; reflexivity. Qed.
(* "a\txbc" offset 2 (error.rs test underline_with_tabs): the tab is kept in the marker row *)
Example C10_ex_render_pos :
  render_pos [a_; TAB; 120%N; b_; c_] 2 (lit "m") =
  Ok (lit " --> 1:3" ++ NL ++ lit "  |" ++ NL ++ lit "1 | a" ++ [TAB] ++ lit "xbc" ++ NL ++
      lit "  |  " ++ [TAB] ++ lit "^---" ++ NL ++ lit "  |" ++ NL ++ lit "  = m").
Proof. vm_compute. reflexivity. Qed.

Print Assumptions C10_outside_known_classes.
Print Assumptions C10_partition_point_precondition.
Print Assumptions C10_span_get_merge.
Print Assumptions C10_K1_refuted.
Print Assumptions C10_span_refuted.
Print Assumptions C10_span_refuted_patched.
Print Assumptions C10_known_classes_shrink.
Print Assumptions C10_K2_empty_when_patched.
Print Assumptions C10_K4_empty_when_patched.
Print Assumptions C10_statement_refuted.
