(* C16 - Unicode property rules are consistent for every code point.
   This file holds ONLY the pinned statement, the closing theorem, non-vacuity examples and
   Print Assumptions.  The tables and name lists (PV.gen.Unicode* ) are regenerated from /repo by
   tools/unicode2v.py on every run; PV.Unicode.Trie is the literal model of ucd-trie's
   TrieSetSlice::contains; PV.Unicode.Names/Spec model the four access paths
   (pest::unicode::NAME, pest::unicode::by_name, the pest_vm built-in, the generated built-in)
   and the validator's BUILTINS.  The heavy kernel-evaluated sweeps live in PV.Unicode.Check*. *)
From Coq Require Import NArith List Bool String.
Require Import PV.Unicode.Trie PV.Unicode.Names PV.gen.UnicodeNames PV.Unicode.Spec PV.Unicode.Top.
Import ListNotations.
Open Scope N_scope.

(* Bound: ALL code points 0 .. 0x10FFFF (a superset of the 1,112,064 scalar values), ALL advertised
   property names (unicode_property_names, regenerated), the four access paths. *)
Definition C16_statement : Prop :=
  (forall cp, cp <= 0x10FFFF ->
     (* exactly one two-letter general category rule matches *)
     exactly_one (fun n => rule_matches n cp) two_letter_names /\
     (* each grouped category matches exactly the union of its members *)
     (forall g ms, In (g, ms) groups -> rule_matches g cp = existsb (fun m => rule_matches m cp) ms) /\
     (* script rules are pairwise disjoint *)
     at_most_one (fun n => rule_matches n cp) script_property_names /\
     (* function, by_name, VM built-in and generated built-in give the same answer (and no lookup panics) *)
     (forall n, In n unicode_property_names ->
        exists b, via_function n cp = Ans b /\ via_by_name n cp = Ans b /\
                  via_vm n cp = Ans b /\ via_generated n cp = Ans b)) /\
  (* every advertised name is accepted by the validator *)
  (forall n, In n unicode_property_names -> validator_accepts n = true) /\
  (* the advertised category rules are exactly the 30 two-letter ones and the 8 grouped ones *)
  (forall n, In n category_property_names <-> In n (two_letter_names ++ map fst groups)) /\
  NoDup unicode_property_names.

Theorem C16_unicode_consistent : C16_statement.
Proof. exact C16_unicode_consistent. Qed.

(* Non-vacuity (independent of the Unicode version): 30 categories, 8 groups; 'A' is an uppercase
   letter and a LETTER and LATIN but not GREEK; U+03B1 is GREEK on all four paths; U+D800 is a
   SURROGATE; U+10FFFF is UNASSIGNED. *)
Example C16_counts : (List.length two_letter_names, List.length groups) = (30%nat, 8%nat).
Proof. reflexivity. Qed.
Example C16_example_A :
  (rule_matches "UPPERCASE_LETTER" 0x41, rule_matches "LETTER" 0x41, rule_matches "LATIN" 0x41,
   rule_matches "GREEK" 0x41, rule_matches "SURROGATE" 0xD800, rule_matches "UNASSIGNED" 0x10FFFF)
  = (true, true, true, false, true, true).
Proof. vm_compute. reflexivity. Qed.
Example C16_example_alpha :
  (via_function "GREEK" 0x3B1, via_by_name "GREEK" 0x3B1, via_vm "GREEK" 0x3B1, via_generated "GREEK" 0x3B1,
   validator_accepts "GREEK", via_by_name "greek" 0x3B1, via_vm "ASCII_DIGIT" 0x30)
  = (Ans true, Ans true, Ans true, Ans true, true, Unresolved, Shadowed).
Proof. vm_compute. reflexivity. Qed.

Print Assumptions C16_unicode_consistent.
