(* C08 - failure reports point at the furthest failure with sound expectations.
   This file holds ONLY the pinned statements, the closing theorems, non-vacuity examples and
   Print Assumptions.

   Model: PV.Comb.Exec (rule(), track(), attempts_at(), state() of pest/src/parser_state.rs, line by
   line) instrumented in PV.Comb.Attempts: `exec_log` also returns the forest of rule attempts
   `Attempt rule pos matched sign atomic children` in execution order; `parse_with_log` is the
   public entry point state() (outcome_of: ParsingError { positives, negatives } at a position,
   after sort + dedup) together with that forest.  The instrumentation is a ghost: the first
   component is the uninstrumented model (C08_instrumentation_erases).

   Specification (PV.Comb.Attempts, second half):
     counts m sg at   the attempt is reportable (not made in Atomic mode; silent rules make no
                      attempt at all) and failed under a non-negative sign or matched under the
                      negative sign;
     max_reportable_pos   the furthest position of such an attempt, 0 if none;
     failed_at / matched_negated_at   a reportable attempt of that rule with that outcome and sign
                      exactly at that position exists in the forest;
     strictly_increasing  sorted without duplicates;
     report_of_log    the last sentence of the property read recursively over the forest, by SETS
                      of rules (the children's report is a singleton set);
     report_counted   the same with "exactly one" counting reported attempts (comment in track());
     KnownClass       decidable: some attempt that counts at the final position has a children's
                      report consisting of one rule listed more than once.                       *)
From Coq Require Import List Arith NArith Bool.
Import ListNotations.
Require Import PV.Comb.PState PV.Comb.Bytes PV.Comb.Prog PV.Comb.Exec PV.Comb.Attempts PV.Comb.AttemptsProofs.

(* The full statement, with the literal reading of the last sentence. *)
Definition C08_statement : Prop :=
  forall cfg E fuel p inp lim detail positives negatives position log,
    parse_with_log cfg E fuel p inp lim detail = (OParsingError positives negatives position, log) ->
    position = max_reportable_pos log /\
    (forall r, In r positives -> failed_at log r position) /\
    (forall r, In r negatives -> matched_negated_at log r position) /\
    strictly_increasing positives /\ strictly_increasing negatives /\
    (positives, negatives) = report_of_log log.

(* It is FALSE of the code: a rule inside which the same rule was tried twice at the same position
   (and nothing else) is reported itself.  Witness = the VM's closure tree for
       r0 = { r1 ~ "x" | s }   s = _{ r1 ~ "y" }   r1 = { "q" }       on input "z"
   (rule ids 0, -, 2): pest reports `expected r0`; the literal reading gives `expected r1`.       *)
Definition C08_witness_cfg : config := {| memchr := true; fixed3 := true; fixedlim := false |}.
Definition C08_witness_env : env := fun f =>
  match f with
  | 0 => Some (PRule 0 (POrElse (PSequence (PAndThen (PAndThen (PCall 2) (PPrim MOk)) (PPrim (MMatchString [120%N])))) (PCall 1)))
  | 1 => Some (PSequence (PAndThen (PAndThen (PCall 2) (PPrim MOk)) (PPrim (MMatchString [121%N]))))
  | 2 => Some (PRule 2 (PPrim (MMatchString [113%N])))
  | _ => None
  end.
Definition C08_witness_log : list attempt :=
  [Attempt 0 0 false LNone false [Attempt 2 0 false LNone false []; Attempt 2 0 false LNone false []]].

Lemma C08_witness_run :
  parse_with_log C08_witness_cfg C08_witness_env 40 (PCall 0) [122%N] None false = (OParsingError [0] [] 0, C08_witness_log).
Proof. vm_compute. reflexivity. Qed.

Definition C08_report_refuted_statement : Prop := ~ C08_statement.
Theorem C08_report_refuted : C08_report_refuted_statement.
Proof.
  intros H. specialize (H _ _ _ _ _ _ _ _ _ _ _ C08_witness_run).
  destruct H as (_ & _ & _ & _ & _ & H). vm_compute in H. discriminate H.
Qed.

Definition C08_report_refuted_witness_statement : Prop :=
  exists cfg E fuel p inp lim detail positives negatives position log,
    parse_with_log cfg E fuel p inp lim detail = (OParsingError positives negatives position, log) /\
    (positives, negatives) = ([0], []) /\ report_of_log log = ([2], []) /\ KnownClass log = true.
Theorem C08_report_refuted_witness : C08_report_refuted_witness_statement.
Proof.
  do 11 eexists. split; [exact C08_witness_run|]. split; [reflexivity|]. split; vm_compute; reflexivity.
Qed.

(* What is PROVED, for every run whatsoever: clauses (a), (b), (c); clause (d) with the counted
   reading on every run and with the literal reading outside KnownClass.                          *)
Definition C08_proved_statement : Prop :=
  forall cfg E fuel p inp lim detail positives negatives position log,
    parse_with_log cfg E fuel p inp lim detail = (OParsingError positives negatives position, log) ->
    position = max_reportable_pos log /\
    (forall r, In r positives -> failed_at log r position) /\
    (forall r, In r negatives -> matched_negated_at log r position) /\
    strictly_increasing positives /\ strictly_increasing negatives /\
    (positives, negatives) = report_counted log /\
    (KnownClass log = false -> (positives, negatives) = report_of_log log).

Theorem C08_failure_reports : C08_proved_statement.
Proof. intros cfg E fuel p inp lim detail ps ns at_ log H. exact (failure_report cfg E fuel p inp lim detail ps ns at_ log H). Qed.

(* the full statement restricted by the decidable class *)
Definition C08_outside_known_class_statement : Prop :=
  forall cfg E fuel p inp lim detail positives negatives position log,
    parse_with_log cfg E fuel p inp lim detail = (OParsingError positives negatives position, log) ->
    KnownClass log = false ->
    position = max_reportable_pos log /\
    (forall r, In r positives -> failed_at log r position) /\
    (forall r, In r negatives -> matched_negated_at log r position) /\
    strictly_increasing positives /\ strictly_increasing negatives /\
    (positives, negatives) = report_of_log log.

Theorem C08_outside_known_class : C08_outside_known_class_statement.
Proof.
  intros cfg E fuel p inp lim detail ps ns at_ log H K.
  destruct (failure_report cfg E fuel p inp lim detail ps ns at_ log H) as (A & B & C & D & F & _ & G).
  repeat split; auto.
Qed.

(* The generalisation the induction needs, from ANY start state: look-ahead mode and atomicity are
   restored, and the three attempt fields after the run are a function of the fields before and of
   the forest (Tr: new furthest position = max; lists = report of the forest at that position,
   appended to the old lists iff the position did not move).                                      *)
Definition C08_transfer_statement : Prop :=
  forall cfg E fuel p s r log s',
    exec_log cfg E fuel p s = (r, log) -> r = ROk s' \/ r = RErr s' ->
    lookahead s' = lookahead s /\ atomicity s' = atomicity s /\
    attempt_pos s' = Nat.max (attempt_pos s) (max_reportable_pos log) /\
    pos_attempts s' = rev (positives_of (flat_map (rep_cnt (attempt_pos s')) log))
                      ++ (if Nat.eqb (attempt_pos s) (attempt_pos s') then pos_attempts s else []) /\
    neg_attempts s' = rev (negatives_of (flat_map (rep_cnt (attempt_pos s')) log))
                      ++ (if Nat.eqb (attempt_pos s) (attempt_pos s') then neg_attempts s else []).

Theorem C08_transfer : C08_transfer_statement.
Proof. intros cfg E fuel p s r log s' H R. exact (exec_log_transfer cfg E fuel p s r log s' H R). Qed.

(* the instrumentation is a ghost *)
Definition C08_erasure_statement : Prop :=
  (forall cfg E fuel p s, fst (exec_log cfg E fuel p s) = exec cfg E fuel p s) /\
  (forall cfg E fuel p inp lim detail, fst (parse_with_log cfg E fuel p inp lim detail) = parse_with cfg E fuel p inp lim detail).

Theorem C08_instrumentation_erases : C08_erasure_statement.
Proof. split; [exact exec_log_erasure|exact parse_with_log_erasure]. Qed.

(* Vec::sort + Vec::dedup of state() *)
Definition C08_sort_dedup_statement : Prop :=
  forall l, strictly_increasing (sort_dedup l) /\ (forall x, In x (sort_dedup l) <-> In x l).

Theorem C08_sort_dedup : C08_sort_dedup_statement.
Proof. intros l. split; [apply sort_dedup_sorted|intros x; apply sort_dedup_in]. Qed.

(* ---------- non-vacuity ---------- *)
Definition C08_str (b : N) : prog := PPrim (MMatchString [b]).
Definition C08_noenv : env := fun _ => None.
(* rule 0 { !rule 1 {"a"} ~ (rule 2 {"b"} | rule 3 {"c"}) } *)
Definition C08_ex1 : prog :=
  PRule 0 (PSequence (PAndThen (PLookahead false (PRule 1 (C08_str 97%N)))
                               (POrElse (PRule 2 (C08_str 98%N)) (PRule 3 (C08_str 99%N))))).
(* on "a": rule 1 matches under negation; it is the only attempt recorded inside rule 0, so it stays *)
Example C08_example_negated :
  parse_with_log C08_witness_cfg C08_noenv 40 C08_ex1 [97%N] None false =
  (OParsingError [] [1] 0, [Attempt 0 0 false LNone false [Attempt 1 0 true LNeg false []]]).
Proof. vm_compute. reflexivity. Qed.
(* on "x": rule 1 fails under negation (not a failure of the parse), rules 2 and 3 fail at 0: rule 0 replaces them *)
Example C08_example_replaced :
  parse_with_log C08_witness_cfg C08_noenv 40 C08_ex1 [120%N] None false =
  (OParsingError [0] [] 0,
   [Attempt 0 0 false LNone false
      [Attempt 1 0 false LNeg false []; Attempt 2 0 false LNone false []; Attempt 3 0 false LNone false []]]).
Proof. vm_compute. reflexivity. Qed.
(* rule 0 { "a" ~ (rule 1 { rule 2 {"b"} } | rule 3 { atomic: rule 4 {"c"} }) } on "ax": the furthest failures are
   at 1; rule 2 is the one attempt inside rule 1 (reported in its place), rule 4 is inside an atomic section (not
   reportable), so rule 3 is reported; rule 0 started at 0 and contributes nothing *)
Definition C08_ex2 : prog :=
  PRule 0 (PSequence (PAndThen (C08_str 97%N)
     (POrElse (PRule 1 (PRule 2 (C08_str 98%N))) (PRule 3 (PAtomic Atomic (PRule 4 (C08_str 99%N))))))).
Example C08_example_furthest :
  parse_with_log C08_witness_cfg C08_noenv 40 C08_ex2 [97%N; 120%N] None false =
  (OParsingError [2; 3] [] 1,
   [Attempt 0 0 false LNone false
      [Attempt 1 1 false LNone false [Attempt 2 1 false LNone false []];
       Attempt 3 1 false LNone false [Attempt 4 1 false LNone true []]]]).
Proof. vm_compute. reflexivity. Qed.
Example C08_example_furthest_spec :
  let log := snd (parse_with_log C08_witness_cfg C08_noenv 40 C08_ex2 [97%N; 120%N] None false) in
  max_reportable_pos log = 1 /\ report_of_log log = ([2; 3], []) /\ report_counted log = ([2; 3], []) /\ KnownClass log = false.
Proof. vm_compute. repeat split; reflexivity. Qed.

Print Assumptions C08_failure_reports.
Print Assumptions C08_outside_known_class.
Print Assumptions C08_report_refuted.
Print Assumptions C08_report_refuted_witness.
Print Assumptions C08_transfer.
Print Assumptions C08_instrumentation_erases.
Print Assumptions C08_sort_dedup.
