(* C09 - the grammar front-end is total: any text yields rules or located errors.
   This file holds ONLY the pinned statements, the closing theorems, witnesses / non-vacuity examples and
   Print Assumptions.

   Model (coq/Front): parse_and_optimize AFTER the meta-parse = validate_pairs ; consume_rules (consume_rules_with_spans ;
   validate_ast) ; optimize, over the token forest that the meta-parser returned.  The forest is an input; what is assumed
   about it is the SHAPE invariant `shape_ok` of grammar.pest (Front/Shape.v): the children of a node of rule r form a word
   of the regular language of r's expression (decided by a derivative matcher proved equal to the declarative semantics,
   C09_shape_is_regular), the literal first/last characters, nested ordered spans on char boundaries.  It is a consequence of
   C01/C14 for grammar.pest and of C04; the harness evaluates the extracted `shape_ok` on EVERY real parse.
   Flags: `shipped st` = the code without, `repaired st` = with the C09 repairs (fixes/C09-1, -2, -4 and the leading-`|`
   repair that entered the tree as C07-2); st : tree_state = feature grammar-extras and whether the tree has the repairs of
   OTHER properties that touch functions modelled here (C06: left_recursion::check_expr, filter_map_top_down into NodeTag;
   C07: ^"..." read from the inner string pair): every theorem holds for every st, the runner follows the tree (probe).
   FPanic = the Rust call panics; FFuel = model artefact.  Rendering is C10's theorem (PV.Pos.Top).           *)
From Coq Require Import List Arith NArith ZArith Bool Lia.
Import ListNotations.
Require Import PV.Pos.Model PV.Pos.ErrorFmt PV.Pos.Spec PV.Pos.Top.
Require Import PV.Front.Shape PV.Front.ShapeFacts PV.Front.Consume PV.Front.Validate PV.Front.Optimize PV.Front.Frontend.
Require Import PV.Front.ConsumeProofs PV.Front.ValidateProofs PV.Front.OptimizeProofs PV.Front.FuelProofs PV.Front.Total
               PV.Front.OptimizeFuel PV.Front.Steps PV.Front.StepsTop PV.Front.Witnesses.
Open Scope list_scope.

(* an error location is a position / an ordered span on char boundaries of the text *)
Definition located (text : str) (l : loc) : Prop :=
  match l with LPos p => boundary text p | LSpan a b => a <= b /\ boundary text a /\ boundary text b end.
(* `format!("{}", Error::new_from_pos / new_from_span (CustomError{message}, ..))` returns (model of error.rs, C10;
   fx = which of the two versions of the continued-line code of new_from_span the tree has: both render) *)
Definition renders (text : str) (l : loc) : Prop :=
  forall fx msg, exists out, match l with LPos p => render_pos text p msg = Ok out | LSpan a b => render_span fx text (a, b) msg = Ok out end.

(* The full statement for one configuration of the code.  For every text and every forest of the shape that the
   meta-parser produces for it: reading, validating and optimizing returns rules or errors (never a panic, never out of
   fuel = it terminates), docs::consume does not panic, every error is located in the text and renders;
   and (bounded time) the step count of the validator is bounded by a fixed polynomial in the size of the rules. *)
Definition C09_statement_for (fl : flags) : Prop :=
  (forall builtins text forest, shape_ok text forest = true ->
     let out := frontend fl builtins (default_fuel text forest) text forest in
     out <> FPanic /\ out <> FFuel /\ docs_consume forest = true /\
     forall l, out = FErrors l -> forall e, In e l -> located text (snd e) /\ renders text (snd e))
  /\
  (exists c k, forall rules builtins ex fuel errs s,
     validate_ast rules fuel (fix_lr fl) (fix_tag fl) builtins ex = VOk errs s -> s <= c * (rules_size rules) ^ k).
Definition C09_statement : Prop := forall st, C09_statement_for (shipped st).

(* ------------------------------------------------------------------ what is proved for the repaired code *)
(* C09_no_panic + C09_locations + rendering: every clause of the first half except `<> FFuel`, for EVERY fuel
   and without any bound on the repetition counts (the repaired unroller needs none) *)
Definition C09_total_located_statement : Prop :=
  forall st builtins fuel text forest, shape_ok text forest = true ->
    let out := frontend (repaired st) builtins fuel text forest in
    out <> FPanic /\ docs_consume forest = true /\
    forall l, out = FErrors l -> forall e, In e l -> located text (snd e) /\ renders text (snd e).
Theorem C09_total_located : C09_total_located_statement.
Proof.
  intros st builtins fuel text forest SH out. split; [apply frontend_no_panic; exact SH|]. split.
  - apply (docs_consume_ok text). apply shape_ok_forest. exact SH.
  - intros l E e He. pose proof (frontend_located (repaired st) builtins fuel text forest l SH E e He) as L.
    split; [exact L|]. intros fx msg. destruct (snd e) as [p|a b].
    + apply (top_render_pos_no_panic text p L msg).
    + destruct L as (L1 & L2 & L3). apply (top_render_span_no_panic fx text a L2 b L3 L1 msg).
Qed.
Definition C09_no_panic_statement : Prop :=
  forall st builtins fuel text forest, shape_ok text forest = true -> frontend (repaired st) builtins fuel text forest <> FPanic.
Theorem C09_no_panic : C09_no_panic_statement.
Proof. exact frontend_no_panic. Qed.
(* every error that ANY configuration of the code reports (shipped, repaired, in between) is located and renders *)
Definition C09_locations_statement : Prop :=
  forall fl builtins fuel text forest l, shape_ok text forest = true -> frontend fl builtins fuel text forest = FErrors l ->
  forall e, In e l -> located text (snd e) /\ renders text (snd e).
Theorem C09_locations : C09_locations_statement.
Proof.
  intros fl builtins fuel text forest l SH E e He. pose proof (frontend_located fl builtins fuel text forest l SH E e He) as L.
  split; [exact L|]. intros fx msg. destruct (snd e) as [p|a b].
  - apply (top_render_pos_no_panic text p L msg).
  - destruct L as (L1 & L2 & L3). apply (top_render_span_no_panic fx text a L2 b L3 L1 msg).
Qed.

(* with the unroller as shipped (only the reader repaired, fixes C09-1..3) the same holds when every repetition count
   of the rules read is at most 2^32 - 3 *)
Definition C09_no_panic_bounded_counts_statement : Prop :=
  forall st builtins fuel text forest, shape_ok text forest = true ->
    (forall rules, consume_rules_with_spans (repaired_reader_only st) text fuel forest = ODone rules ->
                   Forall (fun r => counts_le 4294967293 (pbody r)) rules) ->
    frontend (repaired_reader_only st) builtins fuel text forest <> FPanic.
Theorem C09_no_panic_bounded_counts : C09_no_panic_bounded_counts_statement.
Proof. exact frontend_no_panic_bounded_counts. Qed.

(* termination (`<> FFuel`), PARTIAL: proved for the reader, the validator and the optimizer passes rotate and factor -
   more fuel than the nesting depth of the forest / the number of rules / the size of the rule body always suffices.
   Missing: the skipper (atomic rules only): populate_choices follows rule references with no cycle check of its own, so its
   termination needs the soundness of the left-recursion check (property C06).  So: if the model runs out of fuel, it does so
   in the skipper pass of an atomic rule. *)
Definition C09_terminates_partial_statement : Prop :=
  forall fl builtins fuel text forest,
    (fdepth forest <= fuel -> consume_rules_with_spans fl text fuel forest <> OFuel) /\
    (forall rules, length rules < fuel -> validate_ast rules fuel (fix_lr fl) (fix_tag fl) builtins (extras fl) <> VFuel) /\
    (forall map r, asize (abody r) <= fuel -> optimize_rule (extras fl) (fix_unroll fl) fuel map r = OptFuel ->
       aty r = TAtomic /\ exists e1, map_td fuel (rotate_internal fuel) (abody r) = Some e1 /\ map_td fuel (skip_fn fuel map) e1 = None).
Theorem C09_terminates_partial : C09_terminates_partial_statement.
Proof.
  intros fl builtins fuel text forest. split; [|split].
  - intros D E. pose proof (consume_rules_nofuel fl text fuel forest D) as N. rewrite E in N. exact N.
  - intros rules L E. pose proof (validate_ast_nf rules fuel (fix_lr fl) (fix_tag fl) ltac:(rewrite map_length; exact L) builtins (extras fl)) as N. rewrite E in N. exact N.
  - intros map r L E. eapply optimize_rule_fuel; eauto.
Qed.

(* the shape invariant IS the regular-language statement: the matcher used by shape_ok decides `matches` *)
Definition C09_shape_is_regular_statement : Prop := forall a w, re_matchb a w = true <-> matches a w.
Theorem C09_shape_is_regular : C09_shape_is_regular_statement.
Proof. exact re_matchb_iff. Qed.

(* ------------------------------------------------------------------ bounded time: refuted *)
(* a1 = { a2 ~ a2 }  a2 = { a3 ~ a3 } ... a(n+2) = { "" }: at least 2^n validator steps *)
Definition validator_steps_exponential_statement : Prop :=
  forall n fuel lrf tgf builtins ex errs s, n + 4 <= fuel -> validate_ast (fam n) fuel lrf tgf builtins ex = VOk errs s -> 2 ^ n <= s.
Theorem validator_steps_exponential : validator_steps_exponential_statement.
Proof. exact Steps.validator_steps_exponential. Qed.
(* ... while the family has quadratic size, so no polynomial bounds the steps, whatever the configuration *)
Definition C09_steps_refuted_statement : Prop :=
  forall lrf tgf, ~ exists c k, forall rules builtins ex fuel errs s,
    validate_ast rules fuel lrf tgf builtins ex = VOk errs s -> s <= c * (rules_size rules) ^ k.
Theorem C09_steps_refuted : C09_steps_refuted_statement.
Proof.
  intros lrf tgf (c & k & H). destruct (validator_not_polynomial c k) as (rules & V). destruct (V lrf tgf [] false) as (errs & s & E & L).
  specialize (H _ _ _ _ _ _ E). lia.
Qed.

(* ------------------------------------------------------------------ the code as shipped: refuted, one witness per class *)
Definition panics (fl : flags) (text : str) (forest : list tok) : Prop :=
  shape_ok text forest = true /\ frontend fl [] (default_fuel text forest) text forest = FPanic.
(* "\u{D800}" / '\u{110000}'..'z' / ^"\u{DFFF}" : expect("incorrect string|char literal")   [fixes/C09-1]
   PEEK[99999999999..] : parse::<i32>().unwrap()                                             [fixes/C09-2]
   ( | "a" ) : the Pratt parser meets an infix operator first                                [in the tree since C07-2]
   ^/*\*/"a" : (tree before C07-1) unescape runs over the comment between ^ and the literal  [in the tree since C07-1]
   "x"{4294967294,} : `1..min + 2` overflows                                                 [fixes/C09-4] *)
Definition C09_refuted_witnesses_statement : Prop :=
  panics (shipped current) w_escape_str_text w_escape_str_forest /\
  panics (shipped current) w_escape_chr_text w_escape_chr_forest /\
  panics (shipped current) w_escape_ins_text w_escape_ins_forest /\
  panics (shipped current) w_peek_text w_peek_forest /\
  panics (shipped current) w_paren_choice_text w_paren_choice_forest /\
  panics (shipped current) w_unroll_text w_unroll_forest /\
  panics (repaired_reader_only current) w_unroll_text w_unroll_forest /\
  panics (shipped original) w_escape_str_text w_escape_str_forest /\
  panics (shipped original) w_insens_comment_text w_insens_comment_forest.
Theorem C09_refuted_witnesses : C09_refuted_witnesses_statement.
Proof. unfold C09_refuted_witnesses_statement, panics. repeat split; vm_compute; reflexivity. Qed.

Definition C09_refuted_statement : Prop := ~ C09_statement.
Theorem C09_refuted : C09_refuted_statement.
Proof.
  intros H. destruct (H current) as [T _].
  destruct (T [] w_escape_str_text w_escape_str_forest ltac:(vm_compute; reflexivity)) as (NP & _).
  apply NP. vm_compute. reflexivity.
Qed.
(* the repaired code falls short of the full statement by the step bound only *)
Definition C09_repaired_refuted_statement : Prop := forall st, ~ C09_statement_for (repaired st).
Theorem C09_repaired_refuted : C09_repaired_refuted_statement.
Proof. intros st [_ H]. exact (C09_steps_refuted _ _ H). Qed.

(* ------------------------------------------------------------------ non-vacuity *)
(* the repaired code on the witnesses: located errors, resp. rules *)
Example repaired_escape : frontend (repaired current) [] (default_fuel w_escape_str_text w_escape_str_forest) w_escape_str_text w_escape_str_forest
                          = FErrors [(KBadEscape, LSpan 6 16)].
Proof. vm_compute. reflexivity. Qed.
Example repaired_peek : frontend (repaired current) [] (default_fuel w_peek_text w_peek_forest) w_peek_text w_peek_forest
                        = FErrors [(KOverflowI32, LSpan 11 22)].
Proof. vm_compute. reflexivity. Qed.
Example repaired_paren_choice : frontend (repaired current) [] (default_fuel w_paren_choice_text w_paren_choice_forest) w_paren_choice_text w_paren_choice_forest
                                = FRules 1.
Proof. vm_compute. reflexivity. Qed.
(* a well-formed grammar: the hypothesis shape_ok is satisfiable and the front end returns rules in both configurations *)
Example ok_shape : shape_ok w_ok_text w_ok_forest = true.
Proof. vm_compute. reflexivity. Qed.
Example ok_rules : frontend (shipped current) [] (default_fuel w_ok_text w_ok_forest) w_ok_text w_ok_forest = FRules 2 /\
                   frontend (repaired current) [] (default_fuel w_ok_text w_ok_forest) w_ok_text w_ok_forest = FRules 2.
Proof. split; vm_compute; reflexivity. Qed.
(* the shape invariant is not trivially true: dropping a closing brace token breaks it *)
Example bad_shape : shape_ok w_ok_text (removelast w_ok_forest) = false.
Proof. vm_compute. reflexivity. Qed.
(* the validator on the family, n = 6: 8 rules, 2^6 <= steps *)
Example family_steps : exists s, validate_steps (fam 6) 11 true true [] false = Some s /\ 64 <= s.
Proof. eexists. split; [vm_compute; reflexivity|]. lia. Qed.

Print Assumptions C09_total_located.
Print Assumptions C09_no_panic.
Print Assumptions C09_locations.
Print Assumptions C09_no_panic_bounded_counts.
Print Assumptions C09_terminates_partial.
Print Assumptions C09_shape_is_regular.
Print Assumptions validator_steps_exponential.
Print Assumptions C09_steps_refuted.
Print Assumptions C09_refuted_witnesses.
Print Assumptions C09_refuted.
Print Assumptions C09_repaired_refuted.
