(* C13 - operator-precedence parsers build the precedence-correct tree.
   This file holds ONLY the pinned statement, the closing theorems, non-vacuity examples and
   Print Assumptions.
   Models (line by line, every panic site an explicit [Panic]):  PV.Pratt.Model = pest/src/pratt_parser.rs
   (PrattParser::{new, op, get}, ConstPrattParser::{new_const, get}, pratt_precedence!, PrattParserMap::
   {parse, expr, nud, led, lbp});  PV.Pratt.Climber = pest/src/prec_climber.rs (PrecClimber::{new, get,
   climb, climb_rec}).  Specification: PV.Pratt.Shunt = the classical two-stack shunting-yard algorithm
   with the binding powers of the property text.  A token is (rule, payload); a [tree] is what the
   user's closures build when they are free constructors; [Ok t rest] = returned t with rest unconsumed. *)
From Coq Require Import List Arith Permutation.
Import ListNotations.
Require Import PV.Pratt.Syntax PV.Pratt.Model PV.Pratt.Climber PV.Pratt.Shunt.
Require Import PV.Pratt.Proofs PV.Pratt.WfRegex PV.Pratt.Top.

Definition C13_statement : Prop :=
  forall (A : Type),
  (* (0) the sequences quantified over are exactly  prefix* prim postfix* (infix prefix* prim postfix* )*  *)
  (forall (tbl : table) (ts : list (tok A)), well_formed tbl ts = true <-> regex_seq tbl ts) /\
  (* (1) EVERY table (any affix / associativity at any level >= 1) and EVERY well-formed sequence *)
  (forall (tbl : table) (ts : list (tok A)),
     table_pos tbl -> well_formed tbl ts = true ->
     exists t : tree A,
       pratt_parse all_maps tbl ts = Ok t []       (* PrattParser: no panic, every token consumed *)
       /\ yield t = ts                              (* each operator applied exactly once, operand order preserved *)
       /\ shunt tbl ts = Some t                     (* grouped exactly as the shunting-yard algorithm groups *)
       /\ (infix_only tbl -> one_assoc_per_level tbl ->
           climb (climber_of tbl) ts = Ok t [])) /\ (* PrecClimber, same levels: the same tree *)
  (* (2) the tables one can declare: PrattParser::new().op(..).. and
         ConstPrattParser::new_const(pratt_precedence![..]) of the same declaration *)
  (forall d : decl, d <> [] ->
     exists ct, new_const (macro_expand d) = inl ct /\
       (forall r, builder_get (builder_table d) r =
                  match const_get ct r with Some (af, p) => Some (af, p + PREC_STEP) | None => None end) /\
       table_pos (builder_get (builder_table d)) /\ table_pos (const_get ct) /\
       forall ts : list (tok A), well_formed (builder_get (builder_table d)) ts = true ->
         well_formed (const_get ct) ts = true /\
         pratt_parse all_maps (const_get ct) ts = pratt_parse all_maps (builder_get (builder_table d)) ts) /\
  (* (3) PrecClimber::new and PrattParser::op of the same infix declaration (no rule twice, one
         associativity per level) *)
  (forall d : cdecl, NoDup (crules d) -> cuniform_decl d ->
     forall ts : list (tok A), well_formed (builder_get (builder_table (pratt_decl d))) ts = true ->
     exists t : tree A,
       pratt_parse all_maps (builder_get (builder_table (pratt_decl d))) ts = Ok t [] /\
       climb (climber_get (climber_new d)) ts = Ok t []).

Theorem C13_pratt_precedence_correct : C13_statement.
Proof.
  intros A. split; [|split; [|split]].
  - intros tbl ts. apply well_formed_regex.
  - exact (@pratt_shunt_climb A).
  - exact (@const_builder A).
  - exact (@climber_builder A).
Qed.

(* The fuel that the model's entry point hands to the recursion is never exhausted, on any input
   (so [OutOfFuel] is not an observable outcome of the model; ill-formed input ends in [Panic]). *)
Definition C13_fuel_statement : Prop :=
  forall (A : Type) (m : maps) (tbl : table) (ts : list (tok A)), pratt_parse m tbl ts <> OutOfFuel.
Theorem C13_model_fuel_adequate : C13_fuel_statement.
Proof. exact pratt_parse_fuel. Qed.

(* The remaining public constructors (the statement above speaks about PrattParser::op, pratt_precedence! and
   PrecClimber::new): PrecClimber::new_const on a caller's slice, prec_climber![..], and ConstPrattParser::new_const
   on an arbitrary array.  Levels are unbounded naturals throughout. *)
Definition C13_constructors_statement : Prop :=
  forall (A : Type),
  (* (4) PrecClimber::new_const: ANY slice (entries in any order, any precedence values) with one associativity per
         precedence value denotes the table  table_of (get)  and climb builds the shunting-yard tree of that table (the
         PrattParser's tree when the values are >= 1); a slice without a repeated rule gives that tree in EVERY order
         of its entries ("Entries don't have to be ordered in any way") *)
  (forall c : climber, cuniform_slice c ->
     forall ts : list (tok A), well_formed (table_of (climber_get (climber_new_const c))) ts = true ->
     exists t : tree A,
       climb (climber_get (climber_new_const c)) ts = Ok t [] /\
       shunt (table_of (climber_get (climber_new_const c))) ts = Some t /\
       (table_pos (table_of (climber_get (climber_new_const c))) ->
        pratt_parse all_maps (table_of (climber_get (climber_new_const c))) ts = Ok t [] /\ yield t = ts) /\
       (forall c', NoDup (map fst c) -> Permutation c c' ->
                   climb (climber_get (climber_new_const c')) ts = Ok t [])) /\
  (* (5) prec_climber![..] builds the very vector PrecClimber::new builds from the same declaration, so clause (3) applies *)
  (forall d : list mlevel, NoDup (flat_map mrules d) ->
     climber_macro d = climber_new (cdecl_of_macro d) /\
     forall ts : list (tok A), well_formed (builder_get (builder_table (pratt_decl (cdecl_of_macro d)))) ts = true ->
     exists t : tree A,
       pratt_parse all_maps (builder_get (builder_table (pratt_decl (cdecl_of_macro d)))) ts = Ok t [] /\
       climb (climber_get (climber_macro d)) ts = Ok t []) /\
  (* (6) ConstPrattParser::new_const on ANY array it accepts (any number of levels): levels >= 1 and clause (1) holds of its table *)
  (forall (ops : list (level * bool)) (ct : const_table), new_const ops = inl ct ->
     table_pos (const_get ct) /\
     forall ts : list (tok A), well_formed (const_get ct) ts = true ->
     exists t : tree A,
       pratt_parse all_maps (const_get ct) ts = Ok t [] /\ yield t = ts /\ shunt (const_get ct) ts = Some t).

Theorem C13_every_constructor : C13_constructors_statement.
Proof.
  intros A. split; [|split].
  - exact (@climber_const A).
  - exact (@climber_macro_builder A).
  - exact (@const_any_array A).
Qed.

(* ---------------------------------------------------------------------------------------------
   Non-vacuity.  Rules: 1 = n (prefix), 2 = a, 3 = b (infix), 4 = q (postfix), 9 = a primary.
   --------------------------------------------------------------------------------------------- *)

(* level 1: prefix n (loosest);  level 2: a LEFT-assoc and b RIGHT-assoc on the SAME level;  level 3: postfix q *)
Definition C13_ex_decl : decl :=
  [ ((1, Prefix), []); ((2, Infix ALeft), [(3, Infix ARight)]); ((4, Postfix), []) ].
(* n x a x b x a x q *)
Definition C13_ex_tokens : list (tok nat) :=
  [(1,0); (9,1); (2,2); (9,3); (3,4); (9,5); (2,6); (9,7); (4,8)].
Definition C13_ex_tree : tree nat :=   (* n ((x a x) b (x a (x q))) : the prefix is looser than the infix operators that follow *)
  Pre (1,0) (Bin (Bin (Leaf (9,1)) (2,2) (Leaf (9,3))) (3,4) (Bin (Leaf (9,5)) (2,6) (Post (Leaf (9,7)) (4,8)))).

Example C13_ex_tables :
  b_ops (builder_table C13_ex_decl) = [(4, (Postfix, 40)); (3, (Infix ARight, 30)); (2, (Infix ALeft, 30)); (1, (Prefix, 20))] /\
  new_const (macro_expand C13_ex_decl) = inl [(1, (Prefix, 10)); (2, (Infix ALeft, 20)); (3, (Infix ARight, 20)); (4, (Postfix, 30))].
Proof. vm_compute. split; reflexivity. Qed.

Example C13_ex_hypotheses :
  well_formed (builder_get (builder_table C13_ex_decl)) C13_ex_tokens = true.
Proof. vm_compute. reflexivity. Qed.

Example C13_ex_mixed_level_and_loose_prefix :
  pratt_parse all_maps (builder_get (builder_table C13_ex_decl)) C13_ex_tokens = Ok C13_ex_tree [] /\
  shunt (builder_get (builder_table C13_ex_decl)) C13_ex_tokens = Some C13_ex_tree /\
  yield C13_ex_tree = C13_ex_tokens /\
  (exists ct, new_const (macro_expand C13_ex_decl) = inl ct /\ pratt_parse all_maps (const_get ct) C13_ex_tokens = Ok C13_ex_tree []).
Proof.
  split; [vm_compute; reflexivity|]. split; [vm_compute; reflexivity|]. split; [vm_compute; reflexivity|].
  exists [(1, (Prefix, 10)); (2, (Infix ALeft, 20)); (3, (Infix ARight, 20)); (4, (Postfix, 30))].
  split; vm_compute; reflexivity.
Qed.

(* prefix looser / tighter than the infix operator that follows:  n x a y *)
Example C13_ex_prefix_looser :
  pratt_parse all_maps (builder_get (builder_table [((1, Prefix), []); ((2, Infix ALeft), [])])) [(1,0); (9,1); (2,2); (9,3)]
  = Ok (Pre (1,0) (Bin (Leaf (9,1)) (2,2) (Leaf (9,3)))) [].
Proof. vm_compute. reflexivity. Qed.
Example C13_ex_prefix_tighter :
  pratt_parse all_maps (builder_get (builder_table [((2, Infix ALeft), []); ((1, Prefix), [])])) [(1,0); (9,1); (2,2); (9,3)]
  = Ok (Bin (Pre (1,0) (Leaf (9,1))) (2,2) (Leaf (9,3))) [].
Proof. vm_compute. reflexivity. Qed.

(* the climber on  L {1,2}, R {3}:  x 1 x 3 x 3 x 2 x  =  ((x 1 (x 3 (x 3 x))) 2 x)  = the PrattParser's tree *)
Definition C13_ex_cdecl : cdecl := [ ((1, ALeft), [(2, ALeft)]); ((3, ARight), []) ].
Example C13_ex_climber :
  let ts := [(9,0); (1,1); (9,2); (3,3); (9,4); (3,5); (9,6); (2,7); (9,8)] in
  let t := Bin (Bin (Leaf (9,0)) (1,1) (Bin (Leaf (9,2)) (3,3) (Bin (Leaf (9,4)) (3,5) (Leaf (9,6))))) (2,7) (Leaf (9,8)) in
  climb (climber_get (climber_new C13_ex_cdecl)) ts = Ok t [] /\
  pratt_parse all_maps (builder_get (builder_table (pratt_decl C13_ex_cdecl))) ts = Ok t [].
Proof. vm_compute. split; reflexivity. Qed.

(* the side condition of the climber clause is needed: on a level with both associativities
   (1 left, 2 right) PrecClimber groups  x 1 x 2 x  to the right, PrattParser to the left *)
Example C13_ex_climber_mixed_level_differs :
  let d : cdecl := [ ((1, ALeft), [(2, ARight)]) ] in
  let ts := [(9,0); (1,1); (9,2); (2,3); (9,4)] in
  climb (climber_get (climber_new d)) ts = Ok (Bin (Leaf (9,0)) (1,1) (Bin (Leaf (9,2)) (2,3) (Leaf (9,4)))) [] /\
  pratt_parse all_maps (builder_get (builder_table (pratt_decl d))) ts = Ok (Bin (Bin (Leaf (9,0)) (1,1) (Leaf (9,2))) (2,3) (Leaf (9,4))) [].
Proof. vm_compute. split; reflexivity. Qed.

(* the panic branches of the model are live: an ill-formed sequence, a missing closure *)
Example C13_ex_panics :
  pratt_parse all_maps (builder_get (builder_table C13_ex_decl)) [(9,0); (9,1)] = Panic PLbp /\
  pratt_parse all_maps (builder_get (builder_table C13_ex_decl)) [(2,0); (9,1)] = Panic PNud /\
  pratt_parse all_maps (builder_get (builder_table C13_ex_decl)) ([] : list (tok nat)) = Panic PEmpty /\
  pratt_parse {| m_prefix := true; m_postfix := true; m_infix := false |}
              (builder_get (builder_table C13_ex_decl)) [(9,0); (2,1); (9,2)] = Panic PNoMap.
Proof. vm_compute. repeat split. Qed.

(* a slice in descending order of its rules, precedences with gaps: new_const finds every operator *)
Example C13_ex_new_const_any_order :
  let c : climber := [(7, (40, ARight)); (5, (3, ALeft)); (2, (3, ALeft))] in
  let ts := [(9,0); (2,1); (9,2); (7,3); (9,4); (7,5); (9,6); (5,7); (9,8)] in
  let t := Bin (Bin (Leaf (9,0)) (2,1) (Bin (Leaf (9,2)) (7,3) (Bin (Leaf (9,4)) (7,5) (Leaf (9,6))))) (5,7) (Leaf (9,8)) in
  climb (climber_get (climber_new_const c)) ts = Ok t [] /\ climb (climber_get (climber_new_const (rev c))) ts = Ok t [] /\
  shunt (table_of (climber_get (climber_new_const c))) ts = Some t.
Proof. vm_compute. repeat split. Qed.
(* prec_climber![L 5 | 2, R 7] *)
Example C13_ex_climber_macro :
  climber_macro [(ALeft, (5, [2])); (ARight, (7, []))] = [(5, (1, ALeft)); (2, (1, ALeft)); (7, (2, ARight))].
Proof. vm_compute. reflexivity. Qed.
(* 30 one-operator levels through new_const: the level numbers keep growing (10, 20, .., 300), nothing wraps *)
Example C13_ex_thirty_levels :
  exists ct, new_const (macro_expand (map (fun r => ((r, Infix ALeft), [])) (seq 1 30))) = inl ct /\
             const_get ct 1 = Some (Infix ALeft, 10) /\ const_get ct 26 = Some (Infix ALeft, 260) /\ const_get ct 30 = Some (Infix ALeft, 300).
Proof. eexists. split; [vm_compute; reflexivity|]. vm_compute. repeat split. Qed.

Print Assumptions C13_pratt_precedence_correct.
Print Assumptions C13_model_fuel_adequate.
Print Assumptions C13_every_constructor.
