(* C07 - the grammar reader reconstructs exactly the grammar that was written.
   This file holds ONLY the pinned statements, the closing theorems, non-vacuity examples and Print Assumptions.

   Reader = pest_meta::parser::parse(Rule::grammar_rules, text) followed by consume_rules:
     [read fx extras text fuel] (PV.Meta.Consume) = grammar.pest (transcribed as Tokens.meta_grammar, compared with
     the real file on every run) under the documented PEG semantics Peg.Spec, then [consume] = the line-by-line model
     of consume_rules_with_spans / consume_expr / unaries / get_node_tag / unescape / convert_rule with the
     PrattParser instance taken from C13's model.  [fx] = which repairs the tree has ([shipped] / [repaired] =
     fixes/C07-1 + fixes/C07-2).  validate_ast (run by consume_rules) is not part of the reader (C06).
   Writing = [spells_grammar extras G text] (PV.Meta.Text): text spells a concrete grammar cg (PV.Meta.Spell:
     explicit parentheses, optional leading `|`, omitted PEEK start, doc lines) with abs cg = G, every operand at a
     level its position admits without parentheses ([wp]; levels derived from grammar.pest: `|` < `~` < `#t =` <
     `&` `!` < postfix < atoms), any gaps (blanks, newlines, nested block comments, line comments) between the tokens
     of non-atomic rules, any escape form for any character, leading zeros, `///` and `//!` lines.
   Stated restrictions of what can be written at all ([writable] / [ident_ok]): identifiers and rule names match
     ("_" | alpha)("_" | alnum)* and do not start with PUSH; \u{..} has 2-6 digits; counts fit u32 and {0} {,0} {m,0}
     are rejected by the reader with an error; PEEK indices fit i32; tags / PUSH_LITERAL need grammar-extras. *)
From Coq Require Import List NArith ZArith Bool String.
Import ListNotations.
Require Import PV.Comb.PState PV.Comb.Utf8 PV.Peg.Ast.
Require Import PV.Meta.Tokens PV.Meta.Unescape PV.Meta.Consume PV.Meta.Spell PV.Meta.Text PV.Meta.LexProofs PV.Meta.Proofs PV.Meta.Top.

(* ---------------------------------------------------------------------------------------------
   THE FULL STATEMENT (pinned; proved modulo the tokenisation half, see C07_partial (6))
   --------------------------------------------------------------------------------------------- *)
Definition C07_statement : Prop :=
  forall (extras : bool) (G : grammar) (text : list byte),
    spells_grammar extras G text -> reads repaired extras text G.

(* the same statement about the code AS SHIPPED: false, two witnesses below *)
Definition C07_shipped_statement : Prop :=
  forall (extras : bool) (G : grammar) (text : list byte),
    spells_grammar extras G text -> reads shipped extras text G.

(* the missing half: grammar.pest tokenises every spelling of cg as tokens_of_grammar cg *)
Definition C07_tokenisation_statement : Prop :=
  forall (extras : bool) (cg : cgrammar) (text : list byte),
    prints_grammar cg text -> valid_utf8 text ->
    Forall (fun r => wp (cr_body r) = true /\ writable extras (cr_body r) = true /\ ident_ok (cr_name r) = true) (cg_rules cg) ->
    tokenises text cg.

(* ---------------------------------------------------------------------------------------------
   WHAT IS PROVED
   --------------------------------------------------------------------------------------------- *)
Definition C07_partial_statement : Prop :=
  (* (1) the second half of the reader, for every state of the tree: any token forest over any text whose shape is
         tokens_of_grammar cg and whose leaves cover legal lexemes is read back as abs cg: precedence (via C13),
         left grouping, prefix outside postfix, tag outermost in the term, counts, PEEK indices, literals.
         For the code as shipped: no leading `|` in a nested expression and `^` directly followed by the quote. *)
  (forall fx extras w cg forest,
     Forall (fun r => wp (cr_body r) = true /\ writable extras (cr_body r) = true /\
                      (fix_bar fx = false -> nested_bar (cr_body r) = false)) (cg_rules cg) ->
     smatch_list (negb (fix_insens fx)) w (tokens_of_grammar cg) forest ->
     consume fx extras w forest = COk (abs_grammar cg)) /\
  (* (2) every writable abstract tree is representable: its minimal-parentheses spelling is well-parenthesised,
         writable, has no leading `|`, and abstracts to the tree; parentheses appear exactly where [needs_parens] says *)
  (forall extras e, ewritable extras e ->
     abs (min_parens decode_all e) = e /\ wp (min_parens decode_all e) = true /\
     writable extras (min_parens decode_all e) = true /\ nested_bar (min_parens decode_all e) = false) /\
  (forall k c, paren_if k c = if lvl c <? k then CParen false c else c) /\
  (* (3) and they are needed there: without them the spelling is that of ANOTHER tree (which (1) then returns):
         a ~ (b ~ c), a | (b | c), a ~ (b | c), (a | b) ~ c, (!a)?  *)
  (forall a b c,
     fe (CSeq a (CSeq b c)) = fe (CSeq (CSeq a b) c) /\ fe (CChoice a (CChoice b c)) = fe (CChoice (CChoice a b) c) /\
     fe (CSeq a (CChoice b c)) = fe (CChoice (CSeq a b) c) /\ fe (CSeq (CChoice a b) c) = fe (CChoice a (CSeq b c)) /\
     tc (COpt (CNeg a)) = tc (CNeg (COpt a))) /\
  (* (4) literals: unescape is a left inverse of every spelling of every string of scalar values (= valid UTF-8) *)
  (forall q cs w, spells_string q cs w -> unescape w = Some (utf8 cs)) /\
  (forall s, valid_utf8 s -> utf8 (decode_all s) = s /\ scalars (decode_all s) = true) /\
  (* (5) numbers *)
  (forall n l, spells_num n l -> (n <= u32_max)%N -> parse_u32 l = Some n) /\
  (forall z l, spells_int z l -> i32_ok z = true -> parse_i32 l = Some z) /\
  (* (6) the whole reader, given the tokenisation of this text *)
  (forall extras G text,
     (forall cg, prints_grammar cg text -> valid_utf8 text ->
        Forall (fun r => wp (cr_body r) = true /\ writable extras (cr_body r) = true /\ ident_ok (cr_name r) = true) (cg_rules cg) ->
        tokenises text cg) ->
     spells_grammar extras G text -> reads repaired extras text G).

Theorem C07_partial : C07_partial_statement.
Proof.
  split; [exact consume_spelling|].
  split; [intros extras e H; destruct (min_parens_abs extras e H) as [A B]; destruct (min_parens_wp decode_all e) as [C D]; auto|].
  split; [reflexivity|].
  split; [intros a b c; repeat split; [apply collide_seq_right|apply collide_choice_right|apply collide_seq_choice|apply collide_choice_seq]|].
  split; [exact unescape_spelled|].
  split; [exact utf8_decode_all|].
  split; [exact parse_u32_spelled|].
  split; [exact parse_i32_spelled|].
  exact reduction.
Qed.

Theorem C07_reduction : C07_tokenisation_statement -> C07_statement.
Proof. intros T extras G text S. apply (reduction extras G text); [intros cg P V F; exact (T extras cg text P V F)|exact S]. Qed.

(* ---------------------------------------------------------------------------------------------
   THE CODE AS SHIPPED DEVIATES (witnesses replayed on the real code by the harness in every run)
   --------------------------------------------------------------------------------------------- *)
(* D1: a = { ^ "b" } - a blank between the caret and the literal, legal since insensitive_string is not atomic -
       is read as Insens of the two characters (double quote, b): parser.rs unescapes the text of the whole pair and
       slices [2..len-1].  fixes/C07-1 *)
Definition C07_insens_space_refuted_statement : Prop :=
  exists G text, spells_grammar false G text /\
    read shipped false text 200 = COk [ {| rname := nm "a"; rty := RNormal; rexpr := EInsens (nm """b") |} ] /\
    ~ reads shipped false text G /\ reads repaired false text G.
Theorem C07_insens_space_refuted : C07_insens_space_refuted_statement.
Proof. exists (abs_grammar (one_rule w1_body)), w1_text. exact insens_space_witness. Qed.

(* D2: `a = { (| b | c) }` - a leading `|` in a nested expression, legal since expression = { choice_operator? ~ .. } -
       panics: only consume_rules_with_spans skips it, the PrattParser gets an infix operator first.  fixes/C07-2 *)
Definition C07_nested_leading_bar_refuted_statement : Prop :=
  exists G text, spells_grammar false G text /\ read shipped false text 200 = CPanic /\
    ~ reads shipped false text G /\ reads repaired false text G.
Theorem C07_nested_leading_bar_refuted : C07_nested_leading_bar_refuted_statement.
Proof. exists (abs_grammar (one_rule w2_body)), w2_text. exact nested_leading_bar_witness. Qed.

Theorem C07_shipped_refuted : ~ C07_shipped_statement.
Proof.
  intros H. destruct insens_space_witness as (S & _ & N & _). exact (N (H false _ _ S)).
Qed.

(* ---------------------------------------------------------------------------------------------
   Non-vacuity: the reader (Spec run of grammar.pest + consume) on concrete texts
   --------------------------------------------------------------------------------------------- *)
Local Open Scope string_scope.
Example C07_ex_precedence :
  read repaired false (nm "a = { b | c ~ d ~ !e* | (f | g) ~ h }") 300 =
  COk [ {| rname := nm "a"; rty := RNormal;
           rexpr := EChoice (EChoice (EIdent (nm "b"))
                                     (ESeq (ESeq (EIdent (nm "c")) (EIdent (nm "d"))) (ENegPred (ERep (EIdent (nm "e"))))))
                            (ESeq (EChoice (EIdent (nm "f")) (EIdent (nm "g"))) (EIdent (nm "h"))) |} ].
Proof. vm_compute. reflexivity. Qed.

Example C07_ex_lexemes :
  read repaired true (nm "//! top
/// doc
r = _{ /* c /* nested */ */ ""\x41\u{e9}\n"" ~ '\''..'z' ~ PEEK[-01..] ~ x{002,3} // line
  ~ ^ ""q"" ~ #t = (| PUSH_LITERAL(""l"")) }") 500 =
  COk [ {| rname := nm "r"; rty := RSilent;
           rexpr := ESeq (ESeq (ESeq (ESeq (ESeq (EStr [65; 195; 169; 10]%N) (ERange 39 122)) (EPeekSlice (-1)%Z None))
                                     (ERepMinMax (EIdent (nm "x")) 2 3)) (EInsens (nm "q")))
                         (ENodeTag (EPushLiteral (nm "l")) (nm "t")) |} ].
Proof. vm_compute. reflexivity. Qed.

Example C07_ex_min_parens :
  min_parens decode_all (ESeq (EIdent (nm "a")) (ESeq (EIdent (nm "b")) (EChoice (EIdent (nm "c")) (ENegPred (EOpt (ENegPred (EIdent (nm "d"))))))))
  = CSeq (CIdent (nm "a")) (CParen false (CSeq (CIdent (nm "b")) (CParen false (CChoice (CIdent (nm "c"))
         (CNeg (COpt (CParen false (CNeg (CIdent (nm "d")))))))))).
Proof. vm_compute. reflexivity. Qed.

Example C07_ex_errors :
  read repaired false (nm "a = { b{0} }") 200 = CErr EZeroRepeat 8 9 /\
  read repaired false (nm "a = { b{4294967296} }") 200 = CErr ENumOverflow 8 18 /\
  read repaired false (nm "a = { ""\u{D800}"" }") 200 = CPanic /\
  read repaired false (nm "a = { PEEK[99999999999..] }") 200 = CPanic /\
  read repaired false (nm "a = { PUSH_LITERAL(""x"") }") 200 = CErr EPushLiteralFeature 6 23 /\
  read repaired false (nm "a = { b ") 200 = CErr ESyntax 0 0.
Proof. vm_compute. repeat split. Qed.

Print Assumptions C07_partial.
Print Assumptions C07_reduction.
Print Assumptions C07_insens_space_refuted.
Print Assumptions C07_nested_leading_bar_refuted.
Print Assumptions C07_shipped_refuted.
